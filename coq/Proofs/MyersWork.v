(* Proofs/MyersWork.v — number of element comparisons made by Myers (C19).

   Part 1  CountResp: a world observation [cnt] that [tick k] increases by k
           and that probes / hook calls leave alone; the plain world.
   Part 2  cost of one prefix / suffix scan.
   Part 3  the furthest-reaching values as a FUNCTION [frf] of (round,
           diagonal), the telescoping argument: on one diagonal every cell of
           the box is compared at most once per direction.
   Part 4  one step / one inner loop of the forward and backward sweeps.
   Part 5  the round loop: a search that returns in round ceil(D/2) makes at
           most 2 * (D + 1) * min n m comparisons.
   Part 6  the recursion: at most 6 * s * D + s + 2 comparisons for a box of
           s = N + M items with optimal cost D. *)
From Coq Require Import FMapPositive.
From Similar Require Import Model.Base Model.Utils Model.Myers Model.Hooks
  Spec.Script Spec.EditGraph Spec.SnakeSpec
  Proofs.Utils Proofs.EditGraph Proofs.EditGraphFR Proofs.EditGraphSplit
  Proofs.MyersSweep Proofs.MyersSnake Proofs.WorldInv Proofs.MyersConquer.

Local Open Scope nat_scope.

(* ================================================================ Part 1 *)
Record CountResp {W} (wd : world W) (cnt : W -> nat) : Prop := {
  cn_probe : forall w b w', probe wd w = (b, w') -> cnt w' = cnt w;
  cn_tick : forall k w, cnt (tick wd k w) = cnt w + k;
  cn_emit : forall c w w', emit wd c w = Ok w' -> cnt w' = cnt w
}.

Definition cmps_of (w : plain) : nat := cmps (p_ctr w).

Lemma CountResp_plain dl : CountResp (plain_world dl) cmps_of.
Proof.
  split.
  - intros w b w' H. cbn [probe plain_world] in H. unfold deadline_exceeded in H.
    destruct dl as [clk|]; inversion H; reflexivity.
  - intros k w. reflexivity.
  - intros c w w' H. cbn [emit plain_world] in H. inversion H. reflexivity.
Qed.

Lemma CountResp_no_finish dl : CountResp (no_finish (plain_world dl)) cmps_of.
Proof.
  split.
  - intros w b w' H. cbn [probe no_finish plain_world] in H. unfold deadline_exceeded in H.
    destruct dl as [clk|]; inversion H; reflexivity.
  - intros k w. reflexivity.
  - intros c w w' H. cbn [emit no_finish plain_world] in H.
    destruct c; inversion H; reflexivity.
Qed.

Section CountBasics.
  Context {W : Type}.
  Variable wd : world W.
  Variable cnt : W -> nat.
  Hypothesis HC : CountResp wd cnt.

  Lemma cnt_emit_eq_opt o n l w w' : emit_eq_opt wd o n l w = Ok w' -> cnt w' = cnt w.
  Proof.
    unfold emit_eq_opt. destruct (0 <? l); intros H.
    - exact (cn_emit wd cnt HC _ _ _ H).
    - inversion H. reflexivity.
  Qed.

  (* probes and ticks never decrease the count *)
  Lemma cnt_PT_mono w w' : PT wd w w' -> cnt w <= cnt w'.
  Proof.
    intros H. induction H as [w|w w1 b w2 H IH Hp|w w1 k H IH].
    - lia.
    - rewrite (cn_probe wd cnt HC _ _ _ Hp). exact IH.
    - rewrite (cn_tick wd cnt HC). lia.
  Qed.
End CountBasics.

(* ================================================================ Part 2 *)
(* a scan that returns [len] costs at most len + 1 comparisons ... *)
Lemma scan_cmps_le_S os oe ns ne len : scan_cmps os oe ns ne len <= len + 1.
Proof.
  unfold scan_cmps. destruct (empty_range os oe || empty_range ns ne); [lia|].
  destruct (len <? Nat.min (oe - os) (ne - ns)); lia.
Qed.

(* ... and at most one per item of the shorter side *)
Lemma scan_cmps_le_min os oe ns ne len :
  len <= Nat.min (oe - os) (ne - ns) ->
  scan_cmps os oe ns ne len <= Nat.min (oe - os) (ne - ns).
Proof.
  intros H. unfold scan_cmps. destruct (empty_range os oe || empty_range ns ne); [lia|].
  destruct (Nat.ltb_spec len (Nat.min (oe - os) (ne - ns))); lia.
Qed.

Lemma prefix_scan_cost cmp os oe ns ne p :
  common_prefix_len cmp os oe ns ne = Ok p ->
  scan_cmps os oe ns ne p <= p + 1 /\
  scan_cmps os oe ns ne p <= Nat.min (oe - os) (ne - ns).
Proof.
  intros H. apply common_prefix_len_spec in H. destruct H as (H1 & H2 & _).
  split; [apply scan_cmps_le_S|apply scan_cmps_le_min; lia].
Qed.

Lemma suffix_scan_cost cmp os oe ns ne s :
  common_suffix_len cmp os oe ns ne = Ok s ->
  scan_cmps os oe ns ne s <= s + 1 /\
  scan_cmps os oe ns ne s <= Nat.min (oe - os) (ne - ns).
Proof.
  intros H. apply common_suffix_len_spec in H. destruct H as (H1 & H2 & _).
  split; [apply scan_cmps_le_S|apply scan_cmps_le_min; lia].
Qed.

(* ================================================================ Part 3 *)
(* sum of f over the diagonals k, k-2, ..., k-2(cnt-1) *)
Fixpoint sumk (cnt : nat) (k : Z) (f : Z -> nat) : nat :=
  match cnt with
  | 0 => 0
  | S c => f k + sumk c (k - 2)%Z f
  end.

Lemma sumk_snoc : forall cnt k f,
  sumk (S cnt) k f = sumk cnt k f + f (k - 2 * Z.of_nat cnt)%Z.
Proof.
  induction cnt as [|cnt IH]; intros k f.
  - cbn [sumk]. replace (k - 2 * Z.of_nat 0)%Z with k by lia. lia.
  - change (sumk (S (S cnt)) k f) with (f k + sumk (S cnt) (k - 2)%Z f).
    rewrite IH. cbn [sumk].
    replace (k - 2 - 2 * Z.of_nat cnt)%Z with (k - 2 * Z.of_nat (S cnt))%Z by lia. lia.
Qed.

Lemma sumk_le : forall cnt k f g,
  (forall i, i < cnt -> f (k - 2 * Z.of_nat i)%Z <= g (k - 2 * Z.of_nat i)%Z) ->
  sumk cnt k f <= sumk cnt k g.
Proof.
  induction cnt as [|cnt IH]; intros k f g H; cbn [sumk]; [lia|].
  assert (H1 : f k <= g k).
  { specialize (H 0 ltac:(lia)). replace (k - 2 * Z.of_nat 0)%Z with k in H by lia. exact H. }
  assert (H2 : sumk cnt (k - 2)%Z f <= sumk cnt (k - 2)%Z g).
  { apply IH. intros i Hi. specialize (H (S i) ltac:(lia)).
    replace (k - 2 - 2 * Z.of_nat i)%Z with (k - 2 * Z.of_nat (S i))%Z by lia. exact H. }
  lia.
Qed.

Lemma sumk_add : forall cnt k f g,
  sumk cnt k (fun j => f j + g j) = sumk cnt k f + sumk cnt k g.
Proof.
  induction cnt as [|cnt IH]; intros k f g; cbn [sumk]; [lia|]. rewrite IH. lia.
Qed.

Lemma sumk_ext : forall cnt k f g,
  (forall j, f j = g j) -> sumk cnt k f = sumk cnt k g.
Proof.
  induction cnt as [|cnt IH]; intros k f g H; cbn [sumk]; [lia|].
  rewrite (H k). rewrite (IH (k - 2)%Z f g H). reflexivity.
Qed.

Lemma sumk_bound : forall cnt k f B,
  (forall j, f j <= B) -> sumk cnt k f <= cnt * B.
Proof.
  induction cnt as [|cnt IH]; intros k f B H; cbn [sumk]; [lia|].
  specialize (IH (k - 2)%Z f B H). specialize (H k). lia.
Qed.

(* the diagonals of round d+2 are those of round d plus one at each end *)
Lemma sumk_inner : forall d f,
  sumk (S d) (Z.of_nat d) f <= sumk (S (S (S d))) (Z.of_nat (S (S d))) f.
Proof.
  intros d f. rewrite (sumk_snoc (S (S d))).
  change (sumk (S (S d)) (Z.of_nat (S (S d))) f)
    with (f (Z.of_nat (S (S d))) + sumk (S d) (Z.of_nat (S (S d)) - 2)%Z f).
  replace (Z.of_nat (S (S d)) - 2)%Z with (Z.of_nat d) by lia. lia.
Qed.

Section Clamp.
  Variables n m : nat.

  (* a potential on each diagonal: [c k x] counts box cells of diagonal k
     before column x (in some way bounded by B) *)
  Variable c : Z -> nat -> nat.
  Variable B : nat.
  Hypothesis c_mono : forall k x x', x <= x' -> c k x <= c k x'.
  Hypothesis c_bound : forall k x, c k x <= B.
  Hypothesis c_in : forall k x, (k <= Z.of_nat x)%Z -> x < n ->
    Z.to_nat (Z.of_nat x - k) < m -> c k (S x) = S (c k x).

  Lemma c_run : forall j k x, (k <= Z.of_nat x)%Z -> x + j <= n ->
    Z.to_nat (Z.of_nat x - k) + j <= m -> c k (x + j) = c k x + j.
  Proof.
    induction j as [|j IH]; intros k x Hk Hx Hy.
    - rewrite !Nat.add_0_r. reflexivity.
    - replace (x + S j) with (S (x + j)) by lia.
      rewrite c_in; [|lia|lia|lia]. rewrite IH; lia.
  Qed.

  Section FRF.
    Variable dg : nat -> nat -> bool.
    Hypothesis Hbox : DgBox n m dg.

    Definition yof (k : Z) (x : nat) : nat := Z.to_nat (Z.of_nat x - k).

    (* follow the snake from x0 on diagonal k *)
    Definition ext (k : Z) (x0 : nat) : nat :=
      x0 + slide dg (Nat.min (n - x0) (m - yof k x0)) x0 (yof k x0).

    (* the furthest-reaching x of round d on diagonal k, by the recurrence the
       sweep implements *)
    Fixpoint frf (d : nat) (k : Z) : nat :=
      match d with
      | 0 => ext k 0
      | S d' => ext k (pick_spec (S d') k (frf d' (k - 1)%Z) (frf d' (k + 1)%Z))
      end.

    (* the start point picked in round d on diagonal k *)
    Definition pickf (d : nat) (k : Z) : nat :=
      match d with
      | 0 => 0
      | S d' => pick_spec (S d') k (frf d' (k - 1)%Z) (frf d' (k + 1)%Z)
      end.

    Lemma frf_eq : forall d k, frf d k = ext k (pickf d k).
    Proof. intros [|d] k; reflexivity. Qed.

    Lemma ext_ge : forall k x0, x0 <= ext k x0.
    Proof. intros k x0. unfold ext. lia. Qed.

    Lemma pickf_le_frf : forall d k, pickf d k <= frf d k.
    Proof. intros d k. rewrite frf_eq. apply ext_ge. Qed.

    Lemma Par_down : forall d k, Par (S d) k -> (- Z.of_nat (S d) < k)%Z -> Par d (k - 1).
    Proof.
      intros d k [Hr [t Ht]] Hlt. split; [lia|]. exists t. lia.
    Qed.

    Lemma Par_up : forall d k, Par (S d) k -> (k < Z.of_nat (S d))%Z -> Par d (k + 1).
    Proof.
      intros d k [Hr [t Ht]] Hlt. split; [lia|]. exists (t - 1)%Z. lia.
    Qed.

    Lemma frf_FR : forall d k, Par d k -> FR dg d k (frf d k).
    Proof.
      induction d as [|d IH]; intros k Hpar.
      - destruct Hpar as [Hr _]. assert (k = 0%Z) by lia. subst k.
        cbn [frf]. unfold ext, yof. cbn [Z.of_nat Z.sub Z.opp Z.add Z.to_nat Nat.add].
        apply (FR_0_fuel n m dg Hbox). lia.
      - cbn [frf]. unfold ext, yof.
        assert (Hrange : (- Z.of_nat (S d) <= k <= Z.of_nat (S d))%Z) by (destruct Hpar; assumption).
        destruct (FR_step_S n m dg Hbox d k (frf d (k - 1)) (frf d (k + 1)) Hrange) as [_ HFR].
        + intros Hlt. apply IH. apply Par_down; assumption.
        + intros Hlt. apply IH. apply Par_up; assumption.
        + apply HFR. lia.
    Qed.

    Lemma pickf_origin : forall d k, Par d k -> (k <= Z.of_nat (pickf d k))%Z.
    Proof.
      intros [|d] k Hpar.
      - destruct Hpar as [Hr _]. cbn [pickf]. lia.
      - cbn [pickf].
        assert (Hrange : (- Z.of_nat (S d) <= k <= Z.of_nat (S d))%Z) by (destruct Hpar; assumption).
        destruct (FR_step_S n m dg Hbox d k (frf d (k - 1)) (frf d (k + 1)) Hrange) as [Hy _].
        + intros Hlt. apply frf_FR. apply Par_down; assumption.
        + intros Hlt. apply frf_FR. apply Par_up; assumption.
        + exact Hy.
    Qed.

    (* two rounds later the scan on the same diagonal starts strictly beyond
       the previous furthest point *)
    Lemma pickf_next : forall d k, (- Z.of_nat d <= k <= Z.of_nat d)%Z ->
      S (frf d k) <= pickf (S (S d)) k.
    Proof.
      intros d k Hr.
      assert (H1 : S (frf d k) <= pickf (S d) (k + 1)).
      { cbn [pickf]. unfold pick_spec.
        destruct (Z.eqb_spec (k + 1) (- Z.of_nat (S d))) as [E|_]; [lia|].
        replace (k + 1 - 1)%Z with k by lia.
        destruct (Z.eqb_spec (k + 1) (Z.of_nat (S d))) as [_|_]; [lia|].
        destruct (Nat.ltb_spec (frf d k) (frf d (k + 1 + 1))); lia. }
      assert (H2 : frf (S d) (k + 1) <= pickf (S (S d)) k).
      { cbn [pickf]. unfold pick_spec.
        destruct (Z.eqb_spec k (- Z.of_nat (S (S d)))) as [E|_]; [lia|].
        destruct (Z.eqb_spec k (Z.of_nat (S (S d)))) as [E|_]; [lia|].
        destruct (Nat.ltb_spec (frf (S d) (k - 1)) (frf (S d) (k + 1))); lia. }
      pose proof (pickf_le_frf (S d) (k + 1)). lia.
    Qed.

    (* ---- what one scan may cost ---- *)
    Definition stepcost (d : nat) (k : Z) : nat :=
      c k (S (frf d k)) - c k (pickf d k).

    Lemma stepcost_eq : forall d k,
      stepcost d k + c k (pickf d k) = c k (S (frf d k)).
    Proof.
      intros d k. unfold stepcost.
      pose proof (c_mono k (pickf d k) (S (frf d k))) as H.
      pose proof (pickf_le_frf d k). lia.
    Qed.

    (* the comparisons of the scan started at the picked point *)
    Lemma scan_le_stepcost : forall d k a b a' b',
      Par d k ->
      pickf d k < n -> yof k (pickf d k) < m ->
      a' - a = n - pickf d k -> b' - b = m - yof k (pickf d k) ->
      scan_cmps a a' b b'
        (slide dg (Nat.min (n - pickf d k) (m - yof k (pickf d k)))
               (pickf d k) (yof k (pickf d k)))
      <= stepcost d k.
    Proof.
      intros d k a b a' b' Hpar Hx Hy Ha Hb.
      pose proof (pickf_origin d k Hpar) as Hk.
      pose proof (stepcost_eq d k) as Heq.
      rewrite frf_eq in Heq. unfold ext in Heq.
      set (x0 := pickf d k) in *. set (y0 := yof k x0) in *.
      set (L := Nat.min (n - x0) (m - y0)) in *.
      set (s := slide dg L x0 y0) in *.
      assert (HsL : s <= L) by apply slide_le_fuel.
      assert (HL : L <= n - x0 /\ L <= m - y0) by (unfold L; lia).
      assert (Ey : Z.to_nat (Z.of_nat x0 - k) = y0) by reflexivity.
      unfold scan_cmps, empty_range.
      destruct (Nat.leb_spec a' a) as [Hc|_]; [lia|].
      destruct (Nat.leb_spec b' b) as [Hc|_]; [lia|]. cbn [orb].
      rewrite Ha, Hb. fold L.
      destruct (Nat.ltb_spec s L) as [Hlt|Hge].
      - assert (E : c k (x0 + S s) = c k x0 + S s).
        { apply c_run; [exact Hk| |]; rewrite ?Ey; lia. }
        replace (S (x0 + s)) with (x0 + S s) in Heq by lia. lia.
      - assert (E : c k (x0 + s) = c k x0 + s).
        { apply c_run; [exact Hk| |]; rewrite ?Ey; lia. }
        pose proof (c_mono k (x0 + s) (S (x0 + s)) ltac:(lia)). lia.
    Qed.

    (* ---- the telescoping sums ---- *)
    (* cost of the whole inner loop of round d *)
    Definition rc (d : nat) : nat := sumk (S d) (Z.of_nat d) (stepcost d).
    Definition Asum (d : nat) : nat :=
      sumk (S d) (Z.of_nat d) (fun k => c k (S (frf d k))).
    Definition Psum (d : nat) : nat :=
      sumk (S d) (Z.of_nat d) (fun k => c k (pickf d k)).

    Lemma rc_P_A : forall d, rc d + Psum d = Asum d.
    Proof.
      intros d. unfold rc, Psum, Asum. rewrite <- sumk_add.
      apply sumk_ext. intros j. apply stepcost_eq.
    Qed.

    Lemma A_le_P : forall d, Asum d <= Psum (S (S d)).
    Proof.
      intros d. unfold Asum, Psum.
      eapply Nat.le_trans; [|apply sumk_inner].
      apply sumk_le. intros i Hi. apply c_mono. apply pickf_next. lia.
    Qed.

    Lemma Asum_bound : forall d, Asum d <= (S d) * B.
    Proof. intros d. unfold Asum. apply sumk_bound. intros j. apply c_bound. Qed.

    (* A of two rounds earlier (0 for rounds 0 and 1) *)
    Definition Aprev2 (d : nat) : nat :=
      match d with S (S d') => Asum d' | _ => 0 end.
    Definition Aprev1 (d : nat) : nat :=
      match d with S d' => Asum d' | 0 => 0 end.

    Lemma rc_step : forall d, rc d + Aprev2 d <= Asum d.
    Proof.
      intros d. pose proof (rc_P_A d) as H.
      destruct d as [|[|d]]; cbn [Aprev2]; [lia|lia|].
      pose proof (A_le_P d). lia.
    Qed.

    (* total cost of rounds 0 .. j-1 *)
    Fixpoint FS (j : nat) : nat :=
      match j with 0 => 0 | S j' => FS j' + rc j' end.

    Lemma FS_tele : forall j, FS (S j) <= Asum j + Aprev1 j.
    Proof.
      induction j as [|j IH].
      - cbn [FS Aprev1]. pose proof (rc_step 0) as H. cbn [Aprev2] in H. lia.
      - change (FS (S (S j))) with (FS (S j) + rc (S j)).
        pose proof (rc_step (S j)) as H.
        assert (E : Aprev2 (S j) = Aprev1 j) by (destruct j; reflexivity).
        cbn [Aprev1]. lia.
    Qed.

    Lemma Aprev1_bound : forall j, Aprev1 j <= j * B.
    Proof. intros [|j]; cbn [Aprev1]; [lia|apply Asum_bound]. Qed.

    (* rounds 0..j cost at most (2j+1) * B in one direction *)
    Lemma FS_bound : forall j, FS (S j) <= (2 * j + 1) * B.
    Proof.
      intros j. pose proof (FS_tele j). pose proof (Asum_bound j). pose proof (Aprev1_bound j). nia.
    Qed.

    Lemma FS_le : forall j, FS j <= (2 * j - 1) * B.
    Proof.
      intros [|j]; [cbn [FS]; lia|]. pose proof (FS_bound j) as H.
      replace (2 * S j - 1) with (2 * j + 1) by lia. exact H.
    Qed.

    (* ---- the array holds frf values ---- *)
    Lemma Cell_frf : forall d v k, Par d k -> Cell dg d v k -> v_get v k = Ok (frf d k).
    Proof.
      intros d v k Hpar [x [Hget HFR]]. rewrite Hget. f_equal.
      apply (FR_unique dg d k); [exact HFR|apply frf_FR; exact Hpar].
    Qed.

    Lemma pick_pickf : forall d k v, PrevOk dg d v -> Par d k ->
      pick v k (Z.of_nat d) = Ok (pickf d k).
    Proof.
      intros [|d] k v Hprev Hpar.
      - destruct Hpar as [Hr _]. assert (k = 0%Z) by lia. subst k.
        cbn [PrevOk] in Hprev. unfold pick. cbn [Z.of_nat Z.opp Z.eqb Z.add pickf]. exact Hprev.
      - cbn [PrevOk] in Hprev. cbn [pickf]. unfold pick, pick_spec.
        assert (Hrange : (- Z.of_nat (S d) <= k <= Z.of_nat (S d))%Z) by (destruct Hpar; assumption).
        destruct (Z.eqb_spec k (- Z.of_nat (S d))) as [E1|N1].
        + apply Cell_frf; [apply Par_up; [exact Hpar|lia]|]. apply Hprev. apply Par_up; [exact Hpar|lia].
        + assert (Hlo : v_get v (k - 1)%Z = Ok (frf d (k - 1))).
          { apply Cell_frf; [apply Par_down; [exact Hpar|lia]|]. apply Hprev. apply Par_down; [exact Hpar|lia]. }
          rewrite Hlo. cbn [bind].
          destruct (Z.eqb_spec k (Z.of_nat (S d))) as [E2|N2]; [reflexivity|].
          assert (Hhi : v_get v (k + 1)%Z = Ok (frf d (k + 1))).
          { apply Cell_frf; [apply Par_up; [exact Hpar|lia]|]. apply Hprev. apply Par_up; [exact Hpar|lia]. }
          rewrite Hhi. cbn [bind]. destruct (frf d (k - 1) <? frf d (k + 1)); reflexivity.
    Qed.
  End FRF.
End Clamp.

(* the two potentials: by column and by row *)
Definition clamp_x (n : nat) (k : Z) (x : nat) : nat := Nat.min x n.
Definition clamp_y (m : nat) (k : Z) (x : nat) : nat := Nat.min (Z.to_nat (Z.of_nat x - k)) m.

Lemma clamp_x_mono n k x x' : x <= x' -> clamp_x n k x <= clamp_x n k x'.
Proof. unfold clamp_x. lia. Qed.
Lemma clamp_x_bound n k x : clamp_x n k x <= n.
Proof. unfold clamp_x. lia. Qed.
Lemma clamp_x_in n m k x : (k <= Z.of_nat x)%Z -> x < n ->
  Z.to_nat (Z.of_nat x - k) < m -> clamp_x n k (S x) = S (clamp_x n k x).
Proof. unfold clamp_x. lia. Qed.

Lemma clamp_y_mono m k x x' : x <= x' -> clamp_y m k x <= clamp_y m k x'.
Proof. unfold clamp_y. lia. Qed.
Lemma clamp_y_bound m k x : clamp_y m k x <= m.
Proof. unfold clamp_y. lia. Qed.
Lemma clamp_y_in n m k x : (k <= Z.of_nat x)%Z -> x < n ->
  Z.to_nat (Z.of_nat x - k) < m -> clamp_y m k (S x) = S (clamp_y m k x).
Proof. unfold clamp_y. lia. Qed.

(* ================================================================ Part 4 *)
(* peel the monadic tail of a step: every branch returns the same world *)
Ltac peel H :=
  repeat match type of H with
         | bind ?mm _ = Ok _ => destruct mm; cbn [bind] in H; try discriminate H
         | (if ?bb then _ else _) = Ok _ => destruct bb
         end.

Section LoopsWork.
  Context {W : Type}.
  Variable wd : world W.
  Variable cnt : W -> nat.
  Hypothesis HC : CountResp wd cnt.
  Variable cmp : cmpf.
  Variables os oe ns ne : nat.
  Variable md : nat.
  Notation n := (oe - os).
  Notation m := (ne - ns).
  Notation G := (dg_of cmp os oe ns ne).
  Notation Gr := (dg_rev (oe - os) (ne - ns) (dg_of cmp os oe ns ne)).
  Hypothesis Htot : CmpTotal cmp os oe ns ne.

  Variable c : Z -> nat -> nat.
  Variable B : nat.
  Hypothesis c_mono : forall k x x', x <= x' -> c k x <= c k x'.
  Hypothesis c_bound : forall k x, c k x <= B.
  Hypothesis c_in : forall k x, (k <= Z.of_nat x)%Z -> x < n ->
    Z.to_nat (Z.of_nat x - k) < m -> c k (S x) = S (c k x).

  Let HboxG : DgBox n m G := dg_of_box cmp os oe ns ne.
  Let HboxGr : DgBox n m Gr := dg_rev_box n m G.

  (* ------------------------------------------------ one forward step *)
  Lemma fwd_step_cnt : forall d k vf vb w r vf1 w1,
    Par d k -> PrevOk G d vf ->
    fwd_step wd cmp os oe ns ne (Z.of_nat d) k vf vb w = Ok (r, vf1, w1) ->
    cnt w1 <= cnt w + stepcost n m c G d k.
  Proof.
    intros d k vf vb w r vf1 w1 Hpar Hprev H.
    pose proof (pick_pickf n m G HboxG d k vf Hprev Hpar) as Hpick.
    pose proof (pickf_origin n m G HboxG d k Hpar) as Hk.
    unfold fwd_step in H. rewrite Hpick in H. cbn [bind] in H.
    rewrite (z_to_usize_ok _ k Hk) in H. cbn [bind] in H.
    set (x0 := pickf n m G d k) in *.
    set (y0 := Z.to_nat (Z.of_nat x0 - k)) in *.
    destruct (Nat.ltb_spec x0 n) as [Hx|Hx]; [destruct (Nat.ltb_spec y0 m) as [Hy|Hy]|];
      cbn [andb] in H.
    - rewrite (prefix_scan cmp os oe ns ne Htot x0 y0 Hx Hy) in H. cbn [bind] in H.
      peel H; inversion H; subst; rewrite (cn_tick wd cnt HC);
        apply Nat.add_le_mono_l;
        apply (scan_le_stepcost n m c c_mono c_in G HboxG d k); try assumption; unfold yof; lia.
    - cbn [bind] in H. peel H; inversion H; subst; lia.
    - cbn [bind] in H. peel H; inversion H; subst; lia.
  Qed.

  (* item 3, in terms of the values read and written *)
  Lemma fwd_step_cost : forall d k vf vb w r vf1 w1,
    S d <= md -> Par d k -> VOk md vf -> VOk md vb ->
    PrevOk G d vf -> PrevOk Gr d vb ->
    fwd_step wd cmp os oe ns ne (Z.of_nat d) k vf vb w = Ok (r, vf1, w1) ->
    exists x_start x_new,
      pick vf k (Z.of_nat d) = Ok x_start /\ v_get vf1 k = Ok x_new /\
      FR G d k x_new /\ x_start <= x_new /\
      cnt w1 <= cnt w + (x_new - x_start) + 1.
  Proof.
    intros d k vf vb w r vf1 w1 Hd Hpar Hvf Hvb Hpf Hpb H.
    destruct (fwd_step_spec wd cmp os oe ns ne md Htot d k vf vb w Hd Hpar Hvf Hvb Hpf Hpb)
      as [r' [vf1' [w1' [x0 [s [Hstep [_ [_ [_ [_ [_ [HFR [Hget _]]]]]]]]]]]]].
    rewrite Hstep in H. inversion H; subst r' vf1' w1'. clear H.
    pose proof (pick_pickf n m G HboxG d k vf Hpf Hpar) as Hpick.
    pose proof (pickf_origin n m G HboxG d k Hpar) as Hk.
    pose proof (frf_FR n m G HboxG d k Hpar) as HFR'.
    pose proof (FR_unique G d k _ _ HFR HFR') as E.
    exists (pickf n m G d k), (frf n m G d k).
    split; [exact Hpick|]. split; [rewrite Hget, E; reflexivity|]. split; [exact HFR'|].
    split; [apply pickf_le_frf|].
    (* redo the count with the potential "column, clamped at n" *)
    unfold fwd_step in Hstep. rewrite Hpick in Hstep. cbn [bind] in Hstep.
    rewrite (z_to_usize_ok _ k Hk) in Hstep. cbn [bind] in Hstep.
    rewrite (frf_eq n m G d k). unfold ext, yof.
    set (x1 := pickf n m G d k) in *.
    set (y1 := Z.to_nat (Z.of_nat x1 - k)) in *.
    destruct (Nat.ltb_spec x1 n) as [Hx|Hx]; [destruct (Nat.ltb_spec y1 m) as [Hy|Hy]|];
      cbn [andb] in Hstep.
    - rewrite (prefix_scan cmp os oe ns ne Htot x1 y1 Hx Hy) in Hstep. cbn [bind] in Hstep.
      peel Hstep; inversion Hstep; subst; rewrite (cn_tick wd cnt HC);
        match goal with |- context [scan_cmps ?a ?b ?cc ?dd ?l] =>
          pose proof (scan_cmps_le_S a b cc dd l) end; lia.
    - cbn [bind] in Hstep. peel Hstep; inversion Hstep; subst; lia.
    - cbn [bind] in Hstep. peel Hstep; inversion Hstep; subst; lia.
  Qed.

  (* ------------------------------------------------ one backward step *)
  Lemma bwd_step_cnt : forall d k vf vb w r vb1 w1,
    Par d k -> PrevOk Gr d vb ->
    bwd_step wd cmp os oe ns ne (Z.of_nat d) k vf vb w = Ok (r, vb1, w1) ->
    cnt w1 <= cnt w + stepcost n m c Gr d k.
  Proof.
    intros d k vf vb w r vb1 w1 Hpar Hprev H.
    pose proof (pick_pickf n m Gr HboxGr d k vb Hprev Hpar) as Hpick.
    pose proof (pickf_origin n m Gr HboxGr d k Hpar) as Hk.
    unfold bwd_step in H. rewrite Hpick in H. cbn [bind] in H.
    rewrite (z_to_usize_ok _ k Hk) in H. cbn [bind] in H.
    set (x0 := pickf n m Gr d k) in *.
    set (y0 := Z.to_nat (Z.of_nat x0 - k)) in *.
    destruct (Nat.ltb_spec x0 n) as [Hx|Hx]; [destruct (Nat.ltb_spec y0 m) as [Hy|Hy]|];
      cbn [andb] in H.
    - rewrite (suffix_scan cmp os oe ns ne Htot x0 y0 Hx Hy) in H. cbn [bind] in H.
      peel H; inversion H; subst; rewrite (cn_tick wd cnt HC);
        apply Nat.add_le_mono_l;
        apply (scan_le_stepcost n m c c_mono c_in Gr HboxGr d k); try assumption; unfold yof; lia.
    - cbn [bind] in H. peel H; inversion H; subst; lia.
    - cbn [bind] in H. peel H; inversion H; subst; lia.
  Qed.

  Lemma bwd_step_cost : forall d k vf vb w r vb1 w1,
    S d <= md -> Par d k -> VOk md vf -> VOk md vb ->
    PrevOk G (S d) vf -> PrevOk Gr d vb -> BwdBox cmp os oe ns ne d k ->
    bwd_step wd cmp os oe ns ne (Z.of_nat d) k vf vb w = Ok (r, vb1, w1) ->
    exists x_start x_new,
      pick vb k (Z.of_nat d) = Ok x_start /\ v_get vb1 k = Ok x_new /\
      FR Gr d k x_new /\ x_start <= x_new /\
      cnt w1 <= cnt w + (x_new - x_start) + 1.
  Proof.
    intros d k vf vb w r vb1 w1 Hd Hpar Hvf Hvb Hpf Hpb Hbb H.
    destruct (bwd_step_spec wd cmp os oe ns ne md Htot d k vf vb w Hd Hpar Hvf Hvb Hpf Hpb Hbb)
      as [r' [vb1' [w1' [u1 [v1 [Hstep [_ [_ [_ [HFR [Hget _]]]]]]]]]]].
    rewrite Hstep in H. inversion H; subst r' vb1' w1'. clear H.
    pose proof (pick_pickf n m Gr HboxGr d k vb Hpb Hpar) as Hpick.
    pose proof (pickf_origin n m Gr HboxGr d k Hpar) as Hk.
    pose proof (frf_FR n m Gr HboxGr d k Hpar) as HFR'.
    pose proof (FR_unique Gr d k _ _ HFR HFR') as E.
    exists (pickf n m Gr d k), (frf n m Gr d k).
    split; [exact Hpick|]. split; [rewrite Hget, E; reflexivity|]. split; [exact HFR'|].
    split; [apply pickf_le_frf|].
    unfold bwd_step in Hstep. rewrite Hpick in Hstep. cbn [bind] in Hstep.
    rewrite (z_to_usize_ok _ k Hk) in Hstep. cbn [bind] in Hstep.
    rewrite (frf_eq n m Gr d k). unfold ext, yof.
    set (x1 := pickf n m Gr d k) in *.
    set (y1 := Z.to_nat (Z.of_nat x1 - k)) in *.
    destruct (Nat.ltb_spec x1 n) as [Hx|Hx]; [destruct (Nat.ltb_spec y1 m) as [Hy|Hy]|];
      cbn [andb] in Hstep.
    - rewrite (suffix_scan cmp os oe ns ne Htot x1 y1 Hx Hy) in Hstep. cbn [bind] in Hstep.
      peel Hstep; inversion Hstep; subst; rewrite (cn_tick wd cnt HC);
        match goal with |- context [scan_cmps ?a ?b ?cc ?dd ?l] =>
          pose proof (scan_cmps_le_S a b cc dd l) end; lia.
    - cbn [bind] in Hstep. peel Hstep; inversion Hstep; subst; lia.
    - cbn [bind] in Hstep. peel Hstep; inversion Hstep; subst; lia.
  Qed.

  (* ------------------------------------------------ the inner loops *)
  Lemma fwd_loop_cnt : forall d it k vf vb w r vf1 w1,
    S d <= md -> (k = - Z.of_nat d + 2 * Z.of_nat it - 2)%Z -> it <= S d ->
    VOk md vf -> VOk md vb -> PrevOk G d vf -> PrevOk Gr d vb -> Done G d vf k ->
    fwd_loop wd cmp os oe ns ne it (Z.of_nat d) k vf vb w = Ok (r, vf1, w1) ->
    cnt w1 <= cnt w + sumk it k (stepcost n m c G d).
  Proof.
    intros d it. induction it as [|it IH];
      intros k vf vb w r vf1 w1 Hd Hk Hit Hvf Hvb Hpf Hpb Hdone H.
    - cbn [fwd_loop] in H. inversion H; subst. cbn [sumk]. lia.
    - assert (Hpar : Par d k).
      { split; [lia|]. exists (Z.of_nat d - Z.of_nat it)%Z. lia. }
      destruct (fwd_step_spec wd cmp os oe ns ne md Htot d k vf vb w Hd Hpar Hvf Hvb Hpf Hpb)
        as [r' [vf1' [w1' [x0 [s [Hstep [Hvf1 [_ [_ [_ [_ [HFR [Hget [Hframe Hres]]]]]]]]]]]]]].
      pose proof (fwd_step_cnt d k vf vb w r' vf1' w1' Hpar Hpf Hstep) as Hc1.
      cbn [fwd_loop] in H. rewrite Hstep in H. cbn [bind] in H. cbn [sumk].
      destruct Hres as [[-> _]|[-> _]].
      + inversion H; subst. lia.
      + destruct (after_set G d k vf vf1' (x0 + s) Hget Hframe Hpar HFR Hpf Hdone) as [Hpf1 Hdone1].
        pose proof (IH (k - 2)%Z vf1' vb w1' r vf1 w1 Hd ltac:(lia) ltac:(lia)
                      Hvf1 Hvb Hpf1 Hpb Hdone1 H) as Hc2.
        lia.
  Qed.

  Lemma bwd_loop_cnt : forall d it k vf vb w r vb1 w1,
    S d <= md -> (k = - Z.of_nat d + 2 * Z.of_nat it - 2)%Z -> it <= S d ->
    VOk md vf -> VOk md vb -> PrevOk G (S d) vf -> PrevOk Gr d vb ->
    (forall j, BwdBox cmp os oe ns ne d j) -> Done Gr d vb k ->
    bwd_loop wd cmp os oe ns ne it (Z.of_nat d) k vf vb w = Ok (r, vb1, w1) ->
    cnt w1 <= cnt w + sumk it k (stepcost n m c Gr d).
  Proof.
    intros d it. induction it as [|it IH];
      intros k vf vb w r vb1 w1 Hd Hk Hit Hvf Hvb Hpf Hpb Hbb Hdone H.
    - cbn [bwd_loop] in H. inversion H; subst. cbn [sumk]. lia.
    - assert (Hpar : Par d k).
      { split; [lia|]. exists (Z.of_nat d - Z.of_nat it)%Z. lia. }
      destruct (bwd_step_spec wd cmp os oe ns ne md Htot d k vf vb w Hd Hpar Hvf Hvb Hpf Hpb (Hbb k))
        as [r' [vb1' [w1' [u1 [v1 [Hstep [Hvb1 [_ [_ [HFR [Hget [Hframe Hres]]]]]]]]]]]].
      pose proof (bwd_step_cnt d k vf vb w r' vb1' w1' Hpar Hpb Hstep) as Hc1.
      cbn [bwd_loop] in H. rewrite Hstep in H. cbn [bind] in H. cbn [sumk].
      destruct Hres as [[-> _]|[-> _]].
      + inversion H; subst. lia.
      + destruct (after_set Gr d k vb vb1' u1 Hget Hframe Hpar HFR Hpb Hdone) as [Hpb1 Hdone1].
        pose proof (IH (k - 2)%Z vf vb1' w1' r vb1 w1 Hd ltac:(lia) ltac:(lia)
                      Hvf Hvb1 Hpf Hpb1 Hbb Hdone1 H) as Hc2.
        lia.
  Qed.

  (* ============================================================== Part 5 *)
  Section RoundsWork.
    Variable D : nat.
    Hypothesis Hmd : max_d n m <= md.
    Hypothesis HD : MinCost G n m D.
    Hypothesis HD2 : 2 <= D.

    Notation FSf := (FS n m c G).
    Notation FSb := (FS n m c Gr).

    (* the returned point splits an optimal path into halves of cost d1 and
       D - d1, both at most ceil(D/2) *)
    Definition GoodW (p : nat * nat) : Prop :=
      exists x0 y0 d1, p = (x0 + os, y0 + ns) /\ x0 <= n /\ y0 <= m /\
        MinCost G x0 y0 d1 /\ MinCost Gr (n - x0) (m - y0) (D - d1) /\
        2 * d1 <= D + 1 /\ D <= 2 * d1 /\ 1 <= d1 /\ d1 < D.

    Lemma fwd_res_goodW : forall d p, 2 * d <= D + 1 ->
      FwdRes cmp os oe ns ne d p -> GoodW p /\ D + 1 = 2 * d.
    Proof.
      intros d p HdD [k [x0 [s [Hpar [Hy [-> [Hr [Hrun [HFR Hhit]]]]]]]]].
      destruct Hhit as [Hodd [Habs [xf [ub [HFRf [HFRb Htest]]]]]].
      rewrite (FR_unique G _ _ _ _ HFRf HFR) in Htest.
      destruct (fwd_pass n m G HboxG D HD d k x0 s ub HdD ltac:(lia) Habs Hy Hr Hrun HFRb Htest)
        as [Hx0 [Hy0 [Hf [Hb HDd]]]].
      split; [|exact HDd].
      exists x0, (Z.to_nat (Z.of_nat x0 - k)), d. split; [reflexivity|].
      split; [exact Hx0|]. split; [exact Hy0|]. split; [exact Hf|].
      replace (D - d) with (d - 1) by lia. split; [exact Hb|]. lia.
    Qed.

    Lemma bwd_res_goodW : forall d p, 2 * d <= D ->
      BwdRes cmp os oe ns ne d p -> GoodW p /\ D = 2 * d.
    Proof.
      intros d p HdD [k [u1 [v1 [Hpar [Hdiag [Hu [Hv [-> [HFR Hhit]]]]]]]]].
      destruct Hhit as [Hodd [Habs [ub [xf [HFRb [HFRf Htest]]]]]].
      rewrite (FR_unique Gr _ _ _ _ HFRb HFR) in Htest.
      destruct (bwd_pass n m G HboxG D HD d k u1 v1 xf HdD Hdiag Hu Hv HFR HFRf Htest)
        as [Hf [Hb HDd]].
      split; [|exact HDd].
      exists (n - u1), (m - v1), d. split; [reflexivity|].
      split; [lia|]. split; [lia|]. split; [exact Hf|].
      replace (n - (n - u1)) with u1 by lia. replace (m - (m - v1)) with v1 by lia.
      replace (D - d) with d by lia. split; [exact Hb|]. lia.
    Qed.

    Lemma round_loop_work : forall rounds d vf vb w r vf' vb' w',
      rounds + d = max_d n m -> 2 * d <= D + 1 ->
      VOk md vf -> VOk md vb -> PrevOk G d vf -> PrevOk Gr d vb ->
      round_loop wd cmp os oe ns ne rounds d vf vb w = Ok (r, vf', vb', w') ->
      match r with
      | Some p => GoodW p /\
          (* rr = the round in which the search returned *)
          exists rr, 2 * rr <= D + 1 /\ D <= 2 * rr /\
            cnt w' + FSf d + FSb d <= cnt w + FSf (S rr) + FSb (S rr)
      | None => True
      end /\
      cnt w' + FSf d + FSb d <= cnt w + 2 * (D + 1) * B.
    Proof.
      induction rounds as [|rounds IH]; intros d vf vb w r vf' vb' w' Hsum HdD Hvf Hvb Hpf Hpb H.
      - exfalso. pose proof (MinCost_le_sum G _ _ _ HD) as Hle.
        unfold max_d in Hsum. cbn [Nat.add] in Hsum.
        pose proof (Nat.div_mod (n + m + 1) 2 ltac:(lia)) as Hdm.
        pose proof (Nat.mod_upper_bound (n + m + 1) 2 ltac:(lia)). lia.
      - assert (Hd : S d <= md) by lia.
        pose proof (FS_le n m c B c_mono c_bound G d) as HFf.
        pose proof (FS_le n m c B c_mono c_bound Gr d) as HFb.
        pose proof (FS_bound n m c B c_mono c_bound G d) as HFf1.
        pose proof (FS_bound n m c B c_mono c_bound Gr d) as HFb1.
        cbn [round_loop] in H. destruct (probe wd w) as [ex w0] eqn:Hprobe.
        pose proof (cn_probe wd cnt HC _ _ _ Hprobe) as Hc0.
        destruct ex.
        { inversion H; subst. split; [exact Logic.I|]. nia. }
        destruct (fwd_loop_spec wd cmp os oe ns ne md Htot d (S d) (Z.of_nat d) vf vb w0
                    Hd ltac:(lia) ltac:(lia) Hvf Hvb Hpf Hpb (Done_start G d vf))
          as [r1 [vf1 [w1 [Hfwd [Hvf1 [_ Hres1]]]]]].
        { intros j [Hr _] Hlt. lia. }
        pose proof (fwd_loop_cnt d (S d) (Z.of_nat d) vf vb w0 r1 vf1 w1
                      Hd ltac:(lia) ltac:(lia) Hvf Hvb Hpf Hpb (Done_start G d vf) Hfwd) as Hc1.
        fold (rc n m c G d) in Hc1.
        rewrite Hfwd in H. cbn [bind] in H.
        destruct r1 as [p|].
        { inversion H; subst. destruct (fwd_res_goodW d p HdD Hres1) as [Hg HDd].
          split; [split; [exact Hg|exists d; cbn [FS]; lia]|]. cbn [FS] in HFf1. nia. }
        destruct Hres1 as [Hpf1 Hnof].
        assert (HdD2 : 2 * d <= D).
        { destruct (Nat.eq_dec (D + 1) (2 * d)) as [E|E]; [|lia]. exfalso.
          destruct (fwd_complete n m G HboxG D HD d E) as [Hodd [k [xf [ub [Hpar [Habs [H1 [H2 H3]]]]]]]].
          apply (Hnof k Hpar). split; [exact Hodd|]. split; [exact Habs|].
          exists xf, ub. auto. }
        assert (Hbb : forall j, BwdBox cmp os oe ns ne d j).
        { intros j Hodd Habs u v Hk Hr.
          apply (bwd_in_box n m G HboxG D HD d j u v HdD2 Habs Hk Hr). }
        destruct (bwd_loop_spec wd cmp os oe ns ne md Htot d (S d) (Z.of_nat d) vf1 vb w1
                    Hd ltac:(lia) ltac:(lia) Hvf1 Hvb Hpf1 Hpb Hbb (Done_start Gr d vb))
          as [r2 [vb1 [w2 [Hbwd [Hvb1 [_ Hres2]]]]]].
        { intros j [Hr _] Hlt. lia. }
        pose proof (bwd_loop_cnt d (S d) (Z.of_nat d) vf1 vb w1 r2 vb1 w2
                      Hd ltac:(lia) ltac:(lia) Hvf1 Hvb Hpf1 Hpb Hbb (Done_start Gr d vb) Hbwd) as Hc2.
        fold (rc n m c Gr d) in Hc2.
        rewrite Hbwd in H. cbn [bind] in H.
        destruct r2 as [p|].
        { inversion H; subst. destruct (bwd_res_goodW d p HdD2 Hres2) as [Hg HDd].
          split; [split; [exact Hg|exists d; cbn [FS]; lia]|]. cbn [FS] in HFf1, HFb1. nia. }
        destruct Hres2 as [Hpb1 Hnob].
        assert (HdD3 : 2 * S d <= D + 1).
        { destruct (Nat.eq_dec D (2 * d)) as [E|E]; [|lia]. exfalso.
          destruct (bwd_complete n m G HboxG D HD d E) as [Hodd [k [ub [xf [Hpar [Habs [H1 [H2 H3]]]]]]]].
          apply (Hnob k Hpar). split; [exact Hodd|]. split; [exact Habs|].
          exists ub, xf. auto. }
        destruct (IH (S d) vf1 vb1 w2 r vf' vb' w' ltac:(lia) HdD3 Hvf1 Hvb1 Hpf1 Hpb1 H)
          as [Hg Hc3].
        split; [|cbn [FS] in Hc3; lia].
        destruct r as [p|]; [|exact Logic.I].
        destruct Hg as [Hg [rr [Hr1 [Hr2 Hr3]]]]. split; [exact Hg|].
        exists rr. split; [exact Hr1|]. split; [exact Hr2|]. cbn [FS] in Hr3 |- *. lia.
    Qed.
  End RoundsWork.
End LoopsWork.

(* ------------------------------------------------ one middle-snake search *)
Section SnakeWork.
  Context {W : Type}.
  Variable wd : world W.
  Variable cnt : W -> nat.
  Hypothesis HC : CountResp wd cnt.
  Variable cmp : cmpf.

  (* what the recursion needs from the search: its cost and the halving *)
  Definition SplitOk (os oe ns ne D : nat) (r : option (nat * nat)) : Prop :=
    match r with
    | Some (x, y) =>
        os <= x <= oe /\ ns <= y <= ne /\
        exists D1 D2, BoxCost cmp os x ns y D1 /\ BoxCost cmp x oe y ne D2 /\
          D = D1 + D2 /\ 2 * D1 <= D + 1 /\ 2 * D2 <= D + 1
    | None => True
    end.

  Lemma stripped_D2 : forall os oe ns ne D,
    Stripped cmp os oe ns ne -> BoxCost cmp os oe ns ne D -> 2 <= D.
  Proof.
    intros os oe ns ne D [Ho [Hn [Hfirst Hlast]]] HD.
    apply (stripped_cost (oe - os) (ne - ns) (dg_of cmp os oe ns ne) D); try lia; [| |exact HD].
    - unfold dg_of. destruct (Nat.ltb_spec 0 (oe - os)); [|lia].
      destruct (Nat.ltb_spec 0 (ne - ns)); [|lia]. cbn [andb].
      rewrite !Nat.add_0_r. rewrite Hfirst. reflexivity.
    - unfold dg_of. destruct (Nat.ltb_spec (oe - os - 1) (oe - os)); [|lia].
      destruct (Nat.ltb_spec (ne - ns - 1) (ne - ns)); [|lia]. cbn [andb].
      replace (os + (oe - os - 1)) with (oe - 1) by lia.
      replace (ns + (ne - ns - 1)) with (ne - 1) by lia. rewrite Hlast. reflexivity.
  Qed.

  Theorem snake_work : forall os oe ns ne md vf vb w D r vf' vb' w',
    Stripped cmp os oe ns ne -> CmpTotal cmp os oe ns ne ->
    max_d (oe - os) (ne - ns) <= md -> VOk md vf -> VOk md vb ->
    BoxCost cmp os oe ns ne D ->
    find_middle_snake wd cmp os oe ns ne vf vb w = Ok (r, vf', vb', w') ->
    cnt w' <= cnt w + 2 * (D + 1) * Nat.min (oe - os) (ne - ns) /\
    SplitOk os oe ns ne D r /\
    (r <> None -> exists rr, 2 * rr <= D + 1 /\ D <= 2 * rr /\
       cnt w' <= cnt w + 2 * (2 * rr + 1) * Nat.min (oe - os) (ne - ns)).
  Proof.
    intros os oe ns ne md vf vb w D r vf' vb' w' Hstr Htot Hmd Hvf Hvb HD H.
    pose proof (stripped_D2 os oe ns ne D Hstr HD) as HD2.
    destruct Hstr as [Ho [Hn _]].
    set (G := dg_of cmp os oe ns ne).
    assert (Hmd2 : 2 <= max_d (oe - os) (ne - ns)).
    { unfold max_d.
      pose proof (Nat.div_mod (oe - os + (ne - ns) + 1) 2 ltac:(lia)) as Hdm.
      pose proof (Nat.mod_upper_bound (oe - os + (ne - ns) + 1) 2 ltac:(lia)). lia. }
    assert (H1 : InR md 1%Z) by (unfold InR; lia).
    destruct (v_set_ok md vf 1%Z 0 Hvf H1) as [vf0 [Hsf [Hvf0 [Hgf _]]]].
    destruct (v_set_ok md vb 1%Z 0 Hvb H1) as [vb0 [Hsb [Hvb0 [Hgb _]]]].
    unfold find_middle_snake in H. rewrite Hsf in H. cbn [bind] in H.
    rewrite Hsb in H. cbn [bind] in H.
    destruct Hvf0 as [Hl0 Ho0]. destruct Hvb0 as [Hl1 Ho1]. rewrite Hl0, Hl1 in H.
    destruct (Nat.ltb_spec (2 * md) (max_d (oe - os) (ne - ns))) as [Hc|_]; [lia|].
    cbn [orb] in H.
    assert (Hvf0 : VOk md vf0) by (split; assumption).
    assert (Hvb0 : VOk md vb0) by (split; assumption).
    unfold BoxCost in HD.
    destruct (round_loop_work wd cnt HC cmp os oe ns ne md Htot
                (clamp_x (oe - os)) (oe - os)
                (clamp_x_mono (oe - os)) (clamp_x_bound (oe - os))
                (clamp_x_in (oe - os) (ne - ns)) D Hmd HD HD2
                (max_d (oe - os) (ne - ns)) 0 vf0 vb0 w r vf' vb' w'
                ltac:(lia) ltac:(lia) Hvf0 Hvb0 Hgf Hgb H) as [Hg Hcx].
    destruct (round_loop_work wd cnt HC cmp os oe ns ne md Htot
                (clamp_y (ne - ns)) (ne - ns)
                (clamp_y_mono (ne - ns)) (clamp_y_bound (ne - ns))
                (clamp_y_in (oe - os) (ne - ns)) D Hmd HD HD2
                (max_d (oe - os) (ne - ns)) 0 vf0 vb0 w r vf' vb' w'
                ltac:(lia) ltac:(lia) Hvf0 Hvb0 Hgf Hgb H) as [Hg' Hcy].
    cbn [FS] in Hcx, Hcy. split.
    { destruct (Nat.min_spec (oe - os) (ne - ns)) as [[_ ->]|[_ ->]]; lia. }
    destruct r as [[x y]|]; [|split; [exact Logic.I|intros Hc; congruence]].
    destruct Hg as [Hg [rx [Hrx1 [Hrx2 Hrx3]]]]. destruct Hg' as [_ [ry [Hry1 [Hry2 Hry3]]]].
    assert (ry = rx) by lia. subst ry.
    split.
    2:{ intros _. exists rx. split; [exact Hrx1|]. split; [exact Hrx2|].
        pose proof (FS_bound (oe - os) (ne - ns) (clamp_x (oe - os)) (oe - os)
                      (clamp_x_mono (oe - os)) (clamp_x_bound (oe - os)) G rx) as B1.
        pose proof (FS_bound (oe - os) (ne - ns) (clamp_x (oe - os)) (oe - os)
                      (clamp_x_mono (oe - os)) (clamp_x_bound (oe - os))
                      (dg_rev (oe - os) (ne - ns) G) rx) as B2.
        pose proof (FS_bound (oe - os) (ne - ns) (clamp_y (ne - ns)) (ne - ns)
                      (clamp_y_mono (ne - ns)) (clamp_y_bound (ne - ns)) G rx) as B3.
        pose proof (FS_bound (oe - os) (ne - ns) (clamp_y (ne - ns)) (ne - ns)
                      (clamp_y_mono (ne - ns)) (clamp_y_bound (ne - ns))
                      (dg_rev (oe - os) (ne - ns) G) rx) as B4.
        cbn [FS] in Hrx3, Hry3, B1, B2, B3, B4. fold G in Hrx3, Hry3.
        destruct (Nat.min_spec (oe - os) (ne - ns)) as [[_ ->]|[_ ->]]; lia. }
    destruct Hg as [x0 [y0 [d1 [Hp [Hx0 [Hy0 [Hf [Hb [Hd1a [Hd1b [Hd1 Hd1D]]]]]]]]]]].
    injection Hp as -> ->. cbn [SplitOk].
    split; [lia|]. split; [lia|].
    exists d1, (D - d1).
    split.
    { apply (left_box cmp os oe ns ne); [lia|lia|].
      replace (x0 + os - os) with x0 by lia. replace (y0 + ns - ns) with y0 by lia. exact Hf. }
    split.
    { apply (right_box cmp os oe ns ne); [lia|lia|].
      replace (x0 + os - os) with x0 by lia. replace (y0 + ns - ns) with y0 by lia. exact Hb. }
    lia.
  Qed.
End SnakeWork.

(* item 4: a search that returns does so in round rr = ceil(D/2) and has then
   made at most (2 rr + 1) * min n m comparisons in each direction *)
Corollary snake_round_cost {W} (wd : world W) cnt cmp os oe ns ne md vf vb w D p vf' vb' w' :
  CountResp wd cnt ->
  Stripped cmp os oe ns ne -> CmpTotal cmp os oe ns ne ->
  max_d (oe - os) (ne - ns) <= md -> VOk md vf -> VOk md vb ->
  BoxCost cmp os oe ns ne D ->
  find_middle_snake wd cmp os oe ns ne vf vb w = Ok (Some p, vf', vb', w') ->
  exists rr, 2 * rr <= D + 1 /\ D <= 2 * rr /\
    cnt w' <= cnt w + 2 * (2 * rr + 1) * Nat.min (oe - os) (ne - ns).
Proof.
  intros HC Hstr Htot Hmd Hvf Hvb HD H.
  destruct (snake_work wd cnt HC cmp os oe ns ne md vf vb w D _ _ _ _ Hstr Htot Hmd Hvf Hvb HD H)
    as [_ [_ Hr]].
  apply Hr. discriminate.
Qed.

(* item 5: in terms of the optimal cost D of the box, deadline or not *)
Corollary snake_cost_D {W} (wd : world W) cnt cmp os oe ns ne md vf vb w D r vf' vb' w' :
  CountResp wd cnt ->
  Stripped cmp os oe ns ne -> CmpTotal cmp os oe ns ne ->
  max_d (oe - os) (ne - ns) <= md -> VOk md vf -> VOk md vb ->
  BoxCost cmp os oe ns ne D ->
  find_middle_snake wd cmp os oe ns ne vf vb w = Ok (r, vf', vb', w') ->
  cnt w' <= cnt w + 2 * (D + 1) * Nat.min (oe - os) (ne - ns) /\
  cnt w' <= cnt w + ((oe - os) + (ne - ns) + 1) * (D + 1).
Proof.
  intros HC Hstr Htot Hmd Hvf Hvb HD H.
  destruct (snake_work wd cnt HC cmp os oe ns ne md vf vb w D _ _ _ _ Hstr Htot Hmd Hvf Hvb HD H)
    as [Hc _].
  split; [exact Hc|].
  assert (Hm : 2 * Nat.min (oe - os) (ne - ns) <= (oe - os) + (ne - ns)) by lia.
  nia.
Qed.

(* ================================================================ Part 6 *)
Lemma work_arith : forall s1 s2 D1 D2 mn,
  2 <= s1 + s2 -> 2 <= D1 + D2 ->
  2 * D1 <= D1 + D2 + 1 -> 2 * D2 <= D1 + D2 + 1 -> 2 * mn <= s1 + s2 ->
  4 + 2 * (D1 + D2 + 1) * mn + 6 * s1 * D1 + 6 * s2 * D2 <= 6 * (s1 + s2) * (D1 + D2).
Proof.
  intros s1 s2 D1 D2 mn Hs HD H1 H2 Hmn.
  assert (E : 6 * (s1 + s2) * (D1 + D2) =
              6 * s1 * D1 + 6 * s2 * D2 + 6 * (s1 * D2 + s2 * D1)) by nia.
  assert (Hm : 2 * (D1 + D2 + 1) * mn <= (D1 + D2 + 1) * (s1 + s2)) by nia.
  destruct (Nat.eq_dec (D1 + D2) 2) as [E2|N2].
  - assert (D1 = 1) by lia. assert (D2 = 1) by lia. subst D1 D2. nia.
  - assert (H3 : D1 + D2 <= 2 * D1 + 1) by lia.
    assert (H4 : D1 + D2 <= 2 * D2 + 1) by lia.
    assert (H5 : (s1 + s2) * (D1 + D2) <= 2 * (s1 * D2 + s2 * D1) + (s1 + s2)) by nia.
    assert (H6 : 3 * (s1 + s2) <= (s1 + s2) * (D1 + D2)) by nia.
    nia.
Qed.

Section ConquerWork.
  Context {W : Type}.
  Variable wd : world W.
  Variable cnt : W -> nat.
  Hypothesis HC : CountResp wd cnt.
  Variable cmp : cmpf.
  Hypothesis HN : NoDeadline wd.
  Variable md : nat.

  Let HS : SnakeSpec wd cmp := snake_spec W wd cmp.

  Definition WorkAt (f : nat) : Prop :=
    forall os oe ns ne vf vb w vf' vb' w' D,
      os <= oe -> ns <= ne -> CmpTotal cmp os oe ns ne ->
      VOk md vf -> VOk md vb -> max_d (oe - os) (ne - ns) <= md ->
      BoxCost cmp os oe ns ne D ->
      conquer wd cmp f os oe ns ne vf vb w = Ok (vf', vb', w') ->
      cnt w' <= cnt w + 6 * ((oe - os) + (ne - ns)) * D + ((oe - os) + (ne - ns)) + 2.

  Lemma mid_work f : WorkAt f ->
    forall os oe ns ne vf vb w vf' vb' w' D,
      os <= oe -> ns <= ne -> CmpTotal cmp os oe ns ne ->
      (os < oe -> ns < ne -> Stripped cmp os oe ns ne) ->
      VOk md vf -> VOk md vb -> max_d (oe - os) (ne - ns) <= md ->
      BoxCost cmp os oe ns ne D ->
      MidRun wd cmp f os oe ns ne vf vb w vf' vb' w' ->
      cnt w' <= cnt w + 6 * ((oe - os) + (ne - ns)) * D + ((oe - os) + (ne - ns)).
  Proof.
    intros IH os oe ns ne vf vb w vf' vb' w' D Hoe Hne Htot Hstr Hvf Hvb Hmd HD HM.
    destruct HM as [Ho Hn|w1 Ho Hn He|w1 Ho Hn He
                   |x y vf1 vb1 w1 vf2 vb2 w2 vf3 vb3 w3 Ho Hn Ef E1 E2
                   |vf1 vb1 w1 w2 w3 Ho Hn Ef E1 E2].
    - rewrite <- Nat.add_assoc. apply Nat.le_add_r.
    - rewrite (cn_emit wd cnt HC _ _ _ He). rewrite <- Nat.add_assoc. apply Nat.le_add_r.
    - rewrite (cn_emit wd cnt HC _ _ _ He). rewrite <- Nat.add_assoc. apply Nat.le_add_r.
    - destruct (HS os oe ns ne md vf vb w (Hstr Ho Hn) Htot Hmd Hvf Hvb)
        as (r & vf1' & vb1' & w1' & Hf & Hvf1 & Hvb1 & _ & _).
      rewrite Ef in Hf. inversion Hf; subst r vf1' vb1' w1'. clear Hf.
      destruct (snake_work wd cnt HC cmp os oe ns ne md vf vb w D _ _ _ _
                  (Hstr Ho Hn) Htot Hmd Hvf Hvb HD Ef) as [Hcs [Hsp _]].
      pose proof (stripped_D2 cmp os oe ns ne D (Hstr Ho Hn) HD) as HD2.
      cbn [SplitOk] in Hsp.
      destruct Hsp as (Hx & Hy & D1 & D2 & HD1 & HD2' & HDsum & Hh1 & Hh2).
      assert (Ht1 : CmpTotal cmp os x ns y) by (eapply CmpTotal_sub; [exact Htot|lia..]).
      assert (Ht2 : CmpTotal cmp x oe y ne) by (eapply CmpTotal_sub; [exact Htot|lia..]).
      assert (Hm1 : max_d (x - os) (y - ns) <= md)
        by (eapply Nat.le_trans; [apply max_d_mono|exact Hmd]; lia).
      assert (Hm2 : max_d (oe - x) (ne - y) <= md)
        by (eapply Nat.le_trans; [apply max_d_mono|exact Hmd]; lia).
      destruct (conquer_VOk wd cmp md f os x ns y vf1 vb1 w1 vf2 vb2 w2 HS) as [Hvf2 Hvb2];
        try assumption; try lia.
      pose proof (IH os x ns y vf1 vb1 w1 vf2 vb2 w2 D1 ltac:(lia) ltac:(lia)
                    Ht1 Hvf1 Hvb1 Hm1 HD1 E1) as Hc1.
      pose proof (IH x oe y ne vf2 vb2 w2 vf3 vb3 w3 D2 ltac:(lia) ltac:(lia)
                    Ht2 Hvf2 Hvb2 Hm2 HD2' E2) as Hc2.
      set (s1 := (x - os) + (y - ns)) in *. set (s2 := (oe - x) + (ne - y)) in *.
      assert (Es : (oe - os) + (ne - ns) = s1 + s2) by (unfold s1, s2; lia).
      rewrite Es. subst D.
      pose proof (work_arith s1 s2 D1 D2 (Nat.min (oe - os) (ne - ns))
                    ltac:(lia) ltac:(lia) ltac:(lia) ltac:(lia) ltac:(lia)) as Ha.
      lia.
    - exfalso.
      destruct (HS os oe ns ne md vf vb w (Hstr Ho Hn) Htot Hmd Hvf Hvb)
        as (r & vf1' & vb1' & w1' & Hf & Hvf1 & Hvb1 & Hpt & Hr).
      rewrite Ef in Hf. inversion Hf; subst r vf1' vb1' w1'. clear Hf.
      cbn beta iota in Hr. destruct Hr as (wa & wb & _ & Hp).
      pose proof (HN wa) as Hfalse. rewrite Hp in Hfalse. cbn [fst] in Hfalse. discriminate.
  Qed.

  Theorem conquer_work_at f : WorkAt f.
  Proof.
    induction f as [|f IH];
      intros os oe ns ne vf vb w vf' vb' w' D Hoe Hne Htot Hvf Hvb Hmd HD H.
    - cbn [conquer] in H. discriminate.
    - apply conquer_S_iff in H.
      destruct H as [p w1 s vf1 vb1 w3 w4 Hp Hw1 Hs Hso Hsn Hm Hw4].
      destruct (strip_facts cmp os oe ns ne p s Hoe Hne Hp Hs)
        as (Hp1 & Hp2 & Hseg1 & Hs1 & Hs2 & Hseg2 & Hstr).
      assert (HD' : BoxCost cmp (os + p) (oe - s) (ns + p) (ne - s) D).
      { apply BoxCost_strip_eq; try assumption; lia. }
      pose proof (mid_work f IH (os + p) (oe - s) (ns + p) (ne - s) vf vb _ vf1 vb1 w3 D
                    ltac:(lia) ltac:(lia)
                    ltac:(eapply CmpTotal_sub; [exact Htot|lia..]) Hstr Hvf Hvb
                    ltac:(eapply Nat.le_trans; [apply max_d_mono|exact Hmd]; lia) HD' Hm) as Hmid.
      rewrite (cnt_emit_eq_opt wd cnt HC _ _ _ _ _ Hw4).
      rewrite (cn_tick wd cnt HC) in Hmid.
      rewrite (cnt_emit_eq_opt wd cnt HC _ _ _ _ _ Hw1) in Hmid.
      rewrite (cn_tick wd cnt HC) in Hmid.
      pose proof (scan_cmps_le_S os oe ns ne p) as Hc1.
      pose proof (scan_cmps_le_S (os + p) oe (ns + p) ne s) as Hc2.
      set (s' := (oe - s - (os + p)) + (ne - s - (ns + p))) in *.
      set (S0 := (oe - os) + (ne - ns)) in *.
      assert (ES : S0 = s' + 2 * p + 2 * s) by (unfold S0, s'; lia).
      assert (Hmul : s' * D <= S0 * D) by (apply Nat.mul_le_mono_r; lia).
      lia.
  Qed.
End ConquerWork.

(* the recursion, for any world whose deadline never fires *)
Theorem conquer_work {W} (wd : world W) cnt cmp md fuel os oe ns ne vf vb w vf' vb' w' D :
  CountResp wd cnt -> NoDeadline wd ->
  os <= oe -> ns <= ne -> CmpTotal cmp os oe ns ne ->
  VOk md vf -> VOk md vb -> max_d (oe - os) (ne - ns) <= md ->
  BoxCost cmp os oe ns ne D ->
  conquer wd cmp fuel os oe ns ne vf vb w = Ok (vf', vb', w') ->
  cnt w' <= cnt w + 6 * ((oe - os) + (ne - ns)) * D + ((oe - os) + (ne - ns)) + 2.
Proof. intros HC HN. apply (conquer_work_at wd cnt HC cmp HN md fuel). Qed.

Theorem myers_work {W} (wd : world W) cnt cmp os oe ns ne w w' D :
  CountResp wd cnt -> NoDeadline wd ->
  os <= oe -> ns <= ne -> CmpTotal cmp os oe ns ne ->
  BoxCost cmp os oe ns ne D ->
  myers_diff wd cmp os oe ns ne w = Ok w' ->
  cnt w' <= cnt w + 6 * ((oe - os) + (ne - ns)) * D + ((oe - os) + (ne - ns)) + 2.
Proof.
  intros HC HN Hoe Hne Htot HD H.
  apply myers_diff_inv in H. destruct H as (vf' & vb' & w'' & Hc & He).
  rewrite (cn_emit wd cnt HC _ _ _ He).
  exact (conquer_work wd cnt cmp _ _ os oe ns ne _ _ w vf' vb' w'' D HC HN Hoe Hne Htot
           (VOk_v_new _) (VOk_v_new _) (le_n _) HD Hc).
Qed.

(* C19 in the shape "a fixed multiple of (N+M+1)*(D+1)" *)
Theorem myers_work_bound cmp os oe ns ne w0 w1 D :
  os <= oe -> ns <= ne -> CmpTotal cmp os oe ns ne ->
  BoxCost cmp os oe ns ne D ->
  myers_diff (plain_world None) cmp os oe ns ne w0 = Ok w1 ->
  cmps (p_ctr w1) <= cmps (p_ctr w0) + 6 * ((oe - os) + (ne - ns) + 1) * (D + 1).
Proof.
  intros Hoe Hne Htot HD H.
  pose proof (myers_work (plain_world None) cmps_of cmp os oe ns ne w0 w1 D
                (CountResp_plain None) NoDeadline_plain Hoe Hne Htot HD H) as Hw.
  unfold cmps_of in Hw. nia.
Qed.

(* the same with the optimum expressed by the LCS length: D = N + M - 2 L *)
Corollary myers_work_bound_lcs cmp os oe ns ne w0 w1 L :
  os <= oe -> ns <= ne -> CmpTotal cmp os oe ns ne ->
  IsLcsLen cmp os oe ns ne L ->
  myers_diff (plain_world None) cmp os oe ns ne w0 = Ok w1 ->
  cmps (p_ctr w1) <=
  cmps (p_ctr w0) + 6 * ((oe - os) + (ne - ns) + 1) * ((oe - os) + (ne - ns) - 2 * L + 1).
Proof.
  intros Hoe Hne Htot HL H.
  destruct (BoxCost_exists cmp os oe ns ne) as [D HD].
  pose proof (MinCost_LCS cmp os oe ns ne D L HD HL) as E.
  replace ((oe - os) + (ne - ns) - 2 * L) with D by lia.
  exact (myers_work_bound cmp os oe ns ne w0 w1 D Hoe Hne Htot HD H).
Qed.

Print Assumptions snake_work.
Print Assumptions snake_round_cost.
Print Assumptions snake_cost_D.
Print Assumptions myers_work_bound_lcs.
Print Assumptions myers_work.
Print Assumptions myers_work_bound.
