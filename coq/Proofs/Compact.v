(* Proofs/Compact.v — properties C10 / C11 (compaction part):
   cleanup_diff_ops preserves meaning and cost of any valid script.

   Method.  A script is checked by a cursor walk; here the walk is written
   with a COMPUTED cursor (start + total lengths of the ops before), so no
   existential cursors appear:  [Seg m i j e ops].  [m] is the mode:
     Loose : carried indices ignored               (= OpsWalk false)
     Exact : carried indices equal the cursor      (= OpsWalk true)
     Low   : an Insert's carried old index is at least e = b + (total length
             of the Equal ops before it)  -- the invariant on stale indices
             that makes the [shift_left] subtraction safe when repair = false.
   The zipper (bef, this, aft) stands for the list rev bef ++ this :: aft and
   the invariant of all loops is simply "that list is a valid script with the
   same deleted / inserted totals and no empty op". *)
From Similar Require Import Model.Base Model.Utils Model.Myers Model.Hooks Model.Compact
     Spec.Script Proofs.Utils.

(* ------------------------------------------------------------------ *)
(* generic bookkeeping                                                 *)
(* ------------------------------------------------------------------ *)

Lemma sub_chk_inv a c r : sub_chk a c = Ok r -> c <= a /\ r = a - c.
Proof.
  unfold sub_chk. destruct (c <=? a) eqn:E; [|discriminate].
  intros H. injection H as <-. apply Nat.leb_le in E. split; [exact E|reflexivity].
Qed.

Lemma sub_chk_le a c : c <= a -> sub_chk a c = Ok (a - c).
Proof. intros H. unfold sub_chk. apply Nat.leb_le in H. rewrite H. reflexivity. Qed.

Lemma bind_ok_inv {A B} (m : res A) (f : A -> res B) r :
  bind m f = Ok r -> exists a, m = Ok a /\ f a = Ok r.
Proof. destruct m as [a| |]; cbn [bind]; intros H; try discriminate. exists a. split; [reflexivity|exact H]. Qed.

Definition NoRep (x : op) : Prop := op_tag x <> TReplace.

Definition elen (x : op) : nat := match x with Equal _ _ l => l | _ => 0 end.
Definition dlen (x : op) : nat := match x with Equal _ _ _ => 0 | _ => op_old_len x end.
Definition ilen (x : op) : nat := match x with Equal _ _ _ => 0 | _ => op_new_len x end.

Fixpoint otot (l : list op) : nat := match l with [] => 0 | x :: r => op_old_len x + otot r end.
Fixpoint ntot (l : list op) : nat := match l with [] => 0 | x :: r => op_new_len x + ntot r end.
Fixpoint etot (l : list op) : nat := match l with [] => 0 | x :: r => elen x + etot r end.
Fixpoint dtot (l : list op) : nat := match l with [] => 0 | x :: r => dlen x + dtot r end.
Fixpoint itot (l : list op) : nat := match l with [] => 0 | x :: r => ilen x + itot r end.

Lemma deleted_dtot l : deleted l = dtot l.
Proof. induction l as [|x r IH]; [reflexivity|]. cbn [dtot]. rewrite <- IH. destruct x; reflexivity. Qed.
Lemma inserted_itot l : inserted l = itot l.
Proof. induction l as [|x r IH]; [reflexivity|]. cbn [itot]. rewrite <- IH. destruct x; reflexivity. Qed.
Lemma equal_total_etot l : equal_total l = etot l.
Proof. induction l as [|x r IH]; [reflexivity|]. cbn [etot]. rewrite <- IH. destruct x; reflexivity. Qed.

Lemma otot_app a c : otot (a ++ c) = otot a + otot c.
Proof. induction a as [|x a IH]; cbn [app otot]; [reflexivity|rewrite IH; lia]. Qed.
Lemma ntot_app a c : ntot (a ++ c) = ntot a + ntot c.
Proof. induction a as [|x a IH]; cbn [app ntot]; [reflexivity|rewrite IH; lia]. Qed.
Lemma etot_app a c : etot (a ++ c) = etot a + etot c.
Proof. induction a as [|x a IH]; cbn [app etot]; [reflexivity|rewrite IH; lia]. Qed.
Lemma dtot_app a c : dtot (a ++ c) = dtot a + dtot c.
Proof. induction a as [|x a IH]; cbn [app dtot]; [reflexivity|rewrite IH; lia]. Qed.
Lemma itot_app a c : itot (a ++ c) = itot a + itot c.
Proof. induction a as [|x a IH]; cbn [app itot]; [reflexivity|rewrite IH; lia]. Qed.

Lemma otot_rev a : otot (rev a) = otot a.
Proof. induction a as [|x a IH]; [reflexivity|]. cbn [rev]. rewrite otot_app, IH. cbn [otot]. lia. Qed.
Lemma ntot_rev a : ntot (rev a) = ntot a.
Proof. induction a as [|x a IH]; [reflexivity|]. cbn [rev]. rewrite ntot_app, IH. cbn [ntot]. lia. Qed.
Lemma etot_rev a : etot (rev a) = etot a.
Proof. induction a as [|x a IH]; [reflexivity|]. cbn [rev]. rewrite etot_app, IH. cbn [etot]. lia. Qed.
Lemma dtot_rev a : dtot (rev a) = dtot a.
Proof. induction a as [|x a IH]; [reflexivity|]. cbn [rev]. rewrite dtot_app, IH. cbn [dtot]. lia. Qed.
Lemma itot_rev a : itot (rev a) = itot a.
Proof. induction a as [|x a IH]; [reflexivity|]. cbn [rev]. rewrite itot_app, IH. cbn [itot]. lia. Qed.

(* every old item is either kept or deleted; every new item kept or inserted *)
Lemma otot_split l : otot l = etot l + dtot l.
Proof.
  induction l as [|x r IH]; [reflexivity|]. cbn [otot etot dtot]. rewrite IH.
  destruct x; cbn [op_old_len elen dlen]; lia.
Qed.
Lemma ntot_split l : ntot l = etot l + itot l.
Proof.
  induction l as [|x r IH]; [reflexivity|]. cbn [ntot etot itot]. rewrite IH.
  destruct x; cbn [op_new_len elen ilen]; lia.
Qed.

Lemma empty_op_false x : NoRep x -> op_is_empty x = false -> NonEmptyOp x.
Proof.
  unfold op_is_empty. intros Hx H. apply Bool.andb_false_iff in H.
  destruct x; cbn [op_old_len op_new_len NonEmptyOp] in *.
  - destruct H as [H|H]; apply Nat.eqb_neq in H; lia.
  - destruct H as [H|H]; apply Nat.eqb_neq in H; lia.
  - destruct H as [H|H]; apply Nat.eqb_neq in H; lia.
  - exfalso; apply Hx; reflexivity.
Qed.

Lemma empty_op_true x : op_is_empty x = true -> op_old_len x = 0 /\ op_new_len x = 0.
Proof.
  unfold op_is_empty. intros H. apply Bool.andb_true_iff in H. destruct H as [H1 H2].
  apply Nat.eqb_eq in H1. apply Nat.eqb_eq in H2. split; assumption.
Qed.

Lemma nonempty_not_empty x : NonEmptyOp x -> op_is_empty x = false.
Proof.
  unfold op_is_empty. destruct x; cbn [op_old_len op_new_len NonEmptyOp]; intros H;
    apply Bool.andb_false_iff.
  - left. apply Nat.eqb_neq. lia.
  - left. apply Nat.eqb_neq. lia.
  - right. apply Nat.eqb_neq. lia.
  - left. apply Nat.eqb_neq. lia.
Qed.

(* ------------------------------------------------------------------ *)
(* modes and the computed-cursor walk                                  *)
(* ------------------------------------------------------------------ *)

Inductive mode : Type := Loose | Exact | Low.

Definition exactb (m : mode) : bool := match m with Exact => true | _ => false end.

Definition ins_ok (m : mode) (i e o : nat) : Prop :=
  match m with Loose => True | Exact => o = i | Low => e <= o end.
Definition del_ok (m : mode) (j n : nat) : Prop :=
  match m with Exact => n = j | _ => True end.

(* the stale-index invariant, stated on its own: every Insert's carried old
   index is at least [e] plus the total length of the Equal ops before it *)
Fixpoint InsLow (e : nat) (l : list op) : Prop :=
  match l with
  | [] => True
  | x :: r => match x with Insert o _ _ => e <= o | _ => True end /\ InsLow (e + elen x) r
  end.

Section Walk.
  Variable cmp : cmpf.

  Lemma SegEq_ext o n l o' n' l' :
    o = o' -> n = n' -> l = l' -> SegEq cmp o n l -> SegEq cmp o' n' l'.
  Proof. intros -> -> ->. exact (fun H => H). Qed.

  Definition OpOk (m : mode) (i j e : nat) (x : op) : Prop :=
    match x with
    | Equal o n l => o = i /\ n = j /\ SegEq cmp i j l
    | Delete o _ n => o = i /\ del_ok m j n
    | Insert o n _ => n = j /\ ins_ok m i e o
    | Replace _ _ _ _ => False
    end.

  Fixpoint Seg (m : mode) (i j e : nat) (l : list op) : Prop :=
    match l with
    | [] => True
    | x :: r => OpOk m i j e x /\ Seg m (i + op_old_len x) (j + op_new_len x) (e + elen x) r
    end.

  Lemma OpOk_ext m i j e i' j' e' x :
    i = i' -> j = j' -> e = e' -> OpOk m i j e x -> OpOk m i' j' e' x.
  Proof. intros -> -> ->. exact (fun H => H). Qed.

  Lemma Seg_ext m i j e i' j' e' l :
    i = i' -> j = j' -> e = e' -> Seg m i j e l -> Seg m i' j' e' l.
  Proof. intros -> -> ->. exact (fun H => H). Qed.

  Lemma Seg_app m a : forall i j e c,
    Seg m i j e (a ++ c) <->
    Seg m i j e a /\ Seg m (i + otot a) (j + ntot a) (e + etot a) c.
  Proof.
    induction a as [|x a IH]; intros i j e c; cbn [app Seg otot ntot etot].
    - rewrite !Nat.add_0_r. tauto.
    - rewrite IH. rewrite !Nat.add_assoc. tauto.
  Qed.

  Lemma Seg_NoRep m l : forall i j e, Seg m i j e l -> Forall NoRep l.
  Proof.
    induction l as [|x r IH]; intros i j e H; [constructor|]. cbn [Seg] in H. destruct H as [Hx Hr].
    constructor; [|eapply IH; exact Hr]. destruct x; cbn [OpOk] in Hx; try discriminate. contradiction.
  Qed.

  (* ---- relation with Spec.Script.OpsWalk ---- *)
  Lemma walk_to_seg m ex oe ne i j l :
    OpsWalk cmp ex oe ne i j l -> Forall NoRep l ->
    (m = Exact -> ex = true) ->
    forall e, (m = Low -> InsLow e l) ->
    Seg m i j e l /\ i + otot l = oe /\ j + ntot l = ne.
  Proof.
    intros Hw. induction Hw as [|i j l r Hseg Hw IH|i j l n r Hn Hb Hw IH|i j o l r Ho Hb Hw IH|i j ol nl r H1 H2 Hw IH];
      intros Hnr Hex e Hlow.
    - cbn [Seg otot ntot]. repeat split; lia.
    - apply Forall_cons_iff in Hnr. destruct Hnr as [_ Hnr].
      destruct (IH Hnr Hex (e + l)) as (Hs & Ho & Hn).
      { intros Hm. specialize (Hlow Hm). cbn [InsLow elen] in Hlow. tauto. }
      cbn [Seg OpOk otot ntot op_old_len op_new_len elen]. repeat split; auto; lia.
    - apply Forall_cons_iff in Hnr. destruct Hnr as [_ Hnr].
      destruct (IH Hnr Hex e) as (Hs & Ho & Hn').
      { intros Hm. specialize (Hlow Hm). cbn [InsLow elen] in Hlow. rewrite Nat.add_0_r in Hlow. tauto. }
      cbn [Seg OpOk otot ntot op_old_len op_new_len elen]. rewrite !Nat.add_0_r.
      repeat split; auto; try lia. unfold del_ok. destruct m; auto.
    - apply Forall_cons_iff in Hnr. destruct Hnr as [_ Hnr].
      destruct (IH Hnr Hex e) as (Hs & Ho' & Hn).
      { intros Hm. specialize (Hlow Hm). cbn [InsLow elen] in Hlow. rewrite Nat.add_0_r in Hlow. tauto. }
      cbn [Seg OpOk otot ntot op_old_len op_new_len elen]. rewrite !Nat.add_0_r.
      repeat split; auto; try lia. unfold ins_ok. destruct m; auto.
      specialize (Hlow eq_refl). cbn [InsLow] in Hlow. tauto.
    - apply Forall_cons_iff in Hnr. destruct Hnr as [Hx _]. exfalso; apply Hx; reflexivity.
  Qed.

  Lemma seg_to_walk m l : forall i j e oe ne,
    Seg m i j e l -> i + otot l = oe -> j + ntot l = ne ->
    OpsWalk cmp (exactb m) oe ne i j l.
  Proof.
    induction l as [|x r IH]; intros i j e oe ne Hs Ho Hn.
    - cbn [otot ntot] in *. rewrite Nat.add_0_r in *. subst. constructor.
    - cbn [Seg otot ntot] in *. destruct Hs as [Hx Hr].
      assert (Hw := IH _ _ _ oe ne Hr ltac:(lia) ltac:(lia)).
      destruct x as [o n l|o l n|o n l|]; cbn [OpOk op_old_len op_new_len] in *.
      + destruct Hx as (-> & -> & Hseg). constructor; assumption.
      + destruct Hx as (-> & Hd). rewrite Nat.add_0_r in Hw. constructor; [|lia|exact Hw].
        intros Hm. destruct m; cbn [exactb] in Hm; try discriminate. exact Hd.
      + destruct Hx as (-> & Hi). rewrite Nat.add_0_r in Hw. constructor; [|lia|exact Hw].
        intros Hm. destruct m; cbn [exactb] in Hm; try discriminate. exact Hi.
      + contradiction.
  Qed.

  Lemma seg_low_inslow l : forall i j e, Seg Low i j e l -> InsLow e l.
  Proof.
    induction l as [|x r IH]; intros i j e Hs; cbn [Seg InsLow] in *; [exact I|].
    destruct Hs as [Hx Hr]. split; [|eapply IH; exact Hr].
    destruct x; cbn [OpOk ins_ok] in Hx; tauto.
  Qed.
End Walk.

(* ------------------------------------------------------------------ *)
(* the zipper invariant                                                *)
(* ------------------------------------------------------------------ *)

Lemma Forall_rev_iff {A} (P : A -> Prop) l : Forall P (rev l) <-> Forall P l.
Proof.
  split; intros H.
  - rewrite <- (rev_involutive l). apply Forall_rev. exact H.
  - apply Forall_rev. exact H.
Qed.

Definition zlist (z : zipper) : list op := let '(bef, this, aft) := z in rev bef ++ this :: aft.
Definition zthis (z : zipper) : op := let '(_, this, _) := z in this.
Definition zbef (z : zipper) : list op := let '(bef, _, _) := z in bef.
Definition zaft (z : zipper) : list op := let '(_, _, aft) := z in aft.
Definition zof (r : step_result) : zipper := match r with Continue z | Break z => z end.

Section Zipper.
  Variable cmp : cmpf.
  Variable repair : bool.
  Variables os oe ns ne b : nat.

  (* a complete valid script for old[os..oe) / new[ns..ne) *)
  Definition Valid (m : mode) (l : list op) : Prop :=
    Seg cmp m os ns b l /\ os + otot l = oe /\ ns + ntot l = ne.

  Definition LInv (m : mode) (D I : nat) (l : list op) : Prop :=
    Valid m l /\ Forall NonEmptyOp l /\ dtot l = D /\ itot l = I.

  Definition ZInv (m : mode) (D I : nat) (z : zipper) : Prop := LInv m D I (zlist z).

  Definition RSeg (m : mode) (bef : list op) : Prop := Seg cmp m os ns b (rev bef).

  Lemma RSeg_nil m : RSeg m [] <-> True.
  Proof. unfold RSeg. cbn [rev Seg]. tauto. Qed.

  Lemma RSeg_cons m x r :
    RSeg m (x :: r) <-> RSeg m r /\ OpOk cmp m (os + otot r) (ns + ntot r) (b + etot r) x.
  Proof.
    unfold RSeg. cbn [rev]. rewrite Seg_app. cbn [Seg]. rewrite otot_rev, ntot_rev, etot_rev. tauto.
  Qed.

  (* component form of the invariant *)
  Definition ZC (m : mode) (D I : nat) (bef : list op) (this : op) (aft : list op) : Prop :=
    RSeg m bef /\
    OpOk cmp m (os + otot bef) (ns + ntot bef) (b + etot bef) this /\
    Seg cmp m (os + otot bef + op_old_len this) (ns + ntot bef + op_new_len this)
        (b + etot bef + elen this) aft /\
    os + otot bef + op_old_len this + otot aft = oe /\
    ns + ntot bef + op_new_len this + ntot aft = ne /\
    Forall NonEmptyOp bef /\ NonEmptyOp this /\ Forall NonEmptyOp aft /\
    dtot bef + dlen this + dtot aft = D /\
    itot bef + ilen this + itot aft = I.

  Lemma ZInv_iff m D I bef this aft : ZInv m D I (bef, this, aft) <-> ZC m D I bef this aft.
  Proof.
    unfold ZInv, LInv, Valid, ZC, RSeg. cbn [zlist].
    rewrite Seg_app, otot_app, ntot_app, dtot_app, itot_app, Forall_app, Forall_rev_iff, Forall_cons_iff.
    cbn [Seg otot ntot dtot itot]. rewrite otot_rev, ntot_rev, etot_rev, dtot_rev, itot_rev.
    rewrite !Nat.add_assoc. tauto.
  Qed.
  Goal forall o n l bef' io inn il aft r, up_step cmp repair (Equal o n l :: bef', Insert io inn il, aft) = Ok r -> False.
  Proof.
    intros. cbn [up_step op_tag op_old_start op_old_end op_new_start op_new_end op_old_len op_new_len] in H.
    Show.
  Abort.
  Goal forall o n l bef' io inn il aft r, up_step cmp repair (Delete o n l :: bef', Insert io inn il, aft) = Ok r -> False.
  Proof.
    intros. cbn [up_step op_tag op_old_start op_old_end op_new_start op_new_end op_old_len op_new_len] in H.
    Show.
  Abort.
End Zipper.
