(* Proofs/Compact.v — properties C10 / C11 (compaction part):
   cleanup_diff_ops preserves meaning and cost of any valid script.

   Method.  A script is checked by a cursor walk; here the walk is written
   with a COMPUTED cursor (start + total lengths of the ops before), so no
   existential cursors appear:  [Seg m i j e ops].  [m] is the mode:
     Loose : carried indices ignored               (= OpsWalk false)
     Exact : carried indices equal the cursor      (= OpsWalk true)
     Low   : an Insert's carried old index is at least e = b + (total length
             of the Equal ops before it)  -- the invariant on stale indices
             that makes the [shift_left] subtraction safe when repair = false.
   The zipper (bef, this, aft) stands for the list rev bef ++ this :: aft and
   the invariant of all loops is simply "that list is a valid script with the
   same deleted / inserted totals and no empty op". *)
From Similar Require Import Model.Base Model.Utils Model.Myers Model.Hooks Model.Compact
     Spec.Script Proofs.Utils.

(* ------------------------------------------------------------------ *)
(* generic bookkeeping                                                 *)
(* ------------------------------------------------------------------ *)

Lemma sub_chk_inv a c r : sub_chk a c = Ok r -> c <= a /\ r = a - c.
Proof.
  unfold sub_chk. destruct (c <=? a) eqn:E; [|discriminate].
  intros H. injection H as <-. apply Nat.leb_le in E. split; [exact E|reflexivity].
Qed.

Lemma sub_chk_le a c : c <= a -> sub_chk a c = Ok (a - c).
Proof. intros H. unfold sub_chk. apply Nat.leb_le in H. rewrite H. reflexivity. Qed.

Lemma bind_ok_inv {A B} (m : res A) (f : A -> res B) r :
  bind m f = Ok r -> exists a, m = Ok a /\ f a = Ok r.
Proof. destruct m as [a| |]; cbn [bind]; intros H; try discriminate. exists a. split; [reflexivity|exact H]. Qed.

Definition NoRep (x : op) : Prop := op_tag x <> TReplace.

Definition elen (x : op) : nat := match x with Equal _ _ l => l | _ => 0 end.
Definition dlen (x : op) : nat := match x with Equal _ _ _ => 0 | _ => op_old_len x end.
Definition ilen (x : op) : nat := match x with Equal _ _ _ => 0 | _ => op_new_len x end.

Fixpoint otot (l : list op) : nat := match l with [] => 0 | x :: r => op_old_len x + otot r end.
Fixpoint ntot (l : list op) : nat := match l with [] => 0 | x :: r => op_new_len x + ntot r end.
Fixpoint etot (l : list op) : nat := match l with [] => 0 | x :: r => elen x + etot r end.
Fixpoint dtot (l : list op) : nat := match l with [] => 0 | x :: r => dlen x + dtot r end.
Fixpoint itot (l : list op) : nat := match l with [] => 0 | x :: r => ilen x + itot r end.

Lemma deleted_dtot l : deleted l = dtot l.
Proof. induction l as [|x r IH]; [reflexivity|]. cbn [dtot]. rewrite <- IH. destruct x; reflexivity. Qed.
Lemma inserted_itot l : inserted l = itot l.
Proof. induction l as [|x r IH]; [reflexivity|]. cbn [itot]. rewrite <- IH. destruct x; reflexivity. Qed.
Lemma equal_total_etot l : equal_total l = etot l.
Proof. induction l as [|x r IH]; [reflexivity|]. cbn [etot]. rewrite <- IH. destruct x; reflexivity. Qed.

Lemma otot_app a c : otot (a ++ c) = otot a + otot c.
Proof. induction a as [|x a IH]; cbn [app otot]; [reflexivity|rewrite IH; lia]. Qed.
Lemma ntot_app a c : ntot (a ++ c) = ntot a + ntot c.
Proof. induction a as [|x a IH]; cbn [app ntot]; [reflexivity|rewrite IH; lia]. Qed.
Lemma etot_app a c : etot (a ++ c) = etot a + etot c.
Proof. induction a as [|x a IH]; cbn [app etot]; [reflexivity|rewrite IH; lia]. Qed.
Lemma dtot_app a c : dtot (a ++ c) = dtot a + dtot c.
Proof. induction a as [|x a IH]; cbn [app dtot]; [reflexivity|rewrite IH; lia]. Qed.
Lemma itot_app a c : itot (a ++ c) = itot a + itot c.
Proof. induction a as [|x a IH]; cbn [app itot]; [reflexivity|rewrite IH; lia]. Qed.

Lemma otot_rev a : otot (rev a) = otot a.
Proof. induction a as [|x a IH]; [reflexivity|]. cbn [rev]. rewrite otot_app, IH. cbn [otot]. lia. Qed.
Lemma ntot_rev a : ntot (rev a) = ntot a.
Proof. induction a as [|x a IH]; [reflexivity|]. cbn [rev]. rewrite ntot_app, IH. cbn [ntot]. lia. Qed.
Lemma etot_rev a : etot (rev a) = etot a.
Proof. induction a as [|x a IH]; [reflexivity|]. cbn [rev]. rewrite etot_app, IH. cbn [etot]. lia. Qed.
Lemma dtot_rev a : dtot (rev a) = dtot a.
Proof. induction a as [|x a IH]; [reflexivity|]. cbn [rev]. rewrite dtot_app, IH. cbn [dtot]. lia. Qed.
Lemma itot_rev a : itot (rev a) = itot a.
Proof. induction a as [|x a IH]; [reflexivity|]. cbn [rev]. rewrite itot_app, IH. cbn [itot]. lia. Qed.

(* every old item is either kept or deleted; every new item kept or inserted *)
Lemma otot_split l : otot l = etot l + dtot l.
Proof.
  induction l as [|x r IH]; [reflexivity|]. cbn [otot etot dtot]. rewrite IH.
  destruct x; cbn [op_old_len elen dlen]; lia.
Qed.
Lemma ntot_split l : ntot l = etot l + itot l.
Proof.
  induction l as [|x r IH]; [reflexivity|]. cbn [ntot etot itot]. rewrite IH.
  destruct x; cbn [op_new_len elen ilen]; lia.
Qed.

Lemma empty_op_false x : NoRep x -> op_is_empty x = false -> NonEmptyOp x.
Proof.
  unfold op_is_empty. intros Hx H. apply Bool.andb_false_iff in H.
  destruct x; cbn [op_old_len op_new_len NonEmptyOp] in *.
  - destruct H as [H|H]; apply Nat.eqb_neq in H; lia.
  - destruct H as [H|H]; apply Nat.eqb_neq in H; lia.
  - destruct H as [H|H]; apply Nat.eqb_neq in H; lia.
  - exfalso; apply Hx; reflexivity.
Qed.

Lemma empty_op_true x : op_is_empty x = true -> op_old_len x = 0 /\ op_new_len x = 0.
Proof.
  unfold op_is_empty. intros H. apply Bool.andb_true_iff in H. destruct H as [H1 H2].
  apply Nat.eqb_eq in H1. apply Nat.eqb_eq in H2. split; assumption.
Qed.

Lemma nonempty_not_empty x : NonEmptyOp x -> op_is_empty x = false.
Proof.
  unfold op_is_empty. destruct x; cbn [op_old_len op_new_len NonEmptyOp]; intros H;
    apply Bool.andb_false_iff.
  - left. apply Nat.eqb_neq. lia.
  - left. apply Nat.eqb_neq. lia.
  - right. apply Nat.eqb_neq. lia.
  - left. apply Nat.eqb_neq. lia.
Qed.

(* ------------------------------------------------------------------ *)
(* modes and the computed-cursor walk                                  *)
(* ------------------------------------------------------------------ *)

Inductive mode : Type := Loose | Exact | Low.

Definition exactb (m : mode) : bool := match m with Exact => true | _ => false end.

Definition ins_ok (m : mode) (i e o : nat) : Prop :=
  match m with Loose => True | Exact => o = i | Low => e <= o end.
Definition del_ok (m : mode) (j n : nat) : Prop :=
  match m with Exact => n = j | _ => True end.

(* the stale-index invariant, stated on its own: every Insert's carried old
   index is at least [e] plus the total length of the Equal ops before it *)
Fixpoint InsLow (e : nat) (l : list op) : Prop :=
  match l with
  | [] => True
  | x :: r => match x with Insert o _ _ => e <= o | _ => True end /\ InsLow (e + elen x) r
  end.

Section Walk.
  Variable cmp : cmpf.

  Lemma SegEq_ext o n l o' n' l' :
    o = o' -> n = n' -> l = l' -> SegEq cmp o n l -> SegEq cmp o' n' l'.
  Proof. intros -> -> ->. exact (fun H => H). Qed.

  Lemma SegEq_sub o n l : SegEq cmp o n l ->
    forall o' n' l' k, o' = o + k -> n' = n + k -> k + l' <= l -> SegEq cmp o' n' l'.
  Proof.
    intros H o' n' l' k -> -> Hk t Ht.
    replace (o + k + t) with (o + (k + t)) by lia. replace (n + k + t) with (n + (k + t)) by lia.
    apply H. lia.
  Qed.

  Lemma SegEq_join o1 n1 l1 o2 n2 l2 :
    SegEq cmp o1 n1 l1 -> SegEq cmp o2 n2 l2 -> o2 = o1 + l1 -> n2 = n1 + l1 ->
    forall o n l, o = o1 -> n = n1 -> l = l1 + l2 -> SegEq cmp o n l.
  Proof. intros H1 H2 -> -> o n l -> -> ->. apply SegEq_app; assumption. Qed.

  Definition OpOk (m : mode) (i j e : nat) (x : op) : Prop :=
    match x with
    | Equal o n l => o = i /\ n = j /\ SegEq cmp i j l
    | Delete o _ n => o = i /\ del_ok m j n
    | Insert o n _ => n = j /\ ins_ok m i e o
    | Replace _ _ _ _ => False
    end.

  Fixpoint Seg (m : mode) (i j e : nat) (l : list op) : Prop :=
    match l with
    | [] => True
    | x :: r => OpOk m i j e x /\ Seg m (i + op_old_len x) (j + op_new_len x) (e + elen x) r
    end.

  Lemma OpOk_ext m i j e i' j' e' x :
    i = i' -> j = j' -> e = e' -> OpOk m i j e x -> OpOk m i' j' e' x.
  Proof. intros -> -> ->. exact (fun H => H). Qed.

  Lemma Seg_ext m i j e i' j' e' l :
    i = i' -> j = j' -> e = e' -> Seg m i j e l -> Seg m i' j' e' l.
  Proof. intros -> -> ->. exact (fun H => H). Qed.

  Lemma Seg_app m a : forall i j e c,
    Seg m i j e (a ++ c) <->
    Seg m i j e a /\ Seg m (i + otot a) (j + ntot a) (e + etot a) c.
  Proof.
    induction a as [|x a IH]; intros i j e c; cbn [app Seg otot ntot etot].
    - rewrite !Nat.add_0_r. tauto.
    - rewrite IH. rewrite !Nat.add_assoc. tauto.
  Qed.

  Lemma Seg_NoRep m l : forall i j e, Seg m i j e l -> Forall NoRep l.
  Proof.
    induction l as [|x r IH]; intros i j e H; [constructor|]. cbn [Seg] in H. destruct H as [Hx Hr].
    constructor; [|eapply IH; exact Hr]. destruct x; cbn [OpOk] in Hx; try discriminate. contradiction.
  Qed.

  (* ---- relation with Spec.Script.OpsWalk ---- *)
  Lemma walk_to_seg m ex oe ne i j l :
    OpsWalk cmp ex oe ne i j l -> Forall NoRep l ->
    (m = Exact -> ex = true) ->
    forall e, (m = Low -> InsLow e l) ->
    Seg m i j e l /\ i + otot l = oe /\ j + ntot l = ne.
  Proof.
    intros Hw. induction Hw as [|i j l r Hseg Hw IH|i j l n r Hn Hb Hw IH|i j o l r Ho Hb Hw IH|i j ol nl r H1 H2 Hw IH];
      intros Hnr Hex e Hlow.
    - cbn [Seg otot ntot]. repeat split; lia.
    - apply Forall_cons_iff in Hnr. destruct Hnr as [_ Hnr].
      destruct (IH Hnr Hex (e + l)) as (Hs & Ho & Hn).
      { intros Hm. specialize (Hlow Hm). cbn [InsLow elen] in Hlow. tauto. }
      cbn [Seg OpOk otot ntot op_old_len op_new_len elen]. repeat split; auto; lia.
    - apply Forall_cons_iff in Hnr. destruct Hnr as [_ Hnr].
      destruct (IH Hnr Hex e) as (Hs & Ho & Hn').
      { intros Hm. specialize (Hlow Hm). cbn [InsLow elen] in Hlow. rewrite Nat.add_0_r in Hlow. tauto. }
      cbn [Seg OpOk otot ntot op_old_len op_new_len elen]. rewrite !Nat.add_0_r.
      repeat split; auto; try lia. unfold del_ok. destruct m; auto.
    - apply Forall_cons_iff in Hnr. destruct Hnr as [_ Hnr].
      destruct (IH Hnr Hex e) as (Hs & Ho' & Hn).
      { intros Hm. specialize (Hlow Hm). cbn [InsLow elen] in Hlow. rewrite Nat.add_0_r in Hlow. tauto. }
      cbn [Seg OpOk otot ntot op_old_len op_new_len elen]. rewrite !Nat.add_0_r.
      repeat split; auto; try lia. unfold ins_ok. destruct m; auto.
      specialize (Hlow eq_refl). cbn [InsLow] in Hlow. tauto.
    - apply Forall_cons_iff in Hnr. destruct Hnr as [Hx _]. exfalso; apply Hx; reflexivity.
  Qed.

  Lemma seg_to_walk m l : forall i j e oe ne,
    Seg m i j e l -> i + otot l = oe -> j + ntot l = ne ->
    OpsWalk cmp (exactb m) oe ne i j l.
  Proof.
    induction l as [|x r IH]; intros i j e oe ne Hs Ho Hn.
    - cbn [otot ntot] in *. rewrite Nat.add_0_r in *. subst. constructor.
    - cbn [Seg otot ntot] in *. destruct Hs as [Hx Hr].
      assert (Hw := IH _ _ _ oe ne Hr ltac:(lia) ltac:(lia)).
      destruct x as [o n l|o l n|o n l|]; cbn [OpOk op_old_len op_new_len] in *.
      + destruct Hx as (-> & -> & Hseg). constructor; assumption.
      + destruct Hx as (-> & Hd). rewrite Nat.add_0_r in Hw. constructor; [|lia|exact Hw].
        intros Hm. destruct m; cbn [exactb] in Hm; try discriminate. exact Hd.
      + destruct Hx as (-> & Hi). rewrite Nat.add_0_r in Hw. constructor; [|lia|exact Hw].
        intros Hm. destruct m; cbn [exactb] in Hm; try discriminate. exact Hi.
      + contradiction.
  Qed.

  Lemma seg_low_inslow l : forall i j e, Seg Low i j e l -> InsLow e l.
  Proof.
    induction l as [|x r IH]; intros i j e Hs; cbn [Seg InsLow] in *; [exact I|].
    destruct Hs as [Hx Hr]. split; [|eapply IH; exact Hr].
    destruct x; cbn [OpOk ins_ok] in Hx; tauto.
  Qed.
End Walk.

(* ------------------------------------------------------------------ *)
(* the zipper invariant                                                *)
(* ------------------------------------------------------------------ *)

Lemma Forall_rev_iff {A} (P : A -> Prop) l : Forall P (rev l) <-> Forall P l.
Proof.
  split; intros H.
  - rewrite <- (rev_involutive l). apply Forall_rev. exact H.
  - apply Forall_rev. exact H.
Qed.

Definition zlist (z : zipper) : list op := let '(bef, this, aft) := z in rev bef ++ this :: aft.
Definition zthis (z : zipper) : op := let '(_, this, _) := z in this.
Definition zbef (z : zipper) : list op := let '(bef, _, _) := z in bef.
Definition zaft (z : zipper) : list op := let '(_, _, aft) := z in aft.
Definition zof (r : step_result) : zipper := match r with Continue z | Break z => z end.

Section Zipper.
  Variable cmp : cmpf.
  Variable repair : bool.
  Variables os oe ns ne b : nat.

  (* a complete valid script for old[os..oe) / new[ns..ne) *)
  Definition Valid (m : mode) (l : list op) : Prop :=
    Seg cmp m os ns b l /\ os + otot l = oe /\ ns + ntot l = ne.

  Definition LInv (m : mode) (D I : nat) (l : list op) : Prop :=
    Valid m l /\ Forall NonEmptyOp l /\ dtot l = D /\ itot l = I.

  Definition ZInv (m : mode) (D I : nat) (z : zipper) : Prop := LInv m D I (zlist z).

  Definition RSeg (m : mode) (bef : list op) : Prop := Seg cmp m os ns b (rev bef).

  Lemma RSeg_nil m : RSeg m [] <-> True.
  Proof. unfold RSeg. cbn [rev Seg]. tauto. Qed.

  Lemma RSeg_cons m x r :
    RSeg m (x :: r) <-> RSeg m r /\ OpOk cmp m (os + otot r) (ns + ntot r) (b + etot r) x.
  Proof.
    unfold RSeg. cbn [rev]. rewrite Seg_app. cbn [Seg]. rewrite otot_rev, ntot_rev, etot_rev. tauto.
  Qed.

  (* component form of the invariant *)
  Definition ZC (m : mode) (D I : nat) (bef : list op) (this : op) (aft : list op) : Prop :=
    RSeg m bef /\
    OpOk cmp m (os + otot bef) (ns + ntot bef) (b + etot bef) this /\
    Seg cmp m (os + otot bef + op_old_len this) (ns + ntot bef + op_new_len this)
        (b + etot bef + elen this) aft /\
    os + otot bef + op_old_len this + otot aft = oe /\
    ns + ntot bef + op_new_len this + ntot aft = ne /\
    Forall NonEmptyOp bef /\ NonEmptyOp this /\ Forall NonEmptyOp aft /\
    dtot bef + dlen this + dtot aft = D /\
    itot bef + ilen this + itot aft = I.

  Lemma ZInv_iff m D I bef this aft : ZInv m D I (bef, this, aft) <-> ZC m D I bef this aft.
  Proof.
    unfold ZInv, LInv, Valid, ZC, RSeg. cbn [zlist].
    rewrite Seg_app, otot_app, ntot_app, dtot_app, itot_app, Forall_app, Forall_rev_iff, Forall_cons_iff.
    cbn [Seg otot ntot dtot itot]. rewrite otot_rev, ntot_rev, etot_rev, dtot_rev, itot_rev.
    rewrite !Nat.add_assoc. tauto.
  Qed.

  (* ---- local rewriting of a valid script ---- *)
  Definition LocalStep (m : mode) (mid mid' : list op) : Prop :=
    (forall i j e, Seg cmp m i j e mid -> Seg cmp m i j e mid') /\
    otot mid' = otot mid /\ ntot mid' = ntot mid /\ etot mid' = etot mid /\
    dtot mid' = dtot mid /\ itot mid' = itot mid /\
    (Forall NonEmptyOp mid -> Forall NonEmptyOp mid').

  Lemma LInv_local m D I pre mid mid' post :
    LocalStep m mid mid' -> LInv m D I (pre ++ mid ++ post) -> LInv m D I (pre ++ mid' ++ post).
  Proof.
    intros (Hseg & Ho & Hn & He & Hd & Hi & Hne) ((Hs & Eo & En) & Hnes & Ed & Ei).
    unfold LInv, Valid.
    rewrite !Seg_app in Hs. rewrite !Seg_app.
    rewrite !otot_app, !ntot_app, !dtot_app, !itot_app, ?etot_app in *.
    rewrite !Forall_app in Hnes. rewrite !Forall_app.
    rewrite Ho, Hn, He, Hd, Hi.
    destruct Hs as (Hs1 & Hs2 & Hs3). destruct Hnes as (N1 & N2 & N3).
    repeat split; auto.
  Qed.

  Definition compat (m : mode) : Prop := (m = Exact -> repair = true) /\ (m = Low -> repair = false).

  Definition swap_pair (a c : op) : op * op := if repair then repair_pair a c else (a, c).

  (* Delete;Insert  ==>  Insert;Delete *)
  Lemma local_swap_DI m dO dl dn io inn il :
    compat m ->
    LocalStep m [Delete dO dl dn; Insert io inn il]
              [fst (swap_pair (Insert io inn il) (Delete dO dl dn));
               snd (swap_pair (Insert io inn il) (Delete dO dl dn))].
  Proof.
    intros [C1 C2]. unfold swap_pair.
    destruct repair; cbn [repair_pair fst snd]; unfold LocalStep;
      cbn [Seg OpOk otot ntot etot dtot itot op_old_len op_new_len elen dlen ilen].
    - split.
      + intros i j e ((-> & Hd) & (-> & Hi) & _).
        destruct m; try (specialize (C2 eq_refl); discriminate);
          cbn [del_ok ins_ok] in *; repeat split; lia.
      + repeat split; try lia. intros H. inversion H as [|x1 r1 N1 H' ]; subst.
        inversion H' as [|x2 r2 N2 _]; subst. repeat constructor; assumption.
    - split.
      + intros i j e ((-> & Hd) & (-> & Hi) & _).
        destruct m; try (specialize (C1 eq_refl); discriminate);
          cbn [del_ok ins_ok] in *; repeat split; lia.
      + repeat split; try lia. intros H. inversion H as [|x1 r1 N1 H' ]; subst.
        inversion H' as [|x2 r2 N2 _]; subst. repeat constructor; assumption.
  Qed.

  (* Insert;Delete  ==>  Delete;Insert *)
  Lemma local_swap_ID m dO dl dn io inn il :
    compat m ->
    LocalStep m [Insert io inn il; Delete dO dl dn]
              [fst (swap_pair (Delete dO dl dn) (Insert io inn il));
               snd (swap_pair (Delete dO dl dn) (Insert io inn il))].
  Proof.
    intros [C1 C2]. unfold swap_pair.
    destruct repair; cbn [repair_pair fst snd]; unfold LocalStep;
      cbn [Seg OpOk otot ntot etot dtot itot op_old_len op_new_len elen dlen ilen].
    - split.
      + intros i j e ((-> & Hi) & (-> & Hd) & _).
        destruct m; try (specialize (C2 eq_refl); discriminate);
          cbn [del_ok ins_ok] in *; repeat split; lia.
      + repeat split; try lia. intros H. inversion H as [|x1 r1 N1 H' ]; subst.
        inversion H' as [|x2 r2 N2 _]; subst. repeat constructor; assumption.
    - split.
      + intros i j e ((-> & Hi) & (-> & Hd) & _).
        destruct m; try (specialize (C1 eq_refl); discriminate);
          cbn [del_ok ins_ok] in *; repeat split; lia.
      + repeat split; try lia. intros H. inversion H as [|x1 r1 N1 H' ]; subst.
        inversion H' as [|x2 r2 N2 _]; subst. repeat constructor; assumption.
  Qed.
  Ltac ne_tac :=
    rewrite ?Forall_cons_iff; cbn [NonEmptyOp];
    intuition (try apply Forall_nil; try lia).

  Ltac segeq_tac :=
    match goal with
    | H : SegEq cmp ?o _ _ |- SegEq cmp ?o' _ _ => apply (SegEq_sub cmp _ _ _ H _ _ _ (o' - o)); lia
    end.

  Lemma local_merge_II m o1 n1 l1 o2 n2 l2 :
    LocalStep m [Insert o1 n1 l1; Insert o2 n2 l2] [Insert o1 n1 (l1 + l2)].
  Proof.
    unfold LocalStep; cbn [Seg OpOk otot ntot etot dtot itot op_old_len op_new_len elen dlen ilen].
    split; [|repeat split; try lia; ne_tac].
    intros i j e ((-> & Hi) & _). auto.
  Qed.

  Lemma local_merge_DD m o1 l1 n1 o2 l2 n2 :
    LocalStep m [Delete o1 l1 n1; Delete o2 l2 n2] [Delete o1 (l1 + l2) n1].
  Proof.
    unfold LocalStep; cbn [Seg OpOk otot ntot etot dtot itot op_old_len op_new_len elen dlen ilen].
    split; [|repeat split; try lia; ne_tac].
    intros i j e ((-> & Hd) & _). auto.
  Qed.

  Lemma local_drop m x : op_is_empty x = true -> LocalStep m [x] [].
  Proof.
    intros He. destruct (empty_op_true _ He) as [Ho Hn].
    unfold LocalStep; cbn [Seg otot ntot etot dtot itot].
    split; [auto|]. destruct x; cbn [op_old_len op_new_len elen dlen ilen] in *;
      repeat split; try lia; intros; constructor.
  Qed.

  Definition push_ne (x : op) (l : list op) : list op := if op_is_empty x then l else x :: l.

  (* Equal(o,n,l); Insert(io,inn,il)  with a common suffix s of the Equal's old
     items and the Insert's new items  ==>
     Equal(o,n,l-s); Insert(io-s,inn-s,il); Equal(o+l-s, inn+il-s, s) *)
  Lemma local_slide_up_new m o n l io inn il s :
    0 < s -> s <= l -> s <= il -> SegEq cmp (o + l - s) (inn + il - s) s ->
    LocalStep m [Equal o n l; Insert io inn il]
              (push_ne (Equal o n (l - s)) [Insert (io - s) (inn - s) il; Equal (o + l - s) (inn + il - s) s]).
  Proof.
    intros Hs Hl Hil Hsuf. unfold push_ne, op_is_empty. cbn [op_old_len op_new_len].
    rewrite Bool.andb_diag.
    destruct (l - s =? 0) eqn:E; [apply Nat.eqb_eq in E|apply Nat.eqb_neq in E];
      unfold LocalStep; cbn [Seg OpOk otot ntot etot dtot itot op_old_len op_new_len elen dlen ilen].
    - split; [|repeat split; try lia; ne_tac].
      intros i j e ((-> & -> & Hseg) & (-> & Hi) & _).
      repeat split; try lia.
      + destruct m; cbn [ins_ok] in *; lia.
      + segeq_tac.
    - split; [|repeat split; try lia; ne_tac].
      intros i j e ((-> & -> & Hseg) & (-> & Hi) & _).
      repeat split; try lia.
      + apply SegEq_prefix with (l := l); [lia|exact Hseg].
      + destruct m; cbn [ins_ok] in *; lia.
      + segeq_tac.
  Qed.
  (* ... and when the Insert is already followed by an Equal, that one grows
     to the left instead *)
  Lemma local_slide_up_grow m o n l io inn il xo xn xl s :
    0 < s -> s <= l -> s <= il -> SegEq cmp (o + l - s) (inn + il - s) s ->
    LocalStep m [Equal o n l; Insert io inn il; Equal xo xn xl]
              (push_ne (Equal o n (l - s)) [Insert (io - s) (inn - s) il; Equal (xo - s) (xn - s) (xl + s)]).
  Proof.
    intros Hs Hl Hil Hsuf. unfold push_ne, op_is_empty. cbn [op_old_len op_new_len].
    rewrite Bool.andb_diag.
    destruct (l - s =? 0) eqn:E; [apply Nat.eqb_eq in E|apply Nat.eqb_neq in E];
      unfold LocalStep; cbn [Seg OpOk otot ntot etot dtot itot op_old_len op_new_len elen dlen ilen].
    - split; [|repeat split; try lia; ne_tac].
      intros i j e ((-> & -> & Hseg) & (-> & Hi) & (-> & -> & Hx) & _).
      repeat split; try lia.
      + destruct m; cbn [ins_ok] in *; lia.
      + apply (SegEq_join cmp _ _ _ _ _ _ Hsuf Hx); lia.
    - split; [|repeat split; try lia; ne_tac].
      intros i j e ((-> & -> & Hseg) & (-> & Hi) & (-> & -> & Hx) & _).
      repeat split; try lia.
      + apply (SegEq_sub cmp _ _ _ Hseg _ _ _ 0); lia.
      + destruct m; cbn [ins_ok] in *; lia.
      + apply (SegEq_join cmp _ _ _ _ _ _ Hsuf Hx); lia.
  Qed.

  (* Insert(io,inn,il); Equal(xo,xn,xl)  with a common prefix p of the Equal's
     old items and the Insert's new items  ==>
     Equal(xo,inn,p); Insert(io+p,inn+p,il); Equal(xo+p,xn+p,xl-p) *)
  Lemma local_slide_down_new m io inn il xo xn xl p :
    0 < p -> p <= xl -> p <= il -> SegEq cmp xo inn p ->
    LocalStep m [Insert io inn il; Equal xo xn xl]
              (Equal xo inn p :: Insert (io + p) (inn + p) il :: push_ne (Equal (xo + p) (xn + p) (xl - p)) []).
  Proof.
    intros Hp Hl Hil Hpre. unfold push_ne, op_is_empty. cbn [op_old_len op_new_len].
    rewrite Bool.andb_diag.
    destruct (xl - p =? 0) eqn:E; [apply Nat.eqb_eq in E|apply Nat.eqb_neq in E];
      unfold LocalStep; cbn [Seg OpOk otot ntot etot dtot itot op_old_len op_new_len elen dlen ilen].
    - split; [|repeat split; try lia; ne_tac].
      intros i j e ((-> & Hi) & (-> & -> & Hx) & _).
      repeat split; try lia.
      + apply (SegEq_sub cmp _ _ _ Hpre _ _ _ 0); lia.
      + destruct m; cbn [ins_ok] in *; lia.
    - split; [|repeat split; try lia; ne_tac].
      intros i j e ((-> & Hi) & (-> & -> & Hx) & _).
      repeat split; try lia.
      + apply (SegEq_sub cmp _ _ _ Hpre _ _ _ 0); lia.
      + destruct m; cbn [ins_ok] in *; lia.
      + apply (SegEq_sub cmp _ _ _ Hx _ _ _ p); lia.
  Qed.

  Lemma local_slide_down_grow m po pn pl io inn il xo xn xl p :
    0 < p -> p <= xl -> p <= il -> SegEq cmp xo inn p ->
    LocalStep m [Equal po pn pl; Insert io inn il; Equal xo xn xl]
              (Equal po pn (pl + p) :: Insert (io + p) (inn + p) il :: push_ne (Equal (xo + p) (xn + p) (xl - p)) []).
  Proof.
    intros Hp Hl Hil Hpre. unfold push_ne, op_is_empty. cbn [op_old_len op_new_len].
    rewrite Bool.andb_diag.
    destruct (xl - p =? 0) eqn:E; [apply Nat.eqb_eq in E|apply Nat.eqb_neq in E];
      unfold LocalStep; cbn [Seg OpOk otot ntot etot dtot itot op_old_len op_new_len elen dlen ilen].
    - split; [|repeat split; try lia; ne_tac].
      intros i j e ((-> & -> & Hq) & (-> & Hi) & (-> & -> & Hx) & _).
      repeat split; try lia.
      + apply (SegEq_join cmp _ _ _ _ _ _ Hq Hpre); lia.
      + destruct m; cbn [ins_ok] in *; lia.
    - split; [|repeat split; try lia; ne_tac].
      intros i j e ((-> & -> & Hq) & (-> & Hi) & (-> & -> & Hx) & _).
      repeat split; try lia.
      + apply (SegEq_join cmp _ _ _ _ _ _ Hq Hpre); lia.
      + destruct m; cbn [ins_ok] in *; lia.
      + apply (SegEq_sub cmp _ _ _ Hx _ _ _ p); lia.
  Qed.
  (* ---- the two step functions in a canonical unfolded form ---- *)
  Definition up_aft1 (X Y s : nat) (aft : list op) : res (list op) :=
    match aft with
    | nx :: aft' =>
        if is_equal_op nx then (do nx' <- grow_left nx s; Ok (nx' :: aft'))
        else do eo <- sub_chk X s; do en <- sub_chk Y s; Ok (Equal eo en s :: aft)
    | [] => do eo <- sub_chk X s; do en <- sub_chk Y s; Ok [Equal eo en s]
    end.

  Lemma up_step_ins_eq o n l bef' io inn il aft :
    up_step cmp repair (Equal o n l :: bef', Insert io inn il, aft) =
    do s <- common_suffix_len cmp o (o + l) inn (inn + il);
    if 0 <? s then
      do aft1 <- up_aft1 (o + l) (inn + il) s aft;
      do io' <- sub_chk io s;
      do inn' <- sub_chk inn s;
      do l' <- sub_chk l s;
      Ok (Continue (push_ne (Equal o n l') bef', Insert io' inn' il, aft1))
    else if op_is_empty (Equal o n l) then Ok (Continue (bef', Insert io inn il, aft))
         else Ok (Break (Equal o n l :: bef', Insert io inn il, aft)).
  Proof.
    cbn [up_step op_tag op_old_start op_new_start]. unfold op_old_end, op_new_end.
    cbn [op_old_start op_new_start op_old_len op_new_len].
    destruct (common_suffix_len cmp o (o + l) inn (inn + il)) as [s| |]; cbn [bind]; try reflexivity.
    destruct (0 <? s); [|reflexivity].
    fold (up_aft1 (o + l) (inn + il) s aft).
    destruct (up_aft1 (o + l) (inn + il) s aft) as [aft1| |]; cbn [bind]; try reflexivity.
    cbn [shift_left shrink_left].
    destruct (sub_chk io s) as [io'| |]; cbn [bind]; try reflexivity.
    destruct (sub_chk inn s) as [inn'| |]; cbn [bind]; try reflexivity.
    destruct (sub_chk l s) as [l'| |]; cbn [bind]; try reflexivity.
    unfold push_ne. destruct (op_is_empty (Equal o n l')); reflexivity.
  Qed.

  (* P3, upward half: a Delete never slides *)
  Lemma suffix_len_empty_new a c d : common_suffix_len cmp a c d (d + 0) = Ok 0.
  Proof.
    unfold common_suffix_len, empty_range. rewrite Nat.add_0_r, Nat.leb_refl, Bool.orb_true_r. reflexivity.
  Qed.
  Lemma prefix_len_empty_new a c d : common_prefix_len cmp a c d (d + 0) = Ok 0.
  Proof.
    unfold common_prefix_len, empty_range. rewrite Nat.add_0_r, Nat.leb_refl, Bool.orb_true_r. reflexivity.
  Qed.

  Lemma up_step_del_eq o n l bef' dO dl dn aft :
    up_step cmp repair (Equal o n l :: bef', Delete dO dl dn, aft) =
    if op_is_empty (Equal o n l) then Ok (Continue (bef', Delete dO dl dn, aft))
    else Ok (Break (Equal o n l :: bef', Delete dO dl dn, aft)).
  Proof.
    cbn [up_step op_tag op_old_start op_new_start]. unfold op_old_end, op_new_end.
    cbn [op_old_start op_new_start op_old_len op_new_len].
    rewrite suffix_len_empty_new. cbn [bind Nat.eqb negb]. reflexivity.
  Qed.

  Definition down_bef1 (X Y p : nat) (bef : list op) : list op :=
    match bef with
    | pv :: bef' => if is_equal_op pv then grow_right pv p :: bef' else Equal X Y p :: bef
    | [] => [Equal X Y p]
    end.

  Lemma down_step_ins_eq bef io inn il xo xn xl aft' :
    down_step cmp repair (bef, Insert io inn il, Equal xo xn xl :: aft') =
    do p <- common_prefix_len cmp xo (xo + xl) inn (inn + il);
    if 0 <? p then
      do l' <- sub_chk xl p;
      Ok (Continue (down_bef1 xo inn p bef, Insert (io + p) (inn + p) il,
                    push_ne (Equal (xo + p) (xn + p) l') aft'))
    else if op_is_empty (Equal xo xn xl) then Ok (Continue (bef, Insert io inn il, aft'))
         else Ok (Break (bef, Insert io inn il, Equal xo xn xl :: aft')).
  Proof.
    cbn [down_step op_tag op_old_start op_new_start]. unfold op_old_end, op_new_end.
    cbn [op_old_start op_new_start op_old_len op_new_len].
    destruct (common_prefix_len cmp xo (xo + xl) inn (inn + il)) as [p| |]; cbn [bind]; try reflexivity.
    destruct (0 <? p); [|reflexivity].
    fold (down_bef1 xo inn p bef). cbn [shift_right shrink_right].
    destruct (sub_chk xl p) as [l'| |]; cbn [bind]; try reflexivity.
    unfold push_ne. destruct (op_is_empty (Equal (xo + p) (xn + p) l')); reflexivity.
  Qed.

  (* P3, downward half *)
  Lemma down_step_del_eq bef dO dl dn xo xn xl aft' :
    down_step cmp repair (bef, Delete dO dl dn, Equal xo xn xl :: aft') =
    if op_is_empty (Equal xo xn xl) then Ok (Continue (bef, Delete dO dl dn, aft'))
    else Ok (Break (bef, Delete dO dl dn, Equal xo xn xl :: aft')).
  Proof.
    cbn [down_step op_tag op_old_start op_new_start]. unfold op_old_end, op_new_end.
    cbn [op_old_start op_new_start op_old_len op_new_len].
    rewrite prefix_len_empty_new. cbn [bind Nat.ltb Nat.leb]. reflexivity.
  Qed.
  (* ---- list shapes of zippers ---- *)
  Lemma zlist_cons x bef' t aft : zlist (x :: bef', t, aft) = rev bef' ++ (x :: [t]) ++ aft.
  Proof. cbn [zlist rev app]. rewrite <- app_assoc. reflexivity. Qed.

  Lemma zlist_push_ne x bef' t mids aft :
    zlist (push_ne x bef', t, mids ++ aft) = rev bef' ++ push_ne x (t :: mids) ++ aft.
  Proof.
    unfold push_ne. destruct (op_is_empty x); cbn [zlist rev app].
    - reflexivity.
    - rewrite <- app_assoc. reflexivity.
  Qed.

  Lemma push_ne_app x l : push_ne x l = push_ne x [] ++ l.
  Proof. unfold push_ne. destruct (op_is_empty x); reflexivity. Qed.

  Lemma up_aft1_inv X Y s aft aft1 :
    up_aft1 X Y s aft = Ok aft1 ->
    (exists xo xn xl aft', aft = Equal xo xn xl :: aft' /\
                           aft1 = Equal (xo - s) (xn - s) (xl + s) :: aft' /\ s <= xo /\ s <= xn) \/
    (aft1 = Equal (X - s) (Y - s) s :: aft /\ s <= X /\ s <= Y).
  Proof.
    unfold up_aft1. intros H.
    assert (Hnew : (do eo <- sub_chk X s; do en <- sub_chk Y s; Ok (Equal eo en s :: aft)) = Ok aft1 ->
                   aft1 = Equal (X - s) (Y - s) s :: aft /\ s <= X /\ s <= Y).
    { intros H'. apply bind_ok_inv in H'. destruct H' as (eo & He & H').
      apply bind_ok_inv in H'. destruct H' as (en & Hn & H').
      apply sub_chk_inv in He. apply sub_chk_inv in Hn. destruct He as [? ->]. destruct Hn as [? ->].
      injection H' as <-. auto. }
    destruct aft as [|nx aft']; [right; apply Hnew; exact H|].
    destruct nx as [xo xn xl| | |]; cbn [is_equal_op] in H; try (right; apply Hnew; exact H).
    left. cbn [grow_left] in H.
    apply bind_ok_inv in H. destruct H as (nx' & H1 & H). injection H as <-.
    apply bind_ok_inv in H1. destruct H1 as (xo' & Ho & H1).
    apply bind_ok_inv in H1. destruct H1 as (xn' & Hn & H1). injection H1 as <-.
    apply sub_chk_inv in Ho. apply sub_chk_inv in Hn. destruct Ho as [? ->]. destruct Hn as [? ->].
    exists xo, xn, xl, aft'. auto.
  Qed.

  Lemma ZInv_Replace_this m D I bef o ol n nl aft : ~ ZInv m D I (bef, Replace o ol n nl, aft).
  Proof. intros H. apply ZInv_iff in H. destruct H as (_ & H & _). exact H. Qed.

  Lemma ZInv_Replace_prev m D I bef o ol n nl t aft : ~ ZInv m D I (Replace o ol n nl :: bef, t, aft).
  Proof. intros H. apply ZInv_iff in H. destruct H as (H & _). apply RSeg_cons in H. destruct H as [_ H]. exact H. Qed.

  Lemma ZInv_Replace_next m D I bef o ol n nl t aft : ~ ZInv m D I (bef, t, Replace o ol n nl :: aft).
  Proof. intros H. apply ZInv_iff in H. destruct H as (_ & _ & H & _). cbn [Seg OpOk] in H. tauto. Qed.

  Lemma ZInv_prev_nonempty m D I x bef t aft : ZInv m D I (x :: bef, t, aft) -> op_is_empty x = false.
  Proof.
    intros H. apply ZInv_iff in H. destruct H as (_ & _ & _ & _ & _ & H & _).
    apply Forall_cons_iff in H. apply nonempty_not_empty. tauto.
  Qed.

  Lemma ZInv_next_nonempty m D I x bef t aft : ZInv m D I (bef, t, x :: aft) -> op_is_empty x = false.
  Proof.
    intros H. apply ZInv_iff in H. destruct H as (_ & _ & _ & _ & _ & _ & _ & H & _).
    apply Forall_cons_iff in H. apply nonempty_not_empty. tauto.
  Qed.

  (* ---- up_step preserves the invariant ---- *)
  Lemma up_step_inv m D I z r :
    compat m -> ZInv m D I z -> up_step cmp repair z = Ok r -> ZInv m D I (zof r).
  Proof.
    intros Hc Hz Hstep. destruct z as [[bef this] aft].
    destruct bef as [|prev bef']; [cbn [up_step] in Hstep; injection Hstep as <-; exact Hz|].
    destruct this as [to tn tl|to tl tn|to tn tl|to tol tn tnl];
      [cbn [up_step op_tag] in Hstep; discriminate| | |exfalso; eapply ZInv_Replace_this; exact Hz];
      (destruct prev as [po pn pl|po pl pn|po pn pl|po pol pn pnl];
       [| | |exfalso; eapply ZInv_Replace_prev; exact Hz]).
    - (* Delete / Equal: never slides *)
      rewrite up_step_del_eq in Hstep. rewrite (ZInv_prev_nonempty _ _ _ _ _ _ _ Hz) in Hstep.
      injection Hstep as <-. exact Hz.
    - (* Delete / Delete: merge *)
      cbn [up_step op_tag grow_right op_old_len] in Hstep. injection Hstep as <-. cbn [zof].
      unfold ZInv in *. rewrite zlist_cons in Hz.
      change (zlist (bef', Delete po (pl + tl) pn, aft)) with (rev bef' ++ [Delete po (pl + tl) pn] ++ aft).
      eapply LInv_local; [apply local_merge_DD|exact Hz].
    - (* Delete / Insert: swap *)
      cbn [up_step op_tag] in Hstep.
      fold (swap_pair (Delete to tl tn) (Insert po pn pl)) in Hstep.
      destruct (swap_pair (Delete to tl tn) (Insert po pn pl)) as [this1 prev1] eqn:Esw.
      injection Hstep as <-. cbn [zof].
      unfold ZInv in *. rewrite zlist_cons in Hz.
      change (zlist (bef', this1, prev1 :: aft)) with (rev bef' ++ [this1; prev1] ++ aft).
      replace this1 with (fst (swap_pair (Delete to tl tn) (Insert po pn pl))) by (rewrite Esw; reflexivity).
      replace prev1 with (snd (swap_pair (Delete to tl tn) (Insert po pn pl))) by (rewrite Esw; reflexivity).
      eapply LInv_local; [apply local_swap_ID; exact Hc|exact Hz].
    - (* Insert / Equal: slide *)
      rewrite up_step_ins_eq in Hstep.
      apply bind_ok_inv in Hstep. destruct Hstep as (s & Hs & Hstep).
      apply common_suffix_len_spec in Hs. destruct Hs as (Hs1 & Hs2 & Hsuf & _).
      destruct (0 <? s) eqn:E0.
      + apply Nat.ltb_lt in E0.
        apply bind_ok_inv in Hstep. destruct Hstep as (aft1 & Haft1 & Hstep).
        apply bind_ok_inv in Hstep. destruct Hstep as (io' & Hio & Hstep).
        apply bind_ok_inv in Hstep. destruct Hstep as (inn' & Hinn & Hstep).
        apply bind_ok_inv in Hstep. destruct Hstep as (l' & Hl & Hstep).
        apply sub_chk_inv in Hio. apply sub_chk_inv in Hinn. apply sub_chk_inv in Hl.
        destruct Hio as [_ ->]. destruct Hinn as [_ ->]. destruct Hl as [_ ->].
        injection Hstep as <-. cbn [zof].
        unfold ZInv in *. rewrite zlist_cons in Hz.
        apply up_aft1_inv in Haft1.
        destruct Haft1 as [(xo & xn & xl & aft' & -> & -> & _)|(-> & _)].
        * change (Equal (xo - s) (xn - s) (xl + s) :: aft') with ([Equal (xo - s) (xn - s) (xl + s)] ++ aft').
          rewrite zlist_push_ne.
          change ((Equal po pn pl :: [Insert to tn tl]) ++ Equal xo xn xl :: aft')
            with ([Equal po pn pl; Insert to tn tl; Equal xo xn xl] ++ aft') in Hz.
          eapply LInv_local; [|exact Hz]. apply local_slide_up_grow; try lia. exact Hsuf.
        * change (Equal (po + pl - s) (tn + tl - s) s :: aft) with ([Equal (po + pl - s) (tn + tl - s) s] ++ aft).
          rewrite zlist_push_ne.
          eapply LInv_local; [|exact Hz]. apply local_slide_up_new; try lia. exact Hsuf.
      + rewrite (ZInv_prev_nonempty _ _ _ _ _ _ _ Hz) in Hstep. injection Hstep as <-. exact Hz.
    - (* Insert / Delete: swap *)
      cbn [up_step op_tag] in Hstep.
      fold (swap_pair (Insert to tn tl) (Delete po pl pn)) in Hstep.
      destruct (swap_pair (Insert to tn tl) (Delete po pl pn)) as [this1 prev1] eqn:Esw.
      injection Hstep as <-. cbn [zof].
      unfold ZInv in *. rewrite zlist_cons in Hz.
      change (zlist (bef', this1, prev1 :: aft)) with (rev bef' ++ [this1; prev1] ++ aft).
      replace this1 with (fst (swap_pair (Insert to tn tl) (Delete po pl pn))) by (rewrite Esw; reflexivity).
      replace prev1 with (snd (swap_pair (Insert to tn tl) (Delete po pl pn))) by (rewrite Esw; reflexivity).
      eapply LInv_local; [apply local_swap_DI; exact Hc|exact Hz].
    - (* Insert / Insert: merge *)
      cbn [up_step op_tag grow_right op_new_len] in Hstep. injection Hstep as <-. cbn [zof].
      unfold ZInv in *. rewrite zlist_cons in Hz.
      change (zlist (bef', Insert po pn (pl + tl), aft)) with (rev bef' ++ [Insert po pn (pl + tl)] ++ aft).
      eapply LInv_local; [apply local_merge_II|exact Hz].
  Qed.
  Lemma down_bef1_cases X Y p bef :
    (exists po pn pl bef', bef = Equal po pn pl :: bef' /\
                           down_bef1 X Y p bef = Equal po pn (pl + p) :: bef') \/
    down_bef1 X Y p bef = Equal X Y p :: bef.
  Proof.
    destruct bef as [|pv bef']; [right; reflexivity|].
    destruct pv as [po pn pl| | |]; cbn [down_bef1 is_equal_op grow_right]; try (right; reflexivity).
    left. exists po, pn, pl, bef'. split; reflexivity.
  Qed.

  (* ---- down_step preserves the invariant ---- *)
  Lemma down_step_inv m D I z r :
    compat m -> ZInv m D I z -> down_step cmp repair z = Ok r -> ZInv m D I (zof r).
  Proof.
    intros Hc Hz Hstep. destruct z as [[bef this] aft].
    destruct aft as [|next aft']; [cbn [down_step] in Hstep; injection Hstep as <-; exact Hz|].
    destruct this as [to tn tl|to tl tn|to tn tl|to tol tn tnl];
      [cbn [down_step op_tag] in Hstep; discriminate| | |exfalso; eapply ZInv_Replace_this; exact Hz];
      (destruct next as [xo xn xl|xo xl xn|xo xn xl|xo xol xn xnl];
       [| | |exfalso; eapply ZInv_Replace_next; exact Hz]).
    - (* Delete / Equal: never slides *)
      rewrite down_step_del_eq in Hstep. rewrite (ZInv_next_nonempty _ _ _ _ _ _ _ Hz) in Hstep.
      injection Hstep as <-. exact Hz.
    - (* Delete / Delete: merge *)
      cbn [down_step op_tag grow_right op_old_len] in Hstep. injection Hstep as <-. cbn [zof].
      unfold ZInv in *.
      change (zlist (bef, Delete to tl tn, Delete xo xl xn :: aft'))
        with (rev bef ++ [Delete to tl tn; Delete xo xl xn] ++ aft') in Hz.
      change (zlist (bef, Delete to (tl + xl) tn, aft')) with (rev bef ++ [Delete to (tl + xl) tn] ++ aft').
      eapply LInv_local; [apply local_merge_DD|exact Hz].
    - (* Delete / Insert: swap *)
      cbn [down_step op_tag] in Hstep.
      fold (swap_pair (Insert xo xn xl) (Delete to tl tn)) in Hstep.
      destruct (swap_pair (Insert xo xn xl) (Delete to tl tn)) as [next1 this1] eqn:Esw.
      injection Hstep as <-. cbn [zof].
      unfold ZInv in *. rewrite zlist_cons.
      change (zlist (bef, Delete to tl tn, Insert xo xn xl :: aft'))
        with (rev bef ++ [Delete to tl tn; Insert xo xn xl] ++ aft') in Hz.
      replace next1 with (fst (swap_pair (Insert xo xn xl) (Delete to tl tn))) by (rewrite Esw; reflexivity).
      replace this1 with (snd (swap_pair (Insert xo xn xl) (Delete to tl tn))) by (rewrite Esw; reflexivity).
      eapply LInv_local; [apply local_swap_DI; exact Hc|exact Hz].
    - (* Insert / Equal: slide *)
      rewrite down_step_ins_eq in Hstep.
      apply bind_ok_inv in Hstep. destruct Hstep as (p & Hp & Hstep).
      apply common_prefix_len_spec in Hp. destruct Hp as (Hp1 & Hp2 & Hpre & _).
      destruct (0 <? p) eqn:E0.
      + apply Nat.ltb_lt in E0.
        apply bind_ok_inv in Hstep. destruct Hstep as (l' & Hl & Hstep).
        apply sub_chk_inv in Hl. destruct Hl as [_ ->].
        injection Hstep as <-. cbn [zof].
        unfold ZInv in *. rewrite (push_ne_app _ aft').
        destruct (down_bef1_cases xo tn p bef) as [(po & pn & pl & bef' & -> & ->)| ->].
        * rewrite zlist_cons in Hz. rewrite zlist_cons.
          change ((Equal po pn pl :: [Insert to tn tl]) ++ Equal xo xn xl :: aft')
            with ([Equal po pn pl; Insert to tn tl; Equal xo xn xl] ++ aft') in Hz.
          change ((Equal po pn (pl + p) :: [Insert (to + p) (tn + p) tl]) ++
                  push_ne (Equal (xo + p) (xn + p) (xl - p)) [] ++ aft')
            with ((Equal po pn (pl + p) :: Insert (to + p) (tn + p) tl ::
                   push_ne (Equal (xo + p) (xn + p) (xl - p)) []) ++ aft').
          eapply LInv_local; [|exact Hz]. apply local_slide_down_grow; try lia. exact Hpre.
        * rewrite zlist_cons.
          change (zlist (bef, Insert to tn tl, Equal xo xn xl :: aft'))
            with (rev bef ++ [Insert to tn tl; Equal xo xn xl] ++ aft') in Hz.
          change ((Equal xo tn p :: [Insert (to + p) (tn + p) tl]) ++
                  push_ne (Equal (xo + p) (xn + p) (xl - p)) [] ++ aft')
            with ((Equal xo tn p :: Insert (to + p) (tn + p) tl ::
                   push_ne (Equal (xo + p) (xn + p) (xl - p)) []) ++ aft').
          eapply LInv_local; [|exact Hz]. apply local_slide_down_new; try lia. exact Hpre.
      + rewrite (ZInv_next_nonempty _ _ _ _ _ _ _ Hz) in Hstep. injection Hstep as <-. exact Hz.
    - (* Insert / Delete: swap *)
      cbn [down_step op_tag] in Hstep.
      fold (swap_pair (Delete xo xl xn) (Insert to tn tl)) in Hstep.
      destruct (swap_pair (Delete xo xl xn) (Insert to tn tl)) as [next1 this1] eqn:Esw.
      injection Hstep as <-. cbn [zof].
      unfold ZInv in *. rewrite zlist_cons.
      change (zlist (bef, Insert to tn tl, Delete xo xl xn :: aft'))
        with (rev bef ++ [Insert to tn tl; Delete xo xl xn] ++ aft') in Hz.
      replace next1 with (fst (swap_pair (Delete xo xl xn) (Insert to tn tl))) by (rewrite Esw; reflexivity).
      replace this1 with (snd (swap_pair (Delete xo xl xn) (Insert to tn tl))) by (rewrite Esw; reflexivity).
      eapply LInv_local; [apply local_swap_ID; exact Hc|exact Hz].
    - (* Insert / Insert: merge *)
      cbn [down_step op_tag grow_right op_new_len] in Hstep. injection Hstep as <-. cbn [zof].
      unfold ZInv in *.
      change (zlist (bef, Insert to tn tl, Insert xo xn xl :: aft'))
        with (rev bef ++ [Insert to tn tl; Insert xo xn xl] ++ aft') in Hz.
      change (zlist (bef, Insert to tn (tl + xl), aft')) with (rev bef ++ [Insert to tn (tl + xl)] ++ aft').
      eapply LInv_local; [apply local_merge_II|exact Hz].
  Qed.
  (* ---- lifting to the loops ---- *)
  Lemma run_steps_inv (P : zipper -> Prop) step :
    (forall z r, P z -> step z = Ok r -> P (zof r)) ->
    forall fuel z z', P z -> run_steps step fuel z = Ok z' -> P z'.
  Proof.
    intros Hstep. induction fuel as [|fuel IH]; intros z z' Hz H; cbn [run_steps] in H; [discriminate|].
    apply bind_ok_inv in H. destruct H as (r & Hr & H).
    specialize (Hstep _ _ Hz Hr). destruct r as [z1|z1]; cbn [zof] in Hstep; cbn beta iota in H.
    - eapply IH; [exact Hstep|exact H].
    - injection H as <-. exact Hstep.
  Qed.

  Lemma shift_up_inv m D I z z' :
    compat m -> ZInv m D I z -> shift_up cmp repair z = Ok z' -> ZInv m D I z'.
  Proof.
    intros Hc Hz H. unfold shift_up in H.
    eapply (run_steps_inv (ZInv m D I)); [|exact Hz|exact H].
    intros z0 r Hz0 Hr. eapply up_step_inv; eassumption.
  Qed.

  Lemma shift_down_inv m D I z z' :
    compat m -> ZInv m D I z -> shift_down cmp repair z = Ok z' -> ZInv m D I z'.
  Proof.
    intros Hc Hz H. unfold shift_down in H.
    eapply (run_steps_inv (ZInv m D I)); [|exact Hz|exact H].
    intros z0 r Hz0 Hr. eapply down_step_inv; eassumption.
  Qed.

  Definition tag_match (t : tag) (x : op) : bool :=
    match t, op_tag x with
    | TDelete, TDelete | TInsert, TInsert => true
    | _, _ => false
    end.

  Lemma pass_unfold t fuel bef this aft :
    pass cmp repair t (S fuel) (bef, this, aft) =
    do z1 <- (if tag_match t this
              then (do zu <- shift_up cmp repair (bef, this, aft); shift_down cmp repair zu)
              else Ok (bef, this, aft));
    match zaft z1 with
    | [] => Ok (rev (zthis z1 :: zbef z1))
    | nx :: aft' => pass cmp repair t fuel (zthis z1 :: zbef z1, nx, aft')
    end.
  Proof.
    cbn [pass]. unfold tag_match.
    destruct (if match t with TDelete => match op_tag this with TDelete => true | _ => false end
                            | TInsert => match op_tag this with TInsert => true | _ => false end
                            | _ => false end
              then _ else _) as [[[b1 t1] a1]| |]; reflexivity.
  Qed.

  Lemma zlist_advance bef this nx aft' : zlist (this :: bef, nx, aft') = zlist (bef, this, nx :: aft').
  Proof. cbn [zlist rev]. rewrite <- app_assoc. reflexivity. Qed.

  Lemma zlist_end bef this : rev (this :: bef) = zlist (bef, this, []).
  Proof. reflexivity. Qed.

  Lemma pass_inv m D I t :
    compat m ->
    forall fuel z l', ZInv m D I z -> pass cmp repair t fuel z = Ok l' -> LInv m D I l'.
  Proof.
    intros Hc. induction fuel as [|fuel IH]; intros z l' Hz H; [discriminate|].
    destruct z as [[bef this] aft]. rewrite pass_unfold in H.
    apply bind_ok_inv in H. destruct H as (z1 & Hz1 & H).
    assert (Hinv1 : ZInv m D I z1).
    { destruct (tag_match t this).
      - apply bind_ok_inv in Hz1. destruct Hz1 as (zu & Hu & Hd).
        eapply shift_down_inv; [exact Hc| |exact Hd]. eapply shift_up_inv; eassumption.
      - injection Hz1 as <-. exact Hz. }
    destruct z1 as [[b1 t1] a1]. cbn [zaft zthis zbef] in H.
    destruct a1 as [|nx a1'].
    - injection H as <-. exact Hinv1.
    - eapply IH; [|exact H]. unfold ZInv. rewrite zlist_advance. exact Hinv1.
  Qed.

  Lemma run_pass_inv m D I t l l' :
    compat m -> LInv m D I l -> run_pass cmp repair t l = Ok l' -> LInv m D I l'.
  Proof.
    intros Hc Hl H. destruct l as [|x r]; cbn [run_pass] in H.
    - injection H as <-. exact Hl.
    - eapply pass_inv; [exact Hc| |exact H]. exact Hl.
  Qed.

  Lemma cleanup_inv m D I l l' :
    compat m -> LInv m D I l -> cleanup_diff_ops cmp repair l = Ok l' -> LInv m D I l'.
  Proof.
    intros Hc Hl H. unfold cleanup_diff_ops in H.
    apply bind_ok_inv in H. destruct H as (l1 & H1 & H2).
    eapply run_pass_inv; [exact Hc| |exact H2]. eapply run_pass_inv; eassumption.
  Qed.
  (* ------------------------------------------------------------------ *)
  (* the tag of [this] never changes                                      *)
  (* ------------------------------------------------------------------ *)
  Definition is_di (x : op) : Prop :=
    match x with Delete _ _ _ | Insert _ _ _ => True | _ => False end.

  Lemma swap_pair_tags a c : op_tag (fst (swap_pair a c)) = op_tag a /\ op_tag (snd (swap_pair a c)) = op_tag c.
  Proof.
    unfold swap_pair. destruct repair; [|split; reflexivity].
    destruct a, c; cbn [repair_pair fst snd op_tag]; split; reflexivity.
  Qed.

  Lemma up_step_tag z r : up_step cmp repair z = Ok r -> op_tag (zthis (zof r)) = op_tag (zthis z).
  Proof.
    intros Hstep. destruct z as [[bef this] aft].
    destruct bef as [|prev bef']; [cbn [up_step] in Hstep; injection Hstep as <-; reflexivity|].
    destruct this as [to tn tl|to tl tn|to tn tl|to tol tn tnl];
      try (cbn [up_step op_tag] in Hstep; discriminate);
      (destruct prev as [po pn pl|po pl pn|po pn pl|po pol pn pnl];
       try (cbn [up_step op_tag] in Hstep; discriminate)).
    - rewrite up_step_del_eq in Hstep. destruct (op_is_empty (Equal po pn pl)); injection Hstep as <-; reflexivity.
    - cbn [up_step op_tag grow_right] in Hstep. injection Hstep as <-. reflexivity.
    - cbn [up_step op_tag] in Hstep. fold (swap_pair (Delete to tl tn) (Insert po pn pl)) in Hstep.
      destruct (swap_pair_tags (Delete to tl tn) (Insert po pn pl)) as [T1 _].
      destruct (swap_pair (Delete to tl tn) (Insert po pn pl)) as [this1 prev1].
      injection Hstep as <-. exact T1.
    - rewrite up_step_ins_eq in Hstep.
      apply bind_ok_inv in Hstep. destruct Hstep as (s & _ & Hstep).
      destruct (0 <? s).
      + apply bind_ok_inv in Hstep. destruct Hstep as (aft1 & _ & Hstep).
        apply bind_ok_inv in Hstep. destruct Hstep as (io' & _ & Hstep).
        apply bind_ok_inv in Hstep. destruct Hstep as (inn' & _ & Hstep).
        apply bind_ok_inv in Hstep. destruct Hstep as (l' & _ & Hstep).
        injection Hstep as <-. reflexivity.
      + destruct (op_is_empty (Equal po pn pl)); injection Hstep as <-; reflexivity.
    - cbn [up_step op_tag] in Hstep. fold (swap_pair (Insert to tn tl) (Delete po pl pn)) in Hstep.
      destruct (swap_pair_tags (Insert to tn tl) (Delete po pl pn)) as [T1 _].
      destruct (swap_pair (Insert to tn tl) (Delete po pl pn)) as [this1 prev1].
      injection Hstep as <-. exact T1.
    - cbn [up_step op_tag grow_right] in Hstep. injection Hstep as <-. reflexivity.
  Qed.

  Lemma down_step_tag z r : down_step cmp repair z = Ok r -> op_tag (zthis (zof r)) = op_tag (zthis z).
  Proof.
    intros Hstep. destruct z as [[bef this] aft].
    destruct aft as [|next aft']; [cbn [down_step] in Hstep; injection Hstep as <-; reflexivity|].
    destruct this as [to tn tl|to tl tn|to tn tl|to tol tn tnl];
      try (cbn [down_step op_tag] in Hstep; discriminate);
      (destruct next as [xo xn xl|xo xl xn|xo xn xl|xo xol xn xnl];
       try (cbn [down_step op_tag] in Hstep; discriminate)).
    - rewrite down_step_del_eq in Hstep. destruct (op_is_empty (Equal xo xn xl)); injection Hstep as <-; reflexivity.
    - cbn [down_step op_tag grow_right] in Hstep. injection Hstep as <-. reflexivity.
    - cbn [down_step op_tag] in Hstep. fold (swap_pair (Insert xo xn xl) (Delete to tl tn)) in Hstep.
      destruct (swap_pair_tags (Insert xo xn xl) (Delete to tl tn)) as [_ T2].
      destruct (swap_pair (Insert xo xn xl) (Delete to tl tn)) as [next1 this1].
      injection Hstep as <-. exact T2.
    - rewrite down_step_ins_eq in Hstep.
      apply bind_ok_inv in Hstep. destruct Hstep as (p & _ & Hstep).
      destruct (0 <? p).
      + apply bind_ok_inv in Hstep. destruct Hstep as (l' & _ & Hstep).
        injection Hstep as <-. reflexivity.
      + destruct (op_is_empty (Equal xo xn xl)); injection Hstep as <-; reflexivity.
    - cbn [down_step op_tag] in Hstep. fold (swap_pair (Delete xo xl xn) (Insert to tn tl)) in Hstep.
      destruct (swap_pair_tags (Delete xo xl xn) (Insert to tn tl)) as [_ T2].
      destruct (swap_pair (Delete xo xl xn) (Insert to tn tl)) as [next1 this1].
      injection Hstep as <-. exact T2.
    - cbn [down_step op_tag grow_right] in Hstep. injection Hstep as <-. reflexivity.
  Qed.

  Lemma is_di_tag x y : op_tag x = op_tag y -> is_di y -> is_di x.
  Proof. destruct x, y; cbn [op_tag is_di]; intros H; try discriminate; auto. Qed.
  (* ------------------------------------------------------------------ *)
  (* P4: progress (no Panic)                                              *)
  (* ------------------------------------------------------------------ *)
  Definition cmp_total : Prop :=
    forall i j, os <= i < oe -> ns <= j < ne -> exists bb, cmp i j = Ok bb.

  Lemma up_aft1_ok X Y s aft :
    s <= X -> s <= Y ->
    (forall xo xn xl aft', aft = Equal xo xn xl :: aft' -> s <= xo /\ s <= xn) ->
    exists aft1, up_aft1 X Y s aft = Ok aft1.
  Proof.
    intros HX HY Hnx. unfold up_aft1.
    destruct aft as [|nx aft'].
    - rewrite (sub_chk_le _ _ HX), (sub_chk_le _ _ HY). cbn [bind]. eexists; reflexivity.
    - destruct nx as [xo xn xl| | |]; cbn [is_equal_op];
        try (rewrite (sub_chk_le _ _ HX), (sub_chk_le _ _ HY); cbn [bind]; eexists; reflexivity).
      destruct (Hnx _ _ _ _ eq_refl) as [H1 H2]. cbn [grow_left].
      rewrite (sub_chk_le _ _ H1), (sub_chk_le _ _ H2). cbn [bind]. eexists; reflexivity.
  Qed.

  Lemma up_step_progress m D I z :
    cmp_total -> m <> Loose -> ZInv m D I z -> is_di (zthis z) ->
    exists r, up_step cmp repair z = Ok r.
  Proof.
    intros Htot Hm Hz Hdi. destruct z as [[bef this] aft]. cbn [zthis] in Hdi.
    destruct bef as [|prev bef']; [cbn [up_step]; eexists; reflexivity|].
    destruct this as [to tn tl|to tl tn|to tn tl|to tol tn tnl]; try contradiction;
      (destruct prev as [po pn pl|po pl pn|po pn pl|po pol pn pnl];
       [| | |exfalso; eapply ZInv_Replace_prev; exact Hz]).
    - rewrite up_step_del_eq. destruct (op_is_empty (Equal po pn pl)); eexists; reflexivity.
    - cbn [up_step op_tag]. eexists; reflexivity.
    - cbn [up_step op_tag]. destruct repair; cbn [repair_pair]; eexists; reflexivity.
    - rewrite up_step_ins_eq.
      apply ZInv_iff in Hz. destruct Hz as (Hb & Ht & Ha & Eo & En & _).
      apply RSeg_cons in Hb. destruct Hb as (_ & -> & -> & _).
      cbn [OpOk otot ntot etot op_old_len op_new_len elen] in Ht, Ha, Eo, En.
      destruct Ht as (-> & Hio).
      destruct (common_suffix_len_total cmp (os + otot bef') (os + otot bef' + pl)
                  (ns + (pl + ntot bef')) (ns + (pl + ntot bef') + tl)) as [s Hs].
      { intros i j Hi Hj. apply Htot; lia. }
      rewrite Hs. cbn [bind].
      apply common_suffix_len_spec in Hs. destruct Hs as (Hs1 & Hs2 & _).
      destruct (0 <? s); [|destruct (op_is_empty (Equal _ _ pl)); eexists; reflexivity].
      destruct (up_aft1_ok (os + otot bef' + pl) (ns + (pl + ntot bef') + tl) s aft) as [aft1 Haft1]; try lia.
      { intros xo xn xl aft' ->. cbn [Seg OpOk] in Ha. destruct Ha as ((-> & -> & _) & _). lia. }
      rewrite Haft1. cbn [bind].
      assert (Hto : s <= to) by (destruct m; cbn [ins_ok] in Hio; [contradiction|lia|lia]).
      rewrite (sub_chk_le to s Hto). cbn [bind].
      rewrite (sub_chk_le (ns + (pl + ntot bef')) s) by lia. cbn [bind].
      rewrite (sub_chk_le pl s) by lia. cbn [bind].
      eexists; reflexivity.
    - cbn [up_step op_tag]. destruct repair; cbn [repair_pair]; eexists; reflexivity.
    - cbn [up_step op_tag]. eexists; reflexivity.
  Qed.

  Lemma down_step_progress m D I z :
    cmp_total -> ZInv m D I z -> is_di (zthis z) ->
    exists r, down_step cmp repair z = Ok r.
  Proof.
    intros Htot Hz Hdi. destruct z as [[bef this] aft]. cbn [zthis] in Hdi.
    destruct aft as [|next aft']; [cbn [down_step]; eexists; reflexivity|].
    destruct this as [to tn tl|to tl tn|to tn tl|to tol tn tnl]; try contradiction;
      (destruct next as [xo xn xl|xo xl xn|xo xn xl|xo xol xn xnl];
       [| | |exfalso; eapply ZInv_Replace_next; exact Hz]).
    - rewrite down_step_del_eq. destruct (op_is_empty (Equal xo xn xl)); eexists; reflexivity.
    - cbn [down_step op_tag]. eexists; reflexivity.
    - cbn [down_step op_tag]. destruct repair; cbn [repair_pair]; eexists; reflexivity.
    - rewrite down_step_ins_eq.
      apply ZInv_iff in Hz. destruct Hz as (_ & Ht & Ha & Eo & En & _).
      cbn [Seg OpOk otot ntot etot op_old_len op_new_len elen] in Ht, Ha, Eo, En.
      destruct Ht as (-> & _). destruct Ha as ((-> & -> & _) & _).
      destruct (common_prefix_len_total cmp (os + otot bef + 0) (os + otot bef + 0 + xl)
                  (ns + ntot bef) (ns + ntot bef + tl)) as [p Hp].
      { intros i j Hi Hj. apply Htot; lia. }
      rewrite Hp. cbn [bind].
      apply common_prefix_len_spec in Hp. destruct Hp as (Hp1 & Hp2 & _).
      destruct (0 <? p); [|destruct (op_is_empty (Equal _ _ xl)); eexists; reflexivity].
      rewrite (sub_chk_le xl p) by lia. cbn [bind]. eexists; reflexivity.
    - cbn [down_step op_tag]. destruct repair; cbn [repair_pair]; eexists; reflexivity.
    - cbn [down_step op_tag]. eexists; reflexivity.
  Qed.
  (* ------------------------------------------------------------------ *)
  (* P6 (inner loops): measures                                           *)
  (* ------------------------------------------------------------------ *)
  Lemma ops_weight_cons x l : ops_weight (x :: l) = S (op_old_len x + op_new_len x) + ops_weight l.
  Proof. reflexivity. Qed.

  Lemma ops_weight_push_ne x l : ops_weight (push_ne x l) <= ops_weight (x :: l).
  Proof. unfold push_ne. destruct (op_is_empty x); rewrite ?ops_weight_cons; lia. Qed.

  Lemma up_step_decr z z' :
    up_step cmp repair z = Ok (Continue z') -> ops_weight (zbef z') < ops_weight (zbef z).
  Proof.
    intros Hstep. destruct z as [[bef this] aft]. cbn [zbef].
    destruct bef as [|prev bef']; [cbn [up_step] in Hstep; discriminate|].
    rewrite ops_weight_cons.
    destruct this as [to tn tl|to tl tn|to tn tl|to tol tn tnl];
      try (cbn [up_step op_tag] in Hstep; discriminate);
      (destruct prev as [po pn pl|po pl pn|po pn pl|po pol pn pnl];
       try (cbn [up_step op_tag] in Hstep; discriminate)).
    - rewrite up_step_del_eq in Hstep.
      destruct (op_is_empty (Equal po pn pl)); [|discriminate]. injection Hstep as <-. cbn [zbef]. lia.
    - cbn [up_step op_tag] in Hstep. injection Hstep as <-. cbn [zbef]. lia.
    - cbn [up_step op_tag] in Hstep. fold (swap_pair (Delete to tl tn) (Insert po pn pl)) in Hstep.
      destruct (swap_pair (Delete to tl tn) (Insert po pn pl)) as [this1 prev1].
      injection Hstep as <-. cbn [zbef]. lia.
    - rewrite up_step_ins_eq in Hstep.
      apply bind_ok_inv in Hstep. destruct Hstep as (s & _ & Hstep).
      destruct (0 <? s) eqn:E0.
      + apply Nat.ltb_lt in E0.
        apply bind_ok_inv in Hstep. destruct Hstep as (aft1 & _ & Hstep).
        apply bind_ok_inv in Hstep. destruct Hstep as (io' & _ & Hstep).
        apply bind_ok_inv in Hstep. destruct Hstep as (inn' & _ & Hstep).
        apply bind_ok_inv in Hstep. destruct Hstep as (l' & Hl & Hstep).
        apply sub_chk_inv in Hl. destruct Hl as [Hle ->].
        injection Hstep as <-. cbn [zbef].
        eapply Nat.le_lt_trans; [apply ops_weight_push_ne|].
        rewrite ops_weight_cons. cbn [op_old_len op_new_len]. lia.
      + destruct (op_is_empty (Equal po pn pl)); [|discriminate]. injection Hstep as <-. cbn [zbef]. lia.
    - cbn [up_step op_tag] in Hstep. fold (swap_pair (Insert to tn tl) (Delete po pl pn)) in Hstep.
      destruct (swap_pair (Insert to tn tl) (Delete po pl pn)) as [this1 prev1].
      injection Hstep as <-. cbn [zbef]. lia.
    - cbn [up_step op_tag] in Hstep. injection Hstep as <-. cbn [zbef]. lia.
  Qed.

  Lemma down_step_decr z z' :
    down_step cmp repair z = Ok (Continue z') -> ops_weight (zaft z') < ops_weight (zaft z).
  Proof.
    intros Hstep. destruct z as [[bef this] aft]. cbn [zaft].
    destruct aft as [|next aft']; [cbn [down_step] in Hstep; discriminate|].
    rewrite ops_weight_cons.
    destruct this as [to tn tl|to tl tn|to tn tl|to tol tn tnl];
      try (cbn [down_step op_tag] in Hstep; discriminate);
      (destruct next as [xo xn xl|xo xl xn|xo xn xl|xo xol xn xnl];
       try (cbn [down_step op_tag] in Hstep; discriminate)).
    - rewrite down_step_del_eq in Hstep.
      destruct (op_is_empty (Equal xo xn xl)); [|discriminate]. injection Hstep as <-. cbn [zaft]. lia.
    - cbn [down_step op_tag] in Hstep. injection Hstep as <-. cbn [zaft]. lia.
    - cbn [down_step op_tag] in Hstep. fold (swap_pair (Insert xo xn xl) (Delete to tl tn)) in Hstep.
      destruct (swap_pair (Insert xo xn xl) (Delete to tl tn)) as [next1 this1].
      injection Hstep as <-. cbn [zaft]. lia.
    - rewrite down_step_ins_eq in Hstep.
      apply bind_ok_inv in Hstep. destruct Hstep as (p & _ & Hstep).
      destruct (0 <? p) eqn:E0.
      + apply Nat.ltb_lt in E0.
        apply bind_ok_inv in Hstep. destruct Hstep as (l' & Hl & Hstep).
        apply sub_chk_inv in Hl. destruct Hl as [Hle ->].
        injection Hstep as <-. cbn [zaft].
        eapply Nat.le_lt_trans; [apply ops_weight_push_ne|].
        rewrite ops_weight_cons. cbn [op_old_len op_new_len]. lia.
      + destruct (op_is_empty (Equal xo xn xl)); [|discriminate]. injection Hstep as <-. cbn [zaft]. lia.
    - cbn [down_step op_tag] in Hstep. fold (swap_pair (Delete xo xl xn) (Insert to tn tl)) in Hstep.
      destruct (swap_pair (Delete xo xl xn) (Insert to tn tl)) as [next1 this1].
      injection Hstep as <-. cbn [zaft]. lia.
    - cbn [down_step op_tag] in Hstep. injection Hstep as <-. cbn [zaft]. lia.
  Qed.

  Lemma run_steps_ok (P : zipper -> Prop) step (mu : zipper -> nat) :
    (forall z r, P z -> step z = Ok r -> P (zof r)) ->
    (forall z, P z -> exists r, step z = Ok r) ->
    (forall z z', step z = Ok (Continue z') -> mu z' < mu z) ->
    forall fuel z, P z -> mu z < fuel -> exists z', run_steps step fuel z = Ok z'.
  Proof.
    intros Hpres Hprog Hdecr. induction fuel as [|fuel IH]; intros z Hz Hmu; [lia|].
    cbn [run_steps]. destruct (Hprog z Hz) as [r Hr]. rewrite Hr. cbn [bind].
    assert (Hz1 := Hpres _ _ Hz Hr).
    destruct r as [z1|z1]; cbn [zof] in Hz1.
    - apply IH; [exact Hz1|]. specialize (Hdecr _ _ Hr). lia.
    - eexists; reflexivity.
  Qed.

  Lemma up_weight_lt_fuel z : ops_weight (zbef z) < inner_fuel z.
  Proof. destruct z as [[bef this] aft]. unfold inner_fuel, zipper_weight. cbn [zbef]. lia. Qed.
  Lemma down_weight_lt_fuel z : ops_weight (zaft z) < inner_fuel z.
  Proof. destruct z as [[bef this] aft]. unfold inner_fuel, zipper_weight. cbn [zaft]. lia. Qed.

  (* on valid zippers pointing at a Delete/Insert the inner loops return Ok:
     no Panic and no OutOfFuel *)
  Definition ZGood (m : mode) (D I : nat) (z : zipper) : Prop := ZInv m D I z /\ is_di (zthis z).

  Lemma shift_up_ok m D I z :
    cmp_total -> m <> Loose -> compat m -> ZGood m D I z ->
    exists z', shift_up cmp repair z = Ok z' /\ ZGood m D I z'.
  Proof.
    intros Htot Hm Hc Hz.
    assert (Hpres : forall z r, ZGood m D I z -> up_step cmp repair z = Ok r -> ZGood m D I (zof r)).
    { intros z0 r [Hz0 Hdi] Hr. split; [eapply up_step_inv; eassumption|].
      eapply is_di_tag; [apply up_step_tag; exact Hr|exact Hdi]. }
    destruct (run_steps_ok (ZGood m D I) (up_step cmp repair) (fun z => ops_weight (zbef z)) Hpres)
      with (fuel := inner_fuel z) (z := z) as [z' Hz'].
    - intros z0 [Hz0 Hdi]. eapply up_step_progress; eassumption.
    - intros z0 z1. apply up_step_decr.
    - exact Hz.
    - apply up_weight_lt_fuel.
    - exists z'. split; [exact Hz'|].
      eapply (run_steps_inv (ZGood m D I)); [exact Hpres|exact Hz|exact Hz'].
  Qed.

  Lemma shift_down_ok m D I z :
    cmp_total -> compat m -> ZGood m D I z ->
    exists z', shift_down cmp repair z = Ok z' /\ ZGood m D I z'.
  Proof.
    intros Htot Hc Hz.
    assert (Hpres : forall z r, ZGood m D I z -> down_step cmp repair z = Ok r -> ZGood m D I (zof r)).
    { intros z0 r [Hz0 Hdi] Hr. split; [eapply down_step_inv; eassumption|].
      eapply is_di_tag; [apply down_step_tag; exact Hr|exact Hdi]. }
    destruct (run_steps_ok (ZGood m D I) (down_step cmp repair) (fun z => ops_weight (zaft z)) Hpres)
      with (fuel := inner_fuel z) (z := z) as [z' Hz'].
    - intros z0 [Hz0 Hdi]. eapply down_step_progress; eassumption.
    - intros z0 z1. apply down_step_decr.
    - exact Hz.
    - apply down_weight_lt_fuel.
    - exists z'. split; [exact Hz'|].
      eapply (run_steps_inv (ZGood m D I)); [exact Hpres|exact Hz|exact Hz'].
  Qed.

  Lemma tag_match_di t x : tag_match t x = true -> is_di x.
  Proof. unfold tag_match. destruct t, x; cbn [op_tag is_di]; intros H; try discriminate; exact I. Qed.

  Lemma pass_no_panic m D I t :
    cmp_total -> m <> Loose -> compat m ->
    forall fuel z, ZInv m D I z -> pass cmp repair t fuel z <> Panic.
  Proof.
    intros Htot Hm Hc. induction fuel as [|fuel IH]; intros z Hz; [discriminate|].
    destruct z as [[bef this] aft]. rewrite pass_unfold.
    assert (Hz1 : exists z1, (if tag_match t this
              then (do zu <- shift_up cmp repair (bef, this, aft); shift_down cmp repair zu)
              else Ok (bef, this, aft)) = Ok z1 /\ ZInv m D I z1).
    { destruct (tag_match t this) eqn:Et.
      - destruct (shift_up_ok m D I (bef, this, aft) Htot Hm Hc) as (zu & Hu & Hgu).
        { split; [exact Hz|]. eapply tag_match_di; exact Et. }
        destruct (shift_down_ok m D I zu Htot Hc Hgu) as (zd & Hd & Hgd).
        exists zd. rewrite Hu. cbn [bind]. split; [exact Hd|apply Hgd].
      - exists (bef, this, aft). split; [reflexivity|exact Hz]. }
    destruct Hz1 as (z1 & -> & Hinv1). cbn [bind].
    destruct z1 as [[b1 t1] a1]. cbn [zaft zthis zbef].
    destruct a1 as [|nx a1']; [discriminate|].
    apply IH. unfold ZInv. rewrite zlist_advance. exact Hinv1.
  Qed.

  Lemma run_pass_no_panic m D I t l :
    cmp_total -> m <> Loose -> compat m -> LInv m D I l -> run_pass cmp repair t l <> Panic.
  Proof.
    intros Htot Hm Hc Hl. destruct l as [|x r]; cbn [run_pass]; [discriminate|].
    eapply pass_no_panic; try eassumption.
  Qed.

  Lemma cleanup_no_panic m D I l :
    cmp_total -> m <> Loose -> compat m -> LInv m D I l -> cleanup_diff_ops cmp repair l <> Panic.
  Proof.
    intros Htot Hm Hc Hl. unfold cleanup_diff_ops.
    destruct (run_pass cmp repair TDelete l) as [l1| |] eqn:E1; cbn [bind].
    - eapply run_pass_no_panic; try eassumption. eapply run_pass_inv; eassumption.
    - exfalso. eapply run_pass_no_panic; eassumption.
    - discriminate.
  Qed.
  (* ---- P6, unconditional form: the inner loops never run out of fuel, on
     any zipper whatsoever, provided the comparison itself does not ---- *)
  Definition cmp_no_oof : Prop := forall i j, cmp i j <> OutOfFuel.

  Lemma bind_not_oof {A B} (mm : res A) (f : A -> res B) :
    mm <> OutOfFuel -> (forall a, f a <> OutOfFuel) -> bind mm f <> OutOfFuel.
  Proof. intros Hm Hf. destruct mm as [a| |]; cbn [bind]; [apply Hf|discriminate|exfalso; apply Hm; reflexivity]. Qed.

  Lemma sub_chk_not_oof a c : sub_chk a c <> OutOfFuel.
  Proof. unfold sub_chk. destruct (c <=? a); discriminate. Qed.

  Lemma suffix_from_not_oof : cmp_no_oof -> forall k e1 e2, suffix_from cmp e1 e2 k <> OutOfFuel.
  Proof.
    intros Hc. induction k as [|k IH]; intros e1 e2; cbn [suffix_from]; [discriminate|].
    apply bind_not_oof; [apply Hc|]. intros [|]; [|discriminate].
    apply bind_not_oof; [apply IH|]. intros; discriminate.
  Qed.

  Lemma prefix_from_not_oof : cmp_no_oof -> forall k i j, prefix_from cmp i j k <> OutOfFuel.
  Proof.
    intros Hc. induction k as [|k IH]; intros i j; cbn [prefix_from]; [discriminate|].
    apply bind_not_oof; [apply Hc|]. intros [|]; [|discriminate].
    apply bind_not_oof; [apply IH|]. intros; discriminate.
  Qed.

  Lemma common_suffix_len_not_oof a c d f : cmp_no_oof -> common_suffix_len cmp a c d f <> OutOfFuel.
  Proof.
    intros Hc. unfold common_suffix_len. destruct (empty_range a c || empty_range d f); [discriminate|].
    apply suffix_from_not_oof. exact Hc.
  Qed.

  Lemma common_prefix_len_not_oof a c d f : cmp_no_oof -> common_prefix_len cmp a c d f <> OutOfFuel.
  Proof.
    intros Hc. unfold common_prefix_len. destruct (empty_range a c || empty_range d f); [discriminate|].
    apply prefix_from_not_oof. exact Hc.
  Qed.

  Lemma up_aft1_not_oof X Y s aft : up_aft1 X Y s aft <> OutOfFuel.
  Proof.
    unfold up_aft1.
    assert (Hnew : forall tl, (do eo <- sub_chk X s; do en <- sub_chk Y s; Ok (Equal eo en s :: tl)) <> OutOfFuel).
    { intros tl. apply bind_not_oof; [apply sub_chk_not_oof|]. intros eo.
      apply bind_not_oof; [apply sub_chk_not_oof|]. intros; discriminate. }
    destruct aft as [|nx aft']; [apply Hnew|].
    destruct nx as [xo xn xl| | |]; cbn [is_equal_op]; try apply Hnew.
    cbn [grow_left]. apply bind_not_oof; [|intros; discriminate].
    apply bind_not_oof; [apply sub_chk_not_oof|]. intros xo'.
    apply bind_not_oof; [apply sub_chk_not_oof|]. intros; discriminate.
  Qed.

  Lemma up_step_not_oof z : cmp_no_oof -> up_step cmp repair z <> OutOfFuel.
  Proof.
    intros Hc. destruct z as [[bef this] aft].
    destruct bef as [|prev bef']; [cbn [up_step]; discriminate|].
    destruct this as [to tn tl|to tl tn|to tn tl|to tol tn tnl];
      try (cbn [up_step op_tag]; discriminate);
      (destruct prev as [po pn pl|po pl pn|po pn pl|po pol pn pnl];
       try (cbn [up_step op_tag]; discriminate);
       try (cbn [up_step op_tag]; destruct repair; cbn [repair_pair]; discriminate)).
    - rewrite up_step_del_eq. destruct (op_is_empty (Equal po pn pl)); discriminate.
    - rewrite up_step_ins_eq.
      apply bind_not_oof; [apply common_suffix_len_not_oof; exact Hc|]. intros s.
      destruct (0 <? s); [|destruct (op_is_empty (Equal po pn pl)); discriminate].
      apply bind_not_oof; [apply up_aft1_not_oof|]. intros aft1.
      apply bind_not_oof; [apply sub_chk_not_oof|]. intros io'.
      apply bind_not_oof; [apply sub_chk_not_oof|]. intros inn'.
      apply bind_not_oof; [apply sub_chk_not_oof|]. intros l'. discriminate.
  Qed.

  Lemma down_step_not_oof z : cmp_no_oof -> down_step cmp repair z <> OutOfFuel.
  Proof.
    intros Hc. destruct z as [[bef this] aft].
    destruct aft as [|next aft']; [cbn [down_step]; discriminate|].
    destruct this as [to tn tl|to tl tn|to tn tl|to tol tn tnl];
      try (cbn [down_step op_tag]; discriminate);
      (destruct next as [xo xn xl|xo xl xn|xo xn xl|xo xol xn xnl];
       try (cbn [down_step op_tag]; discriminate);
       try (cbn [down_step op_tag]; destruct repair; cbn [repair_pair]; discriminate)).
    - rewrite down_step_del_eq. destruct (op_is_empty (Equal xo xn xl)); discriminate.
    - rewrite down_step_ins_eq.
      apply bind_not_oof; [apply common_prefix_len_not_oof; exact Hc|]. intros p.
      destruct (0 <? p); [|destruct (op_is_empty (Equal xo xn xl)); discriminate].
      apply bind_not_oof; [apply sub_chk_not_oof|]. intros l'. discriminate.
  Qed.

  Lemma run_steps_not_oof step (mu : zipper -> nat) :
    (forall z, step z <> OutOfFuel) ->
    (forall z z', step z = Ok (Continue z') -> mu z' < mu z) ->
    forall fuel z, mu z < fuel -> run_steps step fuel z <> OutOfFuel.
  Proof.
    intros Hno Hdecr. induction fuel as [|fuel IH]; intros z Hmu; [lia|].
    cbn [run_steps]. destruct (step z) as [r| |] eqn:Er; cbn [bind]; [|discriminate|exfalso; exact (Hno z Er)].
    destruct r as [z1|z1]; [|discriminate].
    apply IH. specialize (Hdecr _ _ Er). lia.
  Qed.

  Lemma shift_up_terminates z : cmp_no_oof -> shift_up cmp repair z <> OutOfFuel.
  Proof.
    intros Hc. unfold shift_up.
    apply (run_steps_not_oof (up_step cmp repair) (fun z => ops_weight (zbef z))).
    - intros z0. apply up_step_not_oof. exact Hc.
    - apply up_step_decr.
    - apply up_weight_lt_fuel.
  Qed.

  Lemma shift_down_terminates z : cmp_no_oof -> shift_down cmp repair z <> OutOfFuel.
  Proof.
    intros Hc. unfold shift_down.
    apply (run_steps_not_oof (down_step cmp repair) (fun z => ops_weight (zaft z))).
    - intros z0. apply down_step_not_oof. exact Hc.
    - apply down_step_decr.
    - apply down_weight_lt_fuel.
  Qed.
  (* ------------------------------------------------------------------ *)
  (* P6 (outer loop)                                                      *)
  (* ------------------------------------------------------------------ *)
  (* Every op that shift_up pushes behind the pointer (a swapped Delete /
     Insert, or an Equal created or grown by a slide) can be passed again on
     the way down: [Pass tg inn P] for the pushed stack P. *)
  Fixpoint Pass (tg : tag) (inn : nat) (P : list op) : Prop :=
    match P with
    | [] => True
    | x :: P' =>
        match tg, x with
        | TInsert, Delete _ _ _ => Pass tg inn P'
        | TInsert, Equal xo _ xl => SegEq cmp xo inn xl /\ Pass tg (inn + xl) P'
        | TDelete, Insert _ _ _ => Pass tg inn P'
        | _, _ => False
        end
    end.

  Lemma Pass_ext tg inn inn' P : inn = inn' -> Pass tg inn P -> Pass tg inn' P.
  Proof. intros ->. exact (fun H => H). Qed.

  Lemma Pass_delete_any inn inn' P : Pass TDelete inn P -> Pass TDelete inn' P.
  Proof.
    revert inn inn'. induction P as [|x P0 IH]; intros inn inn' H; cbn [Pass] in *; [exact I|].
    destruct x; try contradiction. eapply IH; exact H.
  Qed.

  Definition nE (x : op) : nat := match x with Equal _ _ _ => 0 | _ => 1 end.
  Fixpoint netot (l : list op) : nat := match l with [] => 0 | x :: r => nE x + netot r end.
  Definition nonEq (z : zipper) : nat := netot (zbef z) + nE (zthis z) + netot (zaft z).

  Lemma netot_app a c : netot (a ++ c) = netot a + netot c.
  Proof. induction a as [|x a IH]; cbn [app netot]; [reflexivity|rewrite IH; lia]. Qed.
  Lemma netot_le_length l : netot l <= length l.
  Proof. induction l as [|x r IH]; cbn [netot length]; [lia|]. destruct x; cbn [nE]; lia. Qed.
  Lemma netot_push_ne_equal o n l r : netot (push_ne (Equal o n l) r) = netot r.
  Proof. unfold push_ne. destruct (op_is_empty (Equal o n l)); reflexivity. Qed.
  Lemma length_push_ne x r : length (push_ne x r) <= S (length r).
  Proof. unfold push_ne. destruct (op_is_empty x); cbn [length]; lia. Qed.

  Lemma swap_pair_ID_shape io inn il dO dl dn :
    exists io' dn', swap_pair (Insert io inn il) (Delete dO dl dn) = (Insert io' inn il, Delete dO dl dn').
  Proof. unfold swap_pair. destruct repair; cbn [repair_pair]; eexists; eexists; reflexivity. Qed.
  Lemma swap_pair_DI_shape io inn il dO dl dn :
    exists io' dn', swap_pair (Delete dO dl dn) (Insert io inn il) = (Delete dO dl dn', Insert io' inn il).
  Proof. unfold swap_pair. destruct repair; cbn [repair_pair]; eexists; eexists; reflexivity. Qed.

  (* the bookkeeping invariant of one shift_up run started with L ops behind
     the pointer and K non-Equal ops in total *)
  Definition UpInv (K L : nat) (z : zipper) : Prop :=
    exists P rest,
      zaft z = P ++ rest /\
      Pass (op_tag (zthis z)) (op_new_start (zthis z)) P /\
      Forall NonEmptyOp P /\
      nonEq z <= K /\ (nonEq z < K \/ length rest = L).

  Lemma UpInv_reset K L z : nonEq z < K -> UpInv K L z.
  Proof.
    intros H. exists [], (zaft z). cbn [app Pass]. repeat split; auto; lia.
  Qed.

  Lemma up_step_upinv m D I K L z r :
    ZInv m D I z -> UpInv K L z -> up_step cmp repair z = Ok r -> UpInv K L (zof r).
  Proof.
    intros Hz (P & rest & Haft & Hpass & HneP & HK & HL) Hstep.
    destruct z as [[bef this] aft]. cbn [zaft zthis] in Haft, Hpass. subst aft.
    destruct bef as [|prev bef'].
    { cbn [up_step] in Hstep. injection Hstep as <-. exists P, rest. cbn [zof zaft zthis]. auto. }
    destruct this as [to tn tl|to tl tn|to tn tl|to tol tn tnl];
      [cbn [up_step op_tag] in Hstep; discriminate| | |exfalso; eapply ZInv_Replace_this; exact Hz];
      (destruct prev as [po pn pl|po pl pn|po pn pl|po pol pn pnl];
       [| | |exfalso; eapply ZInv_Replace_prev; exact Hz]).
    - (* Delete / Equal *)
      rewrite up_step_del_eq in Hstep. rewrite (ZInv_prev_nonempty _ _ _ _ _ _ _ Hz) in Hstep.
      injection Hstep as <-. exists P, rest. cbn [zof zaft zthis]. auto.
    - (* Delete / Delete: merge *)
      cbn [up_step op_tag grow_right op_old_len] in Hstep. injection Hstep as <-. cbn [zof].
      apply UpInv_reset. unfold nonEq in *. cbn [zbef zthis zaft netot nE] in *. lia.
    - (* Delete / Insert: swap *)
      cbn [up_step op_tag] in Hstep. fold (swap_pair (Delete to tl tn) (Insert po pn pl)) in Hstep.
      destruct (swap_pair_DI_shape po pn pl to tl tn) as (io' & dn' & Esw). rewrite Esw in Hstep.
      injection Hstep as <-. cbn [zof].
      exists (Insert io' pn pl :: P), rest. cbn [zaft zthis op_tag op_new_start app Pass].
      apply ZInv_iff in Hz. destruct Hz as (_ & _ & _ & _ & _ & Nb & _).
      apply Forall_cons_iff in Nb. destruct Nb as [Nprev _].
      cbn [op_tag] in Hpass.
      repeat split; auto;
        try (eapply Pass_delete_any; exact Hpass);
        unfold nonEq in *; cbn [zbef zthis zaft netot nE] in *; lia.
    - (* Insert / Equal: slide *)
      rewrite up_step_ins_eq in Hstep.
      apply bind_ok_inv in Hstep. destruct Hstep as (s & Hs & Hstep).
      apply common_suffix_len_spec in Hs. destruct Hs as (Hs1 & Hs2 & _).
      destruct (0 <? s) eqn:E0.
      2:{ rewrite (ZInv_prev_nonempty _ _ _ _ _ _ _ Hz) in Hstep. injection Hstep as <-.
          exists P, rest. cbn [zof zaft zthis]. auto. }
      apply Nat.ltb_lt in E0.
      apply bind_ok_inv in Hstep. destruct Hstep as (aft1 & Haft1 & Hstep).
      apply bind_ok_inv in Hstep. destruct Hstep as (io' & Hio & Hstep).
      apply bind_ok_inv in Hstep. destruct Hstep as (inn' & Hinn & Hstep).
      apply bind_ok_inv in Hstep. destruct Hstep as (l' & Hl & Hstep).
      apply sub_chk_inv in Hio. apply sub_chk_inv in Hinn. apply sub_chk_inv in Hl.
      destruct Hio as [_ ->]. destruct Hinn as [Hinn ->]. destruct Hl as [_ ->].
      injection Hstep as <-. cbn [zof].
      apply ZInv_iff in Hz. destruct Hz as (Hb & Ht & Ha & _).
      apply RSeg_cons in Hb. destruct Hb as (_ & -> & -> & Hseg).
      cbn [OpOk otot ntot etot op_old_len op_new_len elen] in Ht, Ha.
      destruct Ht as (-> & _).
      cbn [op_tag op_new_start] in Hpass.
      assert (Hsuf : SegEq cmp (os + otot bef' + pl - s) (ns + (pl + ntot bef') - s) s).
      { apply (SegEq_sub cmp _ _ _ Hseg _ _ _ (pl - s)); lia. }
      apply up_aft1_inv in Haft1.
      destruct Haft1 as [(xo & xn & xl & aft' & Hshape & -> & _)|(-> & _)].
      + destruct P as [|x P0]; cbn [app] in Hshape.
        * (* the grown Equal belongs to rest *)
          exists [], (Equal (xo - s) (xn - s) (xl + s) :: aft'). cbn [zaft zthis app Pass].
          subst rest. repeat split; auto;
            unfold nonEq in *; cbn [zbef zthis zaft nE netot app length] in *;
            rewrite netot_push_ne_equal; lia.
        * (* the grown Equal is the top of the pushed stack *)
          injection Hshape as Hx0 Haft'. subst x aft'.
          cbn [app Seg OpOk] in Ha. destruct Ha as ((Hxo & _ & _) & _).
          cbn [Pass] in Hpass. destruct Hpass as [Hx Hp0].
          apply Forall_cons_iff in HneP. destruct HneP as [Nx NP0]. cbn [NonEmptyOp] in Nx.
          exists (Equal (xo - s) (xn - s) (xl + s) :: P0), rest.
          cbn [zaft zthis app op_tag op_new_start Pass].
          repeat split; auto;
            try (apply (SegEq_join cmp _ _ _ _ _ _ Hsuf Hx); lia);
            try (eapply Pass_ext; [|exact Hp0]; lia);
            try (apply Forall_cons_iff; split; [cbn [NonEmptyOp]; lia|exact NP0]);
            unfold nonEq in *; cbn [zbef zthis zaft nE netot app] in *; rewrite netot_push_ne_equal; lia.
      + (* a new Equal is pushed *)
        exists (Equal (os + otot bef' + pl - s) (ns + (pl + ntot bef') + tl - s) s :: P), rest.
        cbn [zaft zthis app op_tag op_new_start Pass].
        repeat split; auto;
          try (eapply Pass_ext; [|exact Hpass]; lia);
          try (apply Forall_cons_iff; split; [cbn [NonEmptyOp]; lia|exact HneP]);
          unfold nonEq in *; cbn [zbef zthis zaft nE netot app] in *; rewrite netot_push_ne_equal; lia.
    - (* Insert / Delete: swap *)
      cbn [up_step op_tag] in Hstep. fold (swap_pair (Insert to tn tl) (Delete po pl pn)) in Hstep.
      destruct (swap_pair_ID_shape to tn tl po pl pn) as (io' & dn' & Esw). rewrite Esw in Hstep.
      injection Hstep as <-. cbn [zof].
      exists (Delete po pl dn' :: P), rest. cbn [zaft zthis op_tag op_new_start app Pass].
      apply ZInv_iff in Hz. destruct Hz as (_ & _ & _ & _ & _ & Nb & _).
      apply Forall_cons_iff in Nb. destruct Nb as [Nprev _].
      cbn [op_tag op_new_start] in Hpass.
      repeat split; auto;
        unfold nonEq in *; cbn [zbef zthis zaft netot nE] in *; lia.
    - (* Insert / Insert: merge *)
      cbn [up_step op_tag grow_right op_new_len] in Hstep. injection Hstep as <-. cbn [zof].
      apply UpInv_reset. unfold nonEq in *. cbn [zbef zthis zaft netot nE] in *. lia.
  Qed.

  Lemma netot_down_bef1 X Y p bef : netot (down_bef1 X Y p bef) = netot bef.
  Proof.
    destruct (down_bef1_cases X Y p bef) as [(po & pn & pl & bef' & -> & ->)| ->]; reflexivity.
  Qed.

  (* a down step never lengthens the part behind the pointer and never
     creates a non-Equal op *)
  Lemma down_step_mono z r :
    down_step cmp repair z = Ok r ->
    length (zaft (zof r)) <= length (zaft z) /\ nonEq (zof r) <= nonEq z.
  Proof.
    intros Hstep. destruct z as [[bef this] aft].
    destruct aft as [|next aft']; [cbn [down_step] in Hstep; injection Hstep as <-; cbn [zof]; lia|].
    destruct this as [to tn tl|to tl tn|to tn tl|to tol tn tnl];
      try (cbn [down_step op_tag] in Hstep; discriminate);
      (destruct next as [xo xn xl|xo xl xn|xo xn xl|xo xol xn xnl];
       try (cbn [down_step op_tag] in Hstep; discriminate)).
    - rewrite down_step_del_eq in Hstep.
      destruct (op_is_empty (Equal xo xn xl)); injection Hstep as <-;
        unfold nonEq; cbn [zof zbef zthis zaft length netot nE]; lia.
    - cbn [down_step op_tag grow_right] in Hstep. injection Hstep as <-.
      unfold nonEq; cbn [zof zbef zthis zaft length netot nE]; lia.
    - cbn [down_step op_tag] in Hstep. fold (swap_pair (Insert xo xn xl) (Delete to tl tn)) in Hstep.
      destruct (swap_pair_ID_shape xo xn xl to tl tn) as (io' & dn' & Esw). rewrite Esw in Hstep.
      injection Hstep as <-. unfold nonEq; cbn [zof zbef zthis zaft length netot nE]; lia.
    - rewrite down_step_ins_eq in Hstep.
      apply bind_ok_inv in Hstep. destruct Hstep as (p & _ & Hstep).
      destruct (0 <? p).
      + apply bind_ok_inv in Hstep. destruct Hstep as (l' & _ & Hstep).
        injection Hstep as <-. unfold nonEq; cbn [zof zbef zthis zaft length netot nE].
        rewrite netot_down_bef1, netot_push_ne_equal.
        assert (Hlen := length_push_ne (Equal (xo + p) (xn + p) l') aft'). lia.
      + destruct (op_is_empty (Equal xo xn xl)); injection Hstep as <-;
          unfold nonEq; cbn [zof zbef zthis zaft length netot nE]; lia.
    - cbn [down_step op_tag] in Hstep. fold (swap_pair (Delete xo xl xn) (Insert to tn tl)) in Hstep.
      destruct (swap_pair_DI_shape to tn tl xo xl xn) as (io' & dn' & Esw). rewrite Esw in Hstep.
      injection Hstep as <-. unfold nonEq; cbn [zof zbef zthis zaft length netot nE]; lia.
    - cbn [down_step op_tag grow_right] in Hstep. injection Hstep as <-.
      unfold nonEq; cbn [zof zbef zthis zaft length netot nE]; lia.
  Qed.

  Lemma down_run_mono fuel z zd :
    run_steps (down_step cmp repair) fuel z = Ok zd ->
    length (zaft zd) <= length (zaft z) /\ nonEq zd <= nonEq z.
  Proof.
    intros H.
    apply (run_steps_inv (fun z' => length (zaft z') <= length (zaft z) /\ nonEq z' <= nonEq z)
             (down_step cmp repair)) with (fuel := fuel) (z := z); [|lia|exact H].
    intros z0 r [H1 H2] Hr. destruct (down_step_mono _ _ Hr) as [H3 H4]. lia.
  Qed.

  (* while the pushed stack is non-empty the down loop continues and consumes it *)
  Lemma down_step_pass bef this x P0 rest r :
    Pass (op_tag this) (op_new_start this) (x :: P0) ->
    Forall NonEmptyOp (x :: P0) -> NonEmptyOp this -> is_di this ->
    down_step cmp repair (bef, this, (x :: P0) ++ rest) = Ok r ->
    exists z' P', r = Continue z' /\ zaft z' = P' ++ rest /\
                  Pass (op_tag (zthis z')) (op_new_start (zthis z')) P' /\
                  Forall NonEmptyOp P' /\ NonEmptyOp (zthis z') /\ is_di (zthis z').
  Proof.
    intros Hpass HneP Hnet Hdi Hstep. cbn [app] in Hstep.
    apply Forall_cons_iff in HneP. destruct HneP as [Nx NP0].
    destruct this as [to tn tl|to tl tn|to tn tl|to tol tn tnl]; try contradiction;
      cbn [op_tag op_new_start Pass] in Hpass; destruct x as [xo xn xl|xo xl xn|xo xn xl|xo xol xn xnl];
      try contradiction.
    - (* Delete this, Insert next: swap *)
      cbn [down_step op_tag] in Hstep. fold (swap_pair (Insert xo xn xl) (Delete to tl tn)) in Hstep.
      destruct (swap_pair_ID_shape xo xn xl to tl tn) as (io' & dn' & Esw). rewrite Esw in Hstep.
      injection Hstep as <-. eexists; exists P0. split; [reflexivity|].
      cbn [zaft zthis op_tag op_new_start is_di NonEmptyOp] in *.
      repeat split; auto. eapply Pass_delete_any; exact Hpass.
    - (* Insert this, Equal next: slide by p > 0 *)
      destruct Hpass as [Hx Hp0]. cbn [NonEmptyOp] in Nx, Hnet.
      rewrite down_step_ins_eq in Hstep.
      apply bind_ok_inv in Hstep. destruct Hstep as (p & Hp & Hstep).
      apply common_prefix_len_spec in Hp. destruct Hp as (Hp1 & Hp2 & _ & Hstop).
      assert (Hpos : 0 < p).
      { destruct p as [|p']; [|lia]. exfalso.
        specialize (Hstop ltac:(lia) ltac:(lia)). specialize (Hx 0 Nx).
        rewrite Hx in Hstop. discriminate. }
      apply Nat.ltb_lt in Hpos. rewrite Hpos in Hstep. apply Nat.ltb_lt in Hpos.
      apply bind_ok_inv in Hstep. destruct Hstep as (l' & Hl & Hstep).
      apply sub_chk_inv in Hl. destruct Hl as [Hle ->].
      injection Hstep as <-. unfold push_ne.
      destruct (op_is_empty (Equal (xo + p) (xn + p) (xl - p))) eqn:Ee.
      + apply empty_op_true in Ee. cbn [op_old_len] in Ee. destruct Ee as [Ee _].
        eexists; exists P0. split; [reflexivity|].
        cbn [zaft zthis op_tag op_new_start is_di NonEmptyOp].
        repeat split; auto. eapply Pass_ext; [|exact Hp0]. lia.
      + apply empty_op_false in Ee; [|discriminate].
        eexists; exists (Equal (xo + p) (xn + p) (xl - p) :: P0). split; [reflexivity|].
        cbn [zaft zthis op_tag op_new_start is_di NonEmptyOp app Pass].
        repeat split; auto.
        * apply (SegEq_sub cmp _ _ _ Hx _ _ _ p); lia.
        * eapply Pass_ext; [|exact Hp0]. cbn [NonEmptyOp] in Ee. lia.
    - (* Insert this, Delete next: swap *)
      cbn [down_step op_tag] in Hstep. fold (swap_pair (Delete xo xl xn) (Insert to tn tl)) in Hstep.
      destruct (swap_pair_DI_shape to tn tl xo xl xn) as (io' & dn' & Esw). rewrite Esw in Hstep.
      injection Hstep as <-. eexists; exists P0. split; [reflexivity|].
      cbn [zaft zthis op_tag op_new_start is_di NonEmptyOp] in *.
      repeat split; auto.
  Qed.

  Lemma down_run_pass : forall fuel z P rest zd,
    zaft z = P ++ rest ->
    Pass (op_tag (zthis z)) (op_new_start (zthis z)) P ->
    Forall NonEmptyOp P -> NonEmptyOp (zthis z) -> is_di (zthis z) ->
    run_steps (down_step cmp repair) fuel z = Ok zd ->
    length (zaft zd) <= length rest.
  Proof.
    induction fuel as [|fuel IH]; intros z P rest zd Haft Hpass HneP Hnet Hdi Hrun; [discriminate|].
    destruct P as [|x P0].
    - cbn [app] in Haft. apply down_run_mono in Hrun. rewrite Haft in Hrun. lia.
    - cbn [run_steps] in Hrun. apply bind_ok_inv in Hrun. destruct Hrun as (r & Hr & Hrun).
      destruct z as [[bef this] aft]. cbn [zaft zthis] in *. subst aft.
      destruct (down_step_pass _ _ _ _ _ _ Hpass HneP Hnet Hdi Hr)
        as (z' & P' & -> & Haft' & Hpass' & HneP' & Hnet' & Hdi').
      eapply IH; eassumption.
  Qed.

  (* one shift_up ; shift_down round: either a merge happened (fewer non-Equal
     ops) or the part behind the pointer did not get longer *)
  Lemma shift_round_measure m D I z zu zd :
    compat m -> ZInv m D I z -> is_di (zthis z) ->
    shift_up cmp repair z = Ok zu -> shift_down cmp repair zu = Ok zd ->
    nonEq zd <= nonEq z /\ (nonEq zd < nonEq z \/ length (zaft zd) <= length (zaft z)).
  Proof.
    intros Hc Hz Hdi Hu Hd.
    assert (Hup : (ZInv m D I zu /\ is_di (zthis zu)) /\ UpInv (nonEq z) (length (zaft z)) zu).
    { unfold shift_up in Hu.
      apply (run_steps_inv (fun z' => (ZInv m D I z' /\ is_di (zthis z')) /\
                                       UpInv (nonEq z) (length (zaft z)) z')
               (up_step cmp repair)) with (fuel := inner_fuel z) (z := z); [| |exact Hu].
      - intros z0 r [[Hz0 Hdi0] Hu0] Hr. split; [split|].
        + eapply up_step_inv; eassumption.
        + eapply is_di_tag; [apply up_step_tag; exact Hr|exact Hdi0].
        + eapply up_step_upinv; eassumption.
      - split; [split; assumption|]. exists [], (zaft z). cbn [app Pass].
        repeat split; auto. }
    destruct Hup as [[Hzu Hdiu] (P & rest & Haft & Hpass & HneP & HK & HL)].
    assert (Hnet : NonEmptyOp (zthis zu)).
    { destruct zu as [[bu tu] au]. apply ZInv_iff in Hzu. cbn [zthis]. apply Hzu. }
    unfold shift_down in Hd.
    assert (H1 := down_run_pass _ _ _ _ _ Haft Hpass HneP Hnet Hdiu Hd).
    destruct (down_run_mono _ _ _ Hd) as [_ H2].
    split; [lia|]. destruct HL as [HL|HL]; [left; lia|right; lia].
  Qed.

  (* ---- the outer loop ---- *)
  Lemma length_le_items l : Forall NonEmptyOp l -> length l <= otot l + ntot l.
  Proof.
    induction 1 as [|x r Hx _ IH]; cbn [length otot ntot]; [lia|].
    destruct x; cbn [NonEmptyOp op_old_len op_new_len] in *; lia.
  Qed.

  Lemma ops_weight_items l : ops_weight l = length l + otot l + ntot l.
  Proof. induction l as [|x r IH]; [reflexivity|]. rewrite ops_weight_cons, IH. cbn [length otot ntot]. lia. Qed.

  Definition items : nat := (oe - os) + (ne - ns).

  Lemma LInv_length m D I l : LInv m D I l -> length l <= items.
  Proof.
    intros ((_ & Ho & Hn) & Hne & _). apply length_le_items in Hne. unfold items. lia.
  Qed.

  Lemma ZInv_bounds m D I z : ZInv m D I z -> length (zaft z) <= items /\ nonEq z <= items.
  Proof.
    intros Hz. apply LInv_length in Hz. destruct z as [[bef this] aft].
    cbn [zlist] in Hz. rewrite app_length, rev_length in Hz. cbn [length] in Hz.
    unfold nonEq. cbn [zaft zbef zthis].
    assert (H1 := netot_le_length bef). assert (H2 := netot_le_length aft).
    assert (H3 : nE this <= 1) by (destruct this; cbn [nE]; lia). lia.
  Qed.

  Definition outer_measure (z : zipper) : nat := nonEq z * S items + length (zaft z).

  Lemma pass_terminates m D I t :
    compat m ->
    (forall z, ZInv m D I z -> is_di (zthis z) -> shift_up cmp repair z <> OutOfFuel) ->
    (forall z, ZInv m D I z -> is_di (zthis z) -> shift_down cmp repair z <> OutOfFuel) ->
    forall fuel z, ZInv m D I z -> outer_measure z < fuel -> pass cmp repair t fuel z <> OutOfFuel.
  Proof.
    intros Hc Hup Hdown. induction fuel as [|fuel IH]; intros z Hz HM; [lia|].
    assert (Htail : forall z1, ZInv m D I z1 -> outer_measure z1 < S fuel ->
              match zaft z1 with
              | [] => Ok (rev (zthis z1 :: zbef z1))
              | nx :: aft' => pass cmp repair t fuel (zthis z1 :: zbef z1, nx, aft')
              end <> OutOfFuel).
    { intros [[b1 t1] a1] Hz1 HM1. cbn [zaft zthis zbef].
      destruct a1 as [|nx a1']; [discriminate|].
      apply IH; [unfold ZInv; rewrite zlist_advance; exact Hz1|].
      unfold outer_measure, nonEq in *. cbn [zaft zthis zbef netot length] in *. lia. }
    destruct z as [[bef this] aft]. rewrite pass_unfold.
    destruct (tag_match t this) eqn:Et.
    - assert (Hdi : is_di this) by (eapply tag_match_di; exact Et).
      destruct (shift_up cmp repair (bef, this, aft)) as [zu| |] eqn:Eu; cbn [bind];
        [|discriminate|exfalso; exact (Hup _ Hz Hdi Eu)].
      assert (Hzu : ZInv m D I zu) by (eapply shift_up_inv; eassumption).
      assert (Hdiu : is_di (zthis zu)).
      { unfold shift_up in Eu.
        apply (run_steps_inv (fun z' => is_di (zthis z')) (up_step cmp repair))
          with (fuel := inner_fuel (bef, this, aft)) (z := (bef, this, aft)); [|exact Hdi|exact Eu].
        intros z0 r Hd0 Hr. eapply is_di_tag; [apply up_step_tag; exact Hr|exact Hd0]. }
      destruct (shift_down cmp repair zu) as [zd| |] eqn:Ed; cbn [bind];
        [|discriminate|exfalso; exact (Hdown _ Hzu Hdiu Ed)].
      assert (Hzd : ZInv m D I zd) by (eapply shift_down_inv; eassumption).
      apply Htail; [exact Hzd|].
      destruct (shift_round_measure m D I _ _ _ Hc Hz Hdi Eu Ed) as [Hle Hor].
      destruct (ZInv_bounds _ _ _ _ Hzd) as [Ba Bn].
      unfold outer_measure in *. cbn [zaft] in *.
      destruct Hor as [Hlt|Hlen]; nia.
    - cbn [bind]. apply Htail; assumption.
  Qed.

  Lemma run_pass_terminates m D I t l :
    compat m ->
    (forall z, ZInv m D I z -> is_di (zthis z) -> shift_up cmp repair z <> OutOfFuel) ->
    (forall z, ZInv m D I z -> is_di (zthis z) -> shift_down cmp repair z <> OutOfFuel) ->
    LInv m D I l -> run_pass cmp repair t l <> OutOfFuel.
  Proof.
    intros Hc Hup Hdown Hl. destruct l as [|x r]; cbn [run_pass]; [discriminate|].
    apply (pass_terminates m D I t Hc Hup Hdown); [exact Hl|].
    assert (Hz : ZInv m D I ([], x, r)) by exact Hl.
    destruct (ZInv_bounds _ _ _ _ Hz) as [Ba Bn].
    assert (Hw : items <= ops_weight (x :: r)).
    { rewrite ops_weight_items. destruct Hl as ((_ & Ho & Hn) & _). unfold items. lia. }
    unfold outer_measure, outer_fuel. cbn [zaft] in *. nia.
  Qed.

  Lemma cleanup_terminates m D I l :
    compat m ->
    (forall z, ZInv m D I z -> is_di (zthis z) -> shift_up cmp repair z <> OutOfFuel) ->
    (forall z, ZInv m D I z -> is_di (zthis z) -> shift_down cmp repair z <> OutOfFuel) ->
    LInv m D I l -> cleanup_diff_ops cmp repair l <> OutOfFuel.
  Proof.
    intros Hc Hup Hdown Hl. unfold cleanup_diff_ops.
    destruct (run_pass cmp repair TDelete l) as [l1| |] eqn:E1; cbn [bind].
    - eapply run_pass_terminates; try eassumption. eapply run_pass_inv; eassumption.
    - discriminate.
    - exfalso. eapply (run_pass_terminates m D I TDelete l); eassumption.
  Qed.

  Lemma cleanup_terminates_no_oof m D I l :
    cmp_no_oof -> compat m -> LInv m D I l -> cleanup_diff_ops cmp repair l <> OutOfFuel.
  Proof.
    intros Hno Hc Hl. apply (cleanup_terminates m D I l Hc); [| |exact Hl].
    - intros z _ _. apply shift_up_terminates. exact Hno.
    - intros z _ _. apply shift_down_terminates. exact Hno.
  Qed.

  Lemma cleanup_ok m D I l :
    cmp_total -> m <> Loose -> compat m -> LInv m D I l ->
    exists l', cleanup_diff_ops cmp repair l = Ok l'.
  Proof.
    intros Htot Hm Hc Hl.
    destruct (cleanup_diff_ops cmp repair l) as [l'| |] eqn:E.
    - exists l'. reflexivity.
    - exfalso. eapply cleanup_no_panic; eassumption.
    - exfalso. revert E. apply (cleanup_terminates m D I l Hc); [| |exact Hl].
      + intros z Hz Hdi E. destruct (shift_up_ok m D I z Htot Hm Hc (conj Hz Hdi)) as (z' & Hz' & _).
        rewrite Hz' in E. discriminate.
      + intros z Hz Hdi E. destruct (shift_down_ok m D I z Htot Hc (conj Hz Hdi)) as (z' & Hz' & _).
        rewrite Hz' in E. discriminate.
  Qed.
End Zipper.

(* ------------------------------------------------------------------ *)
(* P1 / P2                                                             *)
(* ------------------------------------------------------------------ *)

Lemma compat_loose repair : compat repair Loose.
Proof. split; discriminate. Qed.
Lemma compat_exact : compat true Exact.
Proof. split; [reflexivity|discriminate]. Qed.
Lemma compat_low : compat false Low.
Proof. split; [discriminate|reflexivity]. Qed.

Lemma LInv_of_walk cmp os oe ns ne b m ex ops :
  OpsWalk cmp ex oe ne os ns ops -> Forall NonEmptyOp ops -> Forall NoRep ops ->
  (m = Exact -> ex = true) -> (m = Low -> InsLow b ops) ->
  LInv cmp os oe ns ne b m (dtot ops) (itot ops) ops.
Proof.
  intros Hw Hne Hnr Hex Hlow.
  destruct (walk_to_seg cmp m ex oe ne os ns ops Hw Hnr Hex b Hlow) as (Hs & Ho & Hn).
  unfold LInv, Valid. auto.
Qed.

Lemma walk_of_LInv cmp os oe ns ne b m D I ops :
  LInv cmp os oe ns ne b m D I ops ->
  OpsWalk cmp (exactb m) oe ne os ns ops /\ Forall NonEmptyOp ops /\ Forall NoRep ops /\
  dtot ops = D /\ itot ops = I.
Proof.
  intros ((Hs & Ho & Hn) & Hne & Hd & Hi).
  repeat split; auto.
  - eapply seg_to_walk; eassumption.
  - eapply Seg_NoRep; exact Hs.
Qed.

(* C10: Compact preserves meaning and cost of any valid script *)
Theorem compact_preserves_loose cmp repair os oe ns ne ops ops' :
  OpsWalk cmp false oe ne os ns ops ->
  Forall NonEmptyOp ops ->
  Forall (fun x => op_tag x <> TReplace) ops ->
  cleanup_diff_ops cmp repair ops = Ok ops' ->
  OpsWalk cmp false oe ne os ns ops' /\
  Forall NonEmptyOp ops' /\
  Forall (fun x => op_tag x <> TReplace) ops' /\
  deleted ops' = deleted ops /\ inserted ops' = inserted ops /\ equal_total ops' = equal_total ops.
Proof.
  intros Hw Hne Hnr Hc.
  assert (Hl : LInv cmp os oe ns ne 0 Loose (dtot ops) (itot ops) ops).
  { eapply LInv_of_walk; try eassumption; discriminate. }
  assert (Hl' := cleanup_inv cmp repair os oe ns ne 0 Loose _ _ _ _ (compat_loose repair) Hl Hc).
  destruct Hl as ((_ & Ho & _) & _).
  destruct (walk_of_LInv _ _ _ _ _ _ _ _ _ _ Hl') as (Hw' & Hne' & Hnr' & Hd & Hi).
  destruct Hl' as ((_ & Ho' & _) & _).
  rewrite (deleted_dtot ops), (deleted_dtot ops'), (inserted_itot ops), (inserted_itot ops'),
    (equal_total_etot ops), (equal_total_etot ops').
  repeat split; auto.
  rewrite (otot_split ops) in Ho. rewrite (otot_split ops') in Ho'. lia.
Qed.

(* C11 (compaction part): with the repair switch every carried index stays exact *)
Theorem compact_preserves_exact cmp os oe ns ne ops ops' :
  OpsWalk cmp true oe ne os ns ops ->
  Forall NonEmptyOp ops ->
  Forall (fun x => op_tag x <> TReplace) ops ->
  cleanup_diff_ops cmp true ops = Ok ops' ->
  OpsWalk cmp true oe ne os ns ops'.
Proof.
  intros Hw Hne Hnr Hc.
  assert (Hl : LInv cmp os oe ns ne 0 Exact (dtot ops) (itot ops) ops).
  { eapply LInv_of_walk; try eassumption; [reflexivity|discriminate]. }
  assert (Hl' := cleanup_inv cmp true os oe ns ne 0 Exact _ _ _ _ compat_exact Hl Hc).
  apply walk_of_LInv in Hl'. tauto.
Qed.

Lemma OpsWalk_exact_loose cmp oe ne i j l :
  OpsWalk cmp true oe ne i j l -> OpsWalk cmp false oe ne i j l.
Proof.
  induction 1 as [|i j l r Hseg Hw IH|i j l n r Hn Hb Hw IH|i j o l r Ho Hb Hw IH|i j ol nl r H1 H2 Hw IH].
  - constructor.
  - constructor; assumption.
  - constructor; [discriminate|assumption|assumption].
  - constructor; [discriminate|assumption|assumption].
  - constructor; assumption.
Qed.

(* an exact script satisfies the stale-index invariant for every base b <= os *)
Lemma exact_InsLow cmp oe ne i j l :
  OpsWalk cmp true oe ne i j l -> forall e, e <= i -> InsLow e l.
Proof.
  induction 1 as [|i j l r Hseg Hw IH|i j l n r Hn Hb Hw IH|i j o l r Ho Hb Hw IH|i j ol nl r H1 H2 Hw IH];
    intros e He; cbn [InsLow elen].
  - exact I.
  - split; [exact I|]. apply IH. lia.
  - split; [exact I|]. apply IH. lia.
  - split; [rewrite (Ho eq_refl); exact He|]. apply IH. lia.
  - split; [exact I|]. apply IH. lia.
Qed.

(* ------------------------------------------------------------------ *)
(* P3: delete_never_slides                                             *)
(* ------------------------------------------------------------------ *)

(* the suffix / prefix scan is handed the Delete's empty new range *)
Theorem delete_scan_is_zero cmp other o l n :
  common_suffix_len cmp (op_old_start other) (op_old_end other)
                    (op_new_start (Delete o l n)) (op_new_end (Delete o l n)) = Ok 0 /\
  common_prefix_len cmp (op_old_start other) (op_old_end other)
                    (op_new_start (Delete o l n)) (op_new_end (Delete o l n)) = Ok 0.
Proof.
  unfold op_new_end. cbn [op_new_start op_new_len].
  split; [apply suffix_len_empty_new|apply prefix_len_empty_new].
Qed.

(* hence the slide branches of the (Delete, Equal) arms -- including the one
   with [len: old_range.len() - suffix_len] -- are unreachable: the arm either
   drops an empty Equal or breaks, and never touches the ops *)
Theorem delete_never_slides_up cmp repair po pn pl bef o l n aft :
  up_step cmp repair (Equal po pn pl :: bef, Delete o l n, aft) =
  if op_is_empty (Equal po pn pl)
  then Ok (Continue (bef, Delete o l n, aft))
  else Ok (Break (Equal po pn pl :: bef, Delete o l n, aft)).
Proof. apply up_step_del_eq. Qed.

Theorem delete_never_slides_down cmp repair bef o l n xo xn xl aft :
  down_step cmp repair (bef, Delete o l n, Equal xo xn xl :: aft) =
  if op_is_empty (Equal xo xn xl)
  then Ok (Continue (bef, Delete o l n, aft))
  else Ok (Break (bef, Delete o l n, Equal xo xn xl :: aft)).
Proof. apply down_step_del_eq. Qed.

(* ------------------------------------------------------------------ *)
(* P4: no Panic                                                        *)
(* ------------------------------------------------------------------ *)

Theorem compact_no_panic_repair cmp os oe ns ne ops :
  cmp_total cmp os oe ns ne ->
  OpsWalk cmp true oe ne os ns ops ->
  Forall NonEmptyOp ops ->
  Forall (fun x => op_tag x <> TReplace) ops ->
  cleanup_diff_ops cmp true ops <> Panic.
Proof.
  intros Htot Hw Hne Hnr.
  assert (Hl : LInv cmp os oe ns ne 0 Exact (dtot ops) (itot ops) ops).
  { eapply LInv_of_walk; try eassumption; [reflexivity|discriminate]. }
  apply (cleanup_no_panic cmp true os oe ns ne 0 Exact (dtot ops) (itot ops) ops Htot); [discriminate|exact compat_exact|exact Hl].
Qed.

(* repair = false (the real code): the invariant that makes the shift_left
   subtractions safe is InsLow: every Insert's carried old index is at least
   b + (number of equal items before it), for some base b (b = 0 suffices). *)
Theorem compact_no_panic_norepair cmp os oe ns ne b ops :
  cmp_total cmp os oe ns ne ->
  OpsWalk cmp false oe ne os ns ops ->
  InsLow b ops ->
  Forall NonEmptyOp ops ->
  Forall (fun x => op_tag x <> TReplace) ops ->
  cleanup_diff_ops cmp false ops <> Panic.
Proof.
  intros Htot Hw Hlow Hne Hnr.
  assert (Hl : LInv cmp os oe ns ne b Low (dtot ops) (itot ops) ops).
  { eapply LInv_of_walk; try eassumption; [discriminate|auto]. }
  apply (cleanup_no_panic cmp false os oe ns ne b Low (dtot ops) (itot ops) ops Htot); [discriminate|exact compat_low|exact Hl].
Qed.

(* ... and InsLow is itself preserved by the real code *)
Theorem compact_preserves_InsLow cmp os oe ns ne b ops ops' :
  OpsWalk cmp false oe ne os ns ops ->
  InsLow b ops ->
  Forall NonEmptyOp ops ->
  Forall (fun x => op_tag x <> TReplace) ops ->
  cleanup_diff_ops cmp false ops = Ok ops' ->
  InsLow b ops'.
Proof.
  intros Hw Hlow Hne Hnr Hc.
  assert (Hl : LInv cmp os oe ns ne b Low (dtot ops) (itot ops) ops).
  { eapply LInv_of_walk; try eassumption; [discriminate|auto]. }
  assert (Hl' := cleanup_inv cmp false os oe ns ne b Low _ _ _ _ compat_low Hl Hc).
  destruct Hl' as ((Hs & _) & _). eapply seg_low_inslow. exact Hs.
Qed.

(* in particular an exact script never makes the real code panic *)
Corollary compact_no_panic_norepair_exact_input cmp os oe ns ne ops :
  cmp_total cmp os oe ns ne ->
  OpsWalk cmp true oe ne os ns ops ->
  Forall NonEmptyOp ops ->
  Forall (fun x => op_tag x <> TReplace) ops ->
  cleanup_diff_ops cmp false ops <> Panic.
Proof.
  intros Htot Hw Hne Hnr.
  eapply (compact_no_panic_norepair cmp os oe ns ne os); try eassumption.
  - apply OpsWalk_exact_loose. exact Hw.
  - eapply exact_InsLow; [exact Hw|lia].
Qed.

(* without InsLow a loose-valid script can make the real code underflow:
   old = [a], new = [a; a], script Equal(0,0,1); Insert(old_index 0, 1, 1) *)
Definition cx_cmp : cmpf := fun i j => if (i <? 1) && (j <? 2) then Ok true else Panic.
Definition cx_ops : list op := [Equal 0 0 1; Insert 0 1 1].

Lemma compact_loose_input_can_panic :
  cmp_total cx_cmp 0 1 0 2 /\
  OpsWalk cx_cmp false 1 2 0 0 cx_ops /\ Forall NonEmptyOp cx_ops /\
  Forall (fun x => op_tag x <> TReplace) cx_ops /\
  cleanup_diff_ops cx_cmp false cx_ops = Panic.
Proof.
  split; [|split; [|split; [|split]]].
  - intros i j Hi Hj. exists true. unfold cx_cmp.
    replace (i <? 1) with true by (symmetry; apply Nat.ltb_lt; lia).
    replace (j <? 2) with true by (symmetry; apply Nat.ltb_lt; lia). reflexivity.
  - unfold cx_ops. apply (OW_eq cx_cmp false 1 2 0 0 1).
    + intros t Ht. assert (t = 0) by lia. subst t. reflexivity.
    + apply (OW_ins cx_cmp false 1 2 1 1 0 1); [discriminate|lia|]. apply OW_nil.
  - repeat constructor.
  - repeat constructor; discriminate.
  - vm_compute. reflexivity.
Qed.

(* ------------------------------------------------------------------ *)
(* P6 (inner loops)                                                    *)
(* ------------------------------------------------------------------ *)

Theorem inner_loops_terminate cmp repair z :
  (forall i j, cmp i j <> OutOfFuel) ->
  shift_up cmp repair z <> OutOfFuel /\ shift_down cmp repair z <> OutOfFuel.
Proof. intros Hc. split; [apply shift_up_terminates|apply shift_down_terminates]; exact Hc. Qed.

(* ------------------------------------------------------------------ *)
(* P5: the hook                                                        *)
(* ------------------------------------------------------------------ *)

Definition edit_call (c : call) : Prop :=
  match c with CEq _ _ _ | CDel _ _ _ | CIns _ _ _ => True | _ => False end.

Lemma emit_all_app {W} (wd : world W) a c w :
  emit_all wd (a ++ c) w = do w1 <- emit_all wd a w; emit_all wd c w1.
Proof.
  revert w. induction a as [|x a IH]; intros w; cbn [app emit_all bind]; [reflexivity|].
  destruct (emit wd x w) as [w1| |]; cbn [bind]; [apply IH|reflexivity|reflexivity].
Qed.

(* nothing reaches the inner hook while the body is being buffered *)
Lemma compact_buffers {W} (wd : world W) cmp repair body :
  Forall edit_call body ->
  forall buf w,
    emit_all (compact_world wd cmp repair) body (buf, w) = Ok (rev (capture_calls body) ++ buf, w).
Proof.
  induction 1 as [|c body Hc _ IH]; intros buf w; [reflexivity|].
  cbn [emit_all]. destruct c as [o n l|o l n|o n l| |]; cbn [edit_call] in Hc; try contradiction;
    cbn [emit compact_world compact_emit bind capture_calls call_to_op rev];
    rewrite IH, <- app_assoc; reflexivity.
Qed.

Theorem compact_hook_spec {W} (wd : world W) cmp repair body w :
  Forall edit_call body ->
  emit_all (compact_world wd cmp repair) (body ++ [CFin]) ([], w) =
  match cleanup_diff_ops cmp repair (capture_calls body) with
  | Ok ops' =>
      match emit_all wd (map op_to_call ops' ++ [CFin]) w with
      | Ok w' => Ok (rev ops', w')
      | Panic => Panic
      | OutOfFuel => OutOfFuel
      end
  | Panic => Panic
  | OutOfFuel => OutOfFuel
  end.
Proof.
  intros Hb. rewrite emit_all_app, (compact_buffers wd cmp repair body Hb). cbn [bind emit_all].
  cbn [emit compact_world compact_emit]. rewrite app_nil_r, rev_involutive.
  destruct (cleanup_diff_ops cmp repair (capture_calls body)) as [ops'| |]; cbn [bind]; try reflexivity.
  rewrite emit_all_app. cbn [emit_all].
  destruct (emit_all wd (map op_to_call ops') w) as [w1| |]; cbn [bind]; try reflexivity.
  destruct (emit wd CFin w1) as [w2| |]; reflexivity.
Qed.

(* ------------------------------------------------------------------ *)
(* P6 (outer loop) and total correctness                               *)
(* ------------------------------------------------------------------ *)

(* the explicit fuels are sufficient on every valid script, whatever the
   repair switch: OutOfFuel is never returned *)
Theorem compact_terminates cmp repair os oe ns ne ops :
  (forall i j, cmp i j <> OutOfFuel) ->
  OpsWalk cmp false oe ne os ns ops ->
  Forall NonEmptyOp ops ->
  Forall (fun x => op_tag x <> TReplace) ops ->
  cleanup_diff_ops cmp repair ops <> OutOfFuel.
Proof.
  intros Hno Hw Hne Hnr.
  assert (Hl : LInv cmp os oe ns ne 0 Loose (dtot ops) (itot ops) ops).
  { eapply LInv_of_walk; try eassumption; discriminate. }
  eapply cleanup_terminates_no_oof; [exact Hno|apply compat_loose|exact Hl].
Qed.

Theorem compact_total_repair cmp os oe ns ne ops :
  cmp_total cmp os oe ns ne ->
  OpsWalk cmp true oe ne os ns ops ->
  Forall NonEmptyOp ops ->
  Forall (fun x => op_tag x <> TReplace) ops ->
  exists ops', cleanup_diff_ops cmp true ops = Ok ops'.
Proof.
  intros Htot Hw Hne Hnr.
  assert (Hl : LInv cmp os oe ns ne 0 Exact (dtot ops) (itot ops) ops).
  { eapply LInv_of_walk; try eassumption; [reflexivity|discriminate]. }
  apply (cleanup_ok cmp true os oe ns ne 0 Exact (dtot ops) (itot ops) ops Htot);
    [discriminate|exact compat_exact|exact Hl].
Qed.

Theorem compact_total_norepair cmp os oe ns ne b ops :
  cmp_total cmp os oe ns ne ->
  OpsWalk cmp false oe ne os ns ops ->
  InsLow b ops ->
  Forall NonEmptyOp ops ->
  Forall (fun x => op_tag x <> TReplace) ops ->
  exists ops', cleanup_diff_ops cmp false ops = Ok ops'.
Proof.
  intros Htot Hw Hlow Hne Hnr.
  assert (Hl : LInv cmp os oe ns ne b Low (dtot ops) (itot ops) ops).
  { eapply LInv_of_walk; try eassumption; [discriminate|auto]. }
  apply (cleanup_ok cmp false os oe ns ne b Low (dtot ops) (itot ops) ops Htot);
    [discriminate|exact compat_low|exact Hl].
Qed.

(* ------------------------------------------------------------------ *)
Print Assumptions compact_preserves_loose.
Print Assumptions compact_preserves_exact.
Print Assumptions delete_scan_is_zero.
Print Assumptions delete_never_slides_up.
Print Assumptions delete_never_slides_down.
Print Assumptions compact_no_panic_repair.
Print Assumptions compact_no_panic_norepair.
Print Assumptions compact_preserves_InsLow.
Print Assumptions compact_no_panic_norepair_exact_input.
Print Assumptions compact_loose_input_can_panic.
Print Assumptions inner_loops_terminate.
Print Assumptions compact_hook_spec.
Print Assumptions compact_terminates.
Print Assumptions compact_total_repair.
Print Assumptions compact_total_norepair.
