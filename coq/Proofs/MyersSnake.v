(* Proofs/MyersSnake.v — the overlap test of find_middle_snake and what it
   returns (design Appendix A items 5-10): first passing round = ceil(D/2),
   the returned point is in the box, is not a corner, and the optimal cost is
   additive across it.  Main theorem: [snake_spec]. *)
From Coq Require Import FMapPositive.
From Similar Require Import Model.Base Model.Utils Model.Myers
  Spec.Script Spec.EditGraph Spec.SnakeSpec
  Proofs.Utils Proofs.EditGraph Proofs.EditGraphFR Proofs.EditGraphSplit
  Proofs.MyersSweep.

Local Open Scope nat_scope.

(* ------------------------------------------------ leaving the box costs *)
Section OutOfBox.
  Variables n m : nat.
  Variable dg : nat -> nat -> bool.
  Hypothesis Hbox : DgBox n m dg.

  (* a path to a point outside the box leaves the box at some in-box point and
     then only uses horizontal and vertical edges *)
  Lemma exit_box : forall c x y, Reach dg c x y -> n < x \/ m < y ->
    exists xq yq c', xq <= n /\ yq <= m /\ xq <= x /\ yq <= y /\
      Reach dg c' xq yq /\ c = c' + (x - xq) + (y - yq).
  Proof.
    intros c x y H. induction H as [|c x y H IH Hd|c x y H IH|c x y H IH]; intros Hout.
    - lia.
    - apply Hbox in Hd. lia.
    - destruct (le_lt_dec x n) as [Hx|Hx]; [destruct (le_lt_dec y m) as [Hy|Hy]|].
      + exists x, y, c. repeat split; try lia. exact H.
      + destruct (IH ltac:(lia)) as [xq [yq [c' [H1 [H2 [H3 [H4 [H5 H6]]]]]]]].
        exists xq, yq, c'. repeat split; try lia. exact H5.
      + destruct (IH ltac:(lia)) as [xq [yq [c' [H1 [H2 [H3 [H4 [H5 H6]]]]]]]].
        exists xq, yq, c'. repeat split; try lia. exact H5.
    - destruct (le_lt_dec x n) as [Hx|Hx]; [destruct (le_lt_dec y m) as [Hy|Hy]|].
      + exists x, y, c. repeat split; try lia. exact H.
      + destruct (IH ltac:(lia)) as [xq [yq [c' [H1 [H2 [H3 [H4 [H5 H6]]]]]]]].
        exists xq, yq, c'. repeat split; try lia. exact H5.
      + destruct (IH ltac:(lia)) as [xq [yq [c' [H1 [H2 [H3 [H4 [H5 H6]]]]]]]].
        exists xq, yq, c'. repeat split; try lia. exact H5.
  Qed.

  (* hence a point outside the box is expensive *)
  Lemma out_box_cost : forall D c x y, MinCost dg n m D ->
    Reach dg c x y -> n < x \/ m < y -> D + x + y <= c + n + m.
  Proof.
    intros D c x y [_ Hmin] H Hout.
    destruct (exit_box c x y H Hout) as [xq [yq [c' [H1 [H2 [H3 [H4 [H5 H6]]]]]]]].
    pose proof (Reach_Path_trans dg c' xq yq _ _ _ H5 (Path_straight dg xq yq (n - xq) (m - yq))) as Hr.
    replace (xq + (n - xq)) with n in Hr by lia.
    replace (yq + (m - yq)) with m in Hr by lia.
    apply Hmin in Hr. lia.
  Qed.

  Lemma Path_run : forall j x y, DiagRun dg j x y -> Path dg x y 0 (x + j) (y + j).
  Proof.
    induction j as [|j IH]; intros x y Hrun.
    - rewrite !Nat.add_0_r. apply P_refl.
    - replace (x + S j) with (S (x + j)) by lia. replace (y + S j) with (S (y + j)) by lia.
      apply P_diag.
      + apply IH. intros i Hi. apply Hrun. lia.
      + apply Hrun. lia.
  Qed.

  (* a stripped box needs at least two edits *)
  Lemma stripped_cost : forall D, 1 <= n -> 1 <= m ->
    dg 0 0 = false -> dg (n - 1) (m - 1) = false -> MinCost dg n m D -> 2 <= D.
  Proof.
    intros D Hn Hm H00 Hnm [Hr _].
    assert (Hzero : forall x y, Reach dg 0 x y -> x = 0 /\ y = 0).
    { intros x y H0. destruct (Reach_zero_inv dg _ _ _ H0 eq_refl) as [Hxy Hrun].
      destruct x as [|x]; [lia|]. specialize (Hrun 0 ltac:(lia)). cbn in Hrun. congruence. }
    destruct D as [|[|D]]; [| |lia].
    - apply Hzero in Hr. lia.
    - destruct (Reach_inv dg _ _ _ Hr) as [H1|[H1|[H1|H1]]].
      + lia.
      + destruct H1 as [x0 [y0 [Ex [Ey [Hd _]]]]].
        replace (n - 1) with x0 in Hnm by lia. replace (m - 1) with y0 in Hnm by lia. congruence.
      + destruct H1 as [c0 [x0 [Ec [Ex H0]]]]. injection Ec as <-. apply Hzero in H0. lia.
      + destruct H1 as [c0 [y0 [Ec [Ey H0]]]]. injection Ec as <-. apply Hzero in H0. lia.
  Qed.
End OutOfBox.

(* --------------------------------------------- the overlap test, purely *)
Section Overlap.
  Variables n m : nat.
  Variable dg : nat -> nat -> bool.
  Hypothesis Hbox : DgBox n m dg.
  Variable D : nat.
  Hypothesis HD : MinCost dg n m D.
  Notation Gr := (dg_rev n m dg).
  Notation delta := (Z.of_nat n - Z.of_nat m)%Z.

  Let HboxR : DgBox n m Gr := dg_rev_box n m dg.
  Let HDR : MinCost Gr n m D := proj1 (MinCost_corner_rev n m dg Hbox D) HD.

  (* forward test passes in round d at diagonal k; (x0,y0) is the start of the
     snake, s its length, ub the backward value of round d-1 *)
  Lemma fwd_pass : forall d k x0 s ub,
    2 * d <= D + 1 -> 1 <= d -> (Z.abs (k - delta) <= Z.of_nat d - 1)%Z ->
    (k <= Z.of_nat x0)%Z ->
    Reach dg d x0 (Z.to_nat (Z.of_nat x0 - k)) ->
    DiagRun dg s x0 (Z.to_nat (Z.of_nat x0 - k)) ->
    FR Gr (d - 1) (delta - k) ub -> n <= x0 + s + ub ->
    x0 <= n /\ Z.to_nat (Z.of_nat x0 - k) <= m /\
    MinCost dg x0 (Z.to_nat (Z.of_nat x0 - k)) d /\
    MinCost Gr (n - x0) (m - Z.to_nat (Z.of_nat x0 - k)) (d - 1) /\
    D + 1 = 2 * d.
  Proof.
    intros d k x0 s ub HdD Hd1 Habs Hy. set (y0 := Z.to_nat (Z.of_nat x0 - k)).
    intros Hr Hrun HFRb Htest.
    assert (Hy0 : Z.of_nat y0 = (Z.of_nat x0 - k)%Z) by (subst y0; lia).
    (* the start of the snake is in the box *)
    assert (Hin : x0 <= n /\ y0 <= m).
    { destruct (le_lt_dec x0 n) as [Hx|Hx]; [destruct (le_lt_dec y0 m) as [Hy'|Hy']|].
      - split; assumption.
      - pose proof (out_box_cost n m dg Hbox D d x0 y0 HD Hr ltac:(lia)). lia.
      - pose proof (out_box_cost n m dg Hbox D d x0 y0 HD Hr ltac:(lia)). lia. }
    destruct Hin as [Hx0 Hy0'].
    (* so is its end *)
    assert (Hend : x0 + s <= n /\ y0 + s <= m).
    { destruct s as [|s']; [lia|]. apply (DiagRun_box n m dg Hbox _ _ _ Hrun). lia. }
    destruct Hend as [Hxf Hyf].
    assert (Hdiag : OnDiag (delta - k) (n - (x0 + s)) (m - (y0 + s))) by (unfold OnDiag; lia).
    destruct (proj2 (FR_ReachLe_iff n m Gr HboxR _ _ _ _ _ HFRb Hdiag) ltac:(lia))
      as [cb [Hcb Hrb]].
    apply (Path_to_corner_rev n m dg Hbox _ _ _ Hxf Hyf) in Hrb.
    pose proof (Path_trans dg _ _ _ _ _ _ _ _ (Path_run dg s x0 y0 Hrun) Hrb) as Hp.
    cbn [Nat.add] in Hp.
    apply (Path_to_corner_rev n m dg Hbox _ _ _ Hx0 Hy0') in Hp.
    pose proof (forward_backward_lower n m dg Hbox x0 y0 d cb D Hx0 Hy0' Hr Hp HD) as Hlow.
    assert (cb = d - 1) by lia. subst cb.
    split; [exact Hx0|]. split; [exact Hy0'|]. split; [|split; [|lia]].
    - split; [exact Hr|]. intros c' Hc'.
      pose proof (forward_backward_lower n m dg Hbox x0 y0 c' (d - 1) D Hx0 Hy0' Hc' Hp HD). lia.
    - split; [exact Hp|]. intros c' Hc'.
      pose proof (forward_backward_lower n m dg Hbox x0 y0 d c' D Hx0 Hy0' Hr Hc' HD). lia.
  Qed.

  (* the end of a backward snake on a tested diagonal is in the box *)
  Lemma bwd_in_box : forall d k u v,
    2 * d <= D -> (Z.abs (k - delta) <= Z.of_nat d)%Z ->
    OnDiag k u v -> Reach Gr d u v -> u <= n /\ v <= m.
  Proof.
    intros d k u v HdD Habs Hk Hr. unfold OnDiag in Hk.
    destruct (le_lt_dec u n) as [Hx|Hx]; [destruct (le_lt_dec v m) as [Hy|Hy]|].
    - split; assumption.
    - pose proof (out_box_cost n m Gr HboxR D d u v HDR Hr ltac:(lia)). lia.
    - pose proof (out_box_cost n m Gr HboxR D d u v HDR Hr ltac:(lia)). lia.
  Qed.

  (* backward test passes in round d at backward diagonal k *)
  Lemma bwd_pass : forall d k u1 v1 xf,
    2 * d <= D -> OnDiag k u1 v1 -> u1 <= n -> v1 <= m ->
    FR Gr d k u1 -> FR dg d (delta - k) xf -> n <= u1 + xf ->
    MinCost dg (n - u1) (m - v1) d /\ MinCost Gr u1 v1 d /\ D = 2 * d.
  Proof.
    intros d k u1 v1 xf HdD Hk Hu Hv HFRb HFRf Htest.
    assert (Hrb : Reach Gr d u1 v1).
    { destruct HFRb as [[y [Hky Hry]] _]. unfold OnDiag in *.
      replace v1 with y by lia. exact Hry. }
    assert (Hdiag : OnDiag (delta - k) (n - u1) (m - v1)) by (unfold OnDiag in *; lia).
    destruct (proj2 (FR_ReachLe_iff n m dg Hbox _ _ _ _ _ HFRf Hdiag) ltac:(lia))
      as [cf [Hcf Hrf]].
    assert (Hrb' : Reach Gr d (n - (n - u1)) (m - (m - v1))).
    { replace (n - (n - u1)) with u1 by lia. replace (m - (m - v1)) with v1 by lia. exact Hrb. }
    pose proof (forward_backward_lower n m dg Hbox (n - u1) (m - v1) cf d D
                  ltac:(lia) ltac:(lia) Hrf Hrb' HD) as Hlow.
    assert (cf = d) by lia. subst cf.
    split; [|split; [|lia]].
    - split; [exact Hrf|]. intros c' Hc'.
      pose proof (forward_backward_lower n m dg Hbox (n - u1) (m - v1) c' d D
                    ltac:(lia) ltac:(lia) Hc' Hrb' HD). lia.
    - split; [exact Hrb|]. intros c' Hc'.
      assert (Hc'' : Reach Gr c' (n - (n - u1)) (m - (m - v1))).
      { replace (n - (n - u1)) with u1 by lia. replace (m - (m - v1)) with v1 by lia. exact Hc'. }
      pose proof (forward_backward_lower n m dg Hbox (n - u1) (m - v1) d c' D
                    ltac:(lia) ltac:(lia) Hrf Hc'' HD). lia.
  Qed.

  (* parity of D *)
  Lemma D_parity : exists t : Z, delta = (Z.of_nat D - 2 * t)%Z.
  Proof.
    pose proof HD as [Hr _]. destruct (Reach_parity n m dg Hbox _ _ _ Hr) as [t [_ Ht]].
    exists t. exact Ht.
  Qed.

  (* completeness: in round ceil(D/2) some test passes *)
  Lemma fwd_complete : forall d, D + 1 = 2 * d ->
    Z.odd delta = true /\
    exists k xf ub, Par d k /\ (Z.abs (k - delta) <= Z.of_nat d - 1)%Z /\
      FR dg d k xf /\ FR Gr (d - 1) (delta - k) ub /\ n <= xf + ub.
  Proof.
    intros d HdD. destruct D_parity as [t Ht]. split.
    { apply Z.odd_spec. exists (Z.of_nat d - 1 - t)%Z. lia. }
    destruct (MinCost_split n m dg Hbox D HD d ltac:(lia)) as [px [py [Hpx [Hpy [Hf Hb]]]]].
    replace (D - d) with (d - 1) in Hb by lia.
    destruct Hf as [Hrf _]. destruct Hb as [Hrb _].
    pose proof (Reach_diag_bound n m dg Hbox _ _ _ Hrf) as Hbf.
    destruct (Reach_parity n m dg Hbox _ _ _ Hrf) as [tf [_ Htf]].
    pose proof (Reach_diag_bound n m Gr HboxR _ _ _ Hrb) as Hbb.
    destruct (Reach_parity n m Gr HboxR _ _ _ Hrb) as [tb [_ Htb]].
    set (k := (Z.of_nat px - Z.of_nat py)%Z).
    assert (Hkb : (Z.of_nat (n - px) - Z.of_nat (m - py))%Z = (delta - k)%Z) by (subst k; lia).
    rewrite Hkb in Hbb, Htb. fold k in Hbf, Htf.
    destruct (FR_exists n m dg Hbox d k Hbf (ex_intro _ tf Htf)) as [xf HFRf].
    destruct (FR_exists n m Gr HboxR (d - 1) (delta - k)%Z Hbb (ex_intro _ tb Htb)) as [ub HFRb].
    exists k, xf, ub. split; [split; [exact Hbf|exists tf; exact Htf]|].
    split; [lia|]. split; [exact HFRf|]. split; [exact HFRb|].
    destruct HFRf as [_ Hmaxf]. destruct HFRb as [_ Hmaxb].
    assert (H1 : px <= xf) by (apply (Hmaxf px py); [unfold OnDiag; subst k; lia|exact Hrf]).
    assert (H2 : n - px <= ub) by (apply (Hmaxb (n - px) (m - py)); [unfold OnDiag; lia|exact Hrb]).
    lia.
  Qed.

  Lemma bwd_complete : forall d, D = 2 * d ->
    Z.odd delta = false /\
    exists k ub xf, Par d k /\ (Z.abs (k - delta) <= Z.of_nat d)%Z /\
      FR Gr d k ub /\ FR dg d (delta - k) xf /\ n <= ub + xf.
  Proof.
    intros d HdD. destruct D_parity as [t Ht]. split.
    { destruct (Z.odd delta) eqn:E; [|reflexivity]. apply Z.odd_spec in E. destruct E as [q Hq]. lia. }
    destruct (MinCost_split n m dg Hbox D HD d ltac:(lia)) as [px [py [Hpx [Hpy [Hf Hb]]]]].
    replace (D - d) with d in Hb by lia.
    destruct Hf as [Hrf _]. destruct Hb as [Hrb _].
    pose proof (Reach_diag_bound n m dg Hbox _ _ _ Hrf) as Hbf.
    destruct (Reach_parity n m dg Hbox _ _ _ Hrf) as [tf [_ Htf]].
    pose proof (Reach_diag_bound n m Gr HboxR _ _ _ Hrb) as Hbb.
    destruct (Reach_parity n m Gr HboxR _ _ _ Hrb) as [tb [_ Htb]].
    set (k := (Z.of_nat (n - px) - Z.of_nat (m - py))%Z).
    assert (Hkf : (Z.of_nat px - Z.of_nat py)%Z = (delta - k)%Z) by (subst k; lia).
    rewrite Hkf in Hbf, Htf. fold k in Hbb, Htb.
    destruct (FR_exists n m Gr HboxR d k Hbb (ex_intro _ tb Htb)) as [ub HFRb].
    destruct (FR_exists n m dg Hbox d (delta - k)%Z Hbf (ex_intro _ tf Htf)) as [xf HFRf].
    exists k, ub, xf. split; [split; [exact Hbb|exists tb; exact Htb]|].
    split; [lia|]. split; [exact HFRb|]. split; [exact HFRf|].
    destruct HFRf as [_ Hmaxf]. destruct HFRb as [_ Hmaxb].
    assert (H1 : px <= xf) by (apply (Hmaxf px py); [unfold OnDiag; lia|exact Hrf]).
    assert (H2 : n - px <= ub) by (apply (Hmaxb (n - px) (m - py)); [unfold OnDiag; subst k; lia|exact Hrb]).
    lia.
  Qed.
End Overlap.

(* ------------------------------------ costs in the two sub-boxes (item 10) *)
Section Regions.
  (* a path to (x,y) only looks at diagonal edges inside [0,x) x [0,y) *)
  Lemma Reach_region : forall dg dg' X Y,
    (forall a b, a < X -> b < Y -> dg a b = dg' a b) ->
    forall c x y, Reach dg c x y -> x <= X -> y <= Y -> Reach dg' c x y.
  Proof.
    intros dg dg' X Y Hagree c x y H.
    induction H as [|c x y H IH Hd|c x y H IH|c x y H IH]; intros Hx Hy.
    - apply R_start.
    - apply R_diag; [apply IH; lia|]. rewrite <- Hagree; [exact Hd|lia|lia].
    - apply R_right. apply IH; lia.
    - apply R_down. apply IH; lia.
  Qed.

  (* translation of the origin *)
  Lemma Path_shift : forall dg dg' X Y,
    (forall a b, dg (X + a) (Y + b) = dg' a b) ->
    forall c a b, Path dg' 0 0 c a b -> Path dg X Y c (X + a) (Y + b).
  Proof.
    intros dg dg' X Y Hsh c a b H.
    induction H as [|c a b H IH Hd|c a b H IH|c a b H IH].
    - rewrite !Nat.add_0_r. apply P_refl.
    - replace (X + S a) with (S (X + a)) by lia. replace (Y + S b) with (S (Y + b)) by lia.
      apply P_diag; [exact IH|]. rewrite Hsh. exact Hd.
    - replace (X + S a) with (S (X + a)) by lia. apply P_right. exact IH.
    - replace (Y + S b) with (S (Y + b)) by lia. apply P_down. exact IH.
  Qed.

  Lemma Path_unshift : forall dg dg' X Y,
    (forall a b, dg (X + a) (Y + b) = dg' a b) ->
    forall c x y, Path dg X Y c x y -> Path dg' 0 0 c (x - X) (y - Y).
  Proof.
    intros dg dg' X Y Hsh c x y H.
    induction H as [|c x y H IH Hd|c x y H IH|c x y H IH].
    - rewrite !Nat.sub_diag. apply P_refl.
    - pose proof (Path_mono _ _ _ _ _ _ H) as [Hx Hy].
      replace (S x - X) with (S (x - X)) by lia. replace (S y - Y) with (S (y - Y)) by lia.
      apply P_diag; [exact IH|]. rewrite <- Hsh.
      replace (X + (x - X)) with x by lia. replace (Y + (y - Y)) with y by lia. exact Hd.
    - pose proof (Path_mono _ _ _ _ _ _ H) as [Hx Hy].
      replace (S x - X) with (S (x - X)) by lia. apply P_right. exact IH.
    - pose proof (Path_mono _ _ _ _ _ _ H) as [Hx Hy].
      replace (S y - Y) with (S (y - Y)) by lia. apply P_down. exact IH.
  Qed.

  Variable cmp : cmpf.
  Variables os oe ns ne : nat.
  Notation n := (oe - os).
  Notation m := (ne - ns).
  Notation G := (dg_of cmp os oe ns ne).
  Notation Gr := (dg_rev (oe - os) (ne - ns) (dg_of cmp os oe ns ne)).

  (* left/top sub-box: its own graph agrees with G below (x,y) *)
  Lemma left_box : forall x y c, os <= x <= oe -> ns <= y <= ne ->
    MinCost G (x - os) (y - ns) c -> BoxCost cmp os x ns y c.
  Proof.
    intros x y c Hx Hy [Hr Hmin]. unfold BoxCost.
    assert (Hagree : forall a b, a < x - os -> b < y - ns ->
              G a b = dg_of cmp os x ns y a b).
    { intros a b Ha Hb. unfold dg_of.
      destruct (Nat.ltb_spec a (oe - os)); [|lia]. destruct (Nat.ltb_spec b (ne - ns)); [|lia].
      destruct (Nat.ltb_spec a (x - os)); [|lia]. destruct (Nat.ltb_spec b (y - ns)); [|lia].
      reflexivity. }
    split.
    - apply (Reach_region G _ (x - os) (y - ns) Hagree); [exact Hr|lia|lia].
    - intros c' Hc'. apply Hmin.
      apply (Reach_region (dg_of cmp os x ns y) G (x - os) (y - ns)); [|exact Hc'|lia|lia].
      intros a b Ha Hb. symmetry. apply Hagree; assumption.
  Qed.

  (* right/bottom sub-box: its graph is G translated by (x,y) *)
  Lemma right_box : forall x y c, os <= x <= oe -> ns <= y <= ne ->
    MinCost Gr (n - (x - os)) (m - (y - ns)) c -> BoxCost cmp x oe y ne c.
  Proof.
    intros x y c Hx Hy [Hr Hmin]. unfold BoxCost.
    assert (Hsh : forall a b, G ((x - os) + a) ((y - ns) + b) = dg_of cmp x oe y ne a b).
    { intros a b. unfold dg_of.
      destruct (Nat.ltb_spec (x - os + a) (oe - os)); destruct (Nat.ltb_spec a (oe - x)); try lia;
        destruct (Nat.ltb_spec (y - ns + b) (ne - ns)); destruct (Nat.ltb_spec b (ne - y)); try lia;
        cbn [andb]; try reflexivity.
      replace (os + (x - os + a)) with (x + a) by lia.
      replace (ns + (y - ns + b)) with (y + b) by lia. reflexivity. }
    pose proof (dg_of_box cmp os oe ns ne) as HboxG.
    assert (Hxn : x - os <= n) by lia. assert (Hym : y - ns <= m) by lia.
    split.
    - apply (Path_to_corner_rev n m G HboxG _ _ _ Hxn Hym) in Hr.
      apply (Path_unshift G _ _ _ Hsh) in Hr. apply Path_Reach.
      replace (oe - x) with (n - (x - os)) by lia. replace (ne - y) with (m - (y - ns)) by lia.
      exact Hr.
    - intros c' Hc'. apply Hmin.
      apply (Path_to_corner_rev n m G HboxG _ _ _ Hxn Hym).
      apply Reach_Path in Hc'. apply (Path_shift G _ _ _ Hsh) in Hc'.
      replace (x - os + (oe - x)) with n in Hc' by lia.
      replace (y - ns + (ne - y)) with m in Hc' by lia. exact Hc'.
  Qed.
End Regions.

(* -------------------------------------------------------- the round loop *)
Section Rounds.
  Context {W : Type}.
  Variable wd : world W.
  Variable cmp : cmpf.
  Variables os oe ns ne : nat.
  Variable md : nat.
  Variable D : nat.
  Notation n := (oe - os).
  Notation m := (ne - ns).
  Notation delta := (Z.of_nat (oe - os) - Z.of_nat (ne - ns))%Z.
  Notation G := (dg_of cmp os oe ns ne).
  Notation Gr := (dg_rev (oe - os) (ne - ns) (dg_of cmp os oe ns ne)).
  Hypothesis Htot : CmpTotal cmp os oe ns ne.
  Hypothesis Hmd : max_d n m <= md.
  Hypothesis HD : MinCost G n m D.
  Hypothesis HD2 : 2 <= D.

  Let HboxG : DgBox n m G := dg_of_box cmp os oe ns ne.
  Let HboxGr : DgBox n m Gr := dg_rev_box n m G.

  (* the returned point, in box coordinates: in the box, and an optimal path
     runs through it with both parts non-trivial *)
  Definition Good (p : nat * nat) : Prop :=
    exists x0 y0 d1, p = (x0 + os, y0 + ns) /\ x0 <= n /\ y0 <= m /\
      MinCost G x0 y0 d1 /\ MinCost Gr (n - x0) (m - y0) (D - d1) /\
      1 <= d1 /\ d1 < D.

  Lemma fwd_res_good : forall d p, 2 * d <= D + 1 -> FwdRes cmp os oe ns ne d p -> Good p.
  Proof.
    intros d p HdD [k [x0 [s [Hpar [Hy [-> [Hr [Hrun [HFR Hhit]]]]]]]]].
    destruct Hhit as [Hodd [Habs [xf [ub [HFRf [HFRb Htest]]]]]].
    rewrite (FR_unique G _ _ _ _ HFRf HFR) in Htest.
    destruct (fwd_pass n m G HboxG D HD d k x0 s ub HdD ltac:(lia) Habs Hy Hr Hrun HFRb Htest)
      as [Hx0 [Hy0 [Hf [Hb HDd]]]].
    exists x0, (Z.to_nat (Z.of_nat x0 - k)), d. split; [reflexivity|].
    split; [exact Hx0|]. split; [exact Hy0|]. split; [exact Hf|].
    replace (D - d) with (d - 1) by lia. split; [exact Hb|]. lia.
  Qed.

  Lemma bwd_res_good : forall d p, 2 * d <= D -> BwdRes cmp os oe ns ne d p -> Good p.
  Proof.
    intros d p HdD [k [u1 [v1 [Hpar [Hdiag [Hu [Hv [-> [HFR Hhit]]]]]]]]].
    destruct Hhit as [Hodd [Habs [ub [xf [HFRb [HFRf Htest]]]]]].
    rewrite (FR_unique Gr _ _ _ _ HFRb HFR) in Htest.
    destruct (bwd_pass n m G HboxG D HD d k u1 v1 xf HdD Hdiag Hu Hv HFR HFRf Htest)
      as [Hf [Hb HDd]].
    exists (n - u1), (m - v1), d. split; [reflexivity|].
    split; [lia|]. split; [lia|]. split; [exact Hf|].
    replace (n - (n - u1)) with u1 by lia. replace (m - (m - v1)) with v1 by lia.
    replace (D - d) with d by lia. split; [exact Hb|]. lia.
  Qed.

  Lemma round_loop_spec : forall rounds d vf vb w,
    rounds + d = max_d n m -> 2 * d <= D + 1 ->
    VOk md vf -> VOk md vb -> PrevOk G d vf -> PrevOk Gr d vb ->
    exists r vf' vb' w',
      round_loop wd cmp os oe ns ne rounds d vf vb w = Ok (r, vf', vb', w') /\
      VOk md vf' /\ VOk md vb' /\ PT wd w w' /\
      match r with
      | Some p => Good p
      | None => exists w1 w2, PT wd w w1 /\ probe wd w1 = (true, w2)
      end.
  Proof.
    induction rounds as [|rounds IH]; intros d vf vb w Hsum HdD Hvf Hvb Hpf Hpb.
    - exfalso. pose proof (MinCost_le_sum G _ _ _ HD) as Hle.
      unfold max_d in Hsum. cbn [Nat.add] in Hsum.
      pose proof (Nat.div_mod (n + m + 1) 2 ltac:(lia)) as Hdm.
      pose proof (Nat.mod_upper_bound (n + m + 1) 2 ltac:(lia)). lia.
    - assert (Hd : S d <= md) by lia.
      cbn [round_loop]. destruct (probe wd w) as [ex w0] eqn:Hprobe.
      assert (HPT0 : PT wd w w0) by (eapply PT_probe; [apply PT_refl|exact Hprobe]).
      destruct ex.
      { exists None, vf, vb, w0. split; [reflexivity|]. split; [exact Hvf|]. split; [exact Hvb|].
        split; [exact HPT0|]. exists w, w0. split; [apply PT_refl|exact Hprobe]. }
      destruct (fwd_loop_spec wd cmp os oe ns ne md Htot d (S d) (Z.of_nat d) vf vb w0
                  Hd ltac:(lia) ltac:(lia) Hvf Hvb Hpf Hpb (Done_start G d vf))
        as [r [vf1 [w1 [Hfwd [Hvf1 [HPT1 Hres1]]]]]].
      { intros j [Hr _] Hlt. lia. }
      rewrite Hfwd. cbn [bind].
      destruct r as [p|].
      { exists (Some p), vf1, vb, w1. split; [reflexivity|]. split; [exact Hvf1|].
        split; [exact Hvb|]. split; [exact (PT_trans _ wd _ _ _ HPT0 HPT1)|].
        apply (fwd_res_good d p HdD Hres1). }
      destruct Hres1 as [Hpf1 Hnof].
      assert (HdD2 : 2 * d <= D).
      { destruct (Nat.eq_dec (D + 1) (2 * d)) as [E|E]; [|lia]. exfalso.
        destruct (fwd_complete n m G HboxG D HD d E) as [Hodd [k [xf [ub [Hpar [Habs [H1 [H2 H3]]]]]]]].
        apply (Hnof k Hpar). split; [exact Hodd|]. split; [exact Habs|].
        exists xf, ub. auto. }
      destruct (bwd_loop_spec wd cmp os oe ns ne md Htot d (S d) (Z.of_nat d) vf1 vb w1
                  Hd ltac:(lia) ltac:(lia) Hvf1 Hvb Hpf1 Hpb)
        as [r [vb1 [w2 [Hbwd [Hvb1 [HPT2 Hres2]]]]]].
      { intros j Hodd Habs u v Hk Hr.
        apply (bwd_in_box n m G HboxG D HD d j u v HdD2 Habs Hk Hr). }
      { apply Done_start. }
      { intros j [Hr _] Hlt. lia. }
      rewrite Hbwd. cbn [bind].
      pose proof (PT_trans _ wd _ _ _ HPT0 (PT_trans _ wd _ _ _ HPT1 HPT2)) as HPT02.
      destruct r as [p|].
      { exists (Some p), vf1, vb1, w2. split; [reflexivity|]. split; [exact Hvf1|].
        split; [exact Hvb1|]. split; [exact HPT02|].
        apply (bwd_res_good d p HdD2 Hres2). }
      destruct Hres2 as [Hpb1 Hnob].
      assert (HdD3 : 2 * S d <= D + 1).
      { destruct (Nat.eq_dec D (2 * d)) as [E|E]; [|lia]. exfalso.
        destruct (bwd_complete n m G HboxG D HD d E) as [Hodd [k [ub [xf [Hpar [Habs [H1 [H2 H3]]]]]]]].
        apply (Hnob k Hpar). split; [exact Hodd|]. split; [exact Habs|].
        exists ub, xf. auto. }
      destruct (IH (S d) vf1 vb1 w2 ltac:(lia) HdD3 Hvf1 Hvb1 Hpf1 Hpb1)
        as [r [vf' [vb' [w' [Hrec [Hvf' [Hvb' [HPT3 Hres3]]]]]]]].
      exists r, vf', vb', w'. split; [exact Hrec|]. split; [exact Hvf'|]. split; [exact Hvb'|].
      split; [exact (PT_trans _ wd _ _ _ HPT02 HPT3)|].
      destruct r as [p|]; [exact Hres3|].
      destruct Hres3 as [wa [wb [HPTa Hpr]]]. exists wa, wb.
      split; [exact (PT_trans _ wd _ _ _ HPT02 HPTa)|exact Hpr].
  Qed.
End Rounds.

(* ---------------------------------------------------------- main theorem *)
Theorem snake_spec : forall (W : Type) (wd : world W) (cmp : cmpf), SnakeSpec wd cmp.
Proof.
  intros W wd cmp os oe ns ne md vf vb w [Ho [Hn [Hfirst Hlast]]] Htot Hmd Hvf Hvb.
  set (G := dg_of cmp os oe ns ne).
  pose proof (dg_of_box cmp os oe ns ne) as HboxG. fold G in HboxG.
  destruct (MinCost_exists _ _ G HboxG (oe - os) (ne - ns)) as [D HD].
  assert (HD2 : 2 <= D).
  { apply (stripped_cost (oe - os) (ne - ns) G D); try lia; [| |exact HD].
    - unfold G, dg_of. destruct (Nat.ltb_spec 0 (oe - os)); [|lia].
      destruct (Nat.ltb_spec 0 (ne - ns)); [|lia]. cbn [andb].
      rewrite !Nat.add_0_r. rewrite Hfirst. reflexivity.
    - unfold G, dg_of. destruct (Nat.ltb_spec (oe - os - 1) (oe - os)); [|lia].
      destruct (Nat.ltb_spec (ne - ns - 1) (ne - ns)); [|lia]. cbn [andb].
      replace (os + (oe - os - 1)) with (oe - 1) by lia.
      replace (ns + (ne - ns - 1)) with (ne - 1) by lia. rewrite Hlast. reflexivity. }
  assert (Hmd2 : 2 <= max_d (oe - os) (ne - ns)).
  { unfold max_d.
    pose proof (Nat.div_mod (oe - os + (ne - ns) + 1) 2 ltac:(lia)) as Hdm.
    pose proof (Nat.mod_upper_bound (oe - os + (ne - ns) + 1) 2 ltac:(lia)). lia. }
  assert (H1 : InR md 1%Z) by (unfold InR; lia).
  destruct (v_set_ok md vf 1%Z 0 Hvf H1) as [vf0 [Hsf [Hvf0 [Hgf _]]]].
  destruct (v_set_ok md vb 1%Z 0 Hvb H1) as [vb0 [Hsb [Hvb0 [Hgb _]]]].
  destruct (round_loop_spec wd cmp os oe ns ne md D Htot Hmd HD HD2
              (max_d (oe - os) (ne - ns)) 0 vf0 vb0 w ltac:(lia) ltac:(lia) Hvf0 Hvb0 Hgf Hgb)
    as [r [vf' [vb' [w' [Hloop [Hvf' [Hvb' [HPT Hres]]]]]]]].
  exists r, vf', vb', w'. split.
  { unfold find_middle_snake. rewrite Hsf. cbn [bind]. rewrite Hsb. cbn [bind].
    destruct Hvf0 as [Hl0 _]. destruct Hvb0 as [Hl1 _]. rewrite Hl0, Hl1.
    destruct (Nat.ltb_spec (2 * md) (max_d (oe - os) (ne - ns))) as [Hc|_]; [lia|].
    cbn [orb]. exact Hloop. }
  split; [exact Hvf'|]. split; [exact Hvb'|]. split; [exact HPT|].
  destruct r as [[x y]|]; [|exact Hres].
  destruct Hres as [x0 [y0 [d1 [Hp [Hx0 [Hy0 [Hf [Hb [Hd1 Hd1D]]]]]]]]].
  injection Hp as -> ->.
  split; [lia|]. split; [lia|].
  split.
  { intros E. injection E as Ex Ey. assert (x0 = 0) by lia. assert (y0 = 0) by lia. subst x0 y0.
    destruct Hf as [_ Hmin]. specialize (Hmin 0 (R_start _)). lia. }
  split.
  { intros E. injection E as Ex Ey.
    assert (Ex0 : x0 = oe - os) by lia. assert (Ey0 : y0 = ne - ns) by lia. subst x0 y0.
    rewrite !Nat.sub_diag in Hb.
    destruct Hb as [_ Hmin]. specialize (Hmin 0 (R_start _)). lia. }
  intros D' D1 D2 HD' HD1 HD2'.
  unfold BoxCost in HD'. fold G in HD'.
  assert (D' = D) by (apply (MinCost_unique G _ _ _ _ HD' HD)). subst D'.
  assert (Hl : BoxCost cmp os (x0 + os) ns (y0 + ns) d1).
  { apply (left_box cmp os oe ns ne); [lia|lia|].
    replace (x0 + os - os) with x0 by lia. replace (y0 + ns - ns) with y0 by lia. exact Hf. }
  assert (Hr : BoxCost cmp (x0 + os) oe (y0 + ns) ne (D - d1)).
  { apply (right_box cmp os oe ns ne); [lia|lia|].
    replace (x0 + os - os) with x0 by lia. replace (y0 + ns - ns) with y0 by lia. exact Hb. }
  unfold BoxCost in *.
  rewrite (MinCost_unique _ _ _ _ _ HD1 Hl). rewrite (MinCost_unique _ _ _ _ _ HD2' Hr). lia.
Qed.

Print Assumptions snake_spec.
