(* Proofs/CheckScript.v — the boolean checkers of Check/Script.v decide the
   specifications of Spec/Script.v; the strong raw walk implies the property's
   run-relative reading; applying a valid op list reproduces the new range. *)
From Similar Require Import Model.Base Spec.Script Check.Script Proofs.Utils.

Section Reflect.
  Variable cmp : cmpf.

  Lemma seg_eq_spec l : forall o n, seg_eq cmp o n l = true <-> SegEq cmp o n l.
  Proof.
    induction l as [|l IH]; intros o n; cbn [seg_eq].
    - split; [intros _; apply SegEq_0|reflexivity].
    - split.
      + intros H. destruct (cmp o n) as [[|]| |] eqn:E; try discriminate.
        apply SegEq_S; [exact E|]. now apply IH.
      + intros H. assert (E : cmp o n = Ok true).
        { specialize (H 0 ltac:(lia)). now rewrite !Nat.add_0_r in H. }
        rewrite E. apply IH. intros t Ht.
        replace (S o + t) with (o + S t) by lia. replace (S n + t) with (n + S t) by lia.
        apply H; lia.
  Qed.

  (* ---------------- finish ---------------- *)
  Lemma check_finish_last_spec cs : check_finish_last cs = true <-> FinishLast cs.
  Proof.
    induction cs as [|c r IH].
    - split; [discriminate|]. intros (b & Hb & _). destruct b; discriminate.
    - split.
      + intros H. destruct r as [|c' r'].
        * destruct c; try discriminate. exists []. split; [reflexivity|intros []].
        * assert (Hc : c <> CFin) by (intros ->; discriminate).
          assert (Hr : check_finish_last (c' :: r') = true) by (destruct c; try exact H; congruence).
          apply IH in Hr. destruct Hr as (b & Hb & Hn). exists (c :: b). split.
          -- cbn. now rewrite Hb.
          -- intros [Hin|Hin]; [now apply Hc|now apply Hn].
      + intros (b & Hb & Hn). destruct b as [|c0 b].
        * cbn in Hb. inversion Hb; subst. reflexivity.
        * cbn in Hb. inversion Hb; subst c0 r.
          assert (Hc : c <> CFin) by (intros ->; apply Hn; now left).
          assert (Hr : check_finish_last (b ++ [CFin]) = true).
          { apply IH. exists b. split; [reflexivity|]. intros Hin; apply Hn; now right. }
          destruct (b ++ [CFin]) as [|c' r'] eqn:Eb; [destruct b; discriminate|].
          destruct c; try exact Hr. congruence.
  Qed.

  (* ---------------- ops walks ---------------- *)
  Lemma check_ops_walk_spec exact oe ne ops : forall i j,
    check_ops_walk cmp exact oe ne i j ops = true <-> OpsWalk cmp exact oe ne i j ops.
  Proof.
    induction ops as [|x r IH]; intros i j; cbn [check_ops_walk].
    - rewrite Bool.andb_true_iff, !Nat.eqb_eq. split.
      + intros [-> ->]. constructor.
      + intros H. inversion H; subst. auto.
    - destruct x as [o n l|o l n|o n l|o ol n nl].
      + rewrite !Bool.andb_true_iff, !Nat.eqb_eq, seg_eq_spec, IH. split.
        * intros [[[-> ->] Hs] Hw]. now constructor.
        * intros H. inversion H; subst. auto.
      + rewrite !Bool.andb_true_iff, Nat.eqb_eq, Nat.leb_le, IH, Bool.orb_true_iff, Bool.negb_true_iff, Nat.eqb_eq. split.
        * intros [[[-> He] Hb] Hw]. constructor; auto. intros ->. destruct He; [discriminate|assumption].
        * intros H. inversion H; subst. repeat split; auto.
          destruct exact; [right; auto|left; reflexivity].
      + rewrite !Bool.andb_true_iff, Nat.eqb_eq, Nat.leb_le, IH, Bool.orb_true_iff, Bool.negb_true_iff, Nat.eqb_eq. split.
        * intros [[[-> He] Hb] Hw]. constructor; auto. intros ->. destruct He; [discriminate|assumption].
        * intros H. inversion H; subst. repeat split; auto.
          destruct exact; [right; auto|left; reflexivity].
      + rewrite !Bool.andb_true_iff, !Nat.eqb_eq, !Nat.leb_le, IH. split.
        * intros [[[[-> ->] Hb1] Hb2] Hw]. now constructor.
        * intros H. inversion H; subst. auto.
  Qed.

  Theorem check_ops_loose_spec os oe ns ne ops :
    check_ops_loose cmp os oe ns ne ops = true <-> OpsLoose cmp os oe ns ne ops.
  Proof. apply check_ops_walk_spec. Qed.

  Theorem check_ops_exact_spec os oe ns ne ops :
    check_ops_exact cmp os oe ns ne ops = true <-> OpsExact cmp os oe ns ne ops.
  Proof. apply check_ops_walk_spec. Qed.

  Lemma OpsExact_loose oe ne ops : forall i j,
    OpsWalk cmp true oe ne i j ops -> OpsWalk cmp false oe ne i j ops.
  Proof.
    intros i j H. induction H; constructor; auto; discriminate.
  Qed.

  (* ---------------- normal form ---------------- *)
  Lemma op_nonempty_spec x : op_nonempty x = true <-> NonEmptyOp x.
  Proof.
    destruct x; cbn [op_nonempty NonEmptyOp]; rewrite ?Bool.andb_true_iff, ?Nat.ltb_lt; tauto.
  Qed.

  Lemma is_equal_spec x : is_equal x = true <-> IsEqualOp x.
  Proof. destruct x; cbn; split; auto; discriminate. Qed.

  Lemma check_alternating_spec ops : check_alternating ops = true <-> Alternating ops.
  Proof.
    induction ops as [|x r IH]; cbn [check_alternating].
    - split; [constructor|reflexivity].
    - destruct r as [|y r'].
      + rewrite Bool.andb_true_r, op_nonempty_spec. split.
        * now constructor.
        * intros H; inversion H; subst; auto.
      + rewrite !Bool.andb_true_iff, op_nonempty_spec, IH, Bool.negb_true_iff. split.
        * intros (Hx & Hxy & Hr). constructor; auto.
          clear - Hxy. destruct x, y; cbn in Hxy |- *; try discriminate; tauto.
        * intros H. inversion H as [| |x0 y0 r0 Hx Hxy Hr]; subst. repeat split; auto.
          clear - Hxy. destruct x, y; cbn in Hxy |- *; try reflexivity; tauto.
  Qed.

  Lemma check_insert_latest_spec ops : check_insert_latest cmp ops = true <-> InsertLatest cmp ops.
  Proof.
    induction ops as [|x r IH].
    - split; [constructor|reflexivity].
    - destruct r as [|y r'].
      + split; [constructor|]. intros _. destruct x; reflexivity.
      + cbn [check_insert_latest]. split.
        * intros H. constructor.
          -- intros o n l eo en el -> ->. destruct (cmp eo n) as [[|]| |]; try discriminate. reflexivity.
          -- apply IH. destruct x; try exact H. destruct y; try exact H.
             destruct (cmp o0 n) as [[|]| |]; try discriminate. exact H.
        * intros H. inversion H as [| |x0 y0 r0 Hxy Hr]; subst. apply IH in Hr.
          destruct x; try exact Hr. destruct y; try exact Hr.
          rewrite (Hxy _ _ _ _ _ _ eq_refl eq_refl). exact Hr.
  Qed.

  Theorem check_normal_spec ops : check_normal cmp ops = true <-> NormalForm cmp ops.
  Proof.
    unfold check_normal, NormalForm.
    now rewrite Bool.andb_true_iff, check_alternating_spec, check_insert_latest_spec.
  Qed.

  (* ---------------- raw: checker <-> run-relative spec ---------------- *)
  Lemma check_raw_walk_spec oe ne cs : forall i j i0 j0,
    check_raw_walk cmp oe ne i j i0 j0 cs = true <-> RawSpec cmp oe ne i j i0 j0 cs.
  Proof.
    induction cs as [|c r IH]; intros i j i0 j0.
    - split; [discriminate|intros H; inversion H].
    - destruct c as [o n l|o l n|o n l|o ol n nl|].
      + cbn [check_raw_walk].
        rewrite !Bool.andb_true_iff, Nat.ltb_lt, !Nat.eqb_eq, seg_eq_spec, IH. split.
        * intros [[[[Hl ->] ->] Hs] Hw]. now constructor.
        * intros H. inversion H; subst. auto.
      + cbn [check_raw_walk].
        destruct (run_ends i j (CDel o l n :: r)) as [i1 j1] eqn:E.
        rewrite !Bool.andb_true_iff, Nat.ltb_lt, Nat.eqb_eq, !Nat.leb_le, IH. split.
        * intros [[[[[Hl ->] H0] H1] Hb] Hw]. constructor; auto. now rewrite E.
        * intros H. inversion H; subst. rewrite E in *. cbn [snd] in *. auto 10.
      + cbn [check_raw_walk].
        destruct (run_ends i j (CIns o n l :: r)) as [i1 j1] eqn:E.
        rewrite !Bool.andb_true_iff, Nat.ltb_lt, Nat.eqb_eq, !Nat.leb_le, IH. split.
        * intros [[[[[Hl ->] H0] H1] Hb] Hw]. constructor; auto. now rewrite E.
        * intros H. inversion H; subst. rewrite E in *. cbn [fst] in *. auto 10.
      + cbn [check_raw_walk]. split; [discriminate|intros H; inversion H].
      + destruct r as [|c' r'].
        * cbn [check_raw_walk]. rewrite Bool.andb_true_iff, !Nat.eqb_eq. split.
          -- intros [-> ->]. constructor.
          -- intros H. inversion H; subst. auto.
        * cbn [check_raw_walk]. split; [discriminate|intros H; inversion H].
  Qed.

  Theorem check_raw_spec os oe ns ne cs :
    check_raw cmp os oe ns ne cs = true <-> RawValid cmp os oe ns ne cs.
  Proof. apply check_raw_walk_spec. Qed.

  (* ---------------- strong walk -> property reading ---------------- *)
  Lemma run_ends_mono cs : forall i j, i <= fst (run_ends i j cs) /\ j <= snd (run_ends i j cs).
  Proof.
    induction cs as [|c r IH]; intros i j; cbn [run_ends]; [cbn; lia|].
    destruct c; cbn [fst snd]; try lia.
    - specialize (IH (i + l) j). lia.
    - specialize (IH i (j + l)). lia.
  Qed.

  Lemma RawWalk_bounds oe ne i j i0 body : RawWalk cmp oe ne i j i0 body -> i <= oe /\ j <= ne.
  Proof. intros H. induction H; lia. Qed.

  Lemma RawWalk_spec oe ne i j i0 body :
    RawWalk cmp oe ne i j i0 body -> forall j0, j0 <= j ->
    RawSpec cmp oe ne i j i0 j0 (body ++ [CFin]).
  Proof.
    intros H. induction H as [i0|i j i0 l cs Hl Hs Hw IH|i j i0 l cs Hl Hw IH|i j i0 o l cs Hl Ho1 Ho2 Hw IH];
      intros j0 Hj0; cbn [app].
    - constructor.
    - constructor; auto.
    - pose proof (RawWalk_bounds _ _ _ _ _ _ Hw) as [Hb1 Hb2].
      pose proof (run_ends_mono (cs ++ [CFin]) (i + l) j) as [Hm1 Hm2].
      constructor; [exact Hl|exact Hb1|exact Hj0| |apply IH; exact Hj0].
      cbn [run_ends]. lia.
    - pose proof (RawWalk_bounds _ _ _ _ _ _ Hw) as [Hb1 Hb2].
      pose proof (run_ends_mono (cs ++ [CFin]) i (j + l)) as [Hm1 Hm2].
      constructor; [exact Hl|exact Hb2|exact Ho1| |apply IH; lia].
      cbn [run_ends]. lia.
  Qed.

  Theorem RawStrong_valid os oe ns ne cs :
    RawStrong cmp os oe ns ne cs -> RawValid cmp os oe ns ne cs.
  Proof.
    intros (body & -> & Hw). apply RawWalk_spec; [exact Hw|lia].
  Qed.

  Lemma RawWalk_no_fin oe ne i j i0 body : RawWalk cmp oe ne i j i0 body -> ~ In CFin body.
  Proof. intros H. induction H; cbn; [intros []|intros [Hc|Hc]; [discriminate|auto]..]. Qed.

  Theorem RawStrong_finish_last os oe ns ne cs :
    RawStrong cmp os oe ns ne cs -> FinishLast cs.
  Proof.
    intros (body & -> & Hw). exists body. split; [reflexivity|]. eapply RawWalk_no_fin; eauto.
  Qed.

End Reflect.

(* ---------------- applying a valid script ---------------- *)
Section ApplyOps.
  Context {A : Type}.
  Variable eqb : A -> A -> bool.
  Hypothesis eqb_eq : forall x y, eqb x y = true -> x = y.
  Variables old new : list A.
  Let cmp := cmp_of eqb (slice_lookup old) (slice_lookup new).

  Lemma seg_S (l : list A) s len x :
    nth_error l s = Some x -> seg l s (S len) = x :: seg l (S s) len.
  Proof.
    unfold seg. revert s. induction l as [|a l IH]; intros [|s] H; cbn in *; try discriminate.
    - now inversion H.
    - now apply IH.
  Qed.

  Lemma firstn_plus (L : list A) : forall a b, firstn (a + b) L = firstn a L ++ firstn b (skipn a L).
  Proof.
    induction L as [|x L IH]; intros [|a] b; cbn; try reflexivity.
    - now destruct b.
    - now rewrite IH.
  Qed.

  Lemma skipn_plus (l : list A) : forall s a, skipn a (skipn s l) = skipn (s + a) l.
  Proof.
    induction l as [|x l IH]; intros [|s] a; cbn; try reflexivity.
    - now destruct a.
    - apply IH.
  Qed.

  Lemma seg_add (l : list A) s a b : seg l s (a + b) = seg l s a ++ seg l (s + a) b.
  Proof. unfold seg. now rewrite firstn_plus, skipn_plus. Qed.

  Lemma SegEq_seg l : forall o n, SegEq cmp o n l -> seg old o l = seg new n l.
  Proof.
    induction l as [|l IH]; intros o n H; [reflexivity|].
    assert (H0 := H 0 ltac:(lia)). rewrite !Nat.add_0_r in H0.
    unfold cmp, cmp_of, slice_lookup in H0.
    destruct (nth_error new n) as [y|] eqn:En; [|discriminate].
    destruct (nth_error old o) as [x|] eqn:Eo; [|discriminate].
    inversion H0 as [He]. apply eqb_eq in He. subst y.
    rewrite (seg_S _ _ _ _ Eo), (seg_S _ _ _ _ En). f_equal. apply IH.
    intros t Ht. replace (S o + t) with (o + S t) by lia. replace (S n + t) with (n + S t) by lia.
    apply H; lia.
  Qed.

  (* C02: applying a (loosely) valid op list to old yields exactly new's range *)
  Theorem apply_ops_correct exact oe ne ops : forall i j,
    OpsWalk cmp exact oe ne i j ops -> j <= ne ->
    apply_ops old new ops = seg new j (ne - j).
  Proof.
    intros i j H. induction H as [|i j l r Hs Hw IH|i j l n r He Hb Hw IH|i j o l r He Hb Hw IH|i j ol nl r Hb1 Hb2 Hw IH];
      intros Hj; cbn [apply_ops].
    - now rewrite Nat.sub_diag.
    - assert (Hb : j + l <= ne).
      { clear - Hw. remember (j + l) as j'. clear Heqj'. induction Hw; lia. }
      rewrite IH by lia. rewrite (SegEq_seg _ _ _ Hs).
      replace (ne - j) with (l + (ne - (j + l))) by lia. now rewrite seg_add.
    - apply IH; lia.
    - rewrite IH by lia. replace (ne - j) with (l + (ne - (j + l))) by lia. now rewrite seg_add.
    - rewrite IH by lia. replace (ne - j) with (nl + (ne - (j + nl))) by lia. now rewrite seg_add.
  Qed.
End ApplyOps.
