(* Proofs/MyersConquer.v — minimality of the script produced by Myers'
   [conquer] / [myers_diff] when no deadline fires (property C03), assuming the
   specification [SnakeSpec] of the middle-snake search.

   Cost facts used:
   (a) an empty-sided box costs the length of its other side;
   (b) SnakeSpec's additivity D = D1 + D2 at the returned point;
   (c) stripping a common prefix / suffix does not change the cost of a box.

   Remark on (c).  It holds for an ARBITRARY comparison oracle [cmp]: no
   symmetry / transitivity ("rectangle") hypothesis is needed.  A common
   subsequence (Spec.Script.CommonSub) is a chain of matched pairs strictly
   increasing on both sides; if cmp os ns = Ok true, every chain from (os,ns)
   is either empty or (i,j) :: m with m a chain from (S i, S j), hence a chain
   from (S os, S ns); so LCS(os..,ns..) = 1 + LCS(os+1..,ns+1..) by a direct
   argument, and symmetrically at the end.  (c) then follows from
   MinCost_LCS / MinCost_gives_LCS.  [Rect] and [Rect_cmp_of] are provided for
   reference but are not premises of any theorem below. *)
From Similar Require Import Model.Base Model.Utils Model.Myers Model.Hooks
  Spec.Script Spec.EditGraph Spec.SnakeSpec
  Proofs.Utils Proofs.EditGraph Proofs.EditGraphSplit Proofs.WorldInv.

Local Open Scope nat_scope.

(* ------------------------------------------------------------ LCS and strips *)
Section LcsStrip.
  Variable cmp : cmpf.

  Lemma CSub_lower oe ne os ns M os' ns' :
    CommonSub cmp oe ne os ns M -> os' <= os -> ns' <= ns ->
    CommonSub cmp oe ne os' ns' M.
  Proof.
    intros H Ho Hn. destruct H as [os ns|os ns i j m H1 H2 H3 H4 H5 H6].
    - apply CSub_nil.
    - apply CSub_cons; try lia; assumption.
  Qed.

  Lemma CSub_empty oe ne os ns M :
    CommonSub cmp oe ne os ns M -> oe <= os \/ ne <= ns -> M = [].
  Proof.
    intros H Hor. destruct H as [os ns|os ns i j m H1 H2 H3 H4 H5 H6].
    - reflexivity.
    - exfalso. lia.
  Qed.

  Lemma CSub_snoc oe ne os ns M :
    CommonSub cmp oe ne os ns M -> os <= oe -> ns <= ne -> cmp oe ne = Ok true ->
    CommonSub cmp (S oe) (S ne) os ns (M ++ [(oe, ne)]).
  Proof.
    intros H. induction H as [os ns|os ns i j m H1 H2 H3 H4 H5 H6 IH]; intros Ho Hn Hc.
    - cbn [app]. apply CSub_cons; try lia; [assumption|apply CSub_nil].
    - cbn [app]. apply CSub_cons; try lia; [assumption|]. apply IH; try lia; assumption.
  Qed.

  Lemma CSub_unsnoc oe ne os ns M :
    CommonSub cmp (S oe) (S ne) os ns M ->
    exists M', CommonSub cmp oe ne os ns M' /\ length M <= S (length M').
  Proof.
    intros H. induction H as [os ns|os ns i j m H1 H2 H3 H4 H5 H6 IH].
    - exists []. split; [apply CSub_nil|cbn [length]; lia].
    - destruct IH as (m'' & Hm'' & Hlen).
      destruct (Nat.eq_dec i oe) as [Hi|Hi].
      + assert (Hnil : m = []) by (eapply CSub_empty; [exact H6|left; lia]).
        subst m. exists []. split; [apply CSub_nil|cbn [length]; lia].
      + destruct (Nat.eq_dec j ne) as [Hj|Hj].
        * assert (Hnil : m = []) by (eapply CSub_empty; [exact H6|right; lia]).
          subst m. exists []. split; [apply CSub_nil|cbn [length]; lia].
        * exists ((i, j) :: m''). split; [|cbn [length]; lia].
          apply CSub_cons; try lia; assumption.
  Qed.

  Lemma IsLcsLen_empty os oe ns ne L :
    oe <= os \/ ne <= ns -> IsLcsLen cmp os oe ns ne L -> L = 0.
  Proof.
    intros Hor [(M & HM & Hlen) _].
    rewrite (CSub_empty _ _ _ _ _ HM Hor) in Hlen. cbn [length] in Hlen. lia.
  Qed.

  (* one matching pair at the front *)
  Lemma IsLcsLen_prefix1 os oe ns ne K :
    IsLcsLen cmp (S os) oe (S ns) ne K -> os < oe -> ns < ne -> cmp os ns = Ok true ->
    IsLcsLen cmp os oe ns ne (S K).
  Proof.
    intros [(M & HM & Hlen) Hup] Ho Hn Hc. split.
    - exists ((os, ns) :: M). split; [|cbn [length]; lia].
      apply CSub_cons; try lia; assumption.
    - intros M1 HM1. destruct HM1 as [os ns|os ns i j m H1 H2 H3 H4 H5 H6].
      + cbn [length]. lia.
      + assert (Hm : CommonSub cmp oe ne (S os) (S ns) m)
          by (eapply CSub_lower; [exact H6|lia|lia]).
        specialize (Hup _ Hm). cbn [length]. lia.
  Qed.

  Lemma SegEq_head o n l :
    SegEq cmp o n (S l) -> cmp o n = Ok true /\ SegEq cmp (S o) (S n) l.
  Proof.
    intros H. split.
    - specialize (H 0 ltac:(lia)). now rewrite !Nat.add_0_r in H.
    - intros t Ht. specialize (H (S t) ltac:(lia)).
      now replace (S o + t) with (o + S t) by lia; replace (S n + t) with (n + S t) by lia.
  Qed.

  Lemma IsLcsLen_prefix oe ne : forall p os ns K,
    SegEq cmp os ns p -> os + p <= oe -> ns + p <= ne ->
    IsLcsLen cmp (os + p) oe (ns + p) ne K ->
    IsLcsLen cmp os oe ns ne (K + p).
  Proof.
    induction p as [|p IH]; intros os ns K Hseg Ho Hn HK.
    - now rewrite !Nat.add_0_r in *.
    - apply SegEq_head in Hseg. destruct Hseg as [H0 Hseg].
      replace (K + S p) with (S (K + p)) by lia.
      apply IsLcsLen_prefix1; try lia; [|exact H0].
      apply IH; try lia; [exact Hseg|].
      now replace (S os + p) with (os + S p) by lia; replace (S ns + p) with (ns + S p) by lia.
  Qed.

  (* one matching pair at the back *)
  Lemma IsLcsLen_suffix1 os oe ns ne K :
    IsLcsLen cmp os oe ns ne K -> os <= oe -> ns <= ne -> cmp oe ne = Ok true ->
    IsLcsLen cmp os (S oe) ns (S ne) (S K).
  Proof.
    intros [(M & HM & Hlen) Hup] Ho Hn Hc. split.
    - exists (M ++ [(oe, ne)]). split; [now apply CSub_snoc|].
      rewrite app_length. cbn [length]. lia.
    - intros M1 HM1. destruct (CSub_unsnoc _ _ _ _ _ HM1) as (M' & HM' & Hl').
      specialize (Hup _ HM'). lia.
  Qed.

  Lemma IsLcsLen_suffix os ns : forall s oe ne K,
    IsLcsLen cmp os oe ns ne K -> os <= oe -> ns <= ne -> SegEq cmp oe ne s ->
    IsLcsLen cmp os (oe + s) ns (ne + s) (K + s).
  Proof.
    induction s as [|s IH]; intros oe ne K HK Ho Hn Hseg.
    - now rewrite !Nat.add_0_r.
    - apply SegEq_head in Hseg. destruct Hseg as [H0 Hseg].
      replace (oe + S s) with (S oe + s) by lia. replace (ne + S s) with (S ne + s) by lia.
      replace (K + S s) with (S K + s) by lia.
      apply IH; try lia; [|exact Hseg]. now apply IsLcsLen_suffix1.
  Qed.

  (* ---- BoxCost ---- *)
  Lemma BoxCost_exists os oe ns ne : exists D, BoxCost cmp os oe ns ne D.
  Proof.
    unfold BoxCost.
    apply (MinCost_exists (oe - os) (ne - ns) _ (dg_of_box cmp os oe ns ne)).
  Qed.

  Lemma BoxCost_unique os oe ns ne D D' :
    BoxCost cmp os oe ns ne D -> BoxCost cmp os oe ns ne D' -> D = D'.
  Proof. unfold BoxCost. apply MinCost_unique. Qed.

  (* (a) *)
  Lemma BoxCost_empty_side os oe ns ne D :
    oe <= os \/ ne <= ns -> BoxCost cmp os oe ns ne D -> D = (oe - os) + (ne - ns).
  Proof.
    intros Hor HD. destruct (MinCost_gives_LCS cmp os oe ns ne D HD) as (L & HL & Heq).
    rewrite (IsLcsLen_empty _ _ _ _ _ Hor HL) in Heq. lia.
  Qed.

  (* (c), for an arbitrary cmp *)
  Theorem BoxCost_strip os oe ns ne p s D D' :
    os + p + s <= oe -> ns + p + s <= ne ->
    SegEq cmp os ns p -> SegEq cmp (oe - s) (ne - s) s ->
    BoxCost cmp os oe ns ne D ->
    BoxCost cmp (os + p) (oe - s) (ns + p) (ne - s) D' ->
    D = D'.
  Proof.
    intros Ho Hn Hseg1 Hseg2 HD HD'.
    destruct (MinCost_gives_LCS cmp _ _ _ _ D' HD') as (L' & HL' & Heq').
    assert (H1 : IsLcsLen cmp (os + p) oe (ns + p) ne (L' + s)).
    { pose proof (IsLcsLen_suffix (os + p) (ns + p) s (oe - s) (ne - s) L' HL'
                    ltac:(lia) ltac:(lia) Hseg2) as H.
      replace (oe - s + s) with oe in H by lia.
      replace (ne - s + s) with ne in H by lia. exact H. }
    assert (H2 : IsLcsLen cmp os oe ns ne (L' + s + p)).
    { apply IsLcsLen_prefix; try lia; assumption. }
    pose proof (MinCost_LCS cmp os oe ns ne D (L' + s + p) HD H2) as Heq.
    lia.
  Qed.

  Corollary BoxCost_strip_eq os oe ns ne p s D :
    os + p + s <= oe -> ns + p + s <= ne ->
    SegEq cmp os ns p -> SegEq cmp (oe - s) (ne - s) s ->
    (BoxCost cmp os oe ns ne D <-> BoxCost cmp (os + p) (oe - s) (ns + p) (ne - s) D).
  Proof.
    intros Ho Hn Hseg1 Hseg2. split; intros H.
    - destruct (BoxCost_exists (os + p) (oe - s) (ns + p) (ne - s)) as [D' HD'].
      now rewrite (BoxCost_strip os oe ns ne p s D D' Ho Hn Hseg1 Hseg2 H HD').
    - destruct (BoxCost_exists os oe ns ne) as [D0 HD0].
      now rewrite <- (BoxCost_strip os oe ns ne p s D0 D Ho Hn Hseg1 Hseg2 HD0 H).
  Qed.
End LcsStrip.

(* the "rectangle" property of comparison oracles induced by an equivalence
   (not needed by the theorems of this file, see the header) *)
Definition Rect (cmp : cmpf) : Prop :=
  forall i i' j j', cmp i j = Ok true -> cmp i' j = Ok true -> cmp i j' = Ok true ->
                    cmp i' j' = Ok true.

Lemma Rect_cmp_of {A} (eqb : A -> A -> bool) (old new : lookup A) :
  (forall x y, eqb x y = true -> eqb y x = true) ->
  (forall x y z, eqb x y = true -> eqb y z = true -> eqb x z = true) ->
  Rect (cmp_of eqb old new).
Proof.
  intros Hsym Htrans i i' j j'. unfold cmp_of.
  destruct (new j) as [y|]; [|discriminate].
  destruct (old i) as [x|]; [|discriminate].
  destruct (old i') as [x'|]; [|discriminate].
  destruct (new j') as [y'|]; [|discriminate].
  intros H1 H2 H3. injection H1 as E1. injection H2 as E2. injection H3 as E3.
  f_equal.
  apply (Htrans y' x x'); [exact E3|]. apply (Htrans x y x'); [apply Hsym; exact E1|exact E2].
Qed.

(* ------------------------------------------------ cost emitted by conquer *)
Section Cost.
  Context {W : Type}.
  Variable wd : world W.
  Variable cmp : cmpf.
  Variable cost : W -> nat.

  (* [cost] counts deleted + inserted items *)
  Record CostResp : Prop := {
    cr_probe : forall w b w', probe wd w = (b, w') -> cost w' = cost w;
    cr_tick : forall k w, cost (tick wd k w) = cost w;
    cr_eq : forall o n l w w', emit wd (CEq o n l) w = Ok w' -> cost w' = cost w;
    cr_del : forall o l n w w', emit wd (CDel o l n) w = Ok w' -> cost w' = cost w + l;
    cr_ins : forall o n l w w', emit wd (CIns o n l) w = Ok w' -> cost w' = cost w + l
  }.

  (* the deadline never fires *)
  Definition NoDeadline : Prop := forall w, fst (probe wd w) = false.

  Hypothesis HC : CostResp.
  Hypothesis HN : NoDeadline.
  Hypothesis HS : SnakeSpec wd cmp.
  Variable md : nat.

  Lemma cost_PT w w' : PT wd w w' -> cost w' = cost w.
  Proof.
    intros H. induction H as [w|w w1 b w2 H IH Hp|w w1 k H IH].
    - reflexivity.
    - rewrite (cr_probe HC _ _ _ Hp). exact IH.
    - rewrite (cr_tick HC). exact IH.
  Qed.

  Lemma cost_emit_eq_opt o n l w w' : emit_eq_opt wd o n l w = Ok w' -> cost w' = cost w.
  Proof.
    unfold emit_eq_opt. destruct (0 <? l); intros H.
    - exact (cr_eq HC _ _ _ _ _ H).
    - inversion H. reflexivity.
  Qed.

  Definition CostAt (f : nat) : Prop :=
    forall os oe ns ne vf vb w vf' vb' w' D,
      os <= oe -> ns <= ne -> CmpTotal cmp os oe ns ne ->
      VOk md vf -> VOk md vb -> max_d (oe - os) (ne - ns) <= md ->
      BoxCost cmp os oe ns ne D ->
      conquer wd cmp f os oe ns ne vf vb w = Ok (vf', vb', w') ->
      cost w' = cost w + D.

  Lemma mid_cost f : CostAt f ->
    forall os oe ns ne vf vb w vf' vb' w' D,
      os <= oe -> ns <= ne -> CmpTotal cmp os oe ns ne ->
      (os < oe -> ns < ne -> Stripped cmp os oe ns ne) ->
      VOk md vf -> VOk md vb -> max_d (oe - os) (ne - ns) <= md ->
      BoxCost cmp os oe ns ne D ->
      MidRun wd cmp f os oe ns ne vf vb w vf' vb' w' ->
      cost w' = cost w + D.
  Proof.
    intros IH os oe ns ne vf vb w vf' vb' w' D Hoe Hne Htot Hstr Hvf Hvb Hmd HD HM.
    destruct HM as [Ho Hn|w1 Ho Hn He|w1 Ho Hn He
                   |x y vf1 vb1 w1 vf2 vb2 w2 vf3 vb3 w3 Ho Hn Ef E1 E2
                   |vf1 vb1 w1 w2 w3 Ho Hn Ef E1 E2].
    - rewrite (BoxCost_empty_side cmp os oe ns ne D (or_introl Ho) HD). lia.
    - rewrite (BoxCost_empty_side cmp os oe ns ne D (or_intror Hn) HD).
      rewrite (cr_del HC _ _ _ _ _ He). lia.
    - rewrite (BoxCost_empty_side cmp os oe ns ne D (or_introl Ho) HD).
      rewrite (cr_ins HC _ _ _ _ _ He). lia.
    - destruct (HS os oe ns ne md vf vb w (Hstr Ho Hn) Htot Hmd Hvf Hvb)
        as (r & vf1' & vb1' & w1' & Hf & Hvf1 & Hvb1 & Hpt & Hr).
      rewrite Ef in Hf. inversion Hf; subst r vf1' vb1' w1'. clear Hf.
      cbn beta iota in Hr. destruct Hr as (Hx & Hy & _ & _ & Hadd).
      destruct (BoxCost_exists cmp os x ns y) as [D1 HD1].
      destruct (BoxCost_exists cmp x oe y ne) as [D2 HD2].
      rewrite (Hadd D D1 D2 HD HD1 HD2).
      assert (Ht1 : CmpTotal cmp os x ns y) by (eapply CmpTotal_sub; [exact Htot|lia..]).
      assert (Ht2 : CmpTotal cmp x oe y ne) by (eapply CmpTotal_sub; [exact Htot|lia..]).
      assert (Hm1 : max_d (x - os) (y - ns) <= md)
        by (eapply Nat.le_trans; [apply max_d_mono|exact Hmd]; lia).
      assert (Hm2 : max_d (oe - x) (ne - y) <= md)
        by (eapply Nat.le_trans; [apply max_d_mono|exact Hmd]; lia).
      destruct (conquer_VOk wd cmp md f os x ns y vf1 vb1 w1 vf2 vb2 w2 HS) as [Hvf2 Hvb2];
        try assumption; try lia.
      rewrite (IH x oe y ne vf2 vb2 w2 vf3 vb3 w3 D2); try assumption; try lia.
      rewrite (IH os x ns y vf1 vb1 w1 vf2 vb2 w2 D1); try assumption; try lia.
      rewrite (cost_PT _ _ Hpt). lia.
    - exfalso.
      destruct (HS os oe ns ne md vf vb w (Hstr Ho Hn) Htot Hmd Hvf Hvb)
        as (r & vf1' & vb1' & w1' & Hf & Hvf1 & Hvb1 & Hpt & Hr).
      rewrite Ef in Hf. inversion Hf; subst r vf1' vb1' w1'. clear Hf.
      cbn beta iota in Hr. destruct Hr as (wa & wb & _ & Hp).
      pose proof (HN wa) as Hfalse. rewrite Hp in Hfalse. cbn [fst] in Hfalse. discriminate.
  Qed.

  Theorem conquer_cost_at f : CostAt f.
  Proof.
    induction f as [|f IH];
      intros os oe ns ne vf vb w vf' vb' w' D Hoe Hne Htot Hvf Hvb Hmd HD H.
    - cbn [conquer] in H. discriminate.
    - apply conquer_S_iff in H.
      destruct H as [p w1 s vf1 vb1 w3 w4 Hp Hw1 Hs Hso Hsn Hm Hw4].
      destruct (strip_facts cmp os oe ns ne p s Hoe Hne Hp Hs)
        as (Hp1 & Hp2 & Hseg1 & Hs1 & Hs2 & Hseg2 & Hstr).
      assert (HD' : BoxCost cmp (os + p) (oe - s) (ns + p) (ne - s) D).
      { apply BoxCost_strip_eq; try assumption; lia. }
      assert (Hmid : cost w3 =
                     cost (tick wd (scan_cmps (os + p) oe (ns + p) ne s) w1) + D).
      { apply (mid_cost f IH (os + p) (oe - s) (ns + p) (ne - s) vf vb _ vf1 vb1 w3 D);
          try assumption; try lia.
        - eapply CmpTotal_sub; [exact Htot|lia..].
        - eapply Nat.le_trans; [apply max_d_mono|exact Hmd]; lia. }
      rewrite (cost_emit_eq_opt _ _ _ _ _ Hw4), Hmid.
      rewrite (cr_tick HC). rewrite (cost_emit_eq_opt _ _ _ _ _ Hw1).
      rewrite (cr_tick HC). reflexivity.
  Qed.
End Cost.

(* PART 2, any world: when the deadline never fires, conquer emits exactly
   BoxCost deletions + insertions *)
Theorem conquer_cost {W} (wd : world W) cmp cost md fuel os oe ns ne vf vb w vf' vb' w' D :
  CostResp wd cost -> NoDeadline wd -> SnakeSpec wd cmp ->
  os <= oe -> ns <= ne -> CmpTotal cmp os oe ns ne ->
  VOk md vf -> VOk md vb -> max_d (oe - os) (ne - ns) <= md ->
  BoxCost cmp os oe ns ne D ->
  conquer wd cmp fuel os oe ns ne vf vb w = Ok (vf', vb', w') ->
  cost w' = cost w + D.
Proof. intros HC HN HS. apply (conquer_cost_at wd cmp cost HC HN HS md fuel). Qed.

Theorem myers_cost {W} (wd : world W) cmp cost os oe ns ne w w' D :
  CostResp wd cost -> NoDeadline wd -> SnakeSpec wd cmp ->
  os <= oe -> ns <= ne -> CmpTotal cmp os oe ns ne ->
  BoxCost cmp os oe ns ne D ->
  myers_diff wd cmp os oe ns ne w = Ok w' ->
  exists w'', cost w'' = cost w + D /\ emit wd CFin w'' = Ok w'.
Proof.
  intros HC HN HS Hoe Hne Htot HD H.
  apply myers_diff_inv in H. destruct H as (vf' & vb' & w'' & Hc & He).
  exists w''. split; [|exact He].
  exact (conquer_cost wd cmp cost _ _ os oe ns ne _ _ w vf' vb' w'' D HC HN HS Hoe Hne Htot
           (VOk_v_new _) (VOk_v_new _) (le_n _) HD Hc).
Qed.

(* ------------------------------------------------------ the recording hook *)
Lemma capture_calls_app a b : capture_calls (a ++ b) = capture_calls a ++ capture_calls b.
Proof.
  induction a as [|c a IH]; cbn [app capture_calls]; [reflexivity|].
  destruct (call_to_op c); [cbn [app]; now rewrite IH|exact IH].
Qed.

Lemma deleted_app a b : deleted (a ++ b) = deleted a + deleted b.
Proof.
  unfold deleted. induction a as [|x a IH]; cbn [app fold_right]; [reflexivity|].
  rewrite IH. lia.
Qed.

Lemma inserted_app a b : inserted (a ++ b) = inserted a + inserted b.
Proof.
  unfold inserted. induction a as [|x a IH]; cbn [app fold_right]; [reflexivity|].
  rewrite IH. lia.
Qed.

Definition calls_cost (cs : list call) : nat :=
  deleted (capture_calls cs) + inserted (capture_calls cs).

Lemma calls_cost_app a b : calls_cost (a ++ b) = calls_cost a + calls_cost b.
Proof. unfold calls_cost. rewrite capture_calls_app, deleted_app, inserted_app. lia. Qed.

Definition plain_cost (w : plain) : nat := calls_cost (plain_calls w).

Lemma CostResp_logging wd : Logging wd -> CostResp wd plain_cost.
Proof.
  intros HL. unfold plain_cost. split.
  - intros w b w' H. unfold plain_calls. now rewrite (lg_probe wd HL w b w' H).
  - intros k w. unfold plain_calls. now rewrite (lg_tick wd HL k w).
  - intros o n l w w' H. assert (Hc : CEq o n l <> CFin) by discriminate.
    rewrite (plain_calls_emit wd _ w w' HL Hc H), calls_cost_app.
    unfold calls_cost.
    cbn [capture_calls call_to_op deleted inserted fold_right op_old_len op_new_len]. lia.
  - intros o l n w w' H. assert (Hc : CDel o l n <> CFin) by discriminate.
    rewrite (plain_calls_emit wd _ w w' HL Hc H), calls_cost_app.
    unfold calls_cost.
    cbn [capture_calls call_to_op deleted inserted fold_right op_old_len op_new_len]. lia.
  - intros o n l w w' H. assert (Hc : CIns o n l <> CFin) by discriminate.
    rewrite (plain_calls_emit wd _ w w' HL Hc H), calls_cost_app.
    unfold calls_cost.
    cbn [capture_calls call_to_op deleted inserted fold_right op_old_len op_new_len]. lia.
Qed.

Lemma NoDeadline_plain : NoDeadline (plain_world None).
Proof. intros w. reflexivity. Qed.

Lemma NoDeadline_no_finish : NoDeadline (no_finish (plain_world None)).
Proof. intros w. reflexivity. Qed.

(* PART 2, main theorem: without a deadline the number of deleted + inserted
   items equals the minimal edit cost of the box *)
Theorem myers_minimal cmp os oe ns ne w0 w1 cs D :
  SnakeSpec (plain_world None) cmp ->
  os <= oe -> ns <= ne -> CmpTotal cmp os oe ns ne ->
  myers_diff (plain_world None) cmp os oe ns ne w0 = Ok w1 ->
  plain_calls w1 = plain_calls w0 ++ cs ->
  BoxCost cmp os oe ns ne D ->
  deleted (capture_calls cs) + inserted (capture_calls cs) = D.
Proof.
  intros HS Hoe Hne Htot H Hcs HD.
  destruct (myers_cost (plain_world None) cmp plain_cost os oe ns ne w0 w1 D
              (CostResp_logging _ (Logging_plain None)) NoDeadline_plain HS
              Hoe Hne Htot HD H) as (w'' & Hcost & He).
  cbn [emit plain_world] in He. inversion He; subst w1. clear He.
  unfold plain_cost in Hcost.
  assert (Hc1 : calls_cost (plain_calls w0 ++ cs) = calls_cost (plain_calls w'')).
  { rewrite <- Hcs. unfold plain_calls. cbn [p_log rev]. rewrite calls_cost_app.
    unfold calls_cost at 2. cbn [capture_calls call_to_op deleted inserted fold_right]. lia. }
  rewrite calls_cost_app in Hc1. unfold calls_cost at 2 in Hc1. lia.
Qed.

(* ... hence deleted + inserted + 2 * LCS = total length *)
Corollary myers_minimal_lcs cmp os oe ns ne w0 w1 cs L :
  SnakeSpec (plain_world None) cmp ->
  os <= oe -> ns <= ne -> CmpTotal cmp os oe ns ne ->
  myers_diff (plain_world None) cmp os oe ns ne w0 = Ok w1 ->
  plain_calls w1 = plain_calls w0 ++ cs ->
  IsLcsLen cmp os oe ns ne L ->
  deleted (capture_calls cs) + inserted (capture_calls cs) + 2 * L = (oe - os) + (ne - ns).
Proof.
  intros HS Hoe Hne Htot H Hcs HL.
  destruct (BoxCost_exists cmp os oe ns ne) as [D HD].
  rewrite (myers_minimal cmp os oe ns ne w0 w1 cs D HS Hoe Hne Htot H Hcs HD).
  exact (MinCost_LCS cmp os oe ns ne D L HD HL).
Qed.

(* the NoFinishHook variant *)
Theorem myers_minimal_no_finish cmp os oe ns ne w0 w1 body D :
  SnakeSpec (no_finish (plain_world None)) cmp ->
  os <= oe -> ns <= ne -> CmpTotal cmp os oe ns ne ->
  myers_diff (no_finish (plain_world None)) cmp os oe ns ne w0 = Ok w1 ->
  plain_calls w1 = plain_calls w0 ++ body ->
  BoxCost cmp os oe ns ne D ->
  deleted (capture_calls body) + inserted (capture_calls body) = D.
Proof.
  intros HS Hoe Hne Htot H Hcs HD.
  destruct (myers_cost (no_finish (plain_world None)) cmp plain_cost os oe ns ne w0 w1 D
              (CostResp_logging _ (Logging_no_finish None)) NoDeadline_no_finish HS
              Hoe Hne Htot HD H) as (w'' & Hcost & He).
  cbn [emit no_finish] in He. inversion He; subst w1. clear He.
  unfold plain_cost in Hcost. rewrite Hcs, calls_cost_app in Hcost.
  unfold calls_cost at 2 in Hcost. lia.
Qed.

Print Assumptions BoxCost_strip.
Print Assumptions Rect_cmp_of.
Print Assumptions conquer_cost.
Print Assumptions myers_cost.
Print Assumptions myers_minimal.
Print Assumptions myers_minimal_lcs.
Print Assumptions myers_minimal_no_finish.
