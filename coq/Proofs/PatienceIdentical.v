(* Proofs/PatienceIdentical.v — the two Patience gaps of C02 and of the
   debug-assertion independence.

   1. [patience_identical_only_equal]: on identical ranges Patience (through
      the capture pipeline) yields the single Equal (nothing for two empty
      ranges), for EVERY clock, debug and release builds, with and without the
      repair switch.  On identical ranges no deadline probe is ever made
      (find_middle_snake is never entered), so the clock is irrelevant.
      Premise on the uniqueness oracles (weakest natural one; it is NEEDED, see
      [incoherent_counterexample]):
        [SameTotal (o_oo orc) os oe]   old[i]==old[i'] never fails on the range
                                       (exactly what makes [unique] return);
        [SameShift (o_oo orc) (o_nn orc) os ns (oe - os)]
                                       new[ns+a]==new[ns+b] answers what
                                       old[os+a]==old[os+b] answers.
      No coherence between o_on and o_oo / o_nn is needed.  Both premises hold
      for [oracles_of_items eqb old new] on identical item ranges
      ([patience_identical_items]).
   2. [identical_only_equal_all]: all three algorithms.
   3. [capture_dbg_independent_patience] / [capture_dbg_independent_all]:
      capture_diff with dbg = true equals capture_diff with dbg = false; the
      only premises are os <= oe, ns <= ne and CmpTotal of o_on (nothing on the
      uniqueness oracles: when [unique] fails, it fails the same way in both
      builds). *)
From Similar Require Import Model.Base Model.Utils Model.Myers Model.Lcs Model.Hooks
  Model.Patience Model.Compact Model.Capture Model.TextDiff
  Spec.Script Spec.EditGraph Spec.SnakeSpec Check.Script
  Proofs.Utils Proofs.CheckScript Proofs.Replace Proofs.ReplaceLoose Proofs.WorldInv
  Proofs.MyersSweep Proofs.MyersSnake Proofs.MyersConquer Proofs.Unique Proofs.PatienceGen
  Proofs.PatienceSim
  Proofs.Patience Proofs.Pipeline Proofs.PatienceCapture.

Local Open Scope nat_scope.

(* ====================================================================== *)
(* 0. the uniqueness oracles of two identical ranges                       *)
(* ====================================================================== *)

(* new[ns+a]==new[ns+b] answers exactly what old[os+a]==old[os+b] answers *)
Definition SameShift (oo nn : cmpf) (os ns len : nat) : Prop :=
  forall a b, a < len -> b < len -> nn (ns + a) (ns + b) = oo (os + a) (os + b).

(* old index -> the new index on the same diagonal *)
Definition dshift (os ns : nat) (x : nat) : nat := x - os + ns.

Section UniqueShift.
  Variables oo nn : cmpf.
  Variables os ns len : nat.
  Hypothesis Hsh : SameShift oo nn os ns len.

  Lemma count_eq_shift a : a < len -> forall k b, b + k <= len ->
    count_eq nn (ns + a) (ns + b) k = count_eq oo (os + a) (os + b) k.
  Proof.
    intros Ha. induction k as [|k IH]; intros b Hb; cbn [count_eq]; [reflexivity|].
    rewrite (Hsh a b Ha ltac:(lia)).
    replace (S (ns + b)) with (ns + S b) by lia.
    replace (S (os + b)) with (os + S b) by lia.
    rewrite (IH (S b) ltac:(lia)). reflexivity.
  Qed.

  Lemma unique_from_shift oe ne : oe - os = len -> ne - ns = len ->
    forall k a l, a + k <= len ->
      unique_from oo os oe (os + a) k = Ok l ->
      unique_from nn ns ne (ns + a) k = Ok (map (dshift os ns) l).
  Proof.
    intros Hoe Hne. induction k as [|k IH]; intros a l Ha H; cbn [unique_from] in *.
    - injection H as <-. reflexivity.
    - apply bind_Ok_inv in H. destruct H as (c & Hc & H).
      apply bind_Ok_inv in H. destruct H as (rest & Hr & H). injection H as <-.
      rewrite Hne. rewrite Hoe in Hc.
      pose proof (count_eq_shift a ltac:(lia) len 0 ltac:(lia)) as E.
      rewrite !Nat.add_0_r in E. rewrite E, Hc. cbn [bind].
      replace (S (os + a)) with (os + S a) in Hr by lia.
      replace (S (ns + a)) with (ns + S a) by lia.
      rewrite (IH (S a) rest ltac:(lia) Hr). cbn [bind].
      destruct (c =? 1); [|reflexivity]. cbn [map].
      replace (dshift os ns (os + a)) with (ns + a) by (unfold dshift; lia). reflexivity.
  Qed.

  Lemma unique_shift oe ne l : oe - os = len -> ne - ns = len ->
    unique oo os oe = Ok l -> unique nn ns ne = Ok (map (dshift os ns) l).
  Proof.
    intros Hoe Hne H. unfold unique in *.
    pose proof (unique_from_shift oe ne Hoe Hne len 0 l ltac:(lia)) as E.
    rewrite !Nat.add_0_r in E. rewrite Hne. rewrite Hoe in H. exact (E H).
  Qed.
End UniqueShift.

(* ====================================================================== *)
(* 1. Myers on identical ranges, ANY world                                 *)
(* ====================================================================== *)
Lemma myers_identical_gen {W} (wd : world W) cmp os oe ns ne w :
  os <= oe -> ns <= ne -> CmpTotal cmp os oe ns ne ->
  SegEq cmp os ns (oe - os) -> oe - os = ne - ns ->
  myers_diff wd cmp os oe ns ne w =
  (do w1 <- emit_eq_opt wd os ns (oe - os) (tick wd (scan_cmps os oe ns ne (oe - os)) w);
   emit wd CFin (tick wd (scan_cmps (os + (oe - os)) oe (ns + (oe - os)) ne 0) w1)).
Proof.
  intros Ho Hn Htot Hseg Hlen. unfold myers_diff, myers_fuel.
  replace (oe - os + (ne - ns) + 2) with (S (oe - os + (ne - ns) + 1)) by lia.
  rewrite conquer_S.
  rewrite (prefix_full cmp os oe ns ne Ho Hn Htot Hseg Hlen). cbn [bind].
  destruct (emit_eq_opt wd os ns (oe - os) (tick wd (scan_cmps os oe ns ne (oe - os)) w))
    as [w1| |]; cbn [bind]; try reflexivity.
  rewrite (suffix_none cmp os oe ns ne Ho Hn Hlen). cbn [bind].
  rewrite (sub_chk_le oe 0 ltac:(lia)), (sub_chk_le ne 0 ltac:(lia)). cbn [bind].
  unfold conquer_mid, empty_range.
  replace (oe - 0 <=? os + (oe - os)) with true by (symmetry; apply Nat.leb_le; lia).
  replace (ne - 0 <=? ns + (oe - os)) with true by (symmetry; apply Nat.leb_le; lia).
  cbn [andb bind]. unfold emit_eq_opt at 1. cbn [Nat.ltb Nat.leb bind]. reflexivity.
Qed.

(* ====================================================================== *)
(* 2. Patience on identical ranges, the recording world                    *)
(* ====================================================================== *)
Definition IsEqCall (c : call) : Prop := match c with CEq _ _ _ => True | _ => False end.

(* the log grew, by equal calls only (most recent first) *)
Definition EqExt (pl pl' : plain) : Prop :=
  exists cs, p_log pl' = cs ++ p_log pl /\ Forall IsEqCall cs.

Lemma EqExt_refl pl : EqExt pl pl.
Proof. exists []. split; [reflexivity|constructor]. Qed.

Lemma EqExt_trans a b c : EqExt a b -> EqExt b c -> EqExt a c.
Proof.
  intros (c1 & H1 & F1) (c2 & H2 & F2). exists (c2 ++ c1). split.
  - rewrite H2, H1. now rewrite app_assoc.
  - apply Forall_app. split; assumption.
Qed.

Lemma EqExt_log a b : p_log b = p_log a -> EqExt a b.
Proof. intros H. exists []. split; [exact H|constructor]. Qed.

Lemma eq_calls_no_change cs :
  Forall IsEqCall cs -> deleted (capture_calls cs) = 0 /\ inserted (capture_calls cs) = 0.
Proof.
  induction 1 as [|c cs Hc Hcs IH]; [split; reflexivity|].
  destruct c as [o n l| | | |]; try contradiction.
  cbn [capture_calls call_to_op]. unfold deleted, inserted in *. cbn [fold_right].
  destruct IH as [-> ->]. split; reflexivity.
Qed.

Lemma advance_diag {W} (wd : world W) cmp oi ni : forall fuel oc nc w,
  oi - oc = fuel -> oc <= oi -> nc + (oi - oc) = ni -> SegEq cmp oc nc (oi - oc) ->
  exists w', advance wd cmp fuel oi ni oc nc w = Ok (oi, ni, w') /\ PT wd w w'.
Proof.
  induction fuel as [|fuel IH]; intros oc nc w Hf Hoc Hnc Hseg; cbn [advance].
  - exists w. split; [|apply PT_refl]. repeat f_equal; lia.
  - assert (E1 : (oc <? oi) = true) by (apply Nat.ltb_lt; lia).
    assert (E2 : (nc <? ni) = true) by (apply Nat.ltb_lt; lia).
    rewrite E1, E2. cbn [andb].
    pose proof (Hseg 0 ltac:(lia)) as Hc. rewrite !Nat.add_0_r in Hc. rewrite Hc. cbn [bind].
    destruct (IH (S oc) (S nc) (tick wd 1 w)) as (w' & Ha & Hpt); try lia.
    { intros t Ht. replace (S oc + t) with (oc + S t) by lia.
      replace (S nc + t) with (nc + S t) by lia. apply Hseg. lia. }
    exists w'. split; [exact Ha|].
    eapply PT_trans; [|exact Hpt]. apply PT_tick. apply PT_refl.
Qed.

Section IdenticalPlain.
  Variable dl : deadline.
  Variable dbg : bool.
  Variable cmp : cmpf.
  Variable uo : list nat.
  Variables os oe ns ne : nat.
  Hypothesis Hoe : os <= oe.
  Hypothesis Hne : ns <= ne.
  Hypothesis Htot : CmpTotal cmp os oe ns ne.
  Hypothesis Hseg : SegEq cmp os ns (oe - os).
  Hypothesis Hlen : oe - os = ne - ns.
  Hypothesis Huo : Asc uo.
  Hypothesis Huo_r : forall a x, nth_error uo a = Some x -> os <= x < oe.

  Let un : list nat := map (dshift os ns) uo.
  Let pw : world plain := plain_world dl.
  Let PWi : world (pstate * plain) := patience_world pw cmp uo un oe ne.
  Let RWi : world (rstate * (pstate * plain)) := replace_world PWi dbg.
  Let ucmpi : cmpf := unique_cmp cmp uo un.

  Lemma un_nth k x : nth_error uo k = Some x -> nth_error un k = Some (dshift os ns x).
  Proof. intros H. unfold un. apply map_nth_error. exact H. Qed.

  Lemma un_range a y : nth_error un a = Some y -> ns <= y < ne.
  Proof.
    intros H. unfold un in H. rewrite nth_error_map in H.
    destruct (nth_error uo a) as [x|] eqn:E; cbn [option_map] in H; [|discriminate].
    injection H as <-. apply Huo_r in E. unfold dshift. lia.
  Qed.

  (* sub-segments of the diagonal *)
  Lemma seg_sub oc nc d :
    os <= oc -> nc + os = oc + ns -> oc + d <= oe -> SegEq cmp oc nc d.
  Proof.
    intros H1 H2 H3 t Ht.
    replace (oc + t) with (os + (oc - os + t)) by lia.
    replace (nc + t) with (ns + (oc - os + t)) by lia.
    apply Hseg. lia.
  Qed.

  (* the cursor sits on the diagonal, not beyond the next anchor (index k) *)
  Definition Diag (k : nat) (ps : pstate) : Prop :=
    os <= old_current ps <= oe /\
    new_current ps + os = old_current ps + ns /\
    (forall x, nth_error uo k = Some x -> old_current ps <= x).

  Lemma anchor_step_diag k oi ps pl :
    nth_error uo k = Some oi -> Diag k ps ->
    exists pl',
      anchor_step pw cmp uo un k k (ps, pl) =
        Ok ({| old_current := oi; new_current := dshift os ns oi |}, pl') /\
      EqExt pl pl'.
  Proof.
    intros Hk (Hr & Hd & Hnext). specialize (Hnext oi Hk).
    pose proof (Huo_r _ _ Hk) as Hoi.
    unfold anchor_step. rewrite Hk, (un_nth _ _ Hk). cbn [of_option bind].
    set (oc := old_current ps) in *. set (nc := new_current ps) in *.
    set (ni := dshift os ns oi).
    assert (Hni : nc + (oi - oc) = ni) by (unfold ni, dshift; lia).
    destruct (advance_diag pw cmp oi ni (oi - oc) oc nc pl eq_refl Hnext Hni)
      as (w1 & Ha & Hpt).
    { apply seg_sub; lia. }
    rewrite Ha. cbn [bind].
    pose proof (PT_plain_log dl _ _ Hpt) as Hlog1.
    assert (He : exists w2,
               (if oc <? oi then emit pw (CEq oc nc (oi - oc)) w1 else Ok w1) = Ok w2 /\
               EqExt pl w2).
    { destruct (oc <? oi).
      - eexists. split; [reflexivity|]. exists [CEq oc nc (oi - oc)].
        cbn [p_log app]. rewrite Hlog1. split; [reflexivity|]. repeat constructor.
      - exists w1. split; [reflexivity|]. apply EqExt_log. exact Hlog1. }
    destruct He as (w2 & -> & Hext2). cbn [bind].
    rewrite (myers_identical_gen (no_finish pw) cmp oi oi ni ni w2); try lia.
    - rewrite Nat.sub_diag. unfold emit_eq_opt. cbn [Nat.ltb Nat.leb bind emit no_finish].
      eexists. split; [reflexivity|].
      eapply EqExt_trans; [exact Hext2|]. apply EqExt_log. reflexivity.
    - intros i j Hi Hj. lia.
    - rewrite Nat.sub_diag. intros t Ht. lia.
  Qed.

  Lemma anchor_loop_diag : forall len k ps pl,
    k + len <= length uo -> Diag k ps ->
    exists ps' pl',
      anchor_loop pw cmp uo un len k k (ps, pl) = Ok (ps', pl') /\
      Diag (k + len) ps' /\ EqExt pl pl'.
  Proof.
    induction len as [|len IH]; intros k ps pl Hk HD; cbn [anchor_loop].
    - exists ps, pl. rewrite Nat.add_0_r. split; [reflexivity|]. split; [exact HD|apply EqExt_refl].
    - destruct (nth_error uo k) as [oi|] eqn:Ek; [|apply nth_error_None in Ek; lia].
      destruct (anchor_step_diag k oi ps pl Ek HD) as (pl1 & Hs & Hext1).
      rewrite Hs. cbn [bind].
      pose proof (Huo_r _ _ Ek) as Hoi.
      destruct (IH (S k) {| old_current := oi; new_current := dshift os ns oi |} pl1)
        as (ps' & pl' & Hl & HD' & Hext2).
      + lia.
      + split; [|split]; cbn [old_current new_current].
        * lia.
        * unfold dshift. lia.
        * intros y Hy. pose proof (Huo k (S k) oi y ltac:(lia) Ek Hy). lia.
      + exists ps', pl'. split; [exact Hl|].
        replace (k + S len) with (S k + len) by lia.
        split; [exact HD'|]. eapply EqExt_trans; eassumption.
  Qed.

  (* Patience::finish from a diagonal cursor *)
  Lemma finish_diag k ps pl : Diag k ps ->
    exists pl' cs,
      myers_diff pw cmp (old_current ps) oe (new_current ps) ne pl = Ok pl' /\
      p_log pl' = CFin :: cs ++ p_log pl /\ Forall IsEqCall cs.
  Proof.
    intros (Hr & Hd & _).
    set (oc := old_current ps) in *. set (nc := new_current ps) in *.
    destruct (myers_identical_run cmp oc oe nc ne) with (dl := dl) (w := pl) as [c Hm]; try lia.
    - eapply CmpTotal_sub; [exact Htot|lia..].
    - apply seg_sub; lia.
    - fold pw in Hm. rewrite Hm.
      eexists. exists (rev (id_calls oc oe nc)). split; [reflexivity|].
      cbn [p_log]. split; [reflexivity|].
      unfold id_calls. destruct (oe =? oc); cbn [rev app]; repeat constructor.
  Qed.

  Lemma length_un : length un = length uo.
  Proof. unfold un. apply map_length. Qed.

  Lemma ucmp_diag : SegEq ucmpi 0 0 (length uo - 0).
  Proof.
    intros t Ht. cbn [Nat.add]. unfold ucmpi, unique_cmp.
    destruct (nth_error uo t) as [x|] eqn:E; [|apply nth_error_None in E; lia].
    rewrite (un_nth _ _ E). pose proof (Huo_r _ _ E) as Hx.
    pose proof (Hseg (x - os) ltac:(lia)) as Hc.
    replace (os + (x - os)) with x in Hc by lia.
    replace (ns + (x - os)) with (dshift os ns x) in Hc by (unfold dshift; lia).
    exact Hc.
  Qed.

  (* the whole run of Myers over Replace<Patience<recording hook>> *)
  Lemma outer_identical w0 :
    exists rs' ps' w1 cs,
      myers_diff RWi ucmpi 0 (length uo) 0 (length un)
        (rstate0, ({| old_current := os; new_current := ns |}, w0)) = Ok (rs', (ps', w1)) /\
      p_log w1 = CFin :: cs ++ p_log w0 /\ Forall IsEqCall cs.
  Proof.
    assert (HD0 : Diag 0 {| old_current := os; new_current := ns |}).
    { split; [|split]; cbn [old_current new_current]; try lia.
      intros x Hx. apply Huo_r in Hx. lia. }
    rewrite (myers_identical_gen RWi ucmpi 0 (length uo) 0 (length un)).
    - rewrite Nat.sub_0_r, Nat.add_0_l.
      set (st := (rstate0, ({| old_current := os; new_current := ns |}, w0))).
      set (k1 := scan_cmps 0 (length uo) 0 (length un) (length uo)).
      set (k2 := scan_cmps (length uo) (length uo) (length uo) (length un) 0).
      unfold emit_eq_opt.
      destruct (0 <? length uo) eqn:E0.
      + (* Replace buffers the equal; Replace::finish hands it to Patience *)
        cbn [emit RWi replace_world replace_emit st tick lift_tick fst snd flush_del_ins
             r_del r_ins r_eq rstate0 bind flush_eq].
        cbn [emit PWi patience_world patience_emit].
        destruct (anchor_loop_diag (length uo) 0 {| old_current := os; new_current := ns |}
                    (tick pw k2 (tick pw k1 w0)) ltac:(lia) HD0)
          as (ps1 & pl1 & Hl & HD1 & Hext1).
        change (tick PWi k2 (tick PWi k1 ({| old_current := os; new_current := ns |}, w0)))
          with ({| old_current := os; new_current := ns |}, tick pw k2 (tick pw k1 w0)).
        rewrite Hl. cbn [bind flush_del_ins r_del r_ins].
        destruct (finish_diag _ ps1 pl1 HD1) as (pl2 & cs2 & Hf & Hlog2 & Hcs2).
        rewrite Hf. cbn [bind].
        destruct Hext1 as (cs1 & Hlog1 & Hcs1).
        eexists _, ps1, pl2, (cs2 ++ cs1). split; [reflexivity|]. split.
        * rewrite Hlog2, Hlog1. cbn [p_log tick pw plain_world]. now rewrite app_assoc.
        * apply Forall_app. split; assumption.
      + cbn [emit RWi replace_world replace_emit st tick lift_tick fst snd flush_del_ins
             r_del r_ins r_eq rstate0 bind flush_eq].
        cbn [emit PWi patience_world patience_emit].
        change (tick PWi k2 (tick PWi k1 ({| old_current := os; new_current := ns |}, w0)))
          with ({| old_current := os; new_current := ns |}, tick pw k2 (tick pw k1 w0)).
        destruct (finish_diag 0 {| old_current := os; new_current := ns |}
                    (tick pw k2 (tick pw k1 w0)) HD0) as (pl2 & cs2 & Hf & Hlog2 & Hcs2).
        cbn [old_current new_current] in Hf. cbn [old_current new_current].
        rewrite Hf. cbn [bind].
        eexists _, _, pl2, cs2. split; [reflexivity|]. split; [|exact Hcs2].
        rewrite Hlog2. reflexivity.
    - lia.
    - lia.
    - apply (CmpTotal_ucmp cmp uo un os oe ns ne Hoe Hne Htot Huo_r un_range).
    - exact ucmp_diag.
    - rewrite length_un. reflexivity.
  Qed.
End IdenticalPlain.

(* the raw call sequence of Patience on identical ranges: equal calls only,
   for every clock (no probe is ever made) *)
Theorem patience_identical_raw dl dbg cmp oo nn os oe ns ne w0 :
  os <= oe -> ns <= ne -> CmpTotal cmp os oe ns ne ->
  SegEq cmp os ns (oe - os) -> oe - os = ne - ns ->
  SameTotal oo os oe -> SameShift oo nn os ns (oe - os) ->
  exists w1 cs,
    patience_diff (plain_world dl) dbg cmp oo nn os oe ns ne w0 = Ok w1 /\
    p_log w1 = CFin :: cs ++ p_log w0 /\ Forall IsEqCall cs.
Proof.
  intros Ho Hn Htot Hseg Hlen Hoo Hsh.
  destruct (unique_total oo os oe Hoo) as [uo Huo].
  pose proof (unique_shift oo nn os ns (oe - os) Hsh oe ne uo eq_refl (eq_sym Hlen) Huo) as Hun.
  destruct (unique_asc oo os oe uo Huo) as [Ha Hr].
  destruct (outer_identical dl dbg cmp uo os oe ns ne Ho Hn Htot Hseg Hlen Ha Hr w0)
    as (rs' & ps' & w1 & cs & Hm & Hlog & Hcs).
  exists w1, cs. split; [|split; assumption].
  unfold patience_diff. rewrite Huo, Hun. cbn [bind]. rewrite Hm. reflexivity.
Qed.

(* ====================================================================== *)
(* 3. C02: identical inputs give only Equal ops -- Patience                *)
(* ====================================================================== *)
Lemma only_equal_shape cmp os oe ns ne ops :
  OpsLoose cmp os oe ns ne ops -> Alternating ops ->
  deleted ops = 0 -> inserted ops = 0 ->
  ops = if oe =? os then [] else [Equal os ns (oe - os)].
Proof.
  intros Hw Halt Hd Hi.
  destruct (alternating_no_change ops Halt Hd Hi) as [->|(o & n & l & ->)].
  - apply OpsWalk_nil_inv in Hw. destruct Hw as [-> _]. now rewrite Nat.eqb_refl.
  - pose proof (Alternating_head _ _ Halt) as Hl. cbn [NonEmptyOp] in Hl.
    apply OpsWalk_single_eq_inv in Hw. destruct Hw as (-> & -> & _ & H1 & _).
    replace (oe =? os) with false by (symmetry; apply Nat.eqb_neq; lia).
    repeat f_equal. lia.
Qed.

Theorem patience_identical_only_equal dl dbg repair orc os oe ns ne :
  os <= oe -> ns <= ne -> CmpTotal (o_on orc) os oe ns ne ->
  SegEq (o_on orc) os ns (oe - os) -> oe - os = ne - ns ->
  SameTotal (o_oo orc) os oe -> SameShift (o_oo orc) (o_nn orc) os ns (oe - os) ->
  exists c, capture_diff Patience dl dbg repair orc os oe ns ne =
            Ok ((if oe =? os then [] else [Equal os ns (oe - os)]), c).
Proof.
  intros Ho Hn Htot Hseg Hlen Hoo Hsh.
  destruct (patience_identical_raw dl dbg (o_on orc) (o_oo orc) (o_nn orc) os oe ns ne plain0
              Ho Hn Htot Hseg Hlen Hoo Hsh) as (w1 & cs & Hrun & Hlog & Hcs).
  destruct (capture_diff_eq_patience dl dbg repair orc os oe ns ne Ho Hn Htot
              (or_intror (ex_intro _ w1 Hrun))) as (body & c & Hraw & Hwalk & Heq).
  assert (Hbody : body = rev cs).
  { unfold raw_trace in Hraw. cbn [diff_deadline] in Hraw. rewrite Hrun in Hraw.
    cbn [bind] in Hraw. injection Hraw as Hb _. unfold plain_calls in Hb.
    rewrite Hlog in Hb. cbn [plain0 p_log rev] in Hb. rewrite app_nil_r in Hb.
    apply app_inj_tail in Hb. destruct Hb as [Hb _]. now symmetry. }
  assert (Hall : Forall IsEqCall body) by (subst body; apply Forall_rev; exact Hcs).
  assert (Hp : exists ops, pipeline_ops (o_on orc) repair body = Ok ops).
  { destruct repair.
    - destruct (pipeline_repair (o_on orc) os oe ns ne body Htot Hwalk) as (ops & Hp & _). eauto.
    - exact (pipeline_total_norepair (o_on orc) os oe ns ne body Hwalk Htot). }
  destruct Hp as [ops Hp].
  destruct (pipeline_spec (o_on orc) os oe ns ne body Hwalk repair ops Hp)
    as (Hw & Halt & Hd & Hi & _).
  destruct (eq_calls_no_change body Hall) as [Hd0 Hi0]. rewrite Hd0 in Hd. rewrite Hi0 in Hi.
  exists c. rewrite Heq, Hp. cbn [bind].
  rewrite (only_equal_shape (o_on orc) os oe ns ne ops Hw Halt Hd Hi). reflexivity.
Qed.

(* the premises hold for oracles induced by one item equality on two
   identical item ranges *)
Lemma items_SameTotal {A} (eqb : A -> A -> bool) (old : list A) os oe :
  oe <= length old -> SameTotal (cmp_same eqb (slice_lookup old)) os oe.
Proof.
  intros Hl. apply SameTotal_cmp_same. intros i Hi. unfold slice_lookup.
  destruct (nth_error old i) as [x|] eqn:E; [eauto|]. apply nth_error_None in E. lia.
Qed.

Theorem patience_identical_items {A} (eqb : A -> A -> bool) (old new : list A)
        dl dbg repair os oe ns ne :
  (forall x, eqb x x = true) ->
  os <= oe -> ns <= ne -> oe <= length old -> ne <= length new -> oe - os = ne - ns ->
  (forall t, t < oe - os -> nth_error new (ns + t) = nth_error old (os + t)) ->
  exists c, capture_diff Patience dl dbg repair
              (oracles_of_items eqb (slice_lookup old) (slice_lookup new)) os oe ns ne =
            Ok ((if oe =? os then [] else [Equal os ns (oe - os)]), c).
Proof.
  intros Hrefl Ho Hn Hlo Hln Hlen Hid.
  apply patience_identical_only_equal; try assumption;
    cbn [o_on o_oo o_nn oracles_of_items].
  - intros i j Hi Hj. unfold cmp_of, slice_lookup.
    destruct (nth_error new j) as [y|] eqn:Ey; [|apply nth_error_None in Ey; lia].
    destruct (nth_error old i) as [x|] eqn:Ex; [|apply nth_error_None in Ex; lia]. eauto.
  - intros t Ht. unfold cmp_of, slice_lookup. rewrite (Hid t Ht).
    destruct (nth_error old (os + t)) as [x|] eqn:Ex; [|apply nth_error_None in Ex; lia].
    now rewrite Hrefl.
  - apply items_SameTotal. exact Hlo.
  - intros a b Ha Hb. unfold cmp_same, slice_lookup. now rewrite (Hid a Ha), (Hid b Hb).
Qed.

(* the premise on the uniqueness oracles cannot be dropped: old = new = "aa"
   with o_oo claiming only old[0] unique and o_nn claiming only new[1] unique
   pairs old[0] with new[1] *)
Example incoherent_counterexample :
  let tbl (bits : list bool) : cmpf :=
    fun i j => if (i <? 2) && (j <? 2) then Ok (nth (i * 2 + j) bits false) else Panic in
  let orc := {| o_on := tbl [true; true; true; true];
                o_oo := tbl [true; false; true; true];
                o_nn := tbl [true; true; false; true] |} in
  SegEq (o_on orc) 0 0 2 /\ CmpTotal (o_on orc) 0 2 0 2 /\
  SameTotal (o_oo orc) 0 2 /\ SameTotal (o_nn orc) 0 2 /\
  exists c, capture_diff Patience None true false orc 0 2 0 2 =
            Ok ([Equal 0 0 1; Replace 1 1 1 1], c).
Proof.
  cbv zeta. split; [|split; [|split; [|split]]].
  - intros t Ht. destruct t as [|[|t]]; [reflexivity|reflexivity|lia].
  - intros i j Hi Hj. destruct i as [|[|i]]; destruct j as [|[|j]]; try lia; eexists; reflexivity.
  - intros i j Hi Hj. destruct i as [|[|i]]; destruct j as [|[|j]]; try lia; eexists; reflexivity.
  - intros i j Hi Hj. destruct i as [|[|i]]; destruct j as [|[|j]]; try lia; eexists; reflexivity.
  - eexists. vm_compute. reflexivity.
Qed.

(* ====================================================================== *)
(* 4. all three algorithms                                                 *)
(* ====================================================================== *)
Theorem identical_only_equal_all alg dl dbg repair orc os oe ns ne :
  os <= oe -> ns <= ne -> CmpTotal (o_on orc) os oe ns ne ->
  SegEq (o_on orc) os ns (oe - os) -> oe - os = ne - ns ->
  (alg = Patience ->
   SameTotal (o_oo orc) os oe /\ SameShift (o_oo orc) (o_nn orc) os ns (oe - os)) ->
  exists c, capture_diff alg dl dbg repair orc os oe ns ne =
            Ok ((if oe =? os then [] else [Equal os ns (oe - os)]), c).
Proof.
  intros Ho Hn Htot Hseg Hlen Hp. destruct alg.
  - apply identical_only_equal; [discriminate|assumption..].
  - destruct (Hp eq_refl) as [Hoo Hsh]. apply patience_identical_only_equal; assumption.
  - apply identical_only_equal; [discriminate|assumption..].
Qed.

(* ====================================================================== *)
(* 5. debug assertions never matter -- Patience                            *)
(* ====================================================================== *)

(* the debug build only adds panics to Replace *)
Lemma replace_emit_mono {W} (wd : world W) c x y :
  emit (replace_world wd true) c x = Ok y -> emit (replace_world wd false) c x = Ok y.
Proof.
  cbn [emit replace_world]. destruct c as [o n l|o l n|o n l|o ol n nl|];
    cbn [replace_emit]; try (intros H; exact H).
  - destruct (flush_eq wd x) as [[s w]| |]; cbn [bind]; try discriminate.
    destruct (r_del s) as [[[dO dl0] dn]|]; [|intros H; exact H].
    cbn [andb]. destruct (negb (o =? dO + dl0)); [discriminate|intros H; exact H].
  - destruct (flush_eq wd x) as [[s w]| |]; cbn [bind]; try discriminate.
    destruct (r_ins s) as [[[io inn] il]|]; [|intros H; exact H].
    cbn [andb]. destruct (negb (inn + il =? n)); [discriminate|intros H; exact H].
Qed.

Lemma patience_dbg_mono {W} (wd : world W) cmp oo nn os oe ns ne w w' :
  patience_diff wd true cmp oo nn os oe ns ne w = Ok w' ->
  patience_diff wd false cmp oo nn os oe ns ne w = Ok w'.
Proof.
  unfold patience_diff. intros H.
  apply bind_Ok_inv in H. destruct H as (uo & Huo & H).
  apply bind_Ok_inv in H. destruct H as (un & Hun & H).
  apply bind_Ok_inv in H. destruct H as (x & Hm & H).
  rewrite Huo, Hun. cbn [bind].
  destruct (myers_diff_sim (replace_world (patience_world wd cmp uo un oe ne) true)
              (replace_world (patience_world wd cmp uo un oe ne) false) eq)
    with (cmp := unique_cmp cmp uo un) (os := 0) (oe := length uo) (ns := 0) (ne := length un)
         (w1 := (rstate0, ({| old_current := os; new_current := ns |}, w)))
         (w2 := (rstate0, ({| old_current := os; new_current := ns |}, w))) (w1' := x)
    as (x2 & Hm2 & <-).
  - intros w1 w2 b w1' <- Hp. exists w1'. split; [exact Hp|reflexivity].
  - intros k w1 w2 <-. reflexivity.
  - intros c w1 w2 w1' <- He. exists w1'. split; [apply replace_emit_mono; exact He|reflexivity].
  - reflexivity.
  - exact Hm.
  - rewrite Hm2. cbn [bind]. exact H.
Qed.

Theorem raw_trace_dbg_independent_patience dl orc os oe ns ne :
  os <= oe -> ns <= ne -> CmpTotal (o_on orc) os oe ns ne ->
  raw_trace Patience dl true orc os oe ns ne = raw_trace Patience dl false orc os oe ns ne.
Proof.
  intros Ho Hn Htot. unfold raw_trace. cbn [diff_deadline].
  destruct (unique (o_oo orc) os oe) as [uo| |] eqn:Huo.
  2, 3: unfold patience_diff; rewrite Huo; cbn [bind]; reflexivity.
  destruct (unique (o_nn orc) ns ne) as [un| |] eqn:Hun.
  2, 3: unfold patience_diff; rewrite Huo, Hun; cbn [bind]; reflexivity.
  destruct (unique_asc _ os oe uo Huo) as [Ha1 Hr1].
  destruct (unique_asc _ ns ne un Hun) as [Ha2 Hr2].
  destruct (outer_total dl true (o_on orc) uo un os oe ns ne plain0 Ho Hn Htot Ha1 Ha2 Hr1 Hr2)
    as (rs' & ps' & w1 & Hm).
  assert (Hrun : patience_diff (plain_world dl) true (o_on orc) (o_oo orc) (o_nn orc)
                   os oe ns ne plain0 = Ok w1).
  { unfold patience_diff. rewrite Huo, Hun. cbn [bind].
    unfold RW, PW, ucmp, start in Hm. rewrite Hm. reflexivity. }
  rewrite (patience_dbg_mono _ _ _ _ _ _ _ _ _ _ Hrun), Hrun. reflexivity.
Qed.

Theorem capture_dbg_independent_patience dl repair orc os oe ns ne :
  os <= oe -> ns <= ne -> CmpTotal (o_on orc) os oe ns ne ->
  capture_diff Patience dl true repair orc os oe ns ne =
  capture_diff Patience dl false repair orc os oe ns ne.
Proof.
  intros Ho Hn Htot.
  destruct (unique (o_oo orc) os oe) as [uo| |] eqn:Huo.
  2, 3: unfold capture_diff; cbn [diff_deadline]; unfold patience_diff; rewrite Huo;
    cbn [bind]; reflexivity.
  destruct (unique (o_nn orc) ns ne) as [un| |] eqn:Hun.
  2, 3: unfold capture_diff; cbn [diff_deadline]; unfold patience_diff; rewrite Huo, Hun;
    cbn [bind]; reflexivity.
  destruct (unique_asc _ os oe uo Huo) as [Ha1 Hr1].
  destruct (unique_asc _ ns ne un Hun) as [Ha2 Hr2].
  destruct (outer_total dl true (o_on orc) uo un os oe ns ne plain0 Ho Hn Htot Ha1 Ha2 Hr1 Hr2)
    as (rs' & ps' & w1 & Hm).
  assert (Hrun : patience_diff (plain_world dl) true (o_on orc) (o_oo orc) (o_nn orc)
                   os oe ns ne plain0 = Ok w1).
  { unfold patience_diff. rewrite Huo, Hun. cbn [bind].
    unfold RW, PW, ucmp, start in Hm. rewrite Hm. reflexivity. }
  pose proof (patience_dbg_mono _ _ _ _ _ _ _ _ _ _ Hrun) as Hrun'.
  destruct (capture_diff_eq_patience dl true repair orc os oe ns ne Ho Hn Htot
              (or_intror (ex_intro _ w1 Hrun))) as (b1 & c1 & Hr1' & _ & ->).
  destruct (capture_diff_eq_patience dl false repair orc os oe ns ne Ho Hn Htot
              (or_intror (ex_intro _ w1 Hrun'))) as (b2 & c2 & Hr2' & _ & ->).
  rewrite (raw_trace_dbg_independent_patience dl orc os oe ns ne Ho Hn Htot), Hr2' in Hr1'.
  injection Hr1' as Hb ->. apply app_inj_tail in Hb. destruct Hb as [-> _]. reflexivity.
Qed.

Theorem capture_dbg_independent_all alg dl repair orc os oe ns ne :
  os <= oe -> ns <= ne -> CmpTotal (o_on orc) os oe ns ne ->
  capture_diff alg dl true repair orc os oe ns ne =
  capture_diff alg dl false repair orc os oe ns ne.
Proof.
  intros Ho Hn Htot. destruct alg.
  - apply capture_dbg_independent; [discriminate|assumption..].
  - apply capture_dbg_independent_patience; assumption.
  - apply capture_dbg_independent; [discriminate|assumption..].
Qed.

Print Assumptions patience_identical_raw.
Print Assumptions patience_identical_only_equal.
Print Assumptions patience_identical_items.
Print Assumptions incoherent_counterexample.
Print Assumptions identical_only_equal_all.
Print Assumptions raw_trace_dbg_independent_patience.
Print Assumptions capture_dbg_independent_patience.
Print Assumptions capture_dbg_independent_all.
