(* Proofs/CloseFlocq2.v — C18 tooling: the run-time checker's recomputation of
   the crate's f32 similarity ratio is exact (Flocq 4.1).

   The crate computes  `2.0 * matches as f32 / len as f32`  in binary32
   (/repo/src/common.rs get_diff_ratio, /repo/src/text/utils.rs); the model of
   that expression is [ev32] of Proofs/CloseFlocq.v (four roundings).  The
   OCaml driver (/verif/ocaml/core_cases.ml f32_bits_of_ratio,
   /verif/ocaml/text_checks.ml clauses_close) recomputes it as
     Int32.bits_of_float (float_of_int (2*m) /. float_of_int len)
   i.e. two exact int->binary64 conversions, one binary64 division, and one
   binary64->binary32 rounding.  This file proves that the two agree while the
   operands are below 2^24:

   - [int_exact32], [int_exact64]   : small integers convert exactly;
   - [twice_exact32]                : 2*m is a binary32 number for m <= 2^24
                                      (so 2*m < 2^25 is enough when m < 2^24);
   - [double_rounding_div]          : rd (rd64 (a/b)) = rd (a/b)
                                      (Flocq's round_round_div_FLT with
                                       (prec,emin) = (24,-149), (53,-1074));
   - [driver_ratio_eq]              : driver value = ev32 (Some (m, len)).

   Like Proofs/CloseFlocq.v this file depends on the axioms of the standard
   library's real numbers (see Print Assumptions at the end). *)
From Coq Require Import Reals ZArith Lra Lia.
From Flocq Require Import Core Double_rounding.
From Similar Require Import Model.Base Model.Close Proofs.Close Proofs.CloseFlocq.
Local Open Scope R_scope.

(* ---------------------------------------------------------------------- *)
(* binary64                                                                 *)
(* ---------------------------------------------------------------------- *)
Definition fexp64 : Z -> Z := FLT_exp (-1074) 53.

Global Instance prec53_gt_0 : Prec_gt_0 53.
Proof. reflexivity. Qed.

Global Instance fexp64_valid : Valid_exp fexp64.
Proof. apply FLT_exp_valid. exact prec53_gt_0. Qed.

Definition rd64 (x : R) : R := round radix2 fexp64 ZnearestE x.

(* ---------------------------------------------------------------------- *)
(* integers in an FLT format                                                *)
(* ---------------------------------------------------------------------- *)

(* n * 2^k with |n| < 2^prec, 0 <= k, is a number of FLT(emin, prec), emin <= 0 *)
Lemma FLT_format_int_shift (emin prec : Z) (n k : Z) :
  (emin <= 0)%Z -> (0 <= k)%Z -> (Z.abs n < 2 ^ prec)%Z ->
  FLT_format radix2 emin prec (IZR (n * 2 ^ k)).
Proof.
  intros Hemin Hk Hn.
  apply (FLT_spec radix2 emin prec _ (Float radix2 n k)).
  - unfold F2R. cbn [Fnum Fexp].
    rewrite mult_IZR. f_equal.
    exact (IZR_Zpower radix2 k Hk).
  - cbn [Fnum]. exact Hn.
  - cbn [Fexp]. lia.
Qed.

Lemma FLT_format_int (emin prec : Z) (n : Z) :
  (emin <= 0)%Z -> (Z.abs n < 2 ^ prec)%Z ->
  FLT_format radix2 emin prec (IZR n).
Proof.
  intros Hemin Hn.
  replace n with (n * 2 ^ 0)%Z by (rewrite Z.pow_0_r; lia).
  apply FLT_format_int_shift; [exact Hemin|lia|exact Hn].
Qed.

(* n <= 2^prec (the bound included) *)
Lemma FLT_format_int_le (emin prec : Z) (n : Z) :
  (emin <= 0)%Z -> (0 < prec)%Z -> (0 <= n <= 2 ^ prec)%Z ->
  FLT_format radix2 emin prec (IZR n).
Proof.
  intros Hemin Hp Hn.
  destruct (Z.eq_dec n (2 ^ prec)) as [E|NE].
  - subst n. replace (2 ^ prec)%Z with (1 * 2 ^ prec)%Z by lia.
    apply FLT_format_int_shift; [exact Hemin|lia|].
    cbn [Z.abs]. apply (Z.pow_gt_1 2 prec); lia.
  - apply FLT_format_int; [exact Hemin|]. rewrite Z.abs_eq; lia.
Qed.

(* 2*m for m <= 2^prec *)
Lemma FLT_format_twice (emin prec : Z) (m : Z) :
  (emin <= 0)%Z -> (0 < prec)%Z -> (0 <= m <= 2 ^ prec)%Z ->
  FLT_format radix2 emin prec (IZR (2 * m)).
Proof.
  intros Hemin Hp Hm.
  destruct (Z.eq_dec m (2 ^ prec)) as [E|NE].
  - subst m. replace (2 * 2 ^ prec)%Z with (1 * 2 ^ (prec + 1))%Z
      by (rewrite (Z.pow_add_r 2 prec 1) by lia; lia).
    apply FLT_format_int_shift; [exact Hemin|lia|].
    cbn [Z.abs]. apply (Z.pow_gt_1 2 prec); lia.
  - replace (2 * m)%Z with (m * 2 ^ 1)%Z by lia.
    apply FLT_format_int_shift; [exact Hemin|lia|]. rewrite Z.abs_eq; lia.
Qed.

(* ---------------------------------------------------------------------- *)
(* 1. exact conversions                                                     *)
(* ---------------------------------------------------------------------- *)
Lemma format32_int (n : Z) :
  (0 <= n <= 2 ^ 24)%Z -> generic_format radix2 fexp32 (IZR n).
Proof.
  intros Hn. apply generic_format_FLT. apply FLT_format_int_le; lia.
Qed.

Lemma format64_int (n : Z) :
  (0 <= n <= 2 ^ 53)%Z -> generic_format radix2 fexp64 (IZR n).
Proof.
  intros Hn. apply generic_format_FLT. apply FLT_format_int_le; lia.
Qed.

Lemma format32_twice (m : Z) :
  (0 <= m <= 2 ^ 24)%Z -> generic_format radix2 fexp32 (IZR (2 * m)).
Proof.
  intros Hm. apply generic_format_FLT. apply FLT_format_twice; lia.
Qed.

Lemma rd_generic x : generic_format radix2 fexp32 x -> rd x = x.
Proof. intros H. apply round_generic; [apply valid_rnd_N|exact H]. Qed.

Lemma rd64_generic x : generic_format radix2 fexp64 x -> rd64 x = x.
Proof. intros H. apply round_generic; [apply valid_rnd_N|exact H]. Qed.

(* `n as f32` is exact for 0 <= n <= 2^24 (in particular n < 2^24) *)
Theorem int_exact32 (n : Z) : (0 <= n <= 2 ^ 24)%Z -> rd (IZR n) = IZR n.
Proof. intros Hn. apply rd_generic, format32_int, Hn. Qed.

(* `float_of_int n` is exact for 0 <= n <= 2^53 *)
Theorem int_exact64 (n : Z) : (0 <= n <= 2 ^ 53)%Z -> rd64 (IZR n) = IZR n.
Proof. intros Hn. apply rd64_generic, format64_int, Hn. Qed.

(* the product `2.0 * (m as f32)` is exact for 0 <= m <= 2^24: 2*m may be as
   large as 2^25 (beyond the range of exactly convertible integers) and is
   still a binary32 number, being m shifted by one binary place *)
Theorem twice_exact32 (m : Z) :
  (0 <= m <= 2 ^ 24)%Z -> rd (2 * rd (IZR m)) = IZR (2 * m).
Proof.
  intros Hm. rewrite (int_exact32 m Hm).
  replace (2 * IZR m) with (IZR (2 * m)) by (rewrite mult_IZR; reflexivity).
  apply rd_generic, format32_twice, Hm.
Qed.

(* the nat versions (the model's ev32 uses INR) *)
Theorem int_exact32_nat (n : nat) : (Z.of_nat n <= 2 ^ 24)%Z -> rd (INR n) = INR n.
Proof. intros Hn. rewrite INR_IZR_INZ. apply int_exact32. lia. Qed.

Theorem int_exact64_nat (n : nat) : (Z.of_nat n <= 2 ^ 53)%Z -> rd64 (INR n) = INR n.
Proof. intros Hn. rewrite INR_IZR_INZ. apply int_exact64. lia. Qed.

Theorem twice_exact32_nat (m : nat) :
  (Z.of_nat m <= 2 ^ 24)%Z -> rd (2 * rd (INR m)) = INR (2 * m).
Proof.
  intros Hm. rewrite !INR_IZR_INZ. rewrite twice_exact32 by lia.
  f_equal. lia.
Qed.

(* ---------------------------------------------------------------------- *)
(* 2. double rounding is innocuous for the division                         *)
(* ---------------------------------------------------------------------- *)

(* the general fact, for any two binary32 numbers *)
Theorem double_rounding_div_format (x y : R) :
  y <> 0 ->
  generic_format radix2 fexp32 x -> generic_format radix2 fexp32 y ->
  rd (rd64 (x / y)) = rd (x / y).
Proof.
  intros Hy Fx Fy.
  unfold rd, rd64, fexp32, fexp64, ZnearestE.
  apply (round_round_div_FLT radix2 (-149) 24 (-1074) 53
           (fun t => negb (Z.even t)) (fun t => negb (Z.even t))).
  - exists 1%Z. reflexivity.
  - lia.
  - lia.
  - exact Hy.
  - apply FLT_format_generic; [exact prec24_gt_0|exact Fx].
  - apply FLT_format_generic; [exact prec24_gt_0|exact Fy].
Qed.

Theorem double_rounding_div (a b : Z) :
  (0 <= a <= 2 ^ 24)%Z -> (0 < b <= 2 ^ 24)%Z ->
  rd (rd64 (IZR a / IZR b)) = rd (IZR a / IZR b).
Proof.
  intros Ha Hb. apply double_rounding_div_format.
  - apply not_0_IZR. lia.
  - apply format32_int. lia.
  - apply format32_int. lia.
Qed.

(* numerator 2*m: up to 2^25 *)
Theorem double_rounding_div_twice (m b : Z) :
  (0 <= m <= 2 ^ 24)%Z -> (0 < b <= 2 ^ 24)%Z ->
  rd (rd64 (IZR (2 * m) / IZR b)) = rd (IZR (2 * m) / IZR b).
Proof.
  intros Hm Hb. apply double_rounding_div_format.
  - apply not_0_IZR. lia.
  - apply format32_twice. lia.
  - apply format32_int. lia.
Qed.

(* ---------------------------------------------------------------------- *)
(* 3. the driver's value is the crate's value                               *)
(* ---------------------------------------------------------------------- *)

(* the crate's expression, reduced to one rounding of the exact quotient *)
Lemma ev32_small (m len : nat) :
  (Z.of_nat m <= 2 ^ 24)%Z -> (Z.of_nat len <= 2 ^ 24)%Z ->
  ev32 (Some (m, len)) = rd (IZR (2 * Z.of_nat m) / IZR (Z.of_nat len)).
Proof.
  intros Hm Hl. cbn [ev32].
  rewrite (int_exact32_nat len Hl).
  rewrite !INR_IZR_INZ. rewrite twice_exact32 by lia. reflexivity.
Qed.

(* Int32.bits_of_float (q : binary64) is rd q; the quotient is computed in
   binary64 from the (exact) images of the integers 2*m and len *)
Definition driver_ratio (m len : nat) : R :=
  rd (rd64 (rd64 (IZR (Z.of_nat (2 * m))) / rd64 (IZR (Z.of_nat len)))).

Theorem driver_ratio_eq (m len : nat) :
  (Z.of_nat m <= 2 ^ 24)%Z -> (0 < Z.of_nat len <= 2 ^ 24)%Z ->
  rd (rd64 (IZR (2 * Z.of_nat m) / IZR (Z.of_nat len))) = ev32 (Some (m, len)).
Proof.
  intros Hm Hl. rewrite ev32_small by lia.
  apply double_rounding_div_twice; lia.
Qed.

Theorem driver_ratio_eq_full (m len : nat) :
  (Z.of_nat m <= 2 ^ 24)%Z -> (0 < Z.of_nat len <= 2 ^ 24)%Z ->
  driver_ratio m len = ev32 (Some (m, len)).
Proof.
  intros Hm Hl. unfold driver_ratio.
  rewrite (int_exact64 (Z.of_nat (2 * m))) by lia.
  rewrite (int_exact64 (Z.of_nat len)) by lia.
  replace (Z.of_nat (2 * m)) with (2 * Z.of_nat m)%Z by lia.
  apply driver_ratio_eq; assumption.
Qed.

(* in the checker's situation: 2*m <= len < 2^24 (matches counted twice never
   exceed the total length), nat bounds *)
Corollary driver_ratio_eq_nat (m len : nat) :
  (0 < len)%nat -> (len < 2 ^ 24)%nat -> (m <= len)%nat ->
  driver_ratio m len = ev32 (Some (m, len)).
Proof.
  intros H0 Hl Hm.
  assert (E : Z.of_nat (2 ^ 24) = (2 ^ 24)%Z).
  { rewrite Nat2Z.inj_pow. reflexivity. }
  apply driver_ratio_eq_full; lia.
Qed.

(* the one-rounding instance rnd32 of Proofs/CloseFlocq.v agrees as well *)
Theorem ev32_one_rounding (m len : nat) :
  (Z.of_nat m <= 2 ^ 24)%Z -> (0 < Z.of_nat len <= 2 ^ 24)%Z ->
  ev32 (Some (m, len)) = rd (2 * INR m / INR len).
Proof.
  intros Hm Hl. rewrite ev32_small by lia.
  rewrite mult_IZR, !INR_IZR_INZ. reflexivity.
Qed.

Print Assumptions int_exact32.
Print Assumptions int_exact64.
Print Assumptions twice_exact32.
Print Assumptions double_rounding_div_format.
Print Assumptions double_rounding_div.
Print Assumptions double_rounding_div_twice.
Print Assumptions driver_ratio_eq.
Print Assumptions driver_ratio_eq_full.
Print Assumptions driver_ratio_eq_nat.
