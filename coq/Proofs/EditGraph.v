(* Proofs/EditGraph.v — basic facts about the extended edit graph of
   Spec/EditGraph.v (Part 1): cost/coordinate decomposition, parity, bounds,
   Lipschitz properties, diagonal monotonicity ("Lemma I"), the interval
   property of reach sets on a diagonal, decidability of [Reach] and
   existence/uniqueness of [MinCost].

   The graph is the UNBOUNDED quadrant N x N: horizontal/vertical edges exist
   everywhere, diagonal edges only inside the box ([DgBox]). *)
From Similar Require Import Model.Base Spec.EditGraph.

Local Open Scope nat_scope.

(* "cost at most c" *)
Definition ReachLe (dg : nat -> nat -> bool) (c x y : nat) : Prop :=
  exists c', c' <= c /\ Reach dg c' x y.

(* [j] consecutive diagonal edges start at (x,y) *)
Definition DiagRun (dg : nat -> nat -> bool) (j x y : nat) : Prop :=
  forall i, i < j -> dg (x + i) (y + i) = true.

Section Basic.
  Variables n m : nat.
  Variable dg : nat -> nat -> bool.
  Hypothesis Hbox : DgBox n m dg.

  Notation Reach := (Reach dg).
  Notation ReachLe := (ReachLe dg).
  Notation MinCost := (MinCost dg).
  Notation DiagRun := (DiagRun dg).

  Lemma dg_false_out : forall x y, n <= x \/ m <= y -> dg x y = false.
  Proof.
    intros x y Hout. destruct (dg x y) eqn:E; [|reflexivity].
    apply Hbox in E. lia.
  Qed.

  Lemma ReachLe_of_Reach : forall c x y, Reach c x y -> ReachLe c x y.
  Proof. intros c x y H. exists c. split; [lia|exact H]. Qed.

  Lemma ReachLe_weaken : forall c c' x y, c <= c' -> ReachLe c x y -> ReachLe c' x y.
  Proof. intros c c' x y Hle [c0 [H0 H1]]. exists c0. split; [lia|exact H1]. Qed.

  (* ---------------------------------------------------------------- 1a *)
  (* a path with c non-diagonal edges consists of r rights, dn downs and q
     diagonal edges; the diagonal edges all lie in the box *)
  Lemma Reach_decomp : forall c x y, Reach c x y ->
    exists r dn q, c = r + dn /\ x = r + q /\ y = dn + q /\ q <= n /\ q <= m.
  Proof.
    intros c x y H. induction H as [|c x y H IH Hd|c x y H IH|c x y H IH].
    - exists 0, 0, 0. lia.
    - destruct IH as [r [dn [q IH]]]. apply Hbox in Hd.
      exists r, dn, (S q). lia.
    - destruct IH as [r [dn [q IH]]]. exists (S r), dn, q. lia.
    - destruct IH as [r [dn [q IH]]]. exists r, (S dn), q. lia.
  Qed.

  (* parity: x - y = c - 2t with 0 <= t <= c *)
  Lemma Reach_parity : forall c x y, Reach c x y ->
    exists t : Z, (0 <= t <= Z.of_nat c /\
                   Z.of_nat x - Z.of_nat y = Z.of_nat c - 2 * t)%Z.
  Proof.
    intros c x y H. destruct (Reach_decomp _ _ _ H) as [r [dn [q Hq]]].
    exists (Z.of_nat dn). lia.
  Qed.

  Lemma Reach_diag_bound : forall c x y, Reach c x y ->
    (- Z.of_nat c <= Z.of_nat x - Z.of_nat y <= Z.of_nat c)%Z.
  Proof.
    intros c x y H. destruct (Reach_decomp _ _ _ H) as [r [dn [q Hq]]]. lia.
  Qed.

  Lemma Reach_sum_lower : forall c x y, Reach c x y -> c <= x + y.
  Proof.
    intros c x y H. destruct (Reach_decomp _ _ _ H) as [r [dn [q Hq]]]. lia.
  Qed.

  Lemma Reach_sum_upper : forall c x y, Reach c x y ->
    x + y <= c + 2 * Nat.min n m /\ x <= c + n /\ y <= c + m.
  Proof.
    intros c x y H. destruct (Reach_decomp _ _ _ H) as [r [dn [q Hq]]]. lia.
  Qed.

  Lemma Reach_OnDiag_bound : forall c k x y, Reach c x y -> OnDiag k x y ->
    (- Z.of_nat c <= k <= Z.of_nat c)%Z.
  Proof.
    intros c k x y H Hk. unfold OnDiag in Hk.
    pose proof (Reach_diag_bound _ _ _ H). lia.
  Qed.

  Lemma Reach_OnDiag_parity : forall c k x y, Reach c x y -> OnDiag k x y ->
    exists t : Z, k = (Z.of_nat c - 2 * t)%Z.
  Proof.
    intros c k x y H Hk. unfold OnDiag in Hk.
    destruct (Reach_parity _ _ _ H) as [t [_ Ht]]. exists t. lia.
  Qed.

  (* cost 0: only (x,x) along a run of diagonal edges from the origin *)
  Lemma Reach_zero_inv : forall c x y, Reach c x y -> c = 0 ->
    x = y /\ DiagRun x 0 0.
  Proof.
    intros c x y H. induction H as [|c x y H IH Hd|c x y H IH|c x y H IH]; intros Hc.
    - split; [reflexivity|]. intros i Hi. lia.
    - destruct (IH Hc) as [Hxy Hrun]. subst y. split; [reflexivity|].
      intros i Hi. destruct (Nat.eq_dec i x) as [->|Hne].
      + exact Hd.
      + apply Hrun. lia.
    - discriminate.
    - discriminate.
  Qed.

  (* ---------------------------------------------------------------- 1b *)
  Lemma Reach_two_more : forall c x y, Reach c x y -> Reach (c + 2) (x + 1) (y + 1).
  Proof.
    intros c x y H. replace (c + 2) with (S (S c)) by lia.
    replace (x + 1) with (S x) by lia. replace (y + 1) with (S y) by lia.
    apply R_down. apply R_right. exact H.
  Qed.

  Lemma Reach_two_more_iter : forall j c x y, Reach c x y ->
    Reach (c + 2 * j) (x + j) (y + j).
  Proof.
    induction j as [|j IH]; intros c x y H.
    - replace (c + 2 * 0) with c by lia. replace (x + 0) with x by lia.
      replace (y + 0) with y by lia. exact H.
    - replace (c + 2 * S j) with ((c + 2 * j) + 2) by lia.
      replace (x + S j) with ((x + j) + 1) by lia.
      replace (y + S j) with ((y + j) + 1) by lia.
      apply Reach_two_more. apply IH. exact H.
  Qed.

  (* every point is reachable: x rights then y downs *)
  Lemma Reach_right_n : forall x, Reach x x 0.
  Proof. induction x as [|x IH]; [apply R_start|apply R_right; exact IH]. Qed.

  Lemma Reach_straight : forall x y, Reach (x + y) x y.
  Proof.
    intros x. induction y as [|y IH].
    - replace (x + 0) with x by lia. apply Reach_right_n.
    - replace (x + S y) with (S (x + y)) by lia. apply R_down. exact IH.
  Qed.

  (* forward Lipschitz *)
  Lemma ReachLe_right : forall c x y, ReachLe c x y -> ReachLe (S c) (S x) y.
  Proof.
    intros c x y [c' [Hle H]]. exists (S c'). split; [lia|apply R_right; exact H].
  Qed.

  Lemma ReachLe_down : forall c x y, ReachLe c x y -> ReachLe (S c) x (S y).
  Proof.
    intros c x y [c' [Hle H]]. exists (S c'). split; [lia|apply R_down; exact H].
  Qed.

  Lemma ReachLe_diag : forall c x y, ReachLe c x y -> dg x y = true -> ReachLe c (S x) (S y).
  Proof.
    intros c x y [c' [Hle H]] Hd. exists c'. split; [lia|apply R_diag; assumption].
  Qed.

  (* ---------------------------------------------------------------- 1c *)
  Lemma Reach_left_aux : forall c x' y, Reach c x' y ->
    forall x, x' = S x -> ReachLe (S c) x y.
  Proof.
    intros c x' y H.
    induction H as [|c x0 y0 H IH Hd|c x0 y0 H IH|c x0 y0 H IH]; intros x Hx.
    - discriminate.
    - injection Hx as Hx. subst x0. exists (S c). split; [lia|apply R_down; exact H].
    - injection Hx as Hx. subst x0. exists c. split; [lia|exact H].
    - apply ReachLe_down. apply IH. exact Hx.
  Qed.

  Lemma Reach_up_aux : forall c x y', Reach c x y' ->
    forall y, y' = S y -> ReachLe (S c) x y.
  Proof.
    intros c x y' H.
    induction H as [|c x0 y0 H IH Hd|c x0 y0 H IH|c x0 y0 H IH]; intros y Hy.
    - discriminate.
    - injection Hy as Hy. subst y0. exists (S c). split; [lia|apply R_right; exact H].
    - apply ReachLe_right. apply IH. exact Hy.
    - injection Hy as Hy. subst y0. exists c. split; [lia|exact H].
  Qed.

  (* reverse Lipschitz: f(x,y) <= f(x+1,y) + 1 and f(x,y) <= f(x,y+1) + 1 *)
  Lemma Reach_left : forall c x y, Reach c (S x) y ->
    exists c', c' <= c + 1 /\ Reach c' x y.
  Proof.
    intros c x y H. destruct (Reach_left_aux _ _ _ H x eq_refl) as [c' [Hle H']].
    exists c'. split; [lia|exact H'].
  Qed.

  Lemma Reach_up : forall c x y, Reach c x (S y) ->
    exists c', c' <= c + 1 /\ Reach c' x y.
  Proof.
    intros c x y H. destruct (Reach_up_aux _ _ _ H y eq_refl) as [c' [Hle H']].
    exists c'. split; [lia|exact H'].
  Qed.

  Lemma ReachLe_left : forall c x y, ReachLe c (S x) y -> ReachLe (S c) x y.
  Proof.
    intros c x y [c0 [Hle H]]. destruct (Reach_left _ _ _ H) as [c' [Hle' H']].
    exists c'. split; [lia|exact H'].
  Qed.

  Lemma ReachLe_up : forall c x y, ReachLe c x (S y) -> ReachLe (S c) x y.
  Proof.
    intros c x y [c0 [Hle H]]. destruct (Reach_up _ _ _ H) as [c' [Hle' H']].
    exists c'. split; [lia|exact H'].
  Qed.

  (* ---------------------------------------------------------------- 1d *)
  Lemma Reach_diag_back_aux : forall c x' y', Reach c x' y' ->
    forall x y, x' = S x -> y' = S y -> ReachLe c x y.
  Proof.
    intros c x' y' H.
    destruct H as [|c x0 y0 H Hd|c x0 y0 H|c x0 y0 H]; intros x y Hx Hy.
    - discriminate.
    - injection Hx as Hx. injection Hy as Hy. subst x0 y0.
      apply ReachLe_of_Reach. exact H.
    - injection Hx as Hx. subst x0 y0.
      destruct (Reach_up _ _ _ H) as [c' [Hle H']]. exists c'. split; [lia|exact H'].
    - injection Hy as Hy. subst x0 y0.
      destruct (Reach_left _ _ _ H) as [c' [Hle H']]. exists c'. split; [lia|exact H'].
  Qed.

  (* design "Lemma I": f(x,y) <= f(x+1,y+1) on all of N x N *)
  Lemma Reach_diag_back : forall c x y, Reach c (S x) (S y) ->
    exists c', c' <= c /\ Reach c' x y.
  Proof. intros c x y H. exact (Reach_diag_back_aux _ _ _ H x y eq_refl eq_refl). Qed.

  Lemma ReachLe_diag_back : forall c x y, ReachLe c (S x) (S y) -> ReachLe c x y.
  Proof.
    intros c x y [c0 [Hle H]]. destruct (Reach_diag_back _ _ _ H) as [c' [Hle' H']].
    exists c'. split; [lia|exact H'].
  Qed.

  Lemma ReachLe_diag_back_iter : forall j c x y, ReachLe c (x + j) (y + j) -> ReachLe c x y.
  Proof.
    induction j as [|j IH]; intros c x y H.
    - replace (x + 0) with x in H by lia. replace (y + 0) with y in H by lia. exact H.
    - apply IH. apply ReachLe_diag_back.
      replace (S (x + j)) with (x + S j) by lia. replace (S (y + j)) with (y + S j) by lia.
      exact H.
  Qed.

  (* interval property: on a diagonal the points of cost at most c form an
     initial segment *)
  Lemma ReachLe_interval : forall c k x y x' y',
    ReachLe c x' y' -> OnDiag k x' y' -> OnDiag k x y -> x <= x' -> ReachLe c x y.
  Proof.
    intros c k x y x' y' H Hk' Hk Hle. unfold OnDiag in *.
    apply (ReachLe_diag_back_iter (x' - x)).
    replace (x + (x' - x)) with x' by lia. replace (y + (x' - x)) with y' by lia.
    exact H.
  Qed.

  (* exact-cost form: the smaller cost has the same parity *)
  Lemma Reach_interval : forall c k x y x' y',
    Reach c x' y' -> OnDiag k x' y' -> OnDiag k x y -> x <= x' ->
    exists c' e, c' + 2 * e = c /\ Reach c' x y.
  Proof.
    intros c k x y x' y' H Hk' Hk Hle.
    destruct (ReachLe_interval c k x y x' y' (ReachLe_of_Reach _ _ _ H) Hk' Hk Hle)
      as [c' [Hc' H']].
    destruct (Reach_parity _ _ _ H) as [t [Ht Hpar]].
    destruct (Reach_parity _ _ _ H') as [t' [Ht' Hpar']].
    unfold OnDiag in *.
    exists c', (Z.to_nat (t - t')). split; [lia|exact H'].
  Qed.

  (* ---------------------------------------------------------------- 1e *)
  Lemma Reach_inv : forall c x y, Reach c x y ->
    (c = 0 /\ x = 0 /\ y = 0) \/
    (exists x0 y0, x = S x0 /\ y = S y0 /\ dg x0 y0 = true /\ Reach c x0 y0) \/
    (exists c0 x0, c = S c0 /\ x = S x0 /\ Reach c0 x0 y) \/
    (exists c0 y0, c = S c0 /\ y = S y0 /\ Reach c0 x y0).
  Proof.
    intros c x y H. destruct H as [|c x y H Hd|c x y H|c x y H].
    - left. auto.
    - right. left. exists x, y. auto.
    - right. right. left. exists c, x. auto.
    - right. right. right. exists c, y. auto.
  Qed.

  Lemma Reach_dec_aux : forall s c x y, x + y <= s -> Reach c x y \/ ~ Reach c x y.
  Proof.
    induction s as [|s IH]; intros c x y Hs.
    - assert (x = 0) by lia. assert (y = 0) by lia. subst x y.
      destruct c as [|c].
      + left. apply R_start.
      + right. intro H. apply Reach_sum_lower in H. lia.
    - (* diagonal predecessor *)
      assert (Hdiag : (exists x0 y0, x = S x0 /\ y = S y0 /\ dg x0 y0 = true /\ Reach c x0 y0) \/
                      ~ (exists x0 y0, x = S x0 /\ y = S y0 /\ dg x0 y0 = true /\ Reach c x0 y0)).
      { destruct x as [|x0]; [right; intros [? [? [? _]]]; discriminate|].
        destruct y as [|y0]; [right; intros [? [? [_ [? _]]]]; discriminate|].
        destruct (dg x0 y0) eqn:Ed.
        - destruct (IH c x0 y0 ltac:(lia)) as [Hr|Hn].
          + left. exists x0, y0. auto.
          + right. intros [x1 [y1 [E1 [E2 [_ Hr]]]]].
            injection E1 as <-. injection E2 as <-. exact (Hn Hr).
        - right. intros [x1 [y1 [E1 [E2 [Hd _]]]]].
          injection E1 as <-. injection E2 as <-. congruence. }
      assert (Hright : (exists c0 x0, c = S c0 /\ x = S x0 /\ Reach c0 x0 y) \/
                       ~ (exists c0 x0, c = S c0 /\ x = S x0 /\ Reach c0 x0 y)).
      { destruct c as [|c0]; [right; intros [? [? [? _]]]; discriminate|].
        destruct x as [|x0]; [right; intros [? [? [_ [? _]]]]; discriminate|].
        destruct (IH c0 x0 y ltac:(lia)) as [Hr|Hn].
        - left. exists c0, x0. auto.
        - right. intros [c1 [x1 [E1 [E2 Hr]]]].
          injection E1 as <-. injection E2 as <-. exact (Hn Hr). }
      assert (Hdown : (exists c0 y0, c = S c0 /\ y = S y0 /\ Reach c0 x y0) \/
                      ~ (exists c0 y0, c = S c0 /\ y = S y0 /\ Reach c0 x y0)).
      { destruct c as [|c0]; [right; intros [? [? [? _]]]; discriminate|].
        destruct y as [|y0]; [right; intros [? [? [_ [? _]]]]; discriminate|].
        destruct (IH c0 x y0 ltac:(lia)) as [Hr|Hn].
        - left. exists c0, y0. auto.
        - right. intros [c1 [y1 [E1 [E2 Hr]]]].
          injection E1 as <-. injection E2 as <-. exact (Hn Hr). }
      destruct Hdiag as [[x0 [y0 [-> [-> [Hd Hr]]]]]|Hnd].
      { left. apply R_diag; assumption. }
      destruct Hright as [[c0 [x0 [-> [-> Hr]]]]|Hnr].
      { left. apply R_right; assumption. }
      destruct Hdown as [[c0 [y0 [-> [-> Hr]]]]|Hndn].
      { left. apply R_down; assumption. }
      assert (Hstart : (c = 0 /\ x = 0 /\ y = 0) \/ ~ (c = 0 /\ x = 0 /\ y = 0)) by lia.
      destruct Hstart as [[-> [-> ->]]|Hns].
      { left. apply R_start. }
      right. intro H. destruct (Reach_inv _ _ _ H) as [H1|[H1|[H1|H1]]].
      + exact (Hns H1).
      + exact (Hnd H1).
      + exact (Hnr H1).
      + exact (Hndn H1).
  Qed.

  Lemma Reach_dec : forall c x y, Reach c x y \/ ~ Reach c x y.
  Proof. intros c x y. apply (Reach_dec_aux (x + y)). lia. Qed.

  (* least element of an inhabited decidable predicate on nat *)
  Lemma dec_least : forall P : nat -> Prop,
    (forall c, P c \/ ~ P c) ->
    forall b, (exists c, c < b /\ P c) ->
    exists c, P c /\ forall c', P c' -> c <= c'.
  Proof.
    intros P Hdec. induction b as [|b IH]; intros [c [Hlt Hc]].
    - lia.
    - assert (Hbelow : (exists c0, c0 < b /\ P c0) \/ ~ (exists c0, c0 < b /\ P c0)).
      { clear IH Hlt Hc c. induction b as [|b IHb].
        - right. intros [c0 [H0 _]]. lia.
        - destruct IHb as [[c0 [H0 H1]]|Hn].
          + left. exists c0. split; [lia|exact H1].
          + destruct (Hdec b) as [Hb|Hnb].
            * left. exists b. split; [lia|exact Hb].
            * right. intros [c0 [H0 H1]].
              destruct (Nat.eq_dec c0 b) as [->|Hne]; [exact (Hnb H1)|].
              apply Hn. exists c0. split; [lia|exact H1]. }
      destruct Hbelow as [Hex|Hnone].
      + apply IH. exact Hex.
      + exists c. split; [exact Hc|]. intros c' Hc'.
        destruct (le_lt_dec c c') as [Hle|Hgt]; [exact Hle|].
        exfalso. apply Hnone. exists c'. split; [lia|exact Hc'].
  Qed.

  Theorem MinCost_exists : forall x y, exists c, MinCost x y c.
  Proof.
    intros x y.
    destruct (dec_least (fun c => Reach c x y) (fun c => Reach_dec c x y) (S (x + y)))
      as [c [Hc Hmin]].
    - exists (x + y). split; [lia|apply Reach_straight].
    - exists c. split; assumption.
  Qed.

  Theorem MinCost_unique : forall x y c c', MinCost x y c -> MinCost x y c' -> c = c'.
  Proof.
    intros x y c c' [H1 H2] [H1' H2']. apply H2 in H1'. apply H2' in H1. lia.
  Qed.

  Lemma MinCost_le_sum : forall x y c, MinCost x y c -> c <= x + y.
  Proof. intros x y c [_ H]. apply H. apply Reach_straight. Qed.

  Lemma MinCost_ReachLe : forall x y c c', MinCost x y c -> ReachLe c' x y -> c <= c'.
  Proof. intros x y c c' [_ H] [c0 [Hle H0]]. apply H in H0. lia. Qed.

  (* the Lipschitz and monotonicity facts in terms of MinCost *)
  Lemma MinCost_right : forall x y c c', MinCost x y c -> MinCost (S x) y c' ->
    c' <= c + 1 /\ c <= c' + 1.
  Proof.
    intros x y c c' [H1 H2] [H1' H2']. split.
    - specialize (H2' _ (R_right _ _ _ _ H1)). lia.
    - destruct (Reach_left _ _ _ H1') as [c0 [Hle H0]]. apply H2 in H0. lia.
  Qed.

  Lemma MinCost_down : forall x y c c', MinCost x y c -> MinCost x (S y) c' ->
    c' <= c + 1 /\ c <= c' + 1.
  Proof.
    intros x y c c' [H1 H2] [H1' H2']. split.
    - specialize (H2' _ (R_down _ _ _ _ H1)). lia.
    - destruct (Reach_up _ _ _ H1') as [c0 [Hle H0]]. apply H2 in H0. lia.
  Qed.

  Lemma MinCost_diag_mono : forall x y c c', MinCost x y c -> MinCost (S x) (S y) c' ->
    c <= c'.
  Proof.
    intros x y c c' [H1 H2] [H1' H2'].
    destruct (Reach_diag_back _ _ _ H1') as [c0 [Hle H0]]. apply H2 in H0. lia.
  Qed.

  Lemma MinCost_diag_mono_iter : forall j x y c c',
    MinCost x y c -> MinCost (x + j) (y + j) c' -> c <= c'.
  Proof.
    intros j x y c c' Hc [H1' _].
    apply (MinCost_ReachLe x y c c' Hc).
    apply (ReachLe_diag_back_iter j). apply ReachLe_of_Reach. exact H1'.
  Qed.
End Basic.

Print Assumptions Reach_decomp.
Print Assumptions Reach_interval.
Print Assumptions ReachLe_interval.
Print Assumptions MinCost_exists.
Print Assumptions MinCost_diag_mono_iter.
