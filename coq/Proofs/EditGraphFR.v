(* Proofs/EditGraphFR.v — Part 2: furthest-reaching points and the sweep
   recurrence (Myers' Lemma 2 in the extended graph).  This is what the forward
   (and, on the reversed graph, backward) loop of find_middle_snake computes. *)
From Similar Require Import Model.Base Model.Utils Spec.EditGraph Proofs.EditGraph.

Local Open Scope nat_scope.

(* the last non-diagonal edge of a path enters (x1,y1) *)
Definition StepInto (dg : nat -> nat -> bool) (d x1 y1 : nat) : Prop :=
  (exists x2, x1 = S x2 /\ Reach dg d x2 y1) \/
  (exists y2, y1 = S y2 /\ Reach dg d x1 y2).

Section FRSec.
  Variables n m : nat.
  Variable dg : nat -> nat -> bool.
  Hypothesis Hbox : DgBox n m dg.

  Notation Reach := (Reach dg).
  Notation ReachLe := (ReachLe dg).
  Notation DiagRun := (DiagRun dg).
  Notation FR := (FR dg).
  Notation slide := (slide dg).
  Notation StepInto := (StepInto dg).

  (* ------------------------------------------------------------ diagonal runs *)
  Lemma DiagRun_0 : forall x y, DiagRun 0 x y.
  Proof. intros x y i Hi. lia. Qed.

  Lemma DiagRun_shift : forall j x y, DiagRun (S j) x y -> DiagRun j (S x) (S y).
  Proof.
    intros j x y H i Hi. replace (S x + i) with (x + S i) by lia.
    replace (S y + i) with (y + S i) by lia. apply H. lia.
  Qed.

  Lemma DiagRun_head : forall j x y, DiagRun (S j) x y -> dg x y = true.
  Proof.
    intros j x y H. specialize (H 0 ltac:(lia)).
    replace (x + 0) with x in H by lia. replace (y + 0) with y in H by lia. exact H.
  Qed.

  Lemma DiagRun_snoc : forall j x y, DiagRun j x y -> dg (x + j) (y + j) = true ->
    DiagRun (S j) x y.
  Proof.
    intros j x y H Hd i Hi. destruct (Nat.eq_dec i j) as [->|Hne]; [exact Hd|].
    apply H. lia.
  Qed.

  Lemma DiagRun_suffix : forall j i x y, DiagRun j x y -> i <= j ->
    DiagRun (j - i) (x + i) (y + i).
  Proof.
    intros j i x y H Hle t Ht. replace (x + i + t) with (x + (i + t)) by lia.
    replace (y + i + t) with (y + (i + t)) by lia. apply H. lia.
  Qed.

  Lemma DiagRun_box : forall j x y, DiagRun j x y -> 0 < j -> x + j <= n /\ y + j <= m.
  Proof.
    intros j x y H Hj. specialize (H (j - 1) ltac:(lia)). apply Hbox in H. lia.
  Qed.

  Lemma DiagRun_len_le : forall j x y, DiagRun j x y -> j <= Nat.min (n - x) (m - y).
  Proof.
    intros j x y H. destruct j as [|j]; [lia|].
    destruct (DiagRun_box _ _ _ H ltac:(lia)). lia.
  Qed.

  Lemma Reach_run : forall j c x y, Reach c x y -> DiagRun j x y ->
    Reach c (x + j) (y + j).
  Proof.
    induction j as [|j IH]; intros c x y H Hrun.
    - replace (x + 0) with x by lia. replace (y + 0) with y by lia. exact H.
    - replace (x + S j) with (S x + j) by lia. replace (y + S j) with (S y + j) by lia.
      apply IH.
      + apply R_diag; [exact H|]. exact (DiagRun_head _ _ _ Hrun).
      + apply DiagRun_shift. exact Hrun.
  Qed.

  (* ------------------------------------------------------------------- slide *)
  Lemma slide_le_fuel : forall f x y, slide f x y <= f.
  Proof.
    induction f as [|f IH]; intros x y; simpl; [lia|].
    destruct (dg x y); [|lia]. specialize (IH (S x) (S y)). lia.
  Qed.

  Lemma slide_run : forall f x y, DiagRun (slide f x y) x y.
  Proof.
    induction f as [|f IH]; intros x y; simpl.
    - apply DiagRun_0.
    - destruct (dg x y) eqn:E; [|apply DiagRun_0].
      intros i Hi. destruct i as [|i].
      + replace (x + 0) with x by lia. replace (y + 0) with y by lia. exact E.
      + replace (x + S i) with (S x + i) by lia. replace (y + S i) with (S y + i) by lia.
        apply IH. lia.
  Qed.

  Lemma slide_ge : forall f j x y, DiagRun j x y -> j <= f -> j <= slide f x y.
  Proof.
    induction f as [|f IH]; intros j x y Hrun Hle; simpl; [lia|].
    destruct j as [|j]; [lia|].
    rewrite (DiagRun_head _ _ _ Hrun).
    specialize (IH j (S x) (S y) (DiagRun_shift _ _ _ Hrun) ltac:(lia)). lia.
  Qed.

  Lemma slide_stop : forall f x y, slide f x y < f ->
    dg (x + slide f x y) (y + slide f x y) = false.
  Proof.
    induction f as [|f IH]; intros x y Hlt; simpl in *; [lia|].
    destruct (dg x y) eqn:E.
    - replace (x + S (slide f (S x) (S y))) with (S x + slide f (S x) (S y)) by lia.
      replace (y + S (slide f (S x) (S y))) with (S y + slide f (S x) (S y)) by lia.
      apply IH. lia.
    - replace (x + 0) with x by lia. replace (y + 0) with y by lia. exact E.
  Qed.

  Lemma slide_le_box : forall f x y, slide f x y <= Nat.min (n - x) (m - y).
  Proof. intros f x y. apply DiagRun_len_le. apply slide_run. Qed.

  Lemma slide_in_box : forall f x y, 0 < slide f x y ->
    x + slide f x y <= n /\ y + slide f x y <= m.
  Proof. intros f x y H. apply DiagRun_box; [apply slide_run|exact H]. Qed.

  Lemma slide_out : forall f x y, n <= x \/ m <= y -> slide f x y = 0.
  Proof. intros f x y H. pose proof (slide_le_box f x y). lia. Qed.

  (* slide does not depend on the fuel once the fuel covers the rest of the box *)
  Lemma slide_fuel : forall f1 f2 x y,
    Nat.min (n - x) (m - y) <= f1 -> Nat.min (n - x) (m - y) <= f2 ->
    slide f1 x y = slide f2 x y.
  Proof.
    intros f1 f2 x y H1 H2. apply Nat.le_antisymm.
    - apply slide_ge; [apply slide_run|]. pose proof (slide_le_box f1 x y). lia.
    - apply slide_ge; [apply slide_run|]. pose proof (slide_le_box f2 x y). lia.
  Qed.

  Lemma slide_fuel_n : forall f x y, n - x <= f -> slide f x y = slide (n - x) x y.
  Proof. intros f x y H. apply slide_fuel; lia. Qed.

  Lemma slide_fuel_m : forall f x y, m - y <= f -> slide f x y = slide (m - y) x y.
  Proof. intros f x y H. apply slide_fuel; lia. Qed.

  Lemma slide_fuel_min : forall f x y, Nat.min (n - x) (m - y) <= f ->
    slide f x y = slide (Nat.min (n - x) (m - y)) x y.
  Proof. intros f x y H. apply slide_fuel; lia. Qed.

  (* maximality: with enough fuel the edge after the slide is not diagonal *)
  Lemma slide_maximal : forall f x y, Nat.min (n - x) (m - y) <= f ->
    dg (x + slide f x y) (y + slide f x y) = false.
  Proof.
    intros f x y Hf.
    destruct (dg (x + slide f x y) (y + slide f x y)) eqn:E; [|reflexivity].
    exfalso.
    pose proof (DiagRun_snoc _ _ _ (slide_run f x y) E) as Hrun.
    pose proof (slide_le_fuel f x y) as Hle.
    pose proof (DiagRun_len_le _ _ _ Hrun) as Hlen.
    assert (Hlt : slide f x y < f) by lia.
    pose proof (slide_ge f _ _ _ Hrun ltac:(lia)). lia.
  Qed.

  Lemma Reach_slide : forall f c x y, Reach c x y ->
    Reach c (x + slide f x y) (y + slide f x y).
  Proof. intros f c x y H. apply Reach_run; [exact H|apply slide_run]. Qed.

  (* sliding from a further start on the same diagonal ends at least as far *)
  Lemma run_slide_dominate : forall f j x1 y1 x0 y0,
    (Z.of_nat x1 - Z.of_nat y1 = Z.of_nat x0 - Z.of_nat y0)%Z ->
    x1 <= x0 -> DiagRun j x1 y1 ->
    Nat.min (n - x0) (m - y0) <= f ->
    x1 + j <= x0 + slide f x0 y0.
  Proof.
    intros f j x1 y1 x0 y0 Hdiag Hle Hrun Hf.
    destruct (le_lt_dec (x1 + j) x0) as [Hfar|Hnear]; [lia|].
    pose proof (DiagRun_suffix j (x0 - x1) x1 y1 Hrun ltac:(lia)) as Hsuf.
    replace (x1 + (x0 - x1)) with x0 in Hsuf by lia.
    replace (y1 + (x0 - x1)) with y0 in Hsuf by lia.
    pose proof (DiagRun_len_le _ _ _ Hsuf) as Hlen.
    pose proof (slide_ge f _ _ _ Hsuf ltac:(lia)). lia.
  Qed.

  Lemma slide_mono_start : forall f x1 y1 x0 y0,
    (Z.of_nat x1 - Z.of_nat y1 = Z.of_nat x0 - Z.of_nat y0)%Z ->
    x1 <= x0 -> Nat.min (n - x0) (m - y0) <= f ->
    x1 + slide f x1 y1 <= x0 + slide f x0 y0.
  Proof.
    intros f x1 y1 x0 y0 Hdiag Hle Hf.
    apply (run_slide_dominate f _ x1 y1 x0 y0 Hdiag Hle (slide_run f x1 y1) Hf).
  Qed.

  (* ------------------------------------------------------- shape of a path *)
  (* every path ends with a run of diagonal edges that starts either at the
     origin (cost 0) or right after its last non-diagonal edge *)
  Lemma Reach_tail : forall c x y, Reach c x y ->
    exists x1 y1 j, x = x1 + j /\ y = y1 + j /\ DiagRun j x1 y1 /\
      ((c = 0 /\ x1 = 0 /\ y1 = 0) \/ (exists d, c = S d /\ StepInto d x1 y1)).
  Proof.
    intros c x y H. induction H as [|c x y H IH Hd|c x y H IH|c x y H IH].
    - exists 0, 0, 0. split; [lia|]. split; [lia|]. split; [apply DiagRun_0|]. left. auto.
    - destruct IH as [x1 [y1 [j [-> [-> [Hrun Horig]]]]]].
      exists x1, y1, (S j). split; [lia|]. split; [lia|]. split; [|exact Horig].
      apply DiagRun_snoc; assumption.
    - exists (S x), y, 0. split; [lia|]. split; [lia|]. split; [apply DiagRun_0|].
      right. exists c. split; [reflexivity|]. left. exists x. auto.
    - exists x, (S y), 0. split; [lia|]. split; [lia|]. split; [apply DiagRun_0|].
      right. exists c. split; [reflexivity|]. right. exists y. auto.
  Qed.

  (* ---------------------------------------------------------------- 2a *)
  Theorem FR_unique : forall d k x x', FR d k x -> FR d k x' -> x = x'.
  Proof.
    intros d k x x' [[y [Hk Hr]] Hmax] [[y' [Hk' Hr']] Hmax'].
    specialize (Hmax _ _ Hk' Hr'). specialize (Hmax' _ _ Hk Hr). lia.
  Qed.

  (* what an FR value satisfies *)
  Lemma FR_facts : forall d k x, FR d k x ->
    (k <= Z.of_nat x)%Z /\ (- Z.of_nat d <= k <= Z.of_nat d)%Z /\
    (exists t : Z, k = (Z.of_nat d - 2 * t)%Z) /\
    Reach d x (Z.to_nat (Z.of_nat x - k)) /\
    x <= d + n /\ Z.to_nat (Z.of_nat x - k) <= d + m.
  Proof.
    intros d k x [[y [Hk Hr]] _]. pose proof Hk as Hk0. unfold OnDiag in Hk0.
    replace (Z.to_nat (Z.of_nat x - k)) with y by lia.
    split; [lia|]. split; [exact (Reach_OnDiag_bound n m dg Hbox _ _ _ _ Hr Hk)|].
    split; [exact (Reach_OnDiag_parity n m dg Hbox _ _ _ _ Hr Hk)|].
    split; [exact Hr|].
    pose proof (Reach_sum_upper n m dg Hbox _ _ _ Hr). lia.
  Qed.

  Lemma FR_nonneg_y : forall d k x, FR d k x -> (k <= Z.of_nat x)%Z.
  Proof. intros d k x H. apply (FR_facts _ _ _ H). Qed.

  (* FR also dominates all cheaper points on its diagonal (the executable
     meaning in design-notes/myers_inv.py uses "cost at most d") *)
  Lemma FR_ReachLe_max : forall d k x x' y', FR d k x ->
    OnDiag k x' y' -> ReachLe d x' y' -> x' <= x.
  Proof.
    intros d k x x' y' [[y [Hk Hr]] Hmax] Hk' [c' [Hle Hr']].
    destruct (Reach_OnDiag_parity n m dg Hbox _ _ _ _ Hr Hk) as [t Ht].
    destruct (Reach_OnDiag_parity n m dg Hbox _ _ _ _ Hr' Hk') as [t' Ht'].
    pose proof (Reach_two_more_iter dg (Z.to_nat (t - t')) _ _ _ Hr') as Hpad.
    replace (c' + 2 * Z.to_nat (t - t')) with d in Hpad by lia.
    assert (Hk2 : OnDiag k (x' + Z.to_nat (t - t')) (y' + Z.to_nat (t - t')))
      by (unfold OnDiag in *; lia).
    specialize (Hmax _ _ Hk2 Hpad). lia.
  Qed.

  (* the points of cost at most d on diagonal k are exactly the initial segment
     up to the FR value *)
  Lemma FR_ReachLe_iff : forall d k x x' y', FR d k x -> OnDiag k x' y' ->
    (ReachLe d x' y' <-> x' <= x).
  Proof.
    intros d k x x' y' HFR Hk'. split.
    - apply (FR_ReachLe_max _ _ _ _ _ HFR Hk').
    - intros Hle. destruct HFR as [[y [Hk Hr]] _].
      apply (ReachLe_interval dg d k x' y' x y); try assumption.
      apply ReachLe_of_Reach. exact Hr.
  Qed.

  (* ---------------------------------------------------------------- 2b *)
  Theorem FR_0_fuel : forall f, Nat.min n m <= f -> FR 0 0%Z (slide f 0 0).
  Proof.
    intros f Hf. split.
    - exists (slide f 0 0). split; [unfold OnDiag; lia|].
      apply (Reach_slide f 0 0 0). apply R_start.
    - intros x' y' Hk Hr.
      destruct (Reach_zero_inv dg _ _ _ Hr eq_refl) as [Hxy Hrun].
      pose proof (DiagRun_len_le _ _ _ Hrun).
      apply slide_ge; [exact Hrun|lia].
  Qed.

  Theorem FR_0 : FR 0 0%Z (slide n 0 0).
  Proof. apply FR_0_fuel. lia. Qed.

  (* ---------------------------------------------------------------- 2c *)
  (* the generic half: once the start (x0,y0) dominates every entry point of
     diagonal k, sliding from it gives the furthest reaching point *)
  Lemma FR_from_origin : forall d k x0 y0 f,
    OnDiag k x0 y0 -> Reach (S d) x0 y0 ->
    (forall x1 y1, OnDiag k x1 y1 -> StepInto d x1 y1 -> x1 <= x0) ->
    Nat.min (n - x0) (m - y0) <= f ->
    FR (S d) k (x0 + slide f x0 y0).
  Proof.
    intros d k x0 y0 f Hk0 Hr0 Hdom Hf. split.
    - exists (y0 + slide f x0 y0). split; [unfold OnDiag in *; lia|].
      apply Reach_slide. exact Hr0.
    - intros x' y' Hk' Hr'.
      destruct (Reach_tail _ _ _ Hr') as [x1 [y1 [j [-> [-> [Hrun Horig]]]]]].
      destruct Horig as [[Hc _]|[d' [Hd' Hstep]]]; [discriminate|].
      injection Hd' as <-.
      assert (Hk1 : OnDiag k x1 y1) by (unfold OnDiag in *; lia).
      specialize (Hdom _ _ Hk1 Hstep).
      apply (run_slide_dominate f j x1 y1 x0 y0); try assumption.
      unfold OnDiag in *. lia.
  Qed.

  (* entry from diagonal k-1 (a right edge) *)
  Lemma enter_from_lo : forall d k lo, FR d (k - 1) lo ->
    (k <= Z.of_nat (S lo))%Z /\
    Reach (S d) (S lo) (Z.to_nat (Z.of_nat (S lo) - k)).
  Proof.
    intros d k lo [[y [Hk Hr]] _]. unfold OnDiag in Hk.
    replace (Z.to_nat (Z.of_nat (S lo) - k)) with y by lia.
    split; [lia|]. apply R_right. exact Hr.
  Qed.

  (* entry from diagonal k+1 (a down edge) *)
  Lemma enter_from_hi : forall d k hi, FR d (k + 1) hi ->
    (k <= Z.of_nat hi)%Z /\
    Reach (S d) hi (Z.to_nat (Z.of_nat hi - k)).
  Proof.
    intros d k hi [[y [Hk Hr]] _]. unfold OnDiag in Hk.
    replace (Z.to_nat (Z.of_nat hi - k)) with (S y) by lia.
    split; [lia|]. apply R_down. exact Hr.
  Qed.

  (* every entry point of diagonal k is bounded by the neighbours' FR values *)
  Lemma entry_bound : forall d k lo hi x1 y1,
    ((- Z.of_nat (S d) < k)%Z -> FR d (k - 1) lo) ->
    ((k < Z.of_nat (S d))%Z -> FR d (k + 1) hi) ->
    OnDiag k x1 y1 -> StepInto d x1 y1 ->
    ((- Z.of_nat (S d) < k)%Z /\ x1 <= S lo) \/ ((k < Z.of_nat (S d))%Z /\ x1 <= hi).
  Proof.
    intros d k lo hi x1 y1 Hlo Hhi Hk1 [[x2 [-> Hr]]|[y2 [-> Hr]]].
    - assert (Hk2 : OnDiag (k - 1) x2 y1) by (unfold OnDiag in *; lia).
      pose proof (Reach_OnDiag_bound n m dg Hbox _ _ _ _ Hr Hk2) as Hb.
      left. split; [lia|].
      destruct (Hlo ltac:(lia)) as [_ Hmax]. specialize (Hmax _ _ Hk2 Hr). lia.
    - assert (Hk2 : OnDiag (k + 1) x1 y2) by (unfold OnDiag in *; lia).
      pose proof (Reach_OnDiag_bound n m dg Hbox _ _ _ _ Hr Hk2) as Hb.
      right. split; [lia|].
      destruct (Hhi ltac:(lia)) as [_ Hmax]. exact (Hmax _ _ Hk2 Hr).
  Qed.

  (* the start point chosen by the sweep *)
  Lemma pick_spec_origin : forall d k lo hi,
    (- Z.of_nat (S d) <= k <= Z.of_nat (S d))%Z ->
    ((- Z.of_nat (S d) < k)%Z -> FR d (k - 1) lo) ->
    ((k < Z.of_nat (S d))%Z -> FR d (k + 1) hi) ->
    let x0 := pick_spec (S d) k lo hi in
    let y0 := Z.to_nat (Z.of_nat x0 - k) in
    (k <= Z.of_nat x0)%Z /\ Reach (S d) x0 y0 /\
    (forall x1 y1, OnDiag k x1 y1 -> StepInto d x1 y1 -> x1 <= x0).
  Proof.
    intros d k lo hi Hrange Hlo Hhi x0 y0.
    assert (Hdom : forall x1 y1, OnDiag k x1 y1 -> StepInto d x1 y1 ->
              ((- Z.of_nat (S d) < k)%Z /\ x1 <= S lo) \/ ((k < Z.of_nat (S d))%Z /\ x1 <= hi))
      by (intros x1 y1; apply entry_bound; assumption).
    subst y0 x0. unfold pick_spec.
    destruct (Z.eqb_spec k (- Z.of_nat (S d))) as [E1|N1].
    - destruct (enter_from_hi d k hi (Hhi ltac:(lia))) as [Hy Hr].
      split; [exact Hy|]. split; [exact Hr|].
      intros x1 y1 Hk1 Hs. destruct (Hdom _ _ Hk1 Hs) as [[H1 H2]|[H1 H2]]; lia.
    - destruct (Z.eqb_spec k (Z.of_nat (S d))) as [E2|N2].
      + destruct (enter_from_lo d k lo (Hlo ltac:(lia))) as [Hy Hr].
        split; [exact Hy|]. split; [exact Hr|].
        intros x1 y1 Hk1 Hs. destruct (Hdom _ _ Hk1 Hs) as [[H1 H2]|[H1 H2]]; lia.
      + destruct (Nat.ltb_spec lo hi) as [Hlt|Hge].
        * destruct (enter_from_hi d k hi (Hhi ltac:(lia))) as [Hy Hr].
          split; [exact Hy|]. split; [exact Hr|].
          intros x1 y1 Hk1 Hs. destruct (Hdom _ _ Hk1 Hs) as [[H1 H2]|[H1 H2]]; lia.
        * destruct (enter_from_lo d k lo (Hlo ltac:(lia))) as [Hy Hr].
          split; [exact Hy|]. split; [exact Hr|].
          intros x1 y1 Hk1 Hs. destruct (Hdom _ _ Hk1 Hs) as [[H1 H2]|[H1 H2]]; lia.
  Qed.

  (* Myers' Lemma 2 in the extended graph, round S d, any sufficient fuel *)
  Theorem FR_step_S : forall d k lo hi,
    (- Z.of_nat (S d) <= k <= Z.of_nat (S d))%Z ->
    ((- Z.of_nat (S d) < k)%Z -> FR d (k - 1) lo) ->
    ((k < Z.of_nat (S d))%Z -> FR d (k + 1) hi) ->
    let x0 := pick_spec (S d) k lo hi in
    let y0 := Z.to_nat (Z.of_nat x0 - k) in
    (k <= Z.of_nat x0)%Z /\
    forall f, Nat.min (n - x0) (m - y0) <= f -> FR (S d) k (x0 + slide f x0 y0).
  Proof.
    intros d k lo hi Hrange Hlo Hhi x0 y0.
    destruct (pick_spec_origin d k lo hi Hrange Hlo Hhi) as [Hy [Hr Hdom]].
    fold x0 in Hy, Hr, Hdom. fold y0 in Hr.
    split; [exact Hy|]. intros f Hf.
    apply FR_from_origin; try assumption.
    unfold OnDiag. subst y0. lia.
  Qed.

  (* the statement as given: round d >= 1, previous round d - 1, fuel n *)
  Theorem FR_step : forall d k lo hi,
    1 <= d -> (- Z.of_nat d <= k <= Z.of_nat d)%Z ->
    ((- Z.of_nat d < k)%Z -> FR (d - 1) (k - 1) lo) ->
    ((k < Z.of_nat d)%Z -> FR (d - 1) (k + 1) hi) ->
    let x0 := pick_spec d k lo hi in
    let y0 := Z.to_nat (Z.of_nat x0 - k) in
    (k <= Z.of_nat x0)%Z /\ FR d k (x0 + slide n x0 y0).
  Proof.
    intros d k lo hi Hd Hrange Hlo Hhi. destruct d as [|d]; [lia|].
    replace (S d - 1) with d in * by lia.
    intros x0 y0.
    destruct (FR_step_S d k lo hi Hrange Hlo Hhi) as [Hy HFR].
    split; [exact Hy|]. apply HFR. lia.
  Qed.

  (* the sweep only slides when the start is strictly inside the box; outside
     the slide is 0 anyway *)
  Lemma FR_step_out_of_box : forall d k lo hi,
    1 <= d -> (- Z.of_nat d <= k <= Z.of_nat d)%Z ->
    ((- Z.of_nat d < k)%Z -> FR (d - 1) (k - 1) lo) ->
    ((k < Z.of_nat d)%Z -> FR (d - 1) (k + 1) hi) ->
    let x0 := pick_spec d k lo hi in
    let y0 := Z.to_nat (Z.of_nat x0 - k) in
    n <= x0 \/ m <= y0 -> FR d k x0.
  Proof.
    intros d k lo hi Hd Hrange Hlo Hhi x0 y0 Hout.
    destruct (FR_step d k lo hi Hd Hrange Hlo Hhi) as [_ HFR].
    fold x0 y0 in HFR. rewrite (slide_out n x0 y0 Hout) in HFR.
    replace (x0 + 0) with x0 in HFR by lia. exact HFR.
  Qed.

  (* existence of all FR values the sweep computes *)
  Theorem FR_exists : forall d k,
    (- Z.of_nat d <= k <= Z.of_nat d)%Z ->
    (exists t : Z, k = (Z.of_nat d - 2 * t)%Z) ->
    exists x, FR d k x.
  Proof.
    induction d as [|d IH]; intros k Hrange [t Ht].
    - assert (Hk0 : k = 0%Z) by lia. rewrite Hk0. exists (slide n 0 0). apply FR_0.
    - assert (Hlo : exists lo, (- Z.of_nat (S d) < k)%Z -> FR d (k - 1) lo).
      { destruct (Z_lt_le_dec (- Z.of_nat (S d)) k) as [Hin|Hout].
        - destruct (IH (k - 1)%Z ltac:(lia)) as [lo Hlo].
          + exists t. lia.
          + exists lo. intros _. exact Hlo.
        - exists 0. intros Hc. lia. }
      assert (Hhi : exists hi, (k < Z.of_nat (S d))%Z -> FR d (k + 1) hi).
      { destruct (Z_lt_le_dec k (Z.of_nat (S d))) as [Hin|Hout].
        - destruct (IH (k + 1)%Z ltac:(lia)) as [hi Hhi].
          + exists (t - 1)%Z. lia.
          + exists hi. intros _. exact Hhi.
        - exists 0. intros Hc. lia. }
      destruct Hlo as [lo Hlo]. destruct Hhi as [hi Hhi].
      destruct (FR_step_S d k lo hi Hrange Hlo Hhi) as [_ HFR].
      eexists. apply (HFR n). lia.
  Qed.

  (* ---------------------------------------------------------------- 2d *)
  Theorem FR_round_mono : forall d k x x', FR d k x -> FR (d + 2) k x' -> x + 1 <= x'.
  Proof.
    intros d k x x' [[y [Hk Hr]] _] [_ Hmax'].
    apply (Hmax' (x + 1) (y + 1)).
    - unfold OnDiag in *. lia.
    - apply Reach_two_more. exact Hr.
  Qed.

  Corollary FR_round_mono_le : forall d k x x', FR d k x -> FR (d + 2) k x' -> x <= x'.
  Proof. intros d k x x' H H'. pose proof (FR_round_mono _ _ _ _ H H'). lia. Qed.

  (* the FR value is where the chosen start slides to, hence at least the start;
     and the start is at least both neighbours' contributions *)
  Lemma pick_spec_ge : forall d k lo hi,
    ((k =? - Z.of_nat d)%Z = false -> S lo <= pick_spec d k lo hi) /\
    ((k =? Z.of_nat d)%Z = false -> hi <= pick_spec d k lo hi).
  Proof.
    intros d k lo hi. unfold pick_spec.
    destruct (k =? - Z.of_nat d)%Z eqn:E1; destruct (k =? Z.of_nat d)%Z eqn:E2;
      destruct (Nat.ltb_spec lo hi); split; intros; try discriminate; lia.
  Qed.
End FRSec.

(* tie to the executable scan of Model/Utils.v: on the graph of a comparison
   oracle, a successful prefix scan from (x,y) with at most the remaining box as
   fuel returns exactly [slide] *)
Section PrefixScan.
  Variable cmp : cmpf.
  Variables os oe ns ne : nat.

  Lemma prefix_from_slide : forall k x y a,
    k <= Nat.min (oe - os - x) (ne - ns - y) ->
    prefix_from cmp (os + x) (ns + y) k = Ok a ->
    a = slide (dg_of cmp os oe ns ne) k x y.
  Proof.
    induction k as [|k IH]; intros x y a Hk H; simpl in *.
    - injection H as <-. reflexivity.
    - unfold dg_of.
      destruct (Nat.ltb_spec x (oe - os)) as [Hx|Hx]; [|lia].
      destruct (Nat.ltb_spec y (ne - ns)) as [Hy|Hy]; [|lia]. simpl.
      destruct (cmp (os + x) (ns + y)) as [[|]| |]; simpl in H; try discriminate.
      + destruct (prefix_from cmp (S (os + x)) (S (ns + y)) k) as [a'| |] eqn:E;
          simpl in H; try discriminate.
        injection H as <-. f_equal. apply IH; [lia|].
        replace (os + S x) with (S (os + x)) by lia.
        replace (ns + S y) with (S (ns + y)) by lia. exact E.
      + injection H as <-. reflexivity.
  Qed.
End PrefixScan.

Print Assumptions FR_unique.
Print Assumptions prefix_from_slide.
Print Assumptions FR_0.
Print Assumptions slide_fuel.
Print Assumptions FR_step_S.
Print Assumptions FR_step.
Print Assumptions FR_exists.
Print Assumptions FR_round_mono.
Print Assumptions FR_ReachLe_iff.
