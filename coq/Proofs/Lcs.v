(* Proofs/Lcs.v — the LCS diff (Model/Lcs.v, src/algorithms/lcs.rs):
   validity of the emitted call sequence for every clock, absence of panics,
   and minimality when there is no deadline.  [cmp] is arbitrary throughout
   (no equivalence / rectangle condition is needed, see [lcs_minimal]). *)
From Similar Require Import Model.Base Model.Utils Model.Myers Model.Hooks Model.Lcs
  Spec.Script Check.Script Proofs.Utils Proofs.LcsLen.

(* ------------------------------------------------------------------ *)
(* lcs_diff cut into named pieces                                      *)
(* ------------------------------------------------------------------ *)
Section Pieces.
  Context {W : Type}.
  Variable wd : world W.
  Variable cmp : cmpf.

  Definition lcs_tail (os ns p s old_len new_len old_idx new_idx : nat) (w : W) : res W :=
    do '(old_idx, w) <-
       (if old_idx <? old_len then
          do w <- emit wd (CDel (os + p + old_idx) (old_len - old_idx) (ns + p + new_idx)) w;
          Ok (old_idx + (old_len - old_idx), w)
        else Ok (old_idx, w));
    do w <-
       (if new_idx <? new_len then
          emit wd (CIns (os + p + old_idx) (ns + p + new_idx) (new_len - new_idx)) w
        else Ok w);
    do w <- (if 0 <? s then emit wd (CEq (os + old_len + p) (ns + new_len + p) s) w else Ok w);
    emit wd CFin w.

  Definition walk_or_not (mt : option (list (list nat))) (ob nb old_len new_len : nat) (w : W)
    : res (nat * nat * W) :=
    match mt with
    | Some t => walk wd cmp (old_len + new_len + 1) t ob nb old_len new_len 0 0 w
    | None => Ok (0, 0, w)
    end.

  Definition lcs_emit (os ns p s old_len new_len : nat) (mt : option (list (list nat))) (w : W)
    : res W :=
    do w <- (if 0 <? p then emit wd (CEq os ns p) w else Ok w);
    do '(old_idx, new_idx, w) <- walk_or_not mt (os + p) (ns + p) old_len new_len w;
    lcs_tail os ns p s old_len new_len old_idx new_idx w.

  Definition lcs_main (os oe ns ne p s : nat) (w : W) : res W :=
    do oe' <- sub_chk oe s;
    do ne' <- sub_chk ne s;
    do '(mt, w) <- make_table wd cmp (os + p) oe' (ns + p) ne' w;
    do nl0 <- sub_chk (ne - ns) p;
    do new_len <- sub_chk nl0 s;
    do ol0 <- sub_chk (oe - os) p;
    do old_len <- sub_chk ol0 s;
    lcs_emit os ns p s old_len new_len mt w.

  Lemma lcs_diff_unfold os oe ns ne w :
    lcs_diff wd cmp os oe ns ne w =
    if empty_range ns ne then
      do w <- (if empty_range os oe then Ok w else emit wd (CDel os (oe - os) ns) w);
      emit wd CFin w
    else if empty_range os oe then
      do w <- emit wd (CIns os ns (ne - ns)) w;
      emit wd CFin w
    else
      do p <- common_prefix_len cmp os oe ns ne;
      let w := tick wd (scan_cmps os oe ns ne p) w in
      do s <- common_suffix_len cmp (os + p) oe (ns + p) ne;
      let w := tick wd (scan_cmps (os + p) oe (ns + p) ne s) w in
      if (p =? oe - os) && (oe - os =? ne - ns) then
        do w <- emit wd (CEq os ns (oe - os)) w;
        emit wd CFin w
      else lcs_main os oe ns ne p s w.
  Proof. reflexivity. Qed.
End Pieces.

(* ------------------------------------------------------------------ *)
(* counting calls                                                      *)
(* ------------------------------------------------------------------ *)
Fixpoint eqs (cs : list call) : nat :=
  match cs with
  | [] => 0
  | CEq _ _ l :: r => l + eqs r
  | _ :: r => eqs r
  end.
Fixpoint dels (cs : list call) : nat :=
  match cs with
  | [] => 0
  | CDel _ l _ :: r => l + dels r
  | CRep _ ol _ _ :: r => ol + dels r
  | _ :: r => dels r
  end.
Fixpoint inss (cs : list call) : nat :=
  match cs with
  | [] => 0
  | CIns _ _ l :: r => l + inss r
  | CRep _ _ _ nl :: r => nl + inss r
  | _ :: r => inss r
  end.

Lemma eqs_app a b : eqs (a ++ b) = eqs a + eqs b.
Proof.
  induction a as [|c a IH]; [reflexivity|].
  destruct c; cbn [app eqs]; lia.
Qed.

Lemma equal_total_capture cs : equal_total (capture_calls cs) = eqs cs.
Proof.
  induction cs as [|c cs IH]; [reflexivity|]. unfold equal_total in *.
  destruct c; cbn [capture_calls call_to_op eqs fold_right]; lia.
Qed.

Lemma deleted_capture cs : deleted (capture_calls cs) = dels cs.
Proof.
  induction cs as [|c cs IH]; [reflexivity|]. unfold deleted in *.
  destruct c; cbn [capture_calls call_to_op dels fold_right op_old_len]; lia.
Qed.

Lemma inserted_capture cs : inserted (capture_calls cs) = inss cs.
Proof.
  induction cs as [|c cs IH]; [reflexivity|]. unfold inserted in *.
  destruct c; cbn [capture_calls call_to_op inss fold_right op_new_len]; lia.
Qed.

Lemma capture_calls_fin body : capture_calls (body ++ [CFin]) = capture_calls body.
Proof.
  induction body as [|c body IH]; [reflexivity|].
  destruct c; cbn [app capture_calls call_to_op]; rewrite IH; reflexivity.
Qed.

(* ------------------------------------------------------------------ *)
(* the plain world                                                     *)
(* ------------------------------------------------------------------ *)
Lemma probe_log dl w ex w2 : probe (plain_world dl) w = (ex, w2) -> p_log w2 = p_log w.
Proof.
  cbn [probe plain_world]. destruct (deadline_exceeded dl (p_ctr w)) as [b c].
  intros H. inversion H. reflexivity.
Qed.

Lemma probe_None w ex w2 : probe (plain_world None) w = (ex, w2) -> ex = false.
Proof. cbn [probe plain_world deadline_exceeded]. intros H. inversion H. reflexivity. Qed.

Lemma tick_log dl k w : p_log (tick (plain_world dl) k w) = p_log w.
Proof. reflexivity. Qed.

Lemma hd_nth (l : list nat) : hd 0 l = nth 0 l 0.
Proof. destruct l; reflexivity. Qed.

Lemma nth_tl (l : list nat) k : nth k (tl l) 0 = nth (S k) l 0.
Proof. destruct l; [destruct k; reflexivity|reflexivity]. Qed.

Section LcsProofs.
  Variable cmp : cmpf.

  (* ---------------------------------------------------------------- *)
  (* RawWalk helpers                                                   *)
  (* ---------------------------------------------------------------- *)
  Lemma SegEq_ext_idx o n o' n' l :
    o = o' -> n = n' -> SegEq cmp o n l -> SegEq cmp o' n' l.
  Proof. intros -> ->. exact (fun H => H). Qed.

  Lemma RawWalk_weaken oe ne i j i0 cs :
    RawWalk cmp oe ne i j i0 cs -> forall i0', i0' <= i0 -> RawWalk cmp oe ne i j i0' cs.
  Proof.
    intros H. induction H as [i0|i j i0 l cs Hl Hseg Hr IH|i j i0 l cs Hl Hr IH
                              |i j i0 o l cs Hl Ho1 Ho2 Hr IH]; intros i0' Hle.
    - constructor.
    - constructor; assumption.
    - constructor; [assumption|]. apply IH; assumption.
    - constructor; try lia. apply IH; assumption.
  Qed.

  Lemma RawWalk_cast oe ne i j i0 i' j' i0' cs :
    i = i' -> j = j' -> i0' <= i0 ->
    RawWalk cmp oe ne i j i0 cs -> RawWalk cmp oe ne i' j' i0' cs.
  Proof. intros -> -> Hle H. eapply RawWalk_weaken; eassumption. Qed.

  Lemma RW_nil' oe ne i j i0 : i = oe -> j = ne -> RawWalk cmp oe ne i j i0 [].
  Proof. intros -> ->. constructor. Qed.

  Lemma RW_eq' oe ne i j i0 o n l cs :
    o = i -> n = j -> 0 < l -> SegEq cmp o n l ->
    RawWalk cmp oe ne (i + l) (j + l) (i + l) cs ->
    RawWalk cmp oe ne i j i0 (CEq o n l :: cs).
  Proof. intros -> -> Hl Hseg H. constructor; assumption. Qed.

  Lemma RW_del' oe ne i j i0 o n l cs :
    o = i -> n = j -> 0 < l ->
    RawWalk cmp oe ne (i + l) j i0 cs ->
    RawWalk cmp oe ne i j i0 (CDel o l n :: cs).
  Proof. intros -> -> Hl H. constructor; assumption. Qed.

  Lemma RW_ins' oe ne i j i0 o n l cs :
    n = j -> 0 < l -> i0 <= o -> o <= i ->
    RawWalk cmp oe ne i (j + l) i0 cs ->
    RawWalk cmp oe ne i j i0 (CIns o n l :: cs).
  Proof. intros -> Hl H1 H2 H. constructor; assumption. Qed.

  Lemma RawWalk_sums oe ne i j i0 body :
    RawWalk cmp oe ne i j i0 body ->
    dels body + eqs body + i = oe /\ inss body + eqs body + j = ne.
  Proof.
    intros H. induction H as [i0|i j i0 l cs Hl Hseg Hr IH|i j i0 l cs Hl Hr IH
                              |i j i0 o l cs Hl Ho1 Ho2 Hr IH]; cbn [dels inss eqs]; lia.
  Qed.

  (* ---------------------------------------------------------------- *)
  (* the table                                                         *)
  (* ---------------------------------------------------------------- *)
  Section Table.
    Variables ob nb old_len new_len : nat.

    (* LCS length of the rest of the middle from (old offset oi, new offset ni) *)
    Definition LL (oi ni : nat) : nat :=
      L cmp (old_len - oi) (ob + oi) (new_len - ni) (nb + ni).

    Lemma LL_ext a b a' b' : a = a' -> b = b' -> LL a b = LL a' b'.
    Proof. intros -> ->. reflexivity. Qed.

    Lemma LL_exit oi ni : old_len <= oi \/ new_len <= ni -> LL oi ni = 0.
    Proof.
      unfold LL. intros [H|H].
      - replace (old_len - oi) with 0 by lia. apply L_0_l.
      - replace (new_len - ni) with 0 by lia. apply L_r_0.
    Qed.

    Lemma LL_step oi ni :
      oi < old_len -> ni < new_len ->
      LL oi ni = match cmp (ob + oi) (nb + ni) with
                 | Ok true => S (LL (S oi) (S ni))
                 | _ => Nat.max (LL (S oi) ni) (LL oi (S ni))
                 end.
    Proof.
      unfold LL. intros Ho Hn.
      replace (old_len - oi) with (S (old_len - S oi)) by lia.
      replace (new_len - ni) with (S (new_len - S ni)) by lia.
      rewrite L_S_S.
      replace (ob + S oi) with (S (ob + oi)) by lia.
      replace (nb + S ni) with (S (nb + ni)) by lia. reflexivity.
    Qed.

    (* the table agrees with LL *)
    Definition TH (t : list (list nat)) : Prop :=
      forall k j, k <= new_len -> j <= old_len -> tget t k j = LL j k.

    Lemma table_row_spec i : i < new_len ->
      forall len j nxt r,
        table_row cmp ob nb i j len nxt = Ok r ->
        j + len = old_len ->
        (forall k, k <= len -> nth k nxt 0 = LL (j + k) (S i)) ->
        length r = S len /\ forall k, k <= len -> nth k r 0 = LL (j + k) i.
    Proof.
      intros Hi. induction len as [|len IH]; intros j nxt r H Hj Hnxt; cbn [table_row] in H.
      - inversion H; subst r. split; [reflexivity|]. intros k Hk.
        assert (k = 0) by lia; subst k. cbn [nth]. symmetry. apply LL_exit. lia.
      - destruct (table_row cmp ob nb i (S j) len (tl nxt)) as [r'| |] eqn:Er;
          cbn [bind] in H; try discriminate.
        destruct (cmp (ob + j) (nb + i)) as [b| |] eqn:Ec; cbn [bind] in H; try discriminate.
        inversion H; subst r; clear H.
        destruct (IH (S j) (tl nxt) r' Er ltac:(lia)) as [Hlen Hr'].
        { intros k Hk. rewrite nth_tl. rewrite Hnxt by lia. apply LL_ext; lia. }
        split; [cbn [length]; lia|].
        intros k Hk. destruct k as [|k].
        + cbn [nth]. rewrite (LL_ext (j + 0) i j i) by lia.
          rewrite LL_step by lia. rewrite Ec.
          rewrite !hd_nth, nth_tl. rewrite (Hnxt 1) by lia. rewrite (Hnxt 0) by lia.
          rewrite (Hr' 0) by lia.
          rewrite (LL_ext (j + 1) (S i) (S j) (S i)) by lia.
          rewrite (LL_ext (j + 0) (S i) j (S i)) by lia.
          rewrite (LL_ext (S j + 0) i (S j) i) by lia.
          destruct b; [reflexivity|apply Nat.max_comm].
        + cbn [nth]. rewrite Hr' by lia. apply LL_ext; lia.
    Qed.

    Lemma table_row_total i : forall len j nxt,
      (forall j', j <= j' < j + len -> exists b, cmp (ob + j') (nb + i) = Ok b) ->
      exists r, table_row cmp ob nb i j len nxt = Ok r.
    Proof.
      induction len as [|len IH]; intros j nxt Htot; cbn [table_row].
      - eexists; reflexivity.
      - destruct (IH (S j) (tl nxt)) as [r' Hr'].
        { intros j' Hj'. apply Htot. lia. }
        rewrite Hr'. cbn [bind]. destruct (Htot j ltac:(lia)) as [b Hb]. rewrite Hb. cbn [bind].
        eexists; reflexivity.
    Qed.

    Lemma table_rows_log dl : forall cnt i w r w',
      table_rows (plain_world dl) cmp ob nb old_len i cnt w = Ok (r, w') -> p_log w' = p_log w.
    Proof.
      induction cnt as [|cnt IH]; intros i w r w' H; cbn [table_rows] in H.
      - inversion H. reflexivity.
      - destruct (table_rows (plain_world dl) cmp ob nb old_len (S i) cnt w) as [[r0 w0]| |] eqn:E;
          cbn [bind] in H; try discriminate.
        apply IH in E. destruct r0 as [rest|]; [|inversion H; subst; exact E].
        destruct (probe (plain_world dl) w0) as [ex w2] eqn:Ep. apply probe_log in Ep.
        destruct ex; [inversion H; subst; congruence|].
        destruct (table_row cmp ob nb i 0 old_len (hd [] rest)) as [rw| |]; cbn [bind] in H;
          try discriminate.
        inversion H; subst. cbn [tick plain_world p_log]. congruence.
    Qed.

    Lemma table_rows_spec dl : forall cnt i w t w',
      table_rows (plain_world dl) cmp ob nb old_len i cnt w = Ok (Some t, w') ->
      i + cnt = new_len ->
      length t = cnt /\
      forall k j, k < cnt -> j <= old_len -> nth j (nth k t []) 0 = LL j (i + k).
    Proof.
      induction cnt as [|cnt IH]; intros i w t w' H Hi; cbn [table_rows] in H.
      - inversion H; subst. split; [reflexivity|]. intros; lia.
      - destruct (table_rows (plain_world dl) cmp ob nb old_len (S i) cnt w) as [[r0 w0]| |] eqn:E;
          cbn [bind] in H; try discriminate.
        destruct r0 as [rest|]; [|discriminate].
        destruct (probe (plain_world dl) w0) as [ex w2] eqn:Ep.
        destruct ex; [discriminate|].
        destruct (table_row cmp ob nb i 0 old_len (hd [] rest)) as [rw| |] eqn:Er; cbn [bind] in H;
          try discriminate.
        inversion H; subst t w'; clear H.
        destruct (IH (S i) w rest w0 E ltac:(lia)) as [Hlen Hrest].
        destruct (table_row_spec i ltac:(lia) old_len 0 (hd [] rest) rw Er ltac:(lia))
          as [Hlrw Hrw].
        { intros k Hk. destruct rest as [|r1 rest'].
          - cbn [hd]. assert (cnt = 0) by (cbn [length] in Hlen; lia).
            rewrite LL_exit by lia. destruct k; reflexivity.
          - cbn [hd]. specialize (Hrest 0 k). cbn [nth] in Hrest.
            cbn [length] in Hlen. rewrite Hrest by lia. apply LL_ext; lia. }
        split; [cbn [length]; lia|].
        intros k j Hk Hj. destruct k as [|k]; cbn [nth].
        + rewrite Hrw by lia. apply LL_ext; lia.
        + rewrite Hrest by lia. apply LL_ext; lia.
    Qed.

    Lemma table_rows_TH dl w t w' :
      table_rows (plain_world dl) cmp ob nb old_len 0 new_len w = Ok (Some t, w') -> TH t.
    Proof.
      intros H. destruct (table_rows_spec dl new_len 0 w t w' H ltac:(lia)) as [Hlen Hcells].
      intros k j Hk Hj. unfold tget.
      destruct (Nat.eq_dec k new_len) as [->|Hne].
      - rewrite (nth_overflow t) by lia. rewrite LL_exit by lia. destruct j; reflexivity.
      - rewrite Hcells by lia. apply LL_ext; lia.
    Qed.

    Lemma table_rows_None_some : forall cnt i w r w',
      table_rows (plain_world None) cmp ob nb old_len i cnt w = Ok (r, w') ->
      exists t, r = Some t.
    Proof.
      induction cnt as [|cnt IH]; intros i w r w' H; cbn [table_rows] in H.
      - inversion H. eexists; reflexivity.
      - destruct (table_rows (plain_world None) cmp ob nb old_len (S i) cnt w) as [[r0 w0]| |] eqn:E;
          cbn [bind] in H; try discriminate.
        destruct (IH _ _ _ _ E) as [rest ->].
        destruct (probe (plain_world None) w0) as [ex w2] eqn:Ep.
        apply probe_None in Ep. subst ex.
        destruct (table_row cmp ob nb i 0 old_len (hd [] rest)) as [rw| |]; cbn [bind] in H;
          try discriminate.
        inversion H. eexists; reflexivity.
    Qed.

    Lemma table_rows_total dl : forall cnt i w,
      (forall i' j', i <= i' < i + cnt -> j' < old_len -> exists b, cmp (ob + j') (nb + i') = Ok b) ->
      exists r w', table_rows (plain_world dl) cmp ob nb old_len i cnt w = Ok (r, w').
    Proof.
      induction cnt as [|cnt IH]; intros i w Htot; cbn [table_rows].
      - eexists; eexists; reflexivity.
      - destruct (IH (S i) w) as (r0 & w0 & E).
        { intros i' j' Hi' Hj'. apply Htot; lia. }
        rewrite E. cbn [bind]. destruct r0 as [rest|]; [|eexists; eexists; reflexivity].
        destruct (probe (plain_world dl) w0) as [ex w2].
        destruct ex; [eexists; eexists; reflexivity|].
        destruct (table_row_total i old_len 0 (hd [] rest)) as [rw Hrw].
        { intros j' Hj'. apply Htot; lia. }
        rewrite Hrw. cbn [bind]. eexists; eexists; reflexivity.
    Qed.

    (* -------------------------------------------------------------- *)
    (* the walk                                                        *)
    (* -------------------------------------------------------------- *)
    Lemma walk_inv dl t : forall fuel oi ni w oi' ni' w',
      walk (plain_world dl) cmp fuel t ob nb old_len new_len oi ni w = Ok (oi', ni', w') ->
      oi <= old_len -> ni <= new_len ->
      exists cs,
        p_log w' = rev cs ++ p_log w /\ oi' <= old_len /\ ni' <= new_len /\
        (forall oe ne rest,
            RawWalk cmp oe ne (ob + oi') (nb + ni') (ob + oi') rest ->
            RawWalk cmp oe ne (ob + oi) (nb + ni) (ob + oi) (cs ++ rest)) /\
        (TH t -> eqs cs = LL oi ni).
    Proof.
      induction fuel as [|fuel IH]; intros oi ni w oi' ni' w' H Ho Hn; cbn [walk] in H;
        [discriminate|].
      destruct ((ni <? new_len) && (oi <? old_len)) eqn:Ec.
      - apply andb_true_iff in Ec. destruct Ec as [Ec1 Ec2].
        apply Nat.ltb_lt in Ec1. apply Nat.ltb_lt in Ec2.
        destruct (cmp (ob + oi) (nb + ni)) as [b| |] eqn:Ecmp; cbn [bind] in H; try discriminate.
        destruct b.
        + cbn [emit plain_world bind] in H.
          destruct (IH _ _ _ _ _ _ H ltac:(lia) ltac:(lia)) as (cs & Hlog & Ho' & Hn' & Hwalk & Heq).
          exists (CEq (ob + oi) (nb + ni) 1 :: cs). repeat split; try assumption.
          * rewrite Hlog. cbn [p_log rev]. rewrite <- app_assoc. reflexivity.
          * intros oe ne rest Hrest. cbn [app]. apply RW_eq'; try reflexivity; try lia.
            { intros k Hk. assert (k = 0) by lia; subst k. now rewrite !Nat.add_0_r. }
            eapply RawWalk_cast; [| | |apply Hwalk; exact Hrest]; lia.
          * intros Ht. cbn [eqs]. rewrite (Heq Ht). rewrite (LL_step oi ni) by lia.
            rewrite Ecmp. reflexivity.
        + destruct (tget t (S ni) oi <=? tget t ni (S oi)) eqn:Ecmp2;
            cbn [emit plain_world bind] in H.
          * destruct (IH _ _ _ _ _ _ H ltac:(lia) ltac:(lia)) as (cs & Hlog & Ho' & Hn' & Hwalk & Heq).
            exists (CDel (ob + oi) 1 (nb + ni) :: cs). repeat split; try assumption.
            -- rewrite Hlog. cbn [p_log rev]. rewrite <- app_assoc. reflexivity.
            -- intros oe ne rest Hrest. cbn [app]. apply RW_del'; try reflexivity; try lia.
               eapply RawWalk_cast; [| | |apply Hwalk; exact Hrest]; lia.
            -- intros Ht. cbn [eqs]. rewrite (Heq Ht). rewrite (LL_step oi ni) by lia.
               rewrite Ecmp. apply Nat.leb_le in Ecmp2.
               rewrite (Ht (S ni) oi) in Ecmp2 by lia. rewrite (Ht ni (S oi)) in Ecmp2 by lia. lia.
          * destruct (IH _ _ _ _ _ _ H ltac:(lia) ltac:(lia)) as (cs & Hlog & Ho' & Hn' & Hwalk & Heq).
            exists (CIns (ob + oi) (nb + ni) 1 :: cs). repeat split; try assumption.
            -- rewrite Hlog. cbn [p_log rev]. rewrite <- app_assoc. reflexivity.
            -- intros oe ne rest Hrest. cbn [app]. apply RW_ins'; try reflexivity; try lia.
               eapply RawWalk_cast; [| | |apply Hwalk; exact Hrest]; lia.
            -- intros Ht. cbn [eqs]. rewrite (Heq Ht). rewrite (LL_step oi ni) by lia.
               rewrite Ecmp. apply Nat.leb_gt in Ecmp2.
               rewrite (Ht (S ni) oi) in Ecmp2 by lia. rewrite (Ht ni (S oi)) in Ecmp2 by lia. lia.
      - inversion H; subst oi' ni' w'. exists []. repeat split; try assumption.
        + intros oe ne rest Hrest. exact Hrest.
        + intros _. cbn [eqs]. symmetry. apply LL_exit.
          apply andb_false_iff in Ec. destruct Ec as [Ec|Ec]; apply Nat.ltb_ge in Ec; lia.
    Qed.

    Lemma walk_total dl t :
      (forall oi ni, oi < old_len -> ni < new_len -> exists b, cmp (ob + oi) (nb + ni) = Ok b) ->
      forall fuel oi ni w,
        (old_len - oi) + (new_len - ni) < fuel ->
        exists r, walk (plain_world dl) cmp fuel t ob nb old_len new_len oi ni w = Ok r.
    Proof.
      intros Htot. induction fuel as [|fuel IH]; intros oi ni w Hf; [lia|]. cbn [walk].
      destruct ((ni <? new_len) && (oi <? old_len)) eqn:Ec; [|eexists; reflexivity].
      apply andb_true_iff in Ec. destruct Ec as [Ec1 Ec2].
      apply Nat.ltb_lt in Ec1. apply Nat.ltb_lt in Ec2.
      destruct (Htot oi ni Ec2 Ec1) as [b Hb]. rewrite Hb. cbn [bind].
      destruct b; [|destruct (tget t (S ni) oi <=? tget t ni (S oi))];
        cbn [emit plain_world bind]; apply IH; lia.
    Qed.
  End Table.

  (* ---------------------------------------------------------------- *)
  (* the tail                                                          *)
  (* ---------------------------------------------------------------- *)
  Definition tail_calls (os ns p s old_len new_len oi ni : nat) : list call :=
    (if oi <? old_len then [CDel (os + p + oi) (old_len - oi) (ns + p + ni)] else []) ++
    (if ni <? new_len
     then [CIns (os + p + (if oi <? old_len then oi + (old_len - oi) else oi))
                (ns + p + ni) (new_len - ni)]
     else []) ++
    (if 0 <? s then [CEq (os + old_len + p) (ns + new_len + p) s] else []).

  Lemma lcs_tail_log dl os ns p s old_len new_len oi ni w w1 :
    lcs_tail (plain_world dl) os ns p s old_len new_len oi ni w = Ok w1 ->
    p_log w1 = CFin :: rev (tail_calls os ns p s old_len new_len oi ni) ++ p_log w.
  Proof.
    unfold lcs_tail, tail_calls. cbn [emit plain_world bind].
    destruct (oi <? old_len); destruct (ni <? new_len); destruct (0 <? s);
      cbn [bind]; intros H; inversion H; reflexivity.
  Qed.

  Lemma lcs_tail_ok dl os ns p s old_len new_len oi ni w :
    exists w1, lcs_tail (plain_world dl) os ns p s old_len new_len oi ni w = Ok w1.
  Proof.
    unfold lcs_tail. cbn [emit plain_world bind].
    destruct (oi <? old_len); destruct (ni <? new_len); destruct (0 <? s);
      cbn [bind]; eexists; reflexivity.
  Qed.

  Lemma tail_calls_eqs os ns p s old_len new_len oi ni :
    eqs (tail_calls os ns p s old_len new_len oi ni) = s.
  Proof.
    unfold tail_calls.
    destruct (oi <? old_len); destruct (ni <? new_len); destruct (0 <? s) eqn:E;
      cbn [app eqs]; try lia; apply Nat.ltb_ge in E; lia.
  Qed.

  Lemma tail_calls_walk os oe ns ne p s old_len new_len oi ni :
    oi <= old_len -> ni <= new_len ->
    os + p + old_len + s = oe -> ns + p + new_len + s = ne ->
    SegEq cmp (os + old_len + p) (ns + new_len + p) s ->
    RawWalk cmp oe ne (os + p + oi) (ns + p + ni) (os + p + oi)
            (tail_calls os ns p s old_len new_len oi ni).
  Proof.
    intros Ho Hn Hoe Hne Hseg. unfold tail_calls.
    destruct (oi <? old_len) eqn:E1; [apply Nat.ltb_lt in E1|apply Nat.ltb_ge in E1];
    (destruct (ni <? new_len) eqn:E2; [apply Nat.ltb_lt in E2|apply Nat.ltb_ge in E2]);
    (destruct (0 <? s) eqn:E3; [apply Nat.ltb_lt in E3|apply Nat.ltb_ge in E3]);
    cbn [app];
    repeat first [apply RW_nil' | apply RW_eq' | apply RW_del' | apply RW_ins'];
    try lia; try exact Hseg.
  Qed.

  (* ---------------------------------------------------------------- *)
  (* emission after the table                                          *)
  (* ---------------------------------------------------------------- *)
  Lemma walk_or_not_inv dl mt ob nb old_len new_len w oi' ni' w' :
    walk_or_not (plain_world dl) cmp mt ob nb old_len new_len w = Ok (oi', ni', w') ->
    exists cs,
      p_log w' = rev cs ++ p_log w /\ oi' <= old_len /\ ni' <= new_len /\
      (forall oe ne rest,
          RawWalk cmp oe ne (ob + oi') (nb + ni') (ob + oi') rest ->
          RawWalk cmp oe ne ob nb ob (cs ++ rest)) /\
      (forall t, mt = Some t -> TH ob nb old_len new_len t -> eqs cs = LL ob nb old_len new_len 0 0).
  Proof.
    unfold walk_or_not. intros H. destruct mt as [t|].
    - destruct (walk_inv ob nb old_len new_len dl t _ _ _ _ _ _ _ H ltac:(lia) ltac:(lia))
        as (cs & Hlog & Ho' & Hn' & Hwalk & Heq).
      exists cs. repeat split; try assumption.
      + intros oe ne rest Hrest.
        eapply RawWalk_cast; [| | |apply Hwalk; exact Hrest]; lia.
      + intros t' Ht' HTH. inversion Ht'; subst t'. apply Heq. exact HTH.
    - inversion H; subst. exists []. repeat split; try lia.
      + intros oe ne rest Hrest. cbn [app].
        eapply RawWalk_cast; [| | |exact Hrest]; lia.
      + intros t' Ht'. discriminate.
  Qed.

  Lemma lcs_emit_inv dl os oe ns ne p s old_len new_len mt w w1 :
    lcs_emit (plain_world dl) cmp os ns p s old_len new_len mt w = Ok w1 ->
    os + p + old_len + s = oe -> ns + p + new_len + s = ne ->
    SegEq cmp os ns p ->
    SegEq cmp (os + old_len + p) (ns + new_len + p) s ->
    exists body,
      p_log w1 = CFin :: rev body ++ p_log w /\
      RawWalk cmp oe ne os ns os body /\
      (forall t, mt = Some t -> TH (os + p) (ns + p) old_len new_len t ->
                 eqs body = p + LL (os + p) (ns + p) old_len new_len 0 0 + s).
  Proof.
    intros H Hoe Hne Hpre Hsuf. unfold lcs_emit in H.
    set (pre := if 0 <? p then [CEq os ns p] else []).
    assert (HP : exists wP, (if 0 <? p then emit (plain_world dl) (CEq os ns p) w else Ok w) = Ok wP
                            /\ p_log wP = rev pre ++ p_log w).
    { subst pre. destruct (0 <? p); eexists; split; reflexivity. }
    destruct HP as (wP & HeP & HlP). rewrite HeP in H. cbn [bind] in H.
    destruct (walk_or_not (plain_world dl) cmp mt (os + p) (ns + p) old_len new_len wP)
      as [[[oi' ni'] wW]| |] eqn:EW; cbn [bind] in H; try discriminate.
    destruct (walk_or_not_inv _ _ _ _ _ _ _ _ _ _ EW) as (cs & Hlog & Ho' & Hn' & Hwalk & Heq).
    pose proof (lcs_tail_log _ _ _ _ _ _ _ _ _ _ _ H) as Htl.
    exists (pre ++ cs ++ tail_calls os ns p s old_len new_len oi' ni').
    split; [|split].
    - rewrite Htl, Hlog, HlP. rewrite !rev_app_distr. rewrite <- !app_assoc. reflexivity.
    - assert (Hmid : RawWalk cmp oe ne (os + p) (ns + p) (os + p)
                             (cs ++ tail_calls os ns p s old_len new_len oi' ni')).
      { apply Hwalk. apply tail_calls_walk; assumption. }
      subst pre. destruct (0 <? p) eqn:Ep; cbn [app].
      + apply Nat.ltb_lt in Ep. apply RW_eq'; try reflexivity; assumption.
      + apply Nat.ltb_ge in Ep. eapply RawWalk_cast; [| | |exact Hmid]; lia.
    - intros t Ht HTH. rewrite !eqs_app. rewrite (Heq t Ht HTH). rewrite tail_calls_eqs.
      assert (eqs pre = p); [|lia].
      subst pre. destruct (0 <? p) eqn:Ep; cbn [eqs]; [lia|]. apply Nat.ltb_ge in Ep. lia.
  Qed.

  (* ---------------------------------------------------------------- *)
  (* the main branch                                                   *)
  (* ---------------------------------------------------------------- *)
  Lemma lcs_main_inv dl os oe ns ne p s w w1 :
    lcs_main (plain_world dl) cmp os oe ns ne p s w = Ok w1 ->
    os <= oe -> ns <= ne ->
    p <= oe - os -> p <= ne - ns -> SegEq cmp os ns p ->
    s <= oe - (os + p) -> s <= ne - (ns + p) -> SegEq cmp (oe - s) (ne - s) s ->
    exists body,
      p_log w1 = CFin :: rev body ++ p_log w /\
      RawWalk cmp oe ne os ns os body /\
      (dl = None ->
       eqs body = p + L cmp (oe - os - p - s) (os + p) (ne - ns - p - s) (ns + p) + s).
  Proof.
    intros H Ho Hn Hp1 Hp2 Hpre Hs1 Hs2 Hsuf. unfold lcs_main, sub_chk in H.
    destruct (s <=? oe); [|discriminate]. cbn [bind] in H.
    destruct (s <=? ne); [|discriminate]. cbn [bind] in H.
    destruct (make_table (plain_world dl) cmp (os + p) (oe - s) (ns + p) (ne - s) w)
      as [[mt wT]| |] eqn:ET; cbn [bind] in H; try discriminate.
    destruct (p <=? ne - ns); [|discriminate]. cbn [bind] in H.
    destruct (s <=? ne - ns - p); [|discriminate]. cbn [bind] in H.
    destruct (p <=? oe - os); [|discriminate]. cbn [bind] in H.
    destruct (s <=? oe - os - p); [|discriminate]. cbn [bind] in H.
    unfold make_table in ET.
    replace (oe - s - (os + p)) with (oe - os - p - s) in ET by lia.
    replace (ne - s - (ns + p)) with (ne - ns - p - s) in ET by lia.
    destruct (lcs_emit_inv dl os oe ns ne p s _ _ mt wT w1 H) as (body & Hlog & Hwalk & Heq);
      try lia; try assumption.
    { eapply SegEq_ext_idx; [| |exact Hsuf]; lia. }
    exists body. split; [|split].
    - rewrite Hlog. rewrite (table_rows_log _ _ _ _ _ _ _ _ _ ET). reflexivity.
    - exact Hwalk.
    - intros ->. destruct (table_rows_None_some _ _ _ _ _ _ _ _ ET) as [t ->].
      rewrite (Heq t eq_refl (table_rows_TH _ _ _ _ _ _ _ _ ET)).
      unfold LL. rewrite !Nat.sub_0_r, !Nat.add_0_r. reflexivity.
  Qed.

  (* ---------------------------------------------------------------- *)
  (* the whole function                                                *)
  (* ---------------------------------------------------------------- *)
  Lemma lcs_diff_inv dl os oe ns ne w0 w1 :
    os <= oe -> ns <= ne ->
    lcs_diff (plain_world dl) cmp os oe ns ne w0 = Ok w1 ->
    exists body,
      p_log w1 = CFin :: rev body ++ p_log w0 /\
      RawWalk cmp oe ne os ns os body /\
      (dl = None -> eqs body = lcs_len cmp os oe ns ne).
  Proof.
    intros Ho Hn H. rewrite lcs_diff_unfold in H. unfold empty_range in H.
    rewrite lcs_len_L.
    destruct (ne <=? ns) eqn:En.
    { apply Nat.leb_le in En. destruct (oe <=? os) eqn:Eo; cbn [emit plain_world bind] in H.
      - apply Nat.leb_le in Eo. inversion H; subst w1. exists []. cbn [p_log rev app eqs].
        split; [reflexivity|]. split; [apply RW_nil'; lia|]. intros _.
        replace (oe - os) with 0 by lia. reflexivity.
      - apply Nat.leb_gt in Eo. inversion H; subst w1.
        exists [CDel os (oe - os) ns]. cbn [p_log rev app eqs].
        split; [reflexivity|]. split.
        + apply RW_del'; try reflexivity; try lia. apply RW_nil'; lia.
        + intros _. replace (ne - ns) with 0 by lia. now rewrite L_r_0. }
    apply Nat.leb_gt in En.
    destruct (oe <=? os) eqn:Eo.
    { apply Nat.leb_le in Eo. cbn [emit plain_world bind] in H. inversion H; subst w1.
      exists [CIns os ns (ne - ns)]. cbn [p_log rev app eqs].
      split; [reflexivity|]. split.
      - apply RW_ins'; try reflexivity; try lia. apply RW_nil'; lia.
      - intros _. replace (oe - os) with 0 by lia. reflexivity. }
    apply Nat.leb_gt in Eo.
    destruct (common_prefix_len cmp os oe ns ne) as [p| |] eqn:Ep; cbn [bind] in H; try discriminate.
    destruct (common_suffix_len cmp (os + p) oe (ns + p) ne) as [s| |] eqn:Es;
      cbn [bind] in H; try discriminate.
    cbv zeta in H.
    destruct (common_prefix_len_spec cmp _ _ _ _ _ Ep) as (Hp1 & Hp2 & Hpre & _).
    destruct (common_suffix_len_spec cmp _ _ _ _ _ Es) as (Hs1 & Hs2 & Hsuf & _).
    destruct ((p =? oe - os) && (oe - os =? ne - ns)) eqn:Eall.
    { apply andb_true_iff in Eall. destruct Eall as [Ea1 Ea2].
      apply Nat.eqb_eq in Ea1. apply Nat.eqb_eq in Ea2.
      cbn [emit plain_world bind] in H. inversion H; subst w1.
      exists [CEq os ns (oe - os)]. cbn [p_log rev app eqs tick plain_world].
      split; [reflexivity|]. split.
      - apply RW_eq'; try reflexivity; try lia; [now rewrite <- Ea1|]. apply RW_nil'; lia.
      - intros _. rewrite (L_prefix cmp p) by (try assumption; lia).
        replace (oe - os - p) with 0 by lia. rewrite L_0_l. lia. }
    destruct (lcs_main_inv dl os oe ns ne p s _ w1 H) as (body & Hlog & Hwalk & Heq);
      try assumption.
    exists body. split; [|split].
    - rewrite Hlog. rewrite !tick_log. reflexivity.
    - exact Hwalk.
    - intros Hdl. rewrite (Heq Hdl).
      rewrite (L_prefix cmp p (oe - os) os (ne - ns) ns) by assumption.
      (* suffix: both sides are the LCS length of the range after the prefix *)
      enough (Hk : L cmp (oe - os - p - s) (os + p) (ne - ns - p - s) (ns + p) + s
                   = L cmp (oe - os - p) (os + p) (ne - ns - p) (ns + p)) by lia.
      apply (IsLcsLen_unique cmp (os + p) oe (ns + p) ne).
      + pose proof (IsLcsLen_suffix cmp (os + p) (ns + p) s
                      (os + p + (oe - os - p - s)) (ns + p + (ne - ns - p - s)) _
                      (L_IsLcsLen cmp (oe - os - p - s) (os + p) (ne - ns - p - s) (ns + p))
                      ltac:(lia) ltac:(lia)) as Hsfx.
        replace (os + p + (oe - os - p - s) + s) with oe in Hsfx by lia.
        replace (ns + p + (ne - ns - p - s) + s) with ne in Hsfx by lia.
        apply Hsfx. eapply SegEq_ext_idx; [| |exact Hsuf]; lia.
      + pose proof (L_IsLcsLen cmp (oe - os - p) (os + p) (ne - ns - p) (ns + p)) as HL.
        replace (os + p + (oe - os - p)) with oe in HL by lia.
        replace (ns + p + (ne - ns - p)) with ne in HL by lia. exact HL.
  Qed.

  (* ================================================================ *)
  (* Theorems                                                          *)
  (* ================================================================ *)
  Theorem lcs_valid dl os oe ns ne w0 w1 :
    os <= oe -> ns <= ne ->
    lcs_diff (plain_world dl) cmp os oe ns ne w0 = Ok w1 ->
    exists cs, plain_calls w1 = plain_calls w0 ++ cs /\ RawStrong cmp os oe ns ne cs.
  Proof.
    intros Ho Hn H. destruct (lcs_diff_inv dl os oe ns ne w0 w1 Ho Hn H) as (body & Hlog & Hwalk & _).
    exists (body ++ [CFin]). split.
    - unfold plain_calls. rewrite Hlog. cbn [rev]. rewrite rev_app_distr, rev_involutive.
      rewrite app_assoc. reflexivity.
    - exists body. split; [reflexivity|exact Hwalk].
  Qed.

  Theorem lcs_no_panic dl os oe ns ne w0 :
    os <= oe -> ns <= ne ->
    (forall i j, os <= i < oe -> ns <= j < ne -> exists b, cmp i j = Ok b) ->
    exists w1, lcs_diff (plain_world dl) cmp os oe ns ne w0 = Ok w1.
  Proof.
    intros Ho Hn Htot. rewrite lcs_diff_unfold.
    destruct (empty_range ns ne).
    { destruct (empty_range os oe); cbn [emit plain_world bind]; eexists; reflexivity. }
    destruct (empty_range os oe).
    { cbn [emit plain_world bind]; eexists; reflexivity. }
    destruct (common_prefix_len_total cmp os oe ns ne Htot) as [p Ep]. rewrite Ep. cbn [bind].
    destruct (common_prefix_len_spec cmp _ _ _ _ _ Ep) as (Hp1 & Hp2 & _ & _).
    destruct (common_suffix_len_total cmp (os + p) oe (ns + p) ne) as [s Es].
    { intros i j Hi Hj. apply Htot; lia. }
    rewrite Es. cbn [bind]. cbv zeta.
    destruct (common_suffix_len_spec cmp _ _ _ _ _ Es) as (Hs1 & Hs2 & _ & _).
    destruct ((p =? oe - os) && (oe - os =? ne - ns)).
    { cbn [emit plain_world bind]; eexists; reflexivity. }
    unfold lcs_main, sub_chk.
    replace (s <=? oe) with true by (symmetry; apply Nat.leb_le; lia). cbn [bind].
    replace (s <=? ne) with true by (symmetry; apply Nat.leb_le; lia). cbn [bind].
    unfold make_table.
    match goal with |- context [table_rows ?wd cmp ?a ?b ?c ?d ?e ?w] =>
      destruct (table_rows_total a b c dl e d w) as (mt & wT & ET) end.
    { intros i' j' Hi' Hj'. apply Htot; lia. }
    rewrite ET. cbn [bind].
    replace (p <=? ne - ns) with true by (symmetry; apply Nat.leb_le; lia). cbn [bind].
    replace (s <=? ne - ns - p) with true by (symmetry; apply Nat.leb_le; lia). cbn [bind].
    replace (p <=? oe - os) with true by (symmetry; apply Nat.leb_le; lia). cbn [bind].
    replace (s <=? oe - os - p) with true by (symmetry; apply Nat.leb_le; lia). cbn [bind].
    unfold lcs_emit.
    assert (HP : exists wP, (if 0 <? p then emit (plain_world dl) (CEq os ns p) wT else Ok wT) = Ok wP).
    { destruct (0 <? p); eexists; reflexivity. }
    destruct HP as [wP HeP]. rewrite HeP. cbn [bind].
    assert (HW : exists r, walk_or_not (plain_world dl) cmp mt (os + p) (ns + p)
                             (oe - os - p - s) (ne - ns - p - s) wP = Ok r).
    { unfold walk_or_not. destruct mt as [t|]; [|eexists; reflexivity].
      apply walk_total; [|lia]. intros oi ni Hoi Hni. apply Htot; lia. }
    destruct HW as [[[oi' ni'] wW] EW]. rewrite EW. cbn [bind].
    apply lcs_tail_ok.
  Qed.

  (* Minimality without deadline.  No totality hypothesis is needed (the run
     succeeded, so every comparison made was in bounds) and NO condition on
     [cmp] (equivalence / rectangle) is needed either. *)
  Theorem lcs_minimal os oe ns ne w0 w1 cs :
    os <= oe -> ns <= ne ->
    lcs_diff (plain_world None) cmp os oe ns ne w0 = Ok w1 ->
    plain_calls w1 = plain_calls w0 ++ cs ->
    deleted (capture_calls cs) + inserted (capture_calls cs) + 2 * lcs_len cmp os oe ns ne
    = (oe - os) + (ne - ns).
  Proof.
    intros Ho Hn H Hcs.
    destruct (lcs_diff_inv None os oe ns ne w0 w1 Ho Hn H) as (body & Hlog & Hwalk & Heq).
    assert (Hcs' : cs = body ++ [CFin]).
    { unfold plain_calls in Hcs. rewrite Hlog in Hcs. cbn [rev] in Hcs.
      rewrite rev_app_distr, rev_involutive, <- app_assoc in Hcs.
      apply app_inv_head in Hcs. symmetry. exact Hcs. }
    subst cs. rewrite capture_calls_fin, deleted_capture, inserted_capture.
    rewrite <- (Heq eq_refl).
    destruct (RawWalk_sums _ _ _ _ _ _ Hwalk) as [Hs1 Hs2]. lia.
  Qed.

  (* the packaged form: total cmp, no deadline *)
  Corollary lcs_total_minimal os oe ns ne w0 :
    os <= oe -> ns <= ne ->
    (forall i j, os <= i < oe -> ns <= j < ne -> exists b, cmp i j = Ok b) ->
    exists w1 cs,
      lcs_diff (plain_world None) cmp os oe ns ne w0 = Ok w1 /\
      plain_calls w1 = plain_calls w0 ++ cs /\
      RawStrong cmp os oe ns ne cs /\
      deleted (capture_calls cs) + inserted (capture_calls cs) + 2 * lcs_len cmp os oe ns ne
      = (oe - os) + (ne - ns).
  Proof.
    intros Ho Hn Htot.
    destruct (lcs_no_panic None os oe ns ne w0 Ho Hn Htot) as [w1 H].
    destruct (lcs_valid None os oe ns ne w0 w1 Ho Hn H) as (cs & Hcs & Hstrong).
    exists w1, cs. repeat split; try assumption.
    eapply lcs_minimal; eassumption.
  Qed.
End LcsProofs.

Print Assumptions lcs_valid.
Print Assumptions lcs_no_panic.
Print Assumptions lcs_minimal.
Print Assumptions lcs_total_minimal.
