(* Proofs/Unique.v — correctness of [unique] (src/algorithms/utils.rs):
   the indices of [s,e) whose item occurs exactly once in [s,e), ascending.

   - [count_eq_spec]     count_eq counts the j in [s,s+len) with same i j = Ok true
   - [unique_spec]       Ok result: strictly ascending, inside [s,e), membership
                         <-> count = 1  (NO totality premise is needed for this)
   - [unique_total]      [same] total on [s,e)  ->  unique returns Ok
   - [unique_err]        a non-Ok result of unique is a non-Ok answer of [same]
                         on the range: never OutOfFuel of its own, Panic only if
                         [same] panics
   - [unique_once] / [unique_cmp_same]  reading "count = 1" as "occurs exactly
                         once" for a reflexive [same] / for cmp_same eqb lk. *)
From Coq Require Import Sorted.
From Similar Require Import Model.Base Model.Utils.

Local Open Scope nat_scope.

(* [same] never fails on [s,e) *)
Definition SameTotal (same : cmpf) (s e : nat) : Prop :=
  forall i j, s <= i < e -> s <= j < e -> exists b, same i j = Ok b.

(* r is a failure and r' is the same failure *)
Definition same_err {A B} (r : res A) (r' : res B) : Prop :=
  match r, r' with
  | Panic, Panic => True
  | OutOfFuel, OutOfFuel => True
  | _, _ => False
  end.

(* strictly ascending, in the form the Patience proofs use *)
Definition Asc (l : list nat) : Prop :=
  forall a b x y, a < b -> nth_error l a = Some x -> nth_error l b = Some y -> x < y.

Lemma StronglySorted_Asc l : StronglySorted lt l -> Asc l.
Proof.
  intros H. induction H as [|x l Hs IH Hall]; intros a b u v Hab Ha Hb.
  - destruct a; discriminate.
  - destruct b as [|b]; [lia|]. cbn [nth_error] in Hb.
    destruct a as [|a]; cbn [nth_error] in Ha.
    + inversion Ha; subst u. rewrite Forall_forall in Hall. apply Hall.
      eapply nth_error_In. exact Hb.
    + apply (IH a b u v); [lia|exact Ha|exact Hb].
Qed.

Section Unique.
  Variable same : cmpf.

  (* j is a hit for i: same i j answered true *)
  Definition hit (i j : nat) : bool :=
    match same i j with Ok true => true | _ => false end.

  Definition count_hits (i s len : nat) : nat := length (filter (hit i) (seq s len)).

  (* ------------------------------------------------------------ count_eq *)
  Lemma count_eq_spec i : forall len s c,
    count_eq same i s len = Ok c -> c = count_hits i s len.
  Proof.
    unfold count_hits.
    induction len as [|len IH]; intros s c H; cbn [count_eq] in H.
    - inversion H. reflexivity.
    - destruct (same i s) as [b| |] eqn:E; cbn [bind] in H; try discriminate.
      destruct (count_eq same i (S s) len) as [n| |] eqn:En; cbn [bind] in H; try discriminate.
      inversion H; subst c. cbn [seq filter]. unfold hit at 1. rewrite E.
      rewrite (IH _ _ En). destruct b; reflexivity.
  Qed.

  Lemma count_eq_total i : forall len s,
    (forall j, s <= j < s + len -> exists b, same i j = Ok b) ->
    exists c, count_eq same i s len = Ok c.
  Proof.
    induction len as [|len IH]; intros s Htot; cbn [count_eq].
    - now exists 0.
    - destruct (Htot s ltac:(lia)) as [b Hb]. rewrite Hb. cbn [bind].
      destruct (IH (S s)) as [n Hn].
      + intros j Hj. apply Htot. lia.
      + rewrite Hn. cbn [bind]. eauto.
  Qed.

  Lemma count_eq_err i : forall len s r,
    count_eq same i s len = r -> (forall c, r <> Ok c) ->
    exists j, s <= j < s + len /\ same_err (same i j) r.
  Proof.
    induction len as [|len IH]; intros s r H Hr; cbn [count_eq] in H.
    - exfalso. apply (Hr 0). now rewrite <- H.
    - destruct (same i s) as [b| |] eqn:E; cbn [bind] in H.
      + destruct (count_eq same i (S s) len) as [n| |] eqn:En; cbn [bind] in H.
        * exfalso. eapply Hr. rewrite <- H. reflexivity.
        * destruct (IH (S s) Panic En ltac:(discriminate)) as (j & Hj & He).
          exists j. split; [lia|]. now rewrite <- H.
        * destruct (IH (S s) OutOfFuel En ltac:(discriminate)) as (j & Hj & He).
          exists j. split; [lia|]. now rewrite <- H.
      + exists s. split; [lia|]. rewrite E, <- H. exact Logic.I.
      + exists s. split; [lia|]. rewrite E, <- H. exact Logic.I.
  Qed.

  (* ---------------------------------------------------------- unique_from *)
  Lemma unique_from_spec s e : forall len i l,
    unique_from same s e i len = Ok l ->
    StronglySorted lt l /\
    (forall x, In x l <-> i <= x < i + len /\ count_eq same x s (e - s) = Ok 1).
  Proof.
    induction len as [|len IH]; intros i l H; cbn [unique_from] in H.
    - inversion H; subst l. split; [constructor|].
      intros x. split; [intros []|intros [Hx _]; lia].
    - destruct (count_eq same i s (e - s)) as [c| |] eqn:Ec; cbn [bind] in H; try discriminate.
      destruct (unique_from same s e (S i) len) as [rest| |] eqn:Er; cbn [bind] in H;
        try discriminate.
      destruct (IH _ _ Er) as (Hsort & Hin).
      inversion H; subst l. clear H.
      destruct (c =? 1) eqn:E1.
      + apply Nat.eqb_eq in E1. subst c. split.
        * constructor; [exact Hsort|]. apply Forall_forall. intros x Hx.
          apply Hin in Hx. lia.
        * intros x. cbn [In]. split.
          -- intros [Hx|Hx]; [subst x; split; [lia|exact Ec]|].
             apply Hin in Hx. destruct Hx as [Hr Hc]. split; [lia|exact Hc].
          -- intros [Hr Hc]. destruct (Nat.eq_dec x i) as [Hxi|Hxi]; [now left|].
             right. apply Hin. split; [lia|exact Hc].
      + apply Nat.eqb_neq in E1. split; [exact Hsort|].
        intros x. split.
        * intros Hx. apply Hin in Hx. destruct Hx as [Hr Hc]. split; [lia|exact Hc].
        * intros [Hr Hc]. apply Hin. split; [|exact Hc].
          destruct (Nat.eq_dec x i) as [Hxi|Hxi]; [|lia].
          subst x. rewrite Ec in Hc. inversion Hc. lia.
  Qed.

  Lemma unique_from_total s e : forall len i,
    s <= i -> i + len <= e -> SameTotal same s e ->
    exists l, unique_from same s e i len = Ok l.
  Proof.
    induction len as [|len IH]; intros i Hs He Htot; cbn [unique_from].
    - now exists [].
    - destruct (count_eq_total i (e - s) s) as [c Hc].
      { intros j Hj. apply Htot; lia. }
      rewrite Hc. cbn [bind].
      destruct (IH (S i)) as [rest Hrest]; [lia|lia|exact Htot|].
      rewrite Hrest. cbn [bind]. eauto.
  Qed.

  Lemma unique_from_err s e : forall len i r,
    s <= i -> i + len <= e ->
    unique_from same s e i len = r -> (forall l, r <> Ok l) ->
    exists x j, s <= x < e /\ s <= j < e /\ same_err (same x j) r.
  Proof.
    induction len as [|len IH]; intros i r Hs He H Hr; cbn [unique_from] in H.
    - exfalso. apply (Hr []). now rewrite <- H.
    - destruct (count_eq same i s (e - s)) as [c| |] eqn:Ec; cbn [bind] in H.
      + destruct (unique_from same s e (S i) len) as [rest| |] eqn:Er; cbn [bind] in H.
        * exfalso. eapply Hr. rewrite <- H. reflexivity.
        * destruct (IH (S i) Panic ltac:(lia) ltac:(lia) Er ltac:(discriminate))
            as (x & j & Hx & Hj & Herr).
          exists x, j. rewrite <- H. auto.
        * destruct (IH (S i) OutOfFuel ltac:(lia) ltac:(lia) Er ltac:(discriminate))
            as (x & j & Hx & Hj & Herr).
          exists x, j. rewrite <- H. auto.
      + destruct (count_eq_err i (e - s) s Panic Ec ltac:(discriminate)) as (j & Hj & Herr).
        exists i, j. rewrite <- H. repeat split; try lia. exact Herr.
      + destruct (count_eq_err i (e - s) s OutOfFuel Ec ltac:(discriminate)) as (j & Hj & Herr).
        exists i, j. rewrite <- H. repeat split; try lia. exact Herr.
  Qed.

  (* --------------------------------------------------------------- unique *)
  (* PART 1, main statement.  No totality premise: an Ok result already means
     every comparison made was Ok. *)
  Theorem unique_spec s e l :
    unique same s e = Ok l ->
    StronglySorted lt l /\
    (forall i, In i l -> s <= i < e) /\
    (forall i, In i l <-> s <= i < e /\ count_eq same i s (e - s) = Ok 1).
  Proof.
    unfold unique. intros H. destruct (unique_from_spec s e _ _ _ H) as (Hsort & Hin).
    split; [exact Hsort|]. split.
    - intros i Hi. apply Hin in Hi. lia.
    - intros i. rewrite Hin. split; intros [Hr Hc]; (split; [lia|exact Hc]).
  Qed.

  (* the same, with the count spelled out *)
  Corollary unique_spec_hits s e l :
    unique same s e = Ok l -> SameTotal same s e ->
    forall i, In i l <-> s <= i < e /\ count_hits i s (e - s) = 1.
  Proof.
    intros H Htot i. destruct (unique_spec s e l H) as (_ & _ & Hin). rewrite Hin.
    split; intros [Hr Hc]; (split; [exact Hr|]).
    - symmetry. exact (count_eq_spec i _ _ _ Hc).
    - destruct (count_eq_total i (e - s) s) as [c Hc'].
      { intros j Hj. apply Htot; lia. }
      rewrite Hc'. f_equal. rewrite (count_eq_spec i _ _ _ Hc'). exact Hc.
  Qed.

  Corollary unique_asc s e l :
    unique same s e = Ok l ->
    Asc l /\ (forall a x, nth_error l a = Some x -> s <= x < e).
  Proof.
    intros H. destruct (unique_spec s e l H) as (Hsort & Hrange & _). split.
    - now apply StronglySorted_Asc.
    - intros a x Ha. apply Hrange. eapply nth_error_In. exact Ha.
  Qed.

  Theorem unique_total s e :
    SameTotal same s e -> exists l, unique same s e = Ok l.
  Proof.
    intros Htot. unfold unique.
    destruct (le_lt_dec s e) as [Hle|Hlt].
    - apply unique_from_total; [lia|lia|exact Htot].
    - replace (e - s) with 0 by lia. cbn [unique_from]. now exists [].
  Qed.

  (* a failure of unique is a failure of [same] on the range *)
  Theorem unique_err s e r :
    unique same s e = r -> (forall l, r <> Ok l) ->
    exists i j, s <= i < e /\ s <= j < e /\ same_err (same i j) r.
  Proof.
    unfold unique. intros H Hr.
    destruct (le_lt_dec s e) as [Hle|Hlt].
    - eapply unique_from_err; [| |exact H|exact Hr]; lia.
    - exfalso. replace (e - s) with 0 in H by lia. cbn [unique_from] in H.
      apply (Hr []). now rewrite <- H.
  Qed.

  Corollary unique_panic s e :
    unique same s e = Panic ->
    exists i j, s <= i < e /\ s <= j < e /\ same i j = Panic.
  Proof.
    intros H. destruct (unique_err s e Panic H ltac:(discriminate)) as (i & j & Hi & Hj & He).
    exists i, j. repeat split; try lia.
    destruct (same i j); cbn in He; try contradiction. reflexivity.
  Qed.

  Corollary unique_out_of_fuel s e :
    unique same s e = OutOfFuel ->
    exists i j, s <= i < e /\ s <= j < e /\ same i j = OutOfFuel.
  Proof.
    intros H. destruct (unique_err s e OutOfFuel H ltac:(discriminate)) as (i & j & Hi & Hj & He).
    exists i, j. repeat split; try lia.
    destruct (same i j); cbn in He; try contradiction. reflexivity.
  Qed.

  (* unique has no fuel of its own *)
  Corollary unique_never_out_of_fuel s e :
    (forall i j, s <= i < e -> s <= j < e -> same i j <> OutOfFuel) ->
    unique same s e <> OutOfFuel.
  Proof.
    intros Hno H. destruct (unique_out_of_fuel s e H) as (i & j & Hi & Hj & He).
    exact (Hno i j Hi Hj He).
  Qed.

  (* ------------------------------------------ "count = 1" = "exactly once" *)
  Lemma one_elt_iff (l : list nat) i :
    NoDup l -> In i l -> (length l = 1 <-> forall j, In j l -> j = i).
  Proof.
    intros Hnd Hi. split.
    - intros Hlen j Hj. destruct l as [|x [|y l]]; cbn [length] in Hlen; try lia.
      destruct Hi as [Hi|[]]. destruct Hj as [Hj|[]]. congruence.
    - intros Hall. destruct l as [|x l]; [destruct Hi|].
      destruct l as [|y l]; [reflexivity|]. exfalso.
      assert (x = i) by (apply Hall; now left).
      assert (y = i) by (apply Hall; right; now left).
      subst x y. inversion Hnd as [|? ? Hnot _]. apply Hnot. now left.
  Qed.

  (* for a reflexive [same]: the count is 1 iff i is the only hit *)
  Lemma count_hits_one i s e :
    s <= i < e -> same i i = Ok true ->
    (count_hits i s (e - s) = 1 <->
     forall j, s <= j < e -> same i j = Ok true -> j = i).
  Proof.
    intros Hi Hrefl. unfold count_hits.
    assert (Hmem : forall j, In j (filter (hit i) (seq s (e - s))) <->
                             s <= j < e /\ same i j = Ok true).
    { intros j. rewrite filter_In, in_seq. unfold hit. split.
      - intros [Hr Hh]. split; [lia|]. destruct (same i j) as [[|]| |]; try discriminate.
        reflexivity.
      - intros [Hr Hh]. split; [lia|]. now rewrite Hh. }
    rewrite (one_elt_iff _ i).
    - split.
      + intros H j Hj Hs. apply H. apply Hmem. auto.
      + intros H j Hj. apply Hmem in Hj. destruct Hj as [Hj Hs]. now apply H.
    - apply NoDup_filter. apply seq_NoDup.
    - apply Hmem. auto.
  Qed.

  Corollary unique_once s e l :
    unique same s e = Ok l -> SameTotal same s e ->
    (forall i, s <= i < e -> same i i = Ok true) ->
    forall i, In i l <->
              s <= i < e /\ forall j, s <= j < e -> same i j = Ok true -> j = i.
  Proof.
    intros H Htot Hrefl i. rewrite (unique_spec_hits s e l H Htot). split.
    - intros [Hr Hc]. split; [exact Hr|]. apply count_hits_one; auto.
    - intros [Hr Hc]. split; [exact Hr|]. apply count_hits_one; auto.
  Qed.
End Unique.

(* the equality induced by an item equality [eqb] through a lookup *)
Lemma SameTotal_cmp_same {A} (eqb : A -> A -> bool) (lk : lookup A) s e :
  (forall i, s <= i < e -> exists x, lk i = Some x) ->
  SameTotal (cmp_same eqb lk) s e.
Proof.
  intros Hlk i j Hi Hj. unfold cmp_same.
  destruct (Hlk i Hi) as [x Hx]. destruct (Hlk j Hj) as [y Hy]. rewrite Hx, Hy. eauto.
Qed.

(* i is in the result iff lk i occurs exactly once among lk s .. lk (e-1) *)
Theorem unique_cmp_same {A} (eqb : A -> A -> bool) (lk : lookup A) s e l :
  (forall x, eqb x x = true) ->
  (forall i, s <= i < e -> exists x, lk i = Some x) ->
  unique (cmp_same eqb lk) s e = Ok l ->
  forall i, In i l <->
            s <= i < e /\
            forall j x y, s <= j < e -> lk i = Some x -> lk j = Some y ->
                          eqb x y = true -> j = i.
Proof.
  intros Hrefl Hlk H i.
  rewrite (unique_once _ s e l H (SameTotal_cmp_same eqb lk s e Hlk)).
  - split; intros [Hr Hc]; (split; [exact Hr|]).
    + intros j x y Hj Hx Hy He. apply Hc; [exact Hj|].
      unfold cmp_same. rewrite Hx, Hy, He. reflexivity.
    + intros j Hj Hs. destruct (Hlk i Hr) as [x Hx]. destruct (Hlk j Hj) as [y Hy].
      apply (Hc j x y Hj Hx Hy). unfold cmp_same in Hs. rewrite Hx, Hy in Hs.
      now inversion Hs.
  - intros k Hk. unfold cmp_same. destruct (Hlk k Hk) as [x Hx]. rewrite Hx, Hrefl.
    reflexivity.
Qed.

Print Assumptions unique_spec.
Print Assumptions unique_spec_hits.
Print Assumptions unique_asc.
Print Assumptions unique_total.
Print Assumptions unique_err.
Print Assumptions unique_never_out_of_fuel.
Print Assumptions unique_once.
Print Assumptions unique_cmp_same.
