(* Proofs/LcsLen.v — the executable optimum [lcs_len] (Check/Script.v) is the
   length of a longest common subsequence in the sense of Spec/Script.v
   ([IsLcsLen]), for an ARBITRARY comparison oracle [cmp] (no totality, no
   equivalence assumed: a comparison that is not [Ok true] counts as "not
   equal" both in [lcs_len] and in [CommonSub]).

   Also: the recurrence [L] with its unfolding equations, stripping of a common
   prefix / suffix, and the cost lower bound for valid op lists. *)
From Similar Require Import Model.Base Spec.Script Check.Script.

Section LcsLen.
  Variable cmp : cmpf.

  (* ------------------------------------------------------------------ *)
  (* The recurrence.  [L cnt i len j] = LCS length of old[i..i+cnt) and
     new[j..j+len). *)
  Fixpoint L (cnt i : nat) {struct cnt} : nat -> nat -> nat :=
    match cnt with
    | 0 => fun _ _ => 0
    | S cnt' =>
        fix inner (len j : nat) {struct len} : nat :=
          match len with
          | 0 => 0
          | S len' =>
              match cmp i j with
              | Ok true => S (L cnt' (S i) len' (S j))
              | _ => Nat.max (L cnt' (S i) (S len') j) (inner len' (S j))
              end
          end
    end.

  Lemma L_0_l i len j : L 0 i len j = 0.
  Proof. reflexivity. Qed.

  Lemma L_r_0 cnt i j : L cnt i 0 j = 0.
  Proof. destruct cnt; reflexivity. Qed.

  Lemma L_S_S cnt i len j :
    L (S cnt) i (S len) j =
    match cmp i j with
    | Ok true => S (L cnt (S i) len (S j))
    | _ => Nat.max (L cnt (S i) (S len) j) (L (S cnt) i len (S j))
    end.
  Proof. reflexivity. Qed.

  (* ------------------------------------------------------------------ *)
  (* lcs_rows computes the rows of L *)
  Fixpoint Lrow (cnt i len j : nat) {struct len} : list nat :=
    match len with
    | 0 => [0]
    | S len' => L cnt i (S len') j :: Lrow cnt i len' (S j)
    end.

  Lemma hd_Lrow cnt i len j : hd 0 (Lrow cnt i len j) = L cnt i len j.
  Proof.
    destruct len as [|len]; cbn [Lrow hd]; [symmetry; apply L_r_0|reflexivity].
  Qed.

  Lemma lcs_row_L cnt i : forall len j,
    lcs_row cmp i j len (Lrow cnt (S i) len j) = Lrow (S cnt) i len j.
  Proof.
    induction len as [|len IH]; intros j.
    - reflexivity.
    - cbn [lcs_row Lrow tl]. rewrite IH. rewrite !hd_Lrow. cbn [hd].
      rewrite (L_S_S cnt i len j). reflexivity.
  Qed.

  Lemma repeat_Lrow i : forall len j, repeat 0 (S len) = Lrow 0 i len j.
  Proof.
    induction len as [|len IH]; intros j.
    - reflexivity.
    - cbn [Lrow]. rewrite <- IH. reflexivity.
  Qed.

  Lemma lcs_rows_L ns nlen : forall cnt i,
    lcs_rows cmp i cnt ns nlen = Lrow cnt i nlen ns.
  Proof.
    induction cnt as [|cnt IH]; intros i; cbn [lcs_rows].
    - apply repeat_Lrow.
    - rewrite IH. apply lcs_row_L.
  Qed.

  Lemma lcs_len_L os oe ns ne :
    lcs_len cmp os oe ns ne = L (oe - os) os (ne - ns) ns.
  Proof. unfold lcs_len. rewrite lcs_rows_L. apply hd_Lrow. Qed.

  (* ------------------------------------------------------------------ *)
  (* CommonSub bookkeeping *)
  Lemma CommonSub_lower oe ne os ns m :
    CommonSub cmp oe ne os ns m ->
    forall os' ns', os' <= os -> ns' <= ns -> CommonSub cmp oe ne os' ns' m.
  Proof.
    intros H os' ns' Ho Hn. destruct H as [os ns|os ns i j m H1 H2 H3 H4 H5 H6].
    - constructor.
    - constructor; try lia; assumption.
  Qed.

  Lemma CommonSub_upper oe ne os ns m :
    CommonSub cmp oe ne os ns m ->
    forall oe' ne', oe <= oe' -> ne <= ne' -> CommonSub cmp oe' ne' os ns m.
  Proof.
    intros H oe' ne' Ho Hn.
    induction H as [os ns|os ns i j m H1 H2 H3 H4 H5 H6 IH].
    - constructor.
    - constructor; try lia; assumption.
  Qed.

  Lemma CommonSub_empty oe ne os ns m :
    CommonSub cmp oe ne os ns m -> oe <= os \/ ne <= ns -> m = [].
  Proof.
    intros H Hor. destruct H as [os ns|os ns i j m H1 H2 H3 H4 H5 H6].
    - reflexivity.
    - exfalso; lia.
  Qed.

  Lemma CommonSub_snoc oe ne os ns m :
    CommonSub cmp oe ne os ns m -> os <= oe -> ns <= ne -> cmp oe ne = Ok true ->
    CommonSub cmp (S oe) (S ne) os ns (m ++ [(oe, ne)]).
  Proof.
    intros H. induction H as [os ns|os ns i j m H1 H2 H3 H4 H5 H6 IH]; intros Ho Hn Hc.
    - cbn [app]. constructor; try lia; [assumption|constructor].
    - cbn [app]. constructor; try lia; [assumption|]. apply IH; try lia; assumption.
  Qed.

  Lemma CommonSub_unsnoc oe ne os ns m :
    CommonSub cmp (S oe) (S ne) os ns m ->
    exists m', CommonSub cmp oe ne os ns m' /\ length m <= S (length m').
  Proof.
    remember (S oe) as oe1 eqn:Eo. remember (S ne) as ne1 eqn:En.
    intros H. induction H as [os ns|os ns i j m H1 H2 H3 H4 H5 H6 IH].
    - exists []. split; [constructor|cbn [length]; lia].
    - destruct IH as (m'' & Hm'' & Hlen).
      destruct (Nat.eq_dec i oe) as [Hi|Hi].
      + assert (Hnil : m = []) by (eapply CommonSub_empty; [exact H6|left; lia]).
        subst m. exists []. split; [constructor|cbn [length]; lia].
      + destruct (Nat.eq_dec j ne) as [Hj|Hj].
        * assert (Hnil : m = []) by (eapply CommonSub_empty; [exact H6|right; lia]).
          subst m. exists []. split; [constructor|cbn [length]; lia].
        * exists ((i, j) :: m''). split; [|cbn [length]; lia].
          constructor; try lia; assumption.
  Qed.

  (* ------------------------------------------------------------------ *)
  (* L is the maximum CommonSub length *)
  Lemma L_upper : forall cnt i len j oe ne m,
    CommonSub cmp oe ne i j m -> oe <= i + cnt -> ne <= j + len ->
    length m <= L cnt i len j.
  Proof.
    induction cnt as [|cnt IHc]; intros i; [intros len|induction len as [|len IHl]];
      intros j oe ne m Hm Ho Hn.
    - rewrite (CommonSub_empty _ _ _ _ _ Hm) by (left; lia). cbn [length]. lia.
    - rewrite (CommonSub_empty _ _ _ _ _ Hm) by (right; lia). cbn [length]. lia.
    - rewrite L_S_S.
      destruct Hm as [i j|i j a b m H1 H2 H3 H4 H5 H6]; [cbn [length]; lia|].
      assert (Hrest : length m <= L cnt (S i) len (S j)).
      { apply (IHc (S i) len (S j) oe ne); [|lia|lia].
        eapply CommonSub_lower; [exact H6|lia|lia]. }
      assert (Hne : cmp i j <> Ok true ->
                    length ((a, b) :: m) <=
                    Nat.max (L cnt (S i) (S len) j) (L (S cnt) i len (S j))).
      { intros Hc. destruct (Nat.eq_dec a i) as [Ha|Ha].
        - assert (Hb : j < b).
          { destruct (Nat.eq_dec b j) as [Hb|Hb]; [|lia]. subst a b. contradiction. }
          assert (Hle : length ((a, b) :: m) <= L (S cnt) i len (S j)).
          { apply (IHl (S j) oe ne); [|lia|lia]. constructor; try lia; assumption. }
          lia.
        - assert (Hle : length ((a, b) :: m) <= L cnt (S i) (S len) j).
          { apply (IHc (S i) (S len) j oe ne); [|lia|lia]. constructor; try lia; assumption. }
          lia. }
      destruct (cmp i j) as [[|]| |] eqn:E.
      + cbn [length]. lia.
      + apply Hne. discriminate.
      + apply Hne. discriminate.
      + apply Hne. discriminate.
  Qed.

  Lemma L_achieve : forall cnt i len j oe ne,
    i + cnt <= oe -> j + len <= ne ->
    exists m, CommonSub cmp oe ne i j m /\ length m = L cnt i len j.
  Proof.
    induction cnt as [|cnt IHc]; intros i; [intros len|induction len as [|len IHl]];
      intros j oe ne Ho Hn.
    - exists []. split; [constructor|reflexivity].
    - exists []. split; [constructor|reflexivity].
    - rewrite L_S_S.
      assert (Hmax : exists m, CommonSub cmp oe ne i j m /\
                     length m = Nat.max (L cnt (S i) (S len) j) (L (S cnt) i len (S j))).
      { destruct (Nat.max_spec (L cnt (S i) (S len) j) (L (S cnt) i len (S j)))
          as [[_ Hmx]|[_ Hmx]]; rewrite Hmx.
        - destruct (IHl (S j) oe ne) as (m & Hm & Hlen); [lia|lia|].
          exists m. split; [|exact Hlen]. eapply CommonSub_lower; [exact Hm|lia|lia].
        - destruct (IHc (S i) (S len) j oe ne) as (m & Hm & Hlen); [lia|lia|].
          exists m. split; [|exact Hlen]. eapply CommonSub_lower; [exact Hm|lia|lia]. }
      destruct (cmp i j) as [[|]| |] eqn:E; try exact Hmax.
      destruct (IHc (S i) len (S j) oe ne) as (m & Hm & Hlen); [lia|lia|].
      exists ((i, j) :: m). split; [|cbn [length]; lia].
      constructor; try lia; assumption.
  Qed.

  Lemma L_IsLcsLen cnt i len j :
    IsLcsLen cmp i (i + cnt) j (j + len) (L cnt i len j).
  Proof.
    split.
    - apply L_achieve; lia.
    - intros m Hm. eapply L_upper; [exact Hm|lia|lia].
  Qed.

  Lemma IsLcsLen_unique os oe ns ne L1 L2 :
    IsLcsLen cmp os oe ns ne L1 -> IsLcsLen cmp os oe ns ne L2 -> L1 = L2.
  Proof.
    intros [(m1 & Hm1 & Hl1) Hu1] [(m2 & Hm2 & Hl2) Hu2].
    specialize (Hu1 _ Hm2). specialize (Hu2 _ Hm1). lia.
  Qed.

  (* Main theorem of part A.  Neither totality of [cmp] nor the orientation of
     the ranges is needed. *)
  Theorem lcs_len_correct os oe ns ne :
    IsLcsLen cmp os oe ns ne (lcs_len cmp os oe ns ne).
  Proof.
    rewrite lcs_len_L.
    destruct (Nat.le_gt_cases os oe) as [Ho|Ho]; [destruct (Nat.le_gt_cases ns ne) as [Hn|Hn]|].
    - pose proof (L_IsLcsLen (oe - os) os (ne - ns) ns) as H.
      replace (os + (oe - os)) with oe in H by lia.
      replace (ns + (ne - ns)) with ne in H by lia. exact H.
    - replace (ne - ns) with 0 by lia. rewrite L_r_0. split.
      + exists []. split; [constructor|reflexivity].
      + intros m Hm. rewrite (CommonSub_empty _ _ _ _ _ Hm) by (right; lia). cbn [length]. lia.
    - replace (oe - os) with 0 by lia. rewrite L_0_l. split.
      + exists []. split; [constructor|reflexivity].
      + intros m Hm. rewrite (CommonSub_empty _ _ _ _ _ Hm) by (left; lia). cbn [length]. lia.
  Qed.

  (* the form asked for (hypotheses unused) *)
  Corollary lcs_len_correct_total os oe ns ne :
    (forall i j, os <= i < oe -> ns <= j < ne -> exists b, cmp i j = Ok b) ->
    os <= oe -> ns <= ne ->
    IsLcsLen cmp os oe ns ne (lcs_len cmp os oe ns ne).
  Proof. intros _ _ _. apply lcs_len_correct. Qed.

  (* ------------------------------------------------------------------ *)
  (* Stripping a common prefix / suffix (valid for arbitrary cmp) *)
  Lemma SegEq_head o n l :
    SegEq cmp o n (S l) -> cmp o n = Ok true /\ SegEq cmp (S o) (S n) l.
  Proof.
    intros H. split.
    - specialize (H 0 ltac:(lia)). now rewrite !Nat.add_0_r in H.
    - intros t Ht. specialize (H (S t) ltac:(lia)).
      now replace (S o + t) with (o + S t) by lia; replace (S n + t) with (n + S t) by lia.
  Qed.

  Lemma L_prefix : forall p cnt i len j,
    SegEq cmp i j p -> p <= cnt -> p <= len ->
    L cnt i len j = p + L (cnt - p) (i + p) (len - p) (j + p).
  Proof.
    induction p as [|p IH]; intros cnt i len j Hseg Hc Hl.
    - now rewrite !Nat.sub_0_r, !Nat.add_0_r.
    - destruct cnt as [|cnt]; [lia|]. destruct len as [|len]; [lia|].
      apply SegEq_head in Hseg. destruct Hseg as [H0 Hseg].
      rewrite L_S_S, H0. rewrite (IH cnt (S i) len (S j) Hseg) by lia.
      cbn [Nat.sub]. replace (S i + p) with (i + S p) by lia.
      replace (S j + p) with (j + S p) by lia. lia.
  Qed.

  Lemma IsLcsLen_suffix1 os oe ns ne K :
    IsLcsLen cmp os oe ns ne K -> os <= oe -> ns <= ne -> cmp oe ne = Ok true ->
    IsLcsLen cmp os (S oe) ns (S ne) (S K).
  Proof.
    intros [(m & Hm & Hlen) Hup] Ho Hn Hc. split.
    - exists (m ++ [(oe, ne)]). split; [now apply CommonSub_snoc|].
      rewrite app_length. cbn [length]. lia.
    - intros m1 Hm1. destruct (CommonSub_unsnoc _ _ _ _ _ Hm1) as (m' & Hm' & Hl').
      specialize (Hup _ Hm'). lia.
  Qed.

  Lemma IsLcsLen_suffix os ns : forall s oe ne K,
    IsLcsLen cmp os oe ns ne K -> os <= oe -> ns <= ne -> SegEq cmp oe ne s ->
    IsLcsLen cmp os (oe + s) ns (ne + s) (K + s).
  Proof.
    induction s as [|s IH]; intros oe ne K HK Ho Hn Hseg.
    - now rewrite !Nat.add_0_r.
    - apply SegEq_head in Hseg. destruct Hseg as [H0 Hseg].
      replace (oe + S s) with (S oe + s) by lia. replace (ne + S s) with (S ne + s) by lia.
      replace (K + S s) with (S K + s) by lia.
      apply IH; try lia; [|exact Hseg]. now apply IsLcsLen_suffix1.
  Qed.

  (* ------------------------------------------------------------------ *)
  (* Cost lower bound for (loosely) valid op lists *)
  Lemma OpsWalk_sums ex oe ne i j ops :
    OpsWalk cmp ex oe ne i j ops ->
    deleted ops + equal_total ops + i = oe /\ inserted ops + equal_total ops + j = ne.
  Proof.
    intros H.
    induction H as [|i j l r Hseg Hr IH|i j l n r Hx Hle Hr IH|i j o l r Hx Hle Hr IH
                    |i j ol nl r Hlo Hln Hr IH];
      cbn [deleted inserted equal_total fold_right op_old_len op_new_len].
    - lia.
    - fold (deleted r) (inserted r) (equal_total r). lia.
    - fold (deleted r) (inserted r) (equal_total r). lia.
    - fold (deleted r) (inserted r) (equal_total r). lia.
    - fold (deleted r) (inserted r) (equal_total r). lia.
  Qed.

  Lemma CommonSub_seg oe ne : forall l i j m,
    SegEq cmp i j l -> i + l <= oe -> j + l <= ne ->
    CommonSub cmp oe ne (i + l) (j + l) m ->
    exists m', CommonSub cmp oe ne i j m' /\ length m' = l + length m.
  Proof.
    induction l as [|l IH]; intros i j m Hseg Ho Hn Hm.
    - rewrite !Nat.add_0_r in Hm. exists m. split; [exact Hm|lia].
    - apply SegEq_head in Hseg. destruct Hseg as [H0 Hseg].
      destruct (IH (S i) (S j) m Hseg) as (m' & Hm' & Hlen); [lia|lia| |].
      + now replace (S i + l) with (i + S l) by lia; replace (S j + l) with (j + S l) by lia.
      + exists ((i, j) :: m'). split; [|cbn [length]; lia].
        constructor; try lia; assumption.
  Qed.

  Lemma OpsWalk_common ex oe ne i j ops :
    OpsWalk cmp ex oe ne i j ops ->
    exists m, CommonSub cmp oe ne i j m /\ length m = equal_total ops.
  Proof.
    intros H.
    induction H as [|i j l r Hseg Hr IH|i j l n r Hx Hle Hr IH|i j o l r Hx Hle Hr IH
                    |i j ol nl r Hlo Hln Hr IH];
      cbn [equal_total fold_right].
    - exists []. split; [constructor|reflexivity].
    - fold (equal_total r). destruct IH as (m & Hm & Hlen).
      destruct (OpsWalk_sums _ _ _ _ _ _ Hr) as [Hs1 Hs2].
      destruct (CommonSub_seg oe ne l i j m Hseg) as (m' & Hm' & Hl'); [lia|lia|exact Hm|].
      exists m'. split; [exact Hm'|lia].
    - fold (equal_total r). destruct IH as (m & Hm & Hlen).
      exists m. split; [|exact Hlen]. eapply CommonSub_lower; [exact Hm|lia|lia].
    - fold (equal_total r). destruct IH as (m & Hm & Hlen).
      exists m. split; [|exact Hlen]. eapply CommonSub_lower; [exact Hm|lia|lia].
    - fold (equal_total r). destruct IH as (m & Hm & Hlen).
      exists m. split; [|exact Hlen]. eapply CommonSub_lower; [exact Hm|lia|lia].
  Qed.

  (* The ranges are oriented as a consequence of the walk, so [os <= oe] and
     [ns <= ne] need not be assumed. *)
  Theorem valid_cost_lower os oe ns ne ops Lv :
    OpsWalk cmp false oe ne os ns ops ->
    IsLcsLen cmp os oe ns ne Lv ->
    equal_total ops <= Lv /\
    deleted ops + equal_total ops = oe - os /\
    inserted ops + equal_total ops = ne - ns /\
    (oe - os) + (ne - ns) <= deleted ops + inserted ops + 2 * Lv.
  Proof.
    intros Hw [_ Hup].
    destruct (OpsWalk_sums _ _ _ _ _ _ Hw) as [Hs1 Hs2].
    destruct (OpsWalk_common _ _ _ _ _ _ Hw) as (m & Hm & Hlen).
    specialize (Hup _ Hm). lia.
  Qed.
End LcsLen.

Print Assumptions lcs_len_correct.
Print Assumptions lcs_len_correct_total.
Print Assumptions valid_cost_lower.
Print Assumptions L_prefix.
Print Assumptions IsLcsLen_suffix.
