(* Proofs/Close.v — C18: get_close_matches equals exhaustive ranking.

   1. order on ratios-as-written ([frac_le]) and its meaning in Q;
   2. subsequences, multiset counting: LCS length <= min length and
      <= the match count of QuickSeqRatio::calc;
   3. the HashMap model: calc's loop computes that count, the map built by
      QuickSeqRatio::new has one entry per DISTINCT item;
   4. [filters_sound]: the two pre-filters never reject a candidate that
      meets the cutoff;
   5. sorting: n pops of a maximum = first n of the sorted list, for ANY
      choice among maxima ([Pops]); uniqueness of the sorted permutation;
   6. [close_matches_spec] and the ranked forms;
   7. [textdiff_ratio]: [ratio_nd] is the ratio of the model's text diff
      (cites Proofs.Pipeline.capture_minimal). *)
From Coq Require Import QArith Sorted Permutation.
From Similar Require Import Model.Base Model.Utils Model.Capture Model.TextDiff Model.Close
     Spec.Script Spec.SnakeSpec Check.Script Proofs.LcsLen Proofs.Pipeline Proofs.Identify.
Local Close Scope Q_scope.

(* ====================================================================== *)
(* 1. ratios as written                                                    *)
(* ====================================================================== *)
(* [frac_le x y]: both are the literal 1.0, or x = 2k1/n1, y = 2k2/n2 with a
   smaller-or-equal numerator and a larger-or-equal denominator.  The f32
   expression `2.0 * k as f32 / n as f32` is monotone in this order for all
   k, n (each of the two casts, the doubling and the division is monotone). *)
Definition frac_le (x y : frac) : Prop :=
  match x, y with
  | None, None => True
  | Some (k1, n1), Some (k2, n2) => k1 <= k2 /\ n2 <= n1 /\ 0 < n2
  | _, _ => False
  end.

Lemma Zpos_of_nat n : 0 < n -> Zpos (Pos.of_nat n) = Z.of_nat n.
Proof.
  intros Hn. rewrite <- (Nat2Pos.id n) at 2 by lia. symmetry. apply positive_nat_Z.
Qed.

Lemma frac_q_mono x y : frac_le x y -> (frac_q x <= frac_q y)%Q.
Proof.
  destruct x as [[k1 n1]|], y as [[k2 n2]|]; cbn [frac_le]; intros H; try contradiction.
  - destruct H as (Hk & Hn & Hp). unfold frac_q, Qle. cbn [Qnum Qden].
    rewrite !Zpos_of_nat by lia. nia.
  - apply Qle_refl.
Qed.

Lemma mk_frac_le k1 n1 k2 n2 :
  k1 <= k2 -> n2 <= n1 -> (n2 = 0 -> n1 = 0) -> frac_le (mk_frac k1 n1) (mk_frac k2 n2).
Proof.
  intros Hk Hn Hz. unfold mk_frac.
  destruct (Nat.eqb_spec n1 0) as [E1|E1], (Nat.eqb_spec n2 0) as [E2|E2]; cbn [frac_le]; lia.
Qed.

(* the value of a ratio in the usual notation *)
Lemma frac_q_mk k n :
  (frac_q (mk_frac k n) ==
   if n =? 0 then 1 else inject_Z (Z.of_nat (2 * k)) / inject_Z (Z.of_nat n))%Q.
Proof.
  unfold mk_frac. destruct (Nat.eqb_spec n 0) as [E|E]; [reflexivity|].
  cbn [frac_q]. rewrite (Qmake_Qdiv (Z.of_nat (2 * k)) (Pos.of_nat n)).
  rewrite Zpos_of_nat by lia. reflexivity.
Qed.

Lemma upper_q_eq n m :
  (upper_q n m ==
   if n + m =? 0 then 1
   else inject_Z (Z.of_nat (2 * Nat.min n m)) / inject_Z (Z.of_nat (n + m)))%Q.
Proof. apply frac_q_mk. Qed.

(* ====================================================================== *)
(* 2. subsequences and counting                                            *)
(* ====================================================================== *)
Section Items.
  Context {A : Type}.
  Variable eqb : A -> A -> bool.
  Hypothesis eqb_spec : forall x y, eqb x y = true <-> x = y.

  Lemma eqb_refl x : eqb x x = true.
  Proof. apply eqb_spec. reflexivity. Qed.

  Lemma eqb_sym x y : eqb x y = eqb y x.
  Proof.
    destruct (eqb x y) eqn:E1, (eqb y x) eqn:E2; try reflexivity.
    - apply eqb_spec in E1. subst y. rewrite eqb_refl in E2. discriminate.
    - apply eqb_spec in E2. subst y. rewrite eqb_refl in E1. discriminate.
  Qed.

  Inductive Sub : list A -> list A -> Prop :=
  | Sub_nil s : Sub [] s
  | Sub_take x l s : Sub l s -> Sub (x :: l) (x :: s)
  | Sub_skip x l s : Sub l s -> Sub l (x :: s).

  Lemma Sub_length l s : Sub l s -> length l <= length s.
  Proof. induction 1 as [s|x l s H IH|x l s H IH]; cbn [length]; lia. Qed.

  Lemma Sub_skipn k : forall s l, Sub l (skipn k s) -> Sub l s.
  Proof.
    induction k as [|k IH]; intros s l H.
    - exact H.
    - destruct s as [|x s].
      + exact H.
      + cbn [skipn] in H. apply Sub_skip, IH, H.
  Qed.

  Lemma skipn_add a : forall b (s : list A), skipn (a + b) s = skipn b (skipn a s).
  Proof.
    induction a as [|a IH]; intros b s.
    - reflexivity.
    - destruct s as [|x s].
      + cbn [Nat.add skipn]. rewrite skipn_nil. reflexivity.
      + cbn [Nat.add skipn]. apply IH.
  Qed.

  Lemma Sub_skipn_le os i s l : os <= i -> Sub l (skipn i s) -> Sub l (skipn os s).
  Proof.
    intros Hle H. replace i with (os + (i - os)) in H by lia.
    rewrite skipn_add in H. eapply Sub_skipn, H.
  Qed.

  Lemma skipn_nth : forall i (s : list A) x,
    nth_error s i = Some x -> skipn i s = x :: skipn (S i) s.
  Proof.
    induction i as [|i IH]; intros s x H; destruct s as [|y s]; try discriminate.
    - cbn in H. injection H as ->. reflexivity.
    - cbn [nth_error] in H. cbn [skipn]. rewrite (IH s x H). reflexivity.
  Qed.

  (* number of occurrences *)
  Fixpoint count (x : A) (s : list A) : nat :=
    match s with
    | [] => 0
    | y :: r => (if eqb y x then 1 else 0) + count x r
    end.

  Lemma count_sub x l s : Sub l s -> count x l <= count x s.
  Proof. induction 1 as [s|y l s H IH|y l s H IH]; cbn [count]; lia. Qed.

  (* the match count of calc as a function of an availability function:
     an item counts when some copy is still available; one copy is used up
     either way *)
  Definition dec1 (f : A -> Z) (x : A) : A -> Z :=
    fun y => if eqb x y then (f y - 1)%Z else f y.

  Fixpoint qm (f : A -> Z) (s : list A) : nat :=
    match s with
    | [] => 0
    | x :: r => (if (0 <? f x)%Z then 1 else 0) + qm (dec1 f x) r
    end.

  Lemma qm_ext s : forall f g, (forall x, f x = g x) -> qm f s = qm g s.
  Proof.
    induction s as [|y r IH]; intros f g H.
    - reflexivity.
    - cbn [qm]. rewrite (H y). f_equal. apply IH. intros x. unfold dec1. rewrite (H x). reflexivity.
  Qed.

  Lemma dec1_comm f x y z : dec1 (dec1 f y) x z = dec1 (dec1 f x) y z.
  Proof. unfold dec1. destruct (eqb x z), (eqb y z); reflexivity. Qed.

  (* using up one copy of x loses at most one match, and only if one was there *)
  Lemma qm_drop s : forall f x,
    qm f s <= (if (0 <? f x)%Z then 1 else 0) + qm (dec1 f x) s.
  Proof.
    induction s as [|y r IH]; intros f x.
    - cbn [qm]. lia.
    - cbn [qm]. specialize (IH (dec1 f y) x).
      rewrite (qm_ext r _ _ (dec1_comm f x y)) in IH.
      assert (Hh : (if (0 <? f y)%Z then 1 else 0) + (if (0 <? dec1 f y x)%Z then 1 else 0) =
                   (if (0 <? f x)%Z then 1 else 0) + (if (0 <? dec1 f x y)%Z then 1 else 0)).
      { unfold dec1. rewrite (eqb_sym x y). destruct (eqb y x) eqn:E.
        - apply eqb_spec in E. subst y. reflexivity.
        - lia. }
      lia.
  Qed.

  Lemma qm_sub l s : Sub l s -> forall f, qm f l <= qm f s.
  Proof.
    induction 1 as [s|x l s H IH|x l s H IH]; intros f.
    - cbn [qm]. lia.
    - cbn [qm]. specialize (IH (dec1 f x)). lia.
    - cbn [qm]. pose proof (IH f) as H1. pose proof (qm_drop s f x) as H2. lia.
  Qed.

  Lemma qm_full l : forall f, (forall x, (Z.of_nat (count x l) <= f x)%Z) -> qm f l = length l.
  Proof.
    induction l as [|y l IH]; intros f H.
    - reflexivity.
    - cbn [qm length]. pose proof (H y) as Hy. cbn [count] in Hy. rewrite eqb_refl in Hy.
      replace (0 <? f y)%Z with true by (symmetry; apply Z.ltb_lt; lia).
      rewrite IH; [reflexivity|].
      intros x. specialize (H x). cbn [count] in H. unfold dec1.
      destruct (eqb y x); lia.
  Qed.

  (* a common subsequence has at most as many items as the multiset
     intersection computed by calc *)
  Lemma sub_le_qm l s1 s2 :
    Sub l s1 -> Sub l s2 -> length l <= qm (fun x => Z.of_nat (count x s1)) s2.
  Proof.
    intros H1 H2.
    rewrite <- (qm_full l (fun x => Z.of_nat (count x s1))).
    - apply qm_sub, H2.
    - intros x. apply Nat2Z.inj_le, count_sub, H1.
  Qed.

  (* ==================================================================== *)
  (* 3. the HashMap model                                                  *)
  (* ==================================================================== *)
  Lemma hm_get_insert (m : hmap) w v x :
    hm_get eqb (hm_insert eqb m w v) x = if eqb w x then Some v else hm_get eqb m x.
  Proof.
    induction m as [|[y u] r IH].
    - reflexivity.
    - cbn [hm_insert]. destruct (eqb y w) eqn:Eyw.
      + apply eqb_spec in Eyw. subst y. cbn [hm_get]. destruct (eqb w x); reflexivity.
      + cbn [hm_get]. rewrite IH. destruct (eqb y x) eqn:Eyx; [|reflexivity].
        destruct (eqb w x) eqn:Ewx; [|reflexivity].
        apply eqb_spec in Eyx, Ewx. subst y w. rewrite eqb_refl in Eyw. discriminate.
  Qed.

  Definition keys (m : @hmap A) : list A := map fst m.

  Lemma keys_insert_in (m : hmap) w v :
    In w (keys m) -> keys (hm_insert eqb m w v) = keys m.
  Proof.
    induction m as [|[y u] r IH]; intros Hin.
    - destruct Hin.
    - cbn [hm_insert]. destruct (eqb y w) eqn:Eyw.
      + reflexivity.
      + cbn [keys map fst]. f_equal. apply IH. destruct Hin as [E|Hin]; [|exact Hin].
        cbn [fst] in E. subst y. rewrite eqb_refl in Eyw. discriminate.
  Qed.

  Lemma keys_insert_notin (m : hmap) w v :
    ~ In w (keys m) -> keys (hm_insert eqb m w v) = keys m ++ [w].
  Proof.
    induction m as [|[y u] r IH]; intros Hnin.
    - reflexivity.
    - cbn [hm_insert]. destruct (eqb y w) eqn:Eyw.
      + apply eqb_spec in Eyw. subst y. exfalso. apply Hnin. left. reflexivity.
      + cbn [keys map fst app]. f_equal. apply IH. intros Hin. apply Hnin. right. exact Hin.
  Qed.

  Lemma in_keys_dec (m : hmap) w : In w (keys m) \/ ~ In w (keys m).
  Proof.
    induction m as [|[y u] r IH].
    - right. intros [].
    - destruct (eqb y w) eqn:E.
      + apply eqb_spec in E. left. left. exact E.
      + destruct IH as [IH|IH]; [left; right; exact IH|].
        right. intros [H|H]; [|exact (IH H)]. cbn [fst] in H. subst y.
        rewrite eqb_refl in E. discriminate.
  Qed.

  Definition qstep (m : hmap) (w : A) : hmap :=
    hm_insert eqb m w (hm_get_or eqb m w 0 + 1)%Z.

  Lemma quick_new_fold s : quick_new eqb s = fold_left qstep s [].
  Proof. reflexivity. Qed.

  Lemma get_or_qstep m w x :
    hm_get_or eqb (qstep m w) x 0 = (hm_get_or eqb m x 0 + (if eqb w x then 1 else 0))%Z.
  Proof.
    unfold hm_get_or, qstep. rewrite hm_get_insert. destruct (eqb w x) eqn:E.
    - apply eqb_spec in E. subst x. reflexivity.
    - lia.
  Qed.

  Lemma get_or_fold s : forall m x,
    hm_get_or eqb (fold_left qstep s m) x 0 = (hm_get_or eqb m x 0 + Z.of_nat (count x s))%Z.
  Proof.
    induction s as [|w r IH]; intros m x.
    - cbn [fold_left count]. lia.
    - cbn [fold_left count]. rewrite IH, get_or_qstep. destruct (eqb w x); lia.
  Qed.

  (* the map of QuickSeqRatio::new gives the number of occurrences *)
  Lemma quick_new_count s x : hm_get_or eqb (quick_new eqb s) x 0 = Z.of_nat (count x s).
  Proof. rewrite quick_new_fold, get_or_fold. reflexivity. Qed.

  (* ... and has exactly one entry per distinct item *)
  Lemma keys_fold s : forall m,
    NoDup (keys m) ->
    NoDup (keys (fold_left qstep s m)) /\
    (forall x, In x (keys (fold_left qstep s m)) <-> In x (keys m) \/ In x s).
  Proof.
    induction s as [|w r IH]; intros m Hnd.
    - cbn [fold_left]. split; [exact Hnd|]. intros x. cbn [In]. tauto.
    - cbn [fold_left]. destruct (in_keys_dec m w) as [Hin|Hnin].
      + assert (Hk : keys (qstep m w) = keys m) by (apply keys_insert_in, Hin).
        destruct (IH (qstep m w)) as [H1 H2]; [rewrite Hk; exact Hnd|].
        split; [exact H1|]. intros x. rewrite H2, Hk. cbn [In].
        split; [tauto|]. intros [H|[H|H]]; [tauto| |tauto]. subst x. tauto.
      + assert (Hk : keys (qstep m w) = keys m ++ [w]) by (apply keys_insert_notin, Hnin).
        destruct (IH (qstep m w)) as [H1 H2].
        { rewrite Hk. eapply Permutation_NoDup; [apply Permutation_cons_append|].
          constructor; assumption. }
        split; [exact H1|]. intros x. rewrite H2, Hk, in_app_iff. cbn [In]. tauto.
  Qed.

  Theorem quick_new_distinct s :
    NoDup (keys (quick_new eqb s)) /\
    (forall x, In x (keys (quick_new eqb s)) <-> In x s) /\
    length (quick_new eqb s) = length (keys (quick_new eqb s)).
  Proof.
    destruct (keys_fold s []) as [H1 H2]; [constructor|].
    split; [exact H1|]. split.
    - intros x. rewrite quick_new_fold, H2. cbn [keys map In]. tauto.
    - unfold keys. rewrite map_length. reflexivity.
  Qed.

  Lemma NoDup_incl_le (l s : list A) : NoDup l -> incl l s -> length l <= length s.
  Proof. apply NoDup_incl_length. Qed.

  Lemma quick_new_length_le s : length (quick_new eqb s) <= length s.
  Proof.
    destruct (quick_new_distinct s) as (Hnd & Hin & Hlen). rewrite Hlen.
    apply NoDup_incl_length; [exact Hnd|]. intros x Hx. apply Hin, Hx.
  Qed.

  Lemma quick_new_empty s : length (quick_new eqb s) = 0 -> s = [].
  Proof.
    destruct (quick_new_distinct s) as (_ & Hin & Hlen). rewrite Hlen. intros H0.
    destruct s as [|x r]; [reflexivity|].
    assert (Hx : In x (keys (quick_new eqb (x :: r)))) by (apply Hin; left; reflexivity).
    destruct (keys (quick_new eqb (x :: r))); [destruct Hx|discriminate].
  Qed.

  (* the loop of calc *)
  Definition view (counts available : hmap) (x : A) : Z :=
    match hm_get eqb available x with
    | Some c => c
    | None => hm_get_or eqb counts x 0
    end.

  Lemma quick_loop_qm counts s : forall available acc,
    quick_loop eqb counts available s acc = acc + qm (view counts available) s.
  Proof.
    induction s as [|w r IH]; intros available acc.
    - cbn [quick_loop qm]. lia.
    - cbn [quick_loop qm]. fold (view counts available w). rewrite IH.
      rewrite (qm_ext r (view counts (hm_insert eqb available w (view counts available w - 1)%Z))
                 (dec1 (view counts available) w)).
      + destruct (0 <? view counts available w)%Z; lia.
      + intros x. unfold view at 1. rewrite hm_get_insert. unfold dec1.
        destruct (eqb w x) eqn:E; [|reflexivity].
        apply eqb_spec in E. subst x. reflexivity.
  Qed.

  (* calc's numerator is the size of the multiset intersection, computed
     from the occurrence counts of the first sequence *)
  Theorem quick_matches s1 s2 :
    quick_loop eqb (quick_new eqb s1) [] s2 0 = qm (fun x => Z.of_nat (count x s1)) s2.
  Proof.
    rewrite quick_loop_qm. cbn [Nat.add]. apply qm_ext. intros x.
    unfold view. cbn [hm_get]. apply quick_new_count.
  Qed.

  (* ==================================================================== *)
  (* 4. the filters are upper bounds                                       *)
  (* ==================================================================== *)
  Lemma char_cmp_true s1 s2 i j :
    char_cmp eqb s1 s2 i j = Ok true ->
    exists x, nth_error s1 i = Some x /\ nth_error s2 j = Some x.
  Proof.
    unfold char_cmp, cmp_of, slice_lookup.
    destruct (nth_error s2 j) as [y|]; [|discriminate].
    destruct (nth_error s1 i) as [x|]; [|discriminate].
    intros H. injection H as H. apply eqb_spec in H. subst y. exists x. split; reflexivity.
  Qed.

  Lemma CommonSub_Sub s1 s2 oe ne os ns m :
    CommonSub (char_cmp eqb s1 s2) oe ne os ns m ->
    exists l, length l = length m /\ Sub l (skipn os s1) /\ Sub l (skipn ns s2).
  Proof.
    induction 1 as [os ns|os ns i j m H1 H2 H3 H4 H5 H6 IH].
    - exists []. split; [reflexivity|]. split; constructor.
    - destruct IH as (l & Hlen & Hs1 & Hs2).
      destruct (char_cmp_true _ _ _ _ H5) as (x & Hx1 & Hx2).
      exists (x :: l). split; [cbn [length]; lia|]. split.
      + apply (Sub_skipn_le os i); [exact H1|]. rewrite (skipn_nth _ _ _ Hx1). apply Sub_take, Hs1.
      + apply (Sub_skipn_le ns j); [exact H3|]. rewrite (skipn_nth _ _ _ Hx2). apply Sub_take, Hs2.
  Qed.

  Definition lcs_chars (s1 s2 : list A) : nat :=
    lcs_len (char_cmp eqb s1 s2) 0 (length s1) 0 (length s2).

  Lemma lcs_chars_sub s1 s2 :
    exists l, length l = lcs_chars s1 s2 /\ Sub l s1 /\ Sub l s2.
  Proof.
    destruct (lcs_len_correct (char_cmp eqb s1 s2) 0 (length s1) 0 (length s2))
      as [(m & Hm & Hlen) _].
    destruct (CommonSub_Sub _ _ _ _ _ _ _ Hm) as (l & Hl & Hs1 & Hs2).
    exists l. unfold lcs_chars. split; [lia|]. split; assumption.
  Qed.

  Lemma lcs_le_min s1 s2 : lcs_chars s1 s2 <= Nat.min (length s1) (length s2).
  Proof.
    destruct (lcs_chars_sub s1 s2) as (l & Hl & H1 & H2).
    apply Sub_length in H1, H2. lia.
  Qed.

  Lemma lcs_le_quick s1 s2 : lcs_chars s1 s2 <= quick_loop eqb (quick_new eqb s1) [] s2 0.
  Proof.
    destruct (lcs_chars_sub s1 s2) as (l & Hl & H1 & H2).
    rewrite quick_matches, <- Hl. apply sub_le_qm; assumption.
  Qed.

  Theorem ratio_le_upper s1 s2 :
    frac_le (ratio_nd eqb s1 s2) (upper_nd (length s1) (length s2)).
  Proof.
    unfold ratio_nd, upper_nd. apply mk_frac_le; [apply lcs_le_min|lia|tauto].
  Qed.

  (* the quick denominator (#distinct s1 + |s2|) is at most |s1| + |s2|, and
     it is 0 only when both sequences are empty *)
  Theorem ratio_le_quick s1 s2 : frac_le (ratio_nd eqb s1 s2) (quick_nd eqb s1 s2).
  Proof.
    unfold ratio_nd, quick_nd, quick_calc. apply mk_frac_le.
    - apply lcs_le_quick.
    - pose proof (quick_new_length_le s1). lia.
    - intros H0. assert (Hs1 : s1 = []) by (apply quick_new_empty; lia).
      subst s1. cbn [length] in *. lia.
  Qed.

  (* the same in Q *)
  Corollary ratio_q_le_upper s1 s2 : (ratio_q eqb s1 s2 <= upper_q (length s1) (length s2))%Q.
  Proof. apply frac_q_mono, ratio_le_upper. Qed.

  Corollary ratio_q_le_quick s1 s2 : (ratio_q eqb s1 s2 <= quick_q eqb s1 s2)%Q.
  Proof. apply frac_q_mono, ratio_le_quick. Qed.

  Lemma quick_q_eq s1 s2 :
    (quick_q eqb s1 s2 ==
     let d := (length (keys (quick_new eqb s1)) + length s2)%nat in
     if d =? 0 then 1
     else inject_Z (Z.of_nat (2 * qm (fun x => Z.of_nat (count x s1)) s2)) / inject_Z (Z.of_nat d))%Q.
  Proof.
    unfold quick_q, quick_nd, quick_calc. rewrite frac_q_mk, quick_matches.
    destruct (quick_new_distinct s1) as (_ & _ & Hlen). rewrite Hlen. reflexivity.
  Qed.

  Lemma ratio_q_eq s1 s2 :
    (ratio_q eqb s1 s2 ==
     if length s1 + length s2 =? 0 then 1
     else inject_Z (Z.of_nat (2 * lcs_chars s1 s2)) / inject_Z (Z.of_nat (length s1 + length s2)))%Q.
  Proof. apply frac_q_mk. Qed.
End Items.

(* ====================================================================== *)
(* 5. sorting and popping maxima                                           *)
(* ====================================================================== *)
Section Sort.
  Context {E : Type}.
  Variable le : E -> E -> bool.
  Hypothesis le_total : forall a b, le a b = true \/ le b a = true.
  Hypothesis le_trans : forall a b c, le a b = true -> le b c = true -> le a c = true.

  Definition ge (a b : E) : Prop := le b a = true.

  (* insertion sort, descending *)
  Fixpoint insert_desc (x : E) (l : list E) : list E :=
    match l with
    | [] => [x]
    | y :: r => if le y x then x :: l else y :: insert_desc x r
    end.

  Fixpoint sort_desc (l : list E) : list E :=
    match l with
    | [] => []
    | x :: r => insert_desc x (sort_desc r)
    end.

  Lemma insert_perm x l : Permutation (insert_desc x l) (x :: l).
  Proof.
    induction l as [|y r IH].
    - apply Permutation_refl.
    - cbn [insert_desc]. destruct (le y x).
      + apply Permutation_refl.
      + eapply perm_trans; [apply perm_skip, IH|apply perm_swap].
  Qed.

  Lemma sort_perm l : Permutation (sort_desc l) l.
  Proof.
    induction l as [|x r IH].
    - apply perm_nil.
    - cbn [sort_desc]. eapply perm_trans; [apply insert_perm|apply perm_skip, IH].
  Qed.

  Lemma insert_sorted x l : StronglySorted ge l -> StronglySorted ge (insert_desc x l).
  Proof.
    induction l as [|y r IH]; intros Hs.
    - cbn [insert_desc]. constructor; constructor.
    - apply StronglySorted_inv in Hs. destruct Hs as [Hr Hy].
      cbn [insert_desc]. destruct (le y x) eqn:Eyx.
      + constructor; [constructor; assumption|].
        constructor; [exact Eyx|].
        eapply Forall_impl; [|exact Hy]. intros z Hz. unfold ge in *. eapply le_trans; eassumption.
      + constructor; [apply IH, Hr|].
        eapply Permutation_Forall; [apply Permutation_sym, insert_perm|].
        constructor; [|exact Hy]. unfold ge. destruct (le_total x y) as [H|H]; [exact H|].
        rewrite H in Eyx. discriminate.
  Qed.

  Lemma sort_sorted l : StronglySorted ge (sort_desc l).
  Proof.
    induction l as [|x r IH].
    - constructor.
    - cbn [sort_desc]. apply insert_sorted, IH.
  Qed.

  (* a maximum: any heap arrangement, any choice among several maxima *)
  Definition IsMax (l : list E) (x : E) (r : list E) : Prop :=
    Permutation l (x :: r) /\ Forall (fun y => le y x = true) r.

  (* n pops, stopping early when the heap is empty *)
  Inductive Pops : nat -> list E -> list E -> Prop :=
  | Pops_0 l : Pops 0 l []
  | Pops_empty n : Pops (S n) [] []
  | Pops_S n l x r out : IsMax l x r -> Pops n r out -> Pops (S n) l (x :: out).

  Lemma pop_max_none l : pop_max le l = None -> l = [].
  Proof.
    destruct l as [|x r]; [reflexivity|]. cbn [pop_max].
    destruct (pop_max le r) as [[y r']|]; [|discriminate].
    destruct (le y x); discriminate.
  Qed.

  Lemma pop_max_spec l : forall x r, pop_max le l = Some (x, r) -> IsMax l x r.
  Proof.
    induction l as [|a l IH]; intros x r H.
    - discriminate.
    - cbn [pop_max] in H. destruct (pop_max le l) as [[y r']|] eqn:Hp.
      + destruct (IH y r' eq_refl) as [Hperm Hall].
        destruct (le y a) eqn:Eyx; injection H as <- <-.
        * split; [apply Permutation_refl|].
          eapply Permutation_Forall; [apply Permutation_sym, Hperm|].
          constructor; [exact Eyx|].
          eapply Forall_impl; [|exact Hall]. intros z Hz. cbn beta in Hz |- *.
          eapply le_trans; eassumption.
        * split.
          -- eapply perm_trans; [apply perm_skip, Hperm|apply perm_swap].
          -- constructor; [|exact Hall].
             destruct (le_total a y) as [H|H]; [exact H|]. rewrite H in Eyx. discriminate.
      + apply pop_max_none in Hp. subst l. injection H as <- <-.
        split; [apply Permutation_refl|constructor].
  Qed.

  (* the executable pop sequence is one of the admissible ones *)
  Lemma pop_n_pops n : forall l, Pops n l (pop_n le n l).
  Proof.
    induction n as [|n IH]; intros l.
    - constructor.
    - cbn [pop_n]. destruct (pop_max le l) as [[x r]|] eqn:Hp.
      + eapply Pops_S; [apply pop_max_spec, Hp|apply IH].
      + apply pop_max_none in Hp. subst l. constructor.
  Qed.

  Hypothesis le_antisym : forall a b, le a b = true -> le b a = true -> a = b.

  (* entries that compare equal are equal, so the sorted arrangement of a
     multiset is unique *)
  Lemma sorted_unique l1 : forall l2,
    StronglySorted ge l1 -> StronglySorted ge l2 -> Permutation l1 l2 -> l1 = l2.
  Proof.
    induction l1 as [|x r IH]; intros l2 H1 H2 Hp.
    - apply Permutation_nil in Hp. symmetry. exact Hp.
    - destruct l2 as [|x' r'].
      + apply Permutation_sym, Permutation_nil in Hp. discriminate.
      + apply StronglySorted_inv in H1, H2. destruct H1 as [Hr Hx], H2 as [Hr' Hx'].
        assert (Exx : x = x').
        { assert (Hin1 : In x (x' :: r')) by (eapply Permutation_in; [exact Hp|left; reflexivity]).
          assert (Hin2 : In x' (x :: r))
            by (eapply Permutation_in; [apply Permutation_sym, Hp|left; reflexivity]).
          destruct Hin1 as [E1|Hin1]; [symmetry; exact E1|].
          destruct Hin2 as [E2|Hin2]; [exact E2|].
          rewrite Forall_forall in Hx, Hx'. apply le_antisym.
          - apply Hx', Hin1.
          - apply Hx, Hin2. }
        subst x'. f_equal. apply IH; try assumption. eapply Permutation_cons_inv, Hp.
  Qed.

  Lemma sort_unique l s : Permutation s l -> StronglySorted ge s -> s = sort_desc l.
  Proof.
    intros Hp Hs. apply sorted_unique; [exact Hs|apply sort_sorted|].
    eapply perm_trans; [exact Hp|apply Permutation_sym, sort_perm].
  Qed.

  Lemma sort_perm_eq l1 l2 : Permutation l1 l2 -> sort_desc l1 = sort_desc l2.
  Proof.
    intros Hp. apply sort_unique; [|apply sort_sorted].
    eapply perm_trans; [apply sort_perm|exact Hp].
  Qed.

  Lemma sort_max l x r : IsMax l x r -> sort_desc l = x :: sort_desc r.
  Proof.
    intros [Hp Hall]. symmetry. apply sort_unique.
    - eapply perm_trans; [apply perm_skip, sort_perm|apply Permutation_sym, Hp].
    - constructor; [apply sort_sorted|].
      eapply Permutation_Forall; [apply Permutation_sym, sort_perm|exact Hall].
  Qed.

  (* popping n maxima, in whatever way, yields the first n of the sorted list *)
  Theorem pops_sorted n l out : Pops n l out -> out = firstn n (sort_desc l).
  Proof.
    induction 1 as [l|n|n l x r out Hmax Hpops IH].
    - reflexivity.
    - reflexivity.
    - rewrite (sort_max l x r Hmax). cbn [firstn]. f_equal. exact IH.
  Qed.

  Corollary pop_n_sorted n l : pop_n le n l = firstn n (sort_desc l).
  Proof. apply pops_sorted, pop_n_pops. Qed.
End Sort.

Lemma StronglySorted_map {X Y : Type} (R : X -> X -> Prop) (R' : Y -> Y -> Prop) (f : X -> Y)
      (P : X -> Prop) (l : list X) :
  (forall a b, P a -> P b -> R a b -> R' (f a) (f b)) ->
  Forall P l -> StronglySorted R l -> StronglySorted R' (map f l).
Proof.
  intros HR. induction l as [|x r IH]; intros HP Hs.
  - constructor.
  - apply StronglySorted_inv in Hs. destruct Hs as [Hr Hx].
    inversion HP as [|? ? Px Pr]; subst.
    cbn [map]. constructor; [apply IH; assumption|].
    rewrite Forall_forall in *. intros y Hy. apply in_map_iff in Hy.
    destruct Hy as (z & <- & Hz). apply HR; [exact Px|apply Pr, Hz|apply Hx, Hz].
Qed.

Lemma StronglySorted_impl_in {X : Type} (R R' : X -> X -> Prop) (l : list X) :
  (forall a b, In a l -> In b l -> R a b -> R' a b) ->
  StronglySorted R l -> StronglySorted R' l.
Proof.
  intros HR Hs. rewrite <- (map_id l).
  apply (StronglySorted_map R R' (fun x => x) (fun x => In x l)).
  - exact HR.
  - apply Forall_forall. intros x Hx. exact Hx.
  - exact Hs.
Qed.

(* ====================================================================== *)
(* 6. get_close_matches                                                    *)
(* ====================================================================== *)
Section CloseGen.
  Context {A C F : Type}.
  Variable eqb : A -> A -> bool.
  Hypothesis eqb_spec : forall x y, eqb x y = true <-> x = y.
  Variable chars : C -> list A.
  Variable ev : frac -> F.
  Variable leF : F -> F -> bool.
  Variable key : F -> nat.
  Variable leC : C -> C -> bool.

  Hypothesis leF_trans : forall a b c, leF a b = true -> leF b c = true -> leF a c = true.
  Hypothesis leF_total : forall a b, leF a b = true \/ leF b a = true.
  Hypothesis ev_mono : forall x y, frac_le x y -> leF (ev x) (ev y) = true.
  Hypothesis key_mono : forall a b, leF a b = true -> key a <= key b.
  Hypothesis leC_trans : forall a b c, leC a b = true -> leC b c = true -> leC a c = true.
  Hypothesis leC_total : forall a b, leC a b = true \/ leC b a = true.
  Hypothesis leC_antisym : forall a b, leC a b = true -> leC b a = true -> a = b.

  Variable cutoff : F.
  Variable word : C.

  (* the rounded character-level similarity ratio of a candidate *)
  Definition ratio_of (c : C) : F := ev (ratio_nd eqb (chars word) (chars c)).
  (* the candidate meets the cutoff: ratio >= cutoff *)
  Definition meets (c : C) : bool := leF cutoff (ratio_of c).
  Definition entry_of (c : C) : entry := (key (ratio_of c), c).

  (* the cheap pre-filters never discard a candidate that meets the cutoff *)
  Theorem filters_sound_gen c :
    meets c = true ->
    leF cutoff (ev (upper_nd (length (chars word)) (length (chars c)))) = true /\
    leF cutoff (ev (quick_nd eqb (chars word) (chars c))) = true.
  Proof.
    unfold meets, ratio_of. intros H. split.
    - eapply leF_trans; [exact H|]. apply ev_mono, ratio_le_upper, eqb_spec.
    - eapply leF_trans; [exact H|]. apply ev_mono, ratio_le_quick, eqb_spec.
  Qed.

  (* the loop pushes exactly the candidates that meet the cutoff *)
  Lemma close_loop_spec cands : forall heap,
    close_loop eqb chars ev leF key cutoff (chars word) (quick_new eqb (chars word)) cands heap =
    rev (map entry_of (filter meets cands)) ++ heap.
  Proof.
    induction cands as [|p rest IH]; intros heap.
    - reflexivity.
    - cbn [close_loop filter]. fold (quick_nd eqb (chars word) (chars p)).
      fold (ratio_of p). fold (meets p). unfold ltF.
      destruct (meets p) eqn:Hm.
      + destruct (filters_sound_gen p Hm) as [H1 H2]. rewrite H1, H2. cbn [negb orb].
        rewrite IH. cbn [map rev]. rewrite <- app_assoc. reflexivity.
      + destruct (negb _ || negb _); apply IH.
  Qed.

  (* the heap order on (key, Reverse candidate) is a total order *)
  Lemma entry_le_total a b : entry_le leC a b = true \/ entry_le leC b a = true.
  Proof.
    unfold entry_le. destruct a as [k1 c1], b as [k2 c2]. cbn [fst snd].
    destruct (Nat.ltb_spec k1 k2), (Nat.ltb_spec k2 k1), (Nat.eqb_spec k1 k2), (Nat.eqb_spec k2 k1);
      cbn [orb andb]; try lia; try tauto.
    destruct (leC_total c1 c2); tauto.
  Qed.

  Lemma entry_le_trans a b c :
    entry_le leC a b = true -> entry_le leC b c = true -> entry_le leC a c = true.
  Proof.
    unfold entry_le. destruct a as [k1 c1], b as [k2 c2], c as [k3 c3]. cbn [fst snd].
    destruct (Nat.ltb_spec k1 k2), (Nat.ltb_spec k2 k3), (Nat.ltb_spec k1 k3),
      (Nat.eqb_spec k1 k2), (Nat.eqb_spec k2 k3), (Nat.eqb_spec k1 k3);
      cbn [orb andb]; intros Hab Hbc; try lia; try discriminate; try reflexivity.
    eapply leC_trans; eassumption.
  Qed.

  Lemma entry_le_antisym a b : entry_le leC a b = true -> entry_le leC b a = true -> a = b.
  Proof.
    unfold entry_le. destruct a as [k1 c1], b as [k2 c2]. cbn [fst snd].
    destruct (Nat.ltb_spec k1 k2), (Nat.ltb_spec k2 k1), (Nat.eqb_spec k1 k2), (Nat.eqb_spec k2 k1);
      cbn [orb andb]; intros Hab Hba; try lia; try discriminate.
    subst k2. f_equal. apply leC_antisym; assumption.
  Qed.

  (* C18, executable form: the result is the first n candidate strings of the
     list of all candidates meeting the cutoff, sorted by the heap order *)
  Theorem close_matches_spec_gen cands n :
    close_matches_gen eqb chars ev leF key leC cutoff word cands n =
    map snd (firstn n (sort_desc (entry_le leC) (map entry_of (filter meets cands)))).
  Proof.
    unfold close_matches_gen. rewrite close_loop_spec, app_nil_r.
    rewrite (pop_n_sorted _ entry_le_total entry_le_trans entry_le_antisym).
    rewrite (sort_perm_eq _ entry_le_total entry_le_trans entry_le_antisym
               (rev (map entry_of (filter meets cands))) (map entry_of (filter meets cands))).
    - reflexivity.
    - apply Permutation_sym, Permutation_rev.
  Qed.

  (* the same for ANY sequence of pops of a maximum from ANY arrangement of
     the pushed entries: the BinaryHeap's internal layout and its choice
     among equal maxima are unobservable *)
  Theorem close_matches_any_heap cands n heap out :
    Permutation heap (map entry_of (filter meets cands)) ->
    Pops (entry_le leC) n heap out ->
    map snd out = close_matches_gen eqb chars ev leF key leC cutoff word cands n.
  Proof.
    intros Hp Hpops. rewrite close_matches_spec_gen.
    rewrite (pops_sorted _ entry_le_total entry_le_trans entry_le_antisym n heap out Hpops).
    rewrite (sort_perm_eq _ entry_le_total entry_le_trans entry_le_antisym _ _ Hp). reflexivity.
  Qed.

  (* ranking relations on candidates: "a may stand before b" *)
  (* by heap key descending, then candidate ascending *)
  Definition RankKey (a b : C) : Prop :=
    key (ratio_of b) < key (ratio_of a) \/
    (key (ratio_of a) = key (ratio_of b) /\ leC a b = true).
  (* by rounded ratio descending, then candidate ascending *)
  Definition RankRatio (a b : C) : Prop :=
    leF (ratio_of a) (ratio_of b) = false \/
    (leF (ratio_of a) (ratio_of b) = true /\ leF (ratio_of b) (ratio_of a) = true /\
     leC a b = true).

  Lemma RankKey_entry a b : RankKey a b -> ge (entry_le leC) (entry_of a) (entry_of b).
  Proof.
    unfold RankKey, ge, entry_le, entry_of. cbn [fst snd]. intros [H|[H1 H2]].
    - replace (key (ratio_of b) <? key (ratio_of a)) with true by (symmetry; apply Nat.ltb_lt; lia).
      reflexivity.
    - rewrite H1, Nat.eqb_refl, H2. apply orb_true_r.
  Qed.

  Lemma entry_RankKey a b : ge (entry_le leC) (entry_of a) (entry_of b) -> RankKey a b.
  Proof.
    unfold RankKey, ge, entry_le, entry_of. cbn [fst snd]. intros H.
    apply orb_true_iff in H. destruct H as [H|H].
    - left. apply Nat.ltb_lt, H.
    - apply andb_true_iff in H. destruct H as [H1 H2]. right. apply Nat.eqb_eq in H1. split; [lia|exact H2].
  Qed.

  (* C18, as worded: take ANY list that (i) consists of exactly the
     candidates meeting the cutoff, with multiplicity, and (ii) is ordered by
     decreasing key and, among equal keys, lexicographically; the result is
     its first n entries. *)
  Theorem close_matches_ranked_gen cands n ranked :
    Permutation ranked (filter meets cands) ->
    StronglySorted RankKey ranked ->
    close_matches_gen eqb chars ev leF key leC cutoff word cands n = firstn n ranked.
  Proof.
    intros Hp Hs. rewrite close_matches_spec_gen.
    rewrite <- (sort_unique _ entry_le_total entry_le_trans entry_le_antisym
                  (map entry_of (filter meets cands)) (map entry_of ranked)).
    - rewrite <- firstn_map, map_map. cbn [entry_of snd]. rewrite map_id. reflexivity.
    - apply Permutation_map, Hp.
    - apply (StronglySorted_map RankKey _ entry_of (fun _ => True)).
      + intros a b _ _. apply RankKey_entry.
      + apply Forall_forall. intros; exact I.
      + exact Hs.
  Qed.

  (* such a list exists (so the previous theorem is not vacuous) *)
  Definition ranking (cands : list C) : list C :=
    map snd (sort_desc (entry_le leC) (map entry_of (filter meets cands))).

  Theorem ranking_ok cands :
    Permutation (ranking cands) (filter meets cands) /\ StronglySorted RankKey (ranking cands).
  Proof.
    unfold ranking. split.
    - eapply perm_trans; [apply Permutation_map, sort_perm|].
      rewrite map_map. cbn [entry_of snd]. rewrite map_id. apply Permutation_refl.
    - apply (StronglySorted_map (ge (entry_le leC)) RankKey snd (fun e => e = entry_of (snd e))).
      + intros a b Ha Hb H. rewrite Ha, Hb in H. apply entry_RankKey, H.
      + eapply Permutation_Forall; [apply Permutation_sym, sort_perm|].
        apply Forall_forall. intros e He. apply in_map_iff in He. destruct He as (c & <- & _).
        reflexivity.
      + apply sort_sorted; [apply entry_le_total|apply entry_le_trans].
  Qed.

  Corollary close_matches_ranking cands n :
    close_matches_gen eqb chars ev leF key leC cutoff word cands n = firstn n (ranking cands).
  Proof. destruct (ranking_ok cands) as [Hp Hs]. apply close_matches_ranked_gen; assumption. Qed.

  (* every result meets the cutoff, and nothing that meets it is lost when n
     is large enough *)
  Corollary close_matches_all cands n :
    length (filter meets cands) <= n ->
    Permutation (close_matches_gen eqb chars ev leF key leC cutoff word cands n)
                (filter meets cands).
  Proof.
    intros Hn. rewrite close_matches_ranking. destruct (ranking_ok cands) as [Hp _].
    rewrite firstn_all2; [exact Hp|]. rewrite (Permutation_length Hp). exact Hn.
  Qed.

  (* The key remark.  The heap key is only weakly monotone in the ratio.  If
     it separates the ratios that occur (different ratios get different
     keys), then ordering by key is ordering by ratio. *)
  Definition KeyStrictOn (cands : list C) : Prop :=
    forall a b, In a cands -> In b cands -> meets a = true -> meets b = true ->
      key (ratio_of a) <= key (ratio_of b) -> leF (ratio_of a) (ratio_of b) = true.

  Lemma rank_key_ratio cands a b :
    KeyStrictOn cands ->
    In a (filter meets cands) -> In b (filter meets cands) ->
    (RankKey a b <-> RankRatio a b).
  Proof.
    intros Hstrict Ha Hb. apply filter_In in Ha, Hb. destruct Ha as [Ha Hma], Hb as [Hb Hmb].
    unfold RankKey, RankRatio. split.
    - intros [H|[H1 H2]].
      + left. destruct (leF (ratio_of a) (ratio_of b)) eqn:E; [|reflexivity].
        apply key_mono in E. lia.
      + right. split; [apply Hstrict; try assumption; lia|].
        split; [apply Hstrict; try assumption; lia|exact H2].
    - intros [H|(H1 & H2 & H3)].
      + left. destruct (Nat.le_gt_cases (key (ratio_of a)) (key (ratio_of b))) as [Hle|Hgt];
          [|exact Hgt].
        rewrite (Hstrict a b Ha Hb Hma Hmb Hle) in H. discriminate.
      + right. apply key_mono in H1, H2. split; [lia|exact H3].
  Qed.

  Theorem close_matches_ranked_ratio_gen cands n ranked :
    KeyStrictOn cands ->
    Permutation ranked (filter meets cands) ->
    StronglySorted RankRatio ranked ->
    close_matches_gen eqb chars ev leF key leC cutoff word cands n = firstn n ranked.
  Proof.
    intros Hstrict Hp Hs. apply close_matches_ranked_gen; [exact Hp|].
    apply (StronglySorted_impl_in RankRatio RankKey); [|exact Hs].
    intros a b Ha Hb H. apply (rank_key_ratio cands a b Hstrict).
    - eapply Permutation_in; [exact Hp|exact Ha].
    - eapply Permutation_in; [exact Hp|exact Hb].
    - exact H.
  Qed.
End CloseGen.

(* ---------------------------------------------------------------------- *)
(* the instance "exact rational, then one rounding"                        *)
(* ---------------------------------------------------------------------- *)
Section CloseQ.
  Context {A C F : Type}.
  Variable eqb : A -> A -> bool.
  Hypothesis eqb_spec : forall x y, eqb x y = true <-> x = y.
  Variable chars : C -> list A.
  Variable rnd : Q -> F.
  Variable leF : F -> F -> bool.
  Variable key : F -> nat.
  Variable leC : C -> C -> bool.

  Hypothesis leF_trans : forall a b c, leF a b = true -> leF b c = true -> leF a c = true.
  Hypothesis leF_total : forall a b, leF a b = true \/ leF b a = true.
  Hypothesis rnd_mono : forall q1 q2, (q1 <= q2)%Q -> leF (rnd q1) (rnd q2) = true.
  Hypothesis key_mono : forall a b, leF a b = true -> key a <= key b.
  Hypothesis leC_trans : forall a b c, leC a b = true -> leC b c = true -> leC a c = true.
  Hypothesis leC_total : forall a b, leC a b = true \/ leC b a = true.
  Hypothesis leC_antisym : forall a b, leC a b = true -> leC b a = true -> a = b.

  Let ev : frac -> F := fun x => rnd (frac_q x).

  Lemma ev_mono_q x y : frac_le x y -> leF (ev x) (ev y) = true.
  Proof. intros H. apply rnd_mono, frac_q_mono, H. Qed.

  Variable cutoff : F.
  Variable word : C.

  Definition ratio_f (c : C) : F := rnd (ratio_q eqb (chars word) (chars c)).
  Definition meets_q (c : C) : bool := leF cutoff (ratio_f c).
  Definition entry_q (c : C) : entry := (key (ratio_f c), c).

  Theorem filters_sound c :
    leF cutoff (rnd (ratio_q eqb (chars word) (chars c))) = true ->
    leF cutoff (rnd (upper_q (length (chars word)) (length (chars c)))) = true /\
    leF cutoff (rnd (quick_q eqb (chars word) (chars c))) = true.
  Proof.
    exact (filters_sound_gen eqb eqb_spec chars ev leF leF_trans ev_mono_q cutoff word c).
  Qed.

  Theorem close_matches_spec cands n :
    close_matches eqb chars rnd leF key leC cutoff word cands n =
    map snd (firstn n (sort_desc (entry_le leC) (map entry_q (filter meets_q cands)))).
  Proof.
    exact (close_matches_spec_gen eqb eqb_spec chars ev leF key leC leF_trans ev_mono_q
             leC_trans leC_total leC_antisym cutoff word cands n).
  Qed.

  Definition RankKeyQ (a b : C) : Prop :=
    key (ratio_f b) < key (ratio_f a) \/ (key (ratio_f a) = key (ratio_f b) /\ leC a b = true).
  Definition RankRatioQ (a b : C) : Prop :=
    leF (ratio_f a) (ratio_f b) = false \/
    (leF (ratio_f a) (ratio_f b) = true /\ leF (ratio_f b) (ratio_f a) = true /\ leC a b = true).

  Theorem close_matches_ranked cands n ranked :
    Permutation ranked (filter meets_q cands) ->
    StronglySorted RankKeyQ ranked ->
    close_matches eqb chars rnd leF key leC cutoff word cands n = firstn n ranked.
  Proof.
    exact (close_matches_ranked_gen eqb eqb_spec chars ev leF key leC leF_trans ev_mono_q
             leC_trans leC_total leC_antisym cutoff word cands n ranked).
  Qed.

  Theorem close_matches_ranking_exists cands :
    exists ranked, Permutation ranked (filter meets_q cands) /\ StronglySorted RankKeyQ ranked.
  Proof.
    exists (ranking eqb chars ev leF key leC cutoff word cands).
    exact (ranking_ok eqb chars ev leF key leC leC_trans leC_total cutoff word cands).
  Qed.

  Theorem close_matches_any_heap_q cands n heap out :
    Permutation heap (map entry_q (filter meets_q cands)) ->
    Pops (entry_le leC) n heap out ->
    map snd out = close_matches eqb chars rnd leF key leC cutoff word cands n.
  Proof.
    exact (close_matches_any_heap eqb eqb_spec chars ev leF key leC leF_trans ev_mono_q
             leC_trans leC_total leC_antisym cutoff word cands n heap out).
  Qed.

  Theorem close_matches_ranked_ratio cands n ranked :
    (forall a b, In a cands -> In b cands -> meets_q a = true -> meets_q b = true ->
       key (ratio_f a) <= key (ratio_f b) -> leF (ratio_f a) (ratio_f b) = true) ->
    Permutation ranked (filter meets_q cands) ->
    StronglySorted RankRatioQ ranked ->
    close_matches eqb chars rnd leF key leC cutoff word cands n = firstn n ranked.
  Proof.
    exact (close_matches_ranked_ratio_gen eqb eqb_spec chars ev leF key leC leF_trans ev_mono_q
             key_mono leC_trans leC_total leC_antisym cutoff word cands n ranked).
  Qed.
End CloseQ.

(* ====================================================================== *)
(* 7. ratio_nd is the ratio of the model's text diff                       *)
(* ====================================================================== *)
Section TextRatio.
  Context {A : Type}.
  Variable eqb : A -> A -> bool.
  Hypothesis eqb_spec : forall x y, eqb x y = true <-> x = y.

  Lemma CommonSub_ext cmp1 cmp2 oe ne os ns m :
    (forall i j, cmp1 i j = cmp2 i j) ->
    CommonSub cmp1 oe ne os ns m -> CommonSub cmp2 oe ne os ns m.
  Proof.
    intros Hext. induction 1 as [os ns|os ns i j m H1 H2 H3 H4 H5 H6 IH].
    - constructor.
    - constructor; try assumption. rewrite <- Hext. exact H5.
  Qed.

  Lemma IsLcsLen_ext cmp1 cmp2 os oe ns ne L :
    (forall i j, cmp1 i j = cmp2 i j) ->
    IsLcsLen cmp1 os oe ns ne L -> IsLcsLen cmp2 os oe ns ne L.
  Proof.
    intros Hext [(m & Hm & Hlen) Hup]. split.
    - exists m. split; [|exact Hlen]. eapply CommonSub_ext; [exact Hext|exact Hm].
    - intros m' Hm'. apply Hup. eapply CommonSub_ext; [|exact Hm']. intros i j. symmetry. apply Hext.
  Qed.

  Lemma char_cmp_total (s1 s2 : list A) :
    CmpTotal (char_cmp eqb s1 s2) 0 (length s1) 0 (length s2).
  Proof.
    intros i j Hi Hj. unfold char_cmp, cmp_of, slice_lookup.
    destruct (nth_error s2 j) as [y|] eqn:Ey.
    - destruct (nth_error s1 i) as [x|] eqn:Ex.
      + eexists. reflexivity.
      + apply nth_error_None in Ex. lia.
    - apply nth_error_None in Ey. lia.
  Qed.

  Lemma diff_ratio_frac ops N M L :
    diff_ratio ops N M = (if N + M =? 0 then (1, 1) else (2 * L, N + M)) ->
    diff_ratio ops N M = frac_pair (mk_frac L (N + M)).
  Proof. intros ->. unfold mk_frac. destruct (N + M =? 0); reflexivity. Qed.

  (* capture_diff (Myers, no deadline) over any oracles that agree pointwise
     with the character comparison *)
  Lemma capture_ratio_chars (s1 s2 : list A) dbg repair orc :
    (forall i j, o_on orc i j = char_cmp eqb s1 s2 i j) ->
    exists ops c,
      capture_diff Myers None dbg repair orc 0 (length s1) 0 (length s2) = Ok (ops, c) /\
      diff_ratio ops (length s1) (length s2) = frac_pair (ratio_nd eqb s1 s2).
  Proof.
    intros Hext.
    assert (Ha : Myers <> Patience) by discriminate.
    assert (Htot : CmpTotal (o_on orc) 0 (length s1) 0 (length s2)).
    { intros i j Hi Hj. rewrite Hext. apply char_cmp_total; assumption. }
    destruct (capture_no_panic Myers None dbg repair orc 0 (length s1) 0 (length s2) Ha
                (Nat.le_0_l _) (Nat.le_0_l _) Htot) as (ops & c & Hrun).
    exists ops, c. split; [exact Hrun|].
    pose proof (capture_minimal Myers dbg repair orc 0 (length s1) 0 (length s2) Ha
                  (Nat.le_0_l _) (Nat.le_0_l _) Htot ops c
                  (lcs_len (char_cmp eqb s1 s2) 0 (length s1) 0 (length s2)) Hrun) as Hmin.
    destruct Hmin as (_ & _ & Hratio).
    { eapply IsLcsLen_ext; [|apply lcs_len_correct]. intros i j. symmetry. apply Hext. }
    rewrite !Nat.sub_0_r in Hratio. unfold ratio_nd. apply diff_ratio_frac, Hratio.
  Qed.

  (* TextDiff::from_slices(seq1, seq2).ratio(): default algorithm (Myers), no
     deadline, both branches of the 100-token switch.  The text diff does not
     panic and its ratio, in the (numerator, denominator) convention of
     [diff_ratio], is [ratio_nd] — i.e. 2 L / (N + M), or 1.0 when N + M = 0. *)
  Theorem textdiff_ratio (s1 s2 : list A) dbg repair :
    exists ops c,
      textdiff_ops Myers None dbg repair
        (oracles_of_items eqb (slice_lookup s1) (slice_lookup s2)) (length s1) (length s2)
        = Ok (ops, c) /\
      diff_ratio ops (length s1) (length s2) = frac_pair (ratio_nd eqb s1 s2).
  Proof.
    unfold textdiff_ops.
    destruct ((100 <? length s1) || (100 <? length s2)).
    - destruct (identify_lists_ok A eqb eqb_spec s1 s2) as (oids & nids & Hrun & Hl1 & Hl2).
      rewrite Hrun. cbn [bind Nat.add]. rewrite Hl1, Hl2.
      apply capture_ratio_chars.
      destruct (identify_oracles_pointwise A eqb eqb_spec s1 s2 oids nids Hrun) as [Hon _].
      intros i j. rewrite Hon. reflexivity.
    - apply capture_ratio_chars. intros i j. reflexivity.
  Qed.
End TextRatio.

Print Assumptions filters_sound.
Print Assumptions close_matches_spec.
Print Assumptions close_matches_ranked.
Print Assumptions close_matches_ranking_exists.
Print Assumptions close_matches_any_heap_q.
Print Assumptions close_matches_ranked_ratio.
Print Assumptions close_matches_all.
Print Assumptions quick_new_distinct.
Print Assumptions quick_matches.
Print Assumptions textdiff_ratio.
