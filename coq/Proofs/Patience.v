(* Proofs/Patience.v — Patience diff (src/algorithms/patience.rs).
   PART 2: the raw call sequence is a valid walk and nothing panics, for EVERY
   clock, debug and release builds (C01 / C07): [patience_valid],
   [patience_no_panic].
   PART 3 (C15): every anchor pair reported by the outer Myers run over the two
   unique lists is paired by an Equal of the final script (every clock:
   [patience_anchors_logged]; no deadline: [patience_anchor_matched]) and,
   without deadline, their number is the LCS length of the unique lists
   ([patience_anchor_max]).

   Structure.
   - [PreInv] / [Respects_pre]: "the log grew by a prefix walk from a given
     cursor", a Respects-invariant of every logging world; [RawPre_trans];
     [myers_first_eq]: a Myers run whose first items match starts with an Equal
     at the range starts.
   - [advance_spec]: the while loop of Patience::equal.
   - [P A k l (ps, pl)]: Patience-level invariant — the recorded calls are a
     prefix walk from (os,ns) to the cursor (old_current, new_current); the
     cursor is (os,ns), or sits on the last processed anchor pair, whose
     unique-list indices are below (k,l), which matches and is not yet emitted.
     The ghost list A = anchor pairs processed so far; all but the last are
     already paired by a recorded Equal.
   - [anchor_step_spec] / [anchor_loop_spec]: one / len anchor pairs.
   - [J A u v u0 (rs, (ps, pl))]: invariant of the compound world
     Replace<Patience<plain>> indexed by the cursor (u,v) of the OUTER Myers run
     over the unique lists: Replace's pending state is the one of a valid walk
     ([Proofs.Replace.Inv]) and P holds at the first anchor not yet handed to
     the Patience hook.  [J_eq] [J_del] [J_ins] [J_fin] give, for each call of
     a valid outer walk, success of [emit], the next invariant and the next A.
   - Part 2: [JE] = J with A hidden; [Respects_JE], [EmitsUnder_JE];
     [myers_respects] / [myers_total_inv] (Proofs/PatienceGen.v).
   - Part 3: [JL] = J over [log_world RW] (Proofs/PatienceSim.v), A tied to the
     ghost log T of outer calls by  anchors_of T = A ++ pending;  the run over
     RW lifts to the logged run ([myers_log_lift]) and, without deadline, T is
     the stand-alone run's call sequence ([myers_log_plain]). *)
From Similar Require Import Model.Base Model.Utils Model.Myers Model.Hooks Model.Patience
  Spec.Script Spec.EditGraph Spec.SnakeSpec
  Proofs.Utils Proofs.WorldInv Proofs.Replace Proofs.MyersSweep Proofs.MyersSnake
  Proofs.MyersConquer Proofs.Unique Proofs.PatienceGen Proofs.PatienceSim.

Local Open Scope nat_scope.

(* ------------------------------------------------------------------ RawPre *)
Lemma RawPre_trans cmp is js i0s i j i0 a :
  RawPre cmp is js i0s i j i0 a ->
  forall i' j' i0' b,
    RawPre cmp i j i0 i' j' i0' b -> RawPre cmp is js i0s i' j' i0' (a ++ b).
Proof.
  intros Ha i' j' i0' b Hb.
  induction Hb as [|i1 j1 i01 l cs Hl Hseg H IH|i1 j1 i01 l cs Hl H IH
                   |i1 j1 i01 o l cs Hl Ho1 Ho2 H IH].
  - rewrite app_nil_r. exact Ha.
  - rewrite app_assoc. eapply RP_eq; eassumption.
  - rewrite app_assoc. eapply RP_del; eassumption.
  - rewrite app_assoc. eapply RP_ins; eassumption.
Qed.

(* the log of w is the log of wS followed by a prefix walk from (is,js,i0s) *)
Definition PreInv (cmp : cmpf) (is js i0s : nat) (wS : plain) (i j i0 : nat) (w : plain) : Prop :=
  exists ext, plain_calls w = plain_calls wS ++ ext /\ RawPre cmp is js i0s i j i0 ext.

Lemma PreInv_init cmp is js i0s wS : PreInv cmp is js i0s wS is js i0s wS.
Proof. exists []. split; [now rewrite app_nil_r|apply RP_nil]. Qed.

Lemma Respects_pre wd cmp is js i0s wS :
  Logging wd -> Respects wd cmp (PreInv cmp is js i0s wS).
Proof.
  intros HL. split.
  - intros i j i0 w b w' (body & Hb & Hp) H. exists body. split; [|exact Hp].
    unfold plain_calls in *. now rewrite (lg_probe wd HL w b w' H).
  - intros i j i0 w k (body & Hb & Hp). exists body. split; [|exact Hp].
    unfold plain_calls in *. now rewrite (lg_tick wd HL k w).
  - intros i j i0 w l w' (body & Hb & Hp) Hl Hseg H.
    exists (body ++ [CEq i j l]). split.
    + assert (Hc : CEq i j l <> CFin) by discriminate.
      rewrite (plain_calls_emit wd _ w w' HL Hc H), Hb. now rewrite app_assoc.
    + now apply RP_eq with (i0 := i0).
  - intros i j i0 w l w' (body & Hb & Hp) Hl H.
    exists (body ++ [CDel i l j]). split.
    + assert (Hc : CDel i l j <> CFin) by discriminate.
      rewrite (plain_calls_emit wd _ w w' HL Hc H), Hb. now rewrite app_assoc.
    + now apply RP_del.
  - intros i j i0 w o l w' (body & Hb & Hp) Hl Ho1 Ho2 H.
    exists (body ++ [CIns o j l]). split.
    + assert (Hc : CIns o j l <> CFin) by discriminate.
      rewrite (plain_calls_emit wd _ w w' HL Hc H), Hb. now rewrite app_assoc.
    + now apply RP_ins.
Qed.

(* a Myers run from an invariant state, any run start: success + invariant *)
Lemma myers_run {W} (wd : world W) cmp I os oe ns ne i0 w :
  Respects wd cmp I -> EmitTotal wd ->
  os <= oe -> ns <= ne -> CmpTotal cmp os oe ns ne ->
  i0 <= os -> I os ns i0 w ->
  exists w' w'' i0',
    myers_diff wd cmp os oe ns ne w = Ok w' /\
    i0' <= oe /\ I oe ne i0' w'' /\ emit wd CFin w'' = Ok w'.
Proof.
  intros HR HE Hoe Hne Htot Hi0 HI.
  destruct (myers_total wd cmp os oe ns ne w HE (snake_spec _ wd cmp) Hoe Hne Htot) as [w' Hm].
  destruct (myers_respects_gen wd cmp I HR (snake_spec _ wd cmp) os oe ns ne i0 w w'
              Hoe Hne Htot Hi0 HI Hm) as (w'' & i0' & Hi0' & HI' & He).
  exists w', w'', i0'. auto.
Qed.

(* ----------------------------------------------------------------- advance *)
Lemma advance_spec {W} (wd : world W) cmp : forall fuel oi ni oc nc w,
  oi - oc <= fuel ->
  (forall i j, oc <= i < oi -> nc <= j < ni -> exists b, cmp i j = Ok b) ->
  exists d w',
    advance wd cmp fuel oi ni oc nc w = Ok (oc + d, nc + d, w') /\
    SegEq cmp oc nc d /\
    (oc <= oi -> oc + d <= oi) /\ (nc <= ni -> nc + d <= ni) /\
    PT wd w w' /\
    (oc < oi -> nc < ni -> cmp oc nc = Ok true -> 0 < d).
Proof.
  induction fuel as [|fuel IH]; intros oi ni oc nc w Hf Htot; cbn [advance].
  - exists 0, w. rewrite !Nat.add_0_r. split; [reflexivity|].
    split; [apply SegEq_0|]. split; [lia|]. split; [lia|]. split; [apply PT_refl|lia].
  - destruct ((oc <? oi) && (nc <? ni)) eqn:E.
    + apply Bool.andb_true_iff in E. destruct E as [E1 E2].
      apply Nat.ltb_lt in E1. apply Nat.ltb_lt in E2.
      destruct (Htot oc nc ltac:(lia) ltac:(lia)) as [b Hb]. rewrite Hb. cbn [bind].
      destruct b.
      * destruct (IH oi ni (S oc) (S nc) (tick wd 1 w)) as (d & w' & Ha & Hseg & Hd1 & Hd2 & Hpt & _).
        { lia. }
        { intros i j Hi Hj. apply Htot; lia. }
        exists (S d), w'. rewrite Ha.
        replace (S oc + d) with (oc + S d) by lia. replace (S nc + d) with (nc + S d) by lia.
        split; [reflexivity|]. split; [now apply SegEq_S|]. split; [lia|]. split; [lia|].
        split; [|lia].
        eapply PT_trans; [|exact Hpt]. apply PT_tick. apply PT_refl.
      * exists 0, (tick wd 1 w). rewrite !Nat.add_0_r. split; [reflexivity|].
        split; [apply SegEq_0|]. split; [lia|]. split; [lia|].
        split; [apply PT_tick; apply PT_refl|]. intros _ _ Ht. congruence.
    + exists 0, w. rewrite !Nat.add_0_r. split; [reflexivity|].
      split; [apply SegEq_0|]. split; [lia|]. split; [lia|]. split; [apply PT_refl|].
      intros H1 H2 _. apply Nat.ltb_lt in H1. apply Nat.ltb_lt in H2.
      rewrite H1, H2 in E. discriminate.
Qed.

(* --------------------------------------------------- shapes of replace_step *)
Definition IsChange (c : call) : Prop :=
  match c with CDel _ _ _ | CIns _ _ _ | CRep _ _ _ _ => True | _ => False end.

Lemma step_eq_shape dbg o n l s o1 s1 :
  replace_step dbg (CEq o n l) s = (o1, Some s1) ->
  Forall IsChange o1 /\
  r_eq s1 = match r_eq s with
            | Some (eo, en, el) => Some (eo, en, el + l)
            | None => Some (o, n, l)
            end.
Proof.
  destruct s as [d i e].
  destruct d as [[[dO dl] dn]|]; destruct i as [[[io inn] il]|]; cbn;
    intros H; inversion H; subst; (split; [repeat constructor|reflexivity]).
Qed.

Lemma step_del_shape dbg o l n s o1 s1 :
  replace_step dbg (CDel o l n) s = (o1, Some s1) ->
  o1 = fst (tr_flush_eq s) /\ r_eq s1 = None.
Proof.
  destruct s as [d i e].
  destruct e as [[[eo en] el]|]; destruct d as [[[dO dl] dn]|]; cbn;
    try destruct (dbg && negb (o =? dO + dl)); intros H; inversion H; auto.
Qed.

Lemma step_ins_shape dbg o n l s o1 s1 :
  replace_step dbg (CIns o n l) s = (o1, Some s1) ->
  o1 = fst (tr_flush_eq s) /\ r_eq s1 = None.
Proof.
  destruct s as [d i e].
  destruct e as [[[eo en] el]|]; destruct i as [[[io inn] il]|]; cbn;
    try destruct (dbg && negb (inn + il =? n)); intros H; inversion H; auto.
Qed.

Lemma step_fin_shape dbg s out s2 :
  replace_step dbg CFin s = (out, Some s2) ->
  exists o2, out = fst (tr_flush_eq s) ++ o2 ++ [CFin] /\ Forall IsChange o2.
Proof.
  destruct s as [d i e]. intros H.
  exists (fst (tr_flush_del_ins (Build_rstate d i None))). revert H.
  destruct e as [[[eo en] el]|]; destruct d as [[[dO dl] dn]|]; destruct i as [[[io inn] il]|];
    cbn; intros H; inversion H; (split; [reflexivity|repeat constructor]).
Qed.

Lemma ucmp_true_inv cmp uo un a b :
  unique_cmp cmp uo un a b = Ok true ->
  exists x y, nth_error uo a = Some x /\ nth_error un b = Some y /\ cmp x y = Ok true.
Proof.
  unfold unique_cmp. destruct (nth_error uo a) as [x|]; [|discriminate].
  destruct (nth_error un b) as [y|]; [|discriminate]. intros H. exists x, y. auto.
Qed.

(* ----------------------------------------------------- the recording hook *)
Lemma PT_plain_log dl w w' : PT (plain_world dl) w w' -> p_log w' = p_log w.
Proof.
  intros H. induction H as [w|w w1 b w2 H IH Hp|w w1 k H IH].
  - reflexivity.
  - rewrite (lg_probe _ (Logging_plain dl) _ _ _ Hp). exact IH.
  - rewrite (lg_tick _ (Logging_plain dl)). exact IH.
Qed.

(* when the first items match, the first call of a Myers run is an Equal that
   starts at the range starts (the common prefix) *)
Lemma myers_first_eq dl cmp os oe ns ne w w' :
  os < oe -> ns < ne -> CmpTotal cmp os oe ns ne -> cmp os ns = Ok true ->
  myers_diff (plain_world dl) cmp os oe ns ne w = Ok w' ->
  exists p rest, 0 < p /\ plain_calls w' = plain_calls w ++ CEq os ns p :: rest.
Proof.
  intros Hoe Hne Htot Hc H.
  apply myers_diff_inv in H. destruct H as (vf' & vb' & w'' & Hq & He).
  unfold myers_fuel in Hq.
  replace (oe - os + (ne - ns) + 2) with (S (oe - os + (ne - ns) + 1)) in Hq by lia.
  apply conquer_S_iff in Hq.
  destruct Hq as [p w1 s vf1 vb1 w3 w4 Hp Hw1 Hs Hso Hsn Hm Hw4].
  destruct (strip_facts cmp os oe ns ne p s ltac:(lia) ltac:(lia) Hp Hs)
    as (Hp1 & Hp2 & Hseg1 & Hs1 & Hs2 & Hseg2 & Hstr).
  assert (Hp0 : 0 < p).
  { destruct p as [|p]; [|lia]. exfalso.
    apply common_prefix_len_spec in Hp. destruct Hp as (_ & _ & _ & Hstop).
    rewrite !Nat.add_0_r in Hstop. rewrite Hstop in Hc; [discriminate|lia|lia]. }
  unfold emit_eq_opt in Hw1. apply Nat.ltb_lt in Hp0. rewrite Hp0 in Hw1.
  apply Nat.ltb_lt in Hp0.
  assert (Hlog1 : plain_calls w1 = plain_calls w ++ [CEq os ns p]).
  { cbn [emit plain_world] in Hw1. inversion Hw1. reflexivity. }
  set (md := max_d (oe - os) (ne - ns)) in *.
  pose (I := PreInv cmp (os + p) (ns + p) (os + p) w1).
  assert (HR : Respects (plain_world dl) cmp I)
    by (apply Respects_pre; apply Logging_plain).
  pose proof (snake_spec _ (plain_world dl) cmp) as HS.
  destruct (mid_inv (plain_world dl) cmp I HR HS md (oe - os + (ne - ns) + 1)
              (conquer_inv_at (plain_world dl) cmp I HR HS md (oe - os + (ne - ns) + 1))
              (os + p) (oe - s) (ns + p) (ne - s) (v_new md) (v_new md)
              (tick (plain_world dl) (scan_cmps (os + p) oe (ns + p) ne s) w1)
              (os + p) vf1 vb1 w3)
    as (i2 & Hi2 & HI2 & _ & _); try assumption; try lia.
  { eapply CmpTotal_sub; [exact Htot|lia..]. }
  { apply VOk_v_new. }
  { apply VOk_v_new. }
  { apply max_d_mono; lia. }
  { apply (rs_tick _ cmp I HR). apply PreInv_init. }
  destruct (emit_eq_opt_inv (plain_world dl) cmp I HR _ _ _ _ _ _ HI2 Hseg2 Hi2 Hw4)
    as (i3 & _ & (ext & Hlog4 & _)).
  exists p, (ext ++ [CFin]). split; [exact Hp0|].
  cbn [emit plain_world] in He. inversion He.
  unfold plain_calls in *. cbn [p_log rev]. rewrite Hlog4, Hlog1.
  rewrite <- !app_assoc. reflexivity.
Qed.

(* ------------------------------------------------- anchors of a call list *)
(* index pairs (into the two unique lists) matched by equal(u, v, l) *)
Fixpoint upairs (u v l : nat) : list (nat * nat) :=
  match l with
  | 0 => []
  | S l' => (u, v) :: upairs (S u) (S v) l'
  end.

Definition anchors_of (cs : list call) : list (nat * nat) :=
  flat_map (fun c => match c with CEq u v l => upairs u v l | _ => [] end) cs.

Lemma upairs_app : forall l1 l2 u v,
  upairs u v (l1 + l2) = upairs u v l1 ++ upairs (u + l1) (v + l1) l2.
Proof.
  induction l1 as [|l1 IH]; intros l2 u v; cbn [upairs Nat.add app].
  - now rewrite !Nat.add_0_r.
  - rewrite IH. replace (S u + l1) with (u + S l1) by lia.
    replace (S v + l1) with (v + S l1) by lia. reflexivity.
Qed.

Lemma In_upairs a b : forall l u v,
  In (a, b) (upairs u v l) <-> exists t, t < l /\ a = u + t /\ b = v + t.
Proof.
  induction l as [|l IH]; intros u v; cbn [upairs In].
  - split; [intros []|intros (t & Ht & _); lia].
  - rewrite IH. split.
    + intros [H|(t & Ht & -> & ->)].
      * inversion H; subst. exists 0. repeat split; lia.
      * exists (S t). repeat split; lia.
    + intros (t & Ht & -> & ->). destruct t as [|t].
      * left. now rewrite !Nat.add_0_r.
      * right. exists t. repeat split; lia.
Qed.

Lemma upairs_length : forall l u v, length (upairs u v l) = l.
Proof. induction l as [|l IH]; intros u v; cbn [upairs length]; [reflexivity|now rewrite IH]. Qed.

Lemma anchors_of_app a b : anchors_of (a ++ b) = anchors_of a ++ anchors_of b.
Proof. unfold anchors_of. apply flat_map_app. Qed.

Lemma In_anchors_of a b cs :
  In (a, b) (anchors_of cs) <->
  exists u v l t, In (CEq u v l) cs /\ t < l /\ a = u + t /\ b = v + t.
Proof.
  unfold anchors_of. rewrite in_flat_map. split.
  - intros (c & Hc & Hin). destruct c as [u v l| | | |]; try destruct Hin.
    apply In_upairs in Hin. destruct Hin as (t & Ht & -> & ->).
    exists u, v, l, t. auto.
  - intros (u & v & l & t & Hc & Ht & -> & ->). exists (CEq u v l). split; [exact Hc|].
    apply In_upairs. exists t. auto.
Qed.

(* old[x] paired with new[y] inside an Equal of the script *)
Definition CoveredBy (x y : nat) (body : list call) : Prop :=
  exists o n len t, In (CEq o n len) body /\ t < len /\ o + t = x /\ n + t = y.

Lemma CoveredBy_incl x y body body' :
  incl body body' -> CoveredBy x y body -> CoveredBy x y body'.
Proof.
  intros Hinc (o & n & len & t & Hin & H). exists o, n, len, t. split; [now apply Hinc|exact H].
Qed.

Lemma Inv_eq_cursor cmp u v u0 rs eo en el :
  Inv cmp u v u0 rs -> r_eq rs = Some (eo, en, el) -> eo + el = u /\ en + el = v.
Proof.
  intros HI. destruct HI; cbn [r_eq]; intros Hreq; try discriminate.
  inversion Hreq; subst. auto.
Qed.

(* ====================================================================== *)
Section Patience.
  Variable dl : deadline.
  Variable dbg : bool.
  Variable cmp : cmpf.
  Variables uo un : list nat.
  Variables os oe ns ne : nat.
  Variable w0 : plain.           (* the caller's hook state at the start *)
  Hypothesis Hoe : os <= oe.
  Hypothesis Hne : ns <= ne.
  Hypothesis Htot : CmpTotal cmp os oe ns ne.
  Hypothesis Huo : Asc uo.
  Hypothesis Hun : Asc un.
  Hypothesis Huo_r : forall a x, nth_error uo a = Some x -> os <= x < oe.
  Hypothesis Hun_r : forall a x, nth_error un a = Some x -> ns <= x < ne.

  Definition PW : world (pstate * plain) := patience_world (plain_world dl) cmp uo un oe ne.
  Definition RW : world (rstate * (pstate * plain)) := replace_world PW dbg.
  Definition ucmp : cmpf := unique_cmp cmp uo un.

  (* the anchor pair with unique-list indices (a,b) is paired by an Equal *)
  Definition Covered (a b : nat) (body : list call) : Prop :=
    exists x y, nth_error uo a = Some x /\ nth_error un b = Some y /\ CoveredBy x y body.

  Lemma Covered_incl a b body body' :
    incl body body' -> Covered a b body -> Covered a b body'.
  Proof.
    intros Hinc (x & y & Hx & Hy & Hc). exists x, y. split; [exact Hx|]. split; [exact Hy|].
    eapply CoveredBy_incl; eassumption.
  Qed.

  (* the cursor is the range start (no anchor processed yet) or the last
     processed anchor pair, whose unique-list indices are below (k,l) *)
  Definition AtCursor (k l oc nc : nat) : Prop :=
    (oc = os /\ nc = ns) \/
    (exists k0 l0, k0 < k /\ l0 < l /\
                   nth_error uo k0 = Some oc /\ nth_error un l0 = Some nc).

  (* ... with the ghost list A of the anchor pairs processed so far: the last
     one is under the cursor, matches, and is not yet emitted; the earlier
     ones are covered by the calls recorded so far *)
  Definition CurA (A : list (nat * nat)) (k l oc nc : nat) (body : list call) : Prop :=
    (A = [] /\ oc = os /\ nc = ns) \/
    (exists A' k0 l0, A = A' ++ [(k0, l0)] /\ k0 < k /\ l0 < l /\
                      nth_error uo k0 = Some oc /\ nth_error un l0 = Some nc /\
                      cmp oc nc = Ok true /\
                      forall a b, In (a, b) A' -> Covered a b body).

  Lemma CurA_AtCursor A k l oc nc body : CurA A k l oc nc body -> AtCursor k l oc nc.
  Proof.
    intros [(_ & H1 & H2)|(A' & k0 & l0 & _ & H1 & H2 & H3 & H4 & _)]; [now left|].
    right. exists k0, l0. auto.
  Qed.

  Lemma CurA_mono A k l k' l' oc nc body :
    k <= k' -> l <= l' -> CurA A k l oc nc body -> CurA A k' l' oc nc body.
  Proof.
    intros Hk Hl [H|(A' & k0 & l0 & HA & Hk0 & Hl0 & H)]; [now left|].
    right. exists A', k0, l0. split; [exact HA|]. split; [lia|]. split; [lia|exact H].
  Qed.

  Lemma AtCursor_bounds k l oc nc :
    AtCursor k l oc nc -> os <= oc <= oe /\ ns <= nc <= ne.
  Proof.
    intros [[-> ->]|(k0 & l0 & _ & _ & H1 & H2)]; [lia|].
    apply Huo_r in H1. apply Hun_r in H2. lia.
  Qed.

  Lemma AtCursor_le k l oc nc k' l' x y :
    AtCursor k l oc nc -> k <= k' -> l <= l' ->
    nth_error uo k' = Some x -> nth_error un l' = Some y -> oc <= x /\ nc <= y.
  Proof.
    intros [[-> ->]|(k0 & l0 & Hk0 & Hl0 & H1 & H2)] Hk Hl Hx Hy.
    - apply Huo_r in Hx. apply Hun_r in Hy. lia.
    - pose proof (Huo k0 k' oc x ltac:(lia) H1 Hx).
      pose proof (Hun l0 l' nc y ltac:(lia) H2 Hy). lia.
  Qed.

  (* Patience-level invariant *)
  Definition P (A : list (nat * nat)) (k l : nat) (sw : pstate * plain) : Prop :=
    exists body c0,
      plain_calls (snd sw) = plain_calls w0 ++ body /\
      RawPre cmp os ns os (old_current (fst sw)) (new_current (fst sw)) c0 body /\
      c0 <= old_current (fst sw) /\
      CurA A k l (old_current (fst sw)) (new_current (fst sw)) body.

  Lemma P_mono A k l k' l' sw : k <= k' -> l <= l' -> P A k l sw -> P A k' l' sw.
  Proof.
    intros Hk Hl (body & c0 & H1 & H2 & H3 & H4). exists body, c0.
    repeat split; try assumption. eapply CurA_mono; eassumption.
  Qed.

  Lemma P_log A k l ps pl pl' : p_log pl' = p_log pl -> P A k l (ps, pl) -> P A k l (ps, pl').
  Proof.
    intros Hlog (body & c0 & H1 & H2 & H3 & H4). exists body, c0. cbn [fst snd] in *.
    repeat split; try assumption. unfold plain_calls in *. now rewrite Hlog.
  Qed.

  Lemma P_init : P [] 0 0 ({| old_current := os; new_current := ns |}, w0).
  Proof.
    exists [], os. cbn [fst snd old_current new_current].
    split; [now rewrite app_nil_r|]. split; [apply RP_nil|]. split; [lia|]. now left.
  Qed.

  (* ---------------------------------------------------------- one anchor *)
  Lemma anchor_step_spec A k l ps pl oi ni :
    P A k l (ps, pl) -> nth_error uo k = Some oi -> nth_error un l = Some ni ->
    cmp oi ni = Ok true ->
    exists ps' pl',
      anchor_step (plain_world dl) cmp uo un k l (ps, pl) = Ok (ps', pl') /\
      P (A ++ [(k, l)]) (S k) (S l) (ps', pl').
  Proof.
    intros (body & c0 & Hlog & Hpre & Hc0 & Hcur) Hk Hl Hmatch. cbn [fst snd] in *.
    unfold anchor_step. rewrite Hk, Hl. cbn [of_option bind].
    set (oc := old_current ps) in *. set (nc := new_current ps) in *.
    pose proof (CurA_AtCursor _ _ _ _ _ _ Hcur) as Hat.
    destruct (AtCursor_bounds _ _ _ _ Hat) as [Hoc Hnc].
    destruct (AtCursor_le _ _ _ _ k l oi ni Hat (le_n _) (le_n _) Hk Hl) as [Hoi Hni].
    pose proof (Huo_r _ _ Hk) as Hoir. pose proof (Hun_r _ _ Hl) as Hnir.
    destruct (advance_spec (plain_world dl) cmp (oi - oc) oi ni oc nc pl (le_n _))
      as (d & w1 & Hadv & Hseg & Hd1 & Hd2 & Hpt & Hpos).
    { intros i j Hi Hj. apply Htot; lia. }
    specialize (Hd1 Hoi). specialize (Hd2 Hni).
    rewrite Hadv. cbn [bind].
    pose proof (PT_plain_log _ _ _ Hpt) as Hlog1.
    (* the CEq for the common run *)
    assert (HE1 : exists w2 i1 e1,
               (if oc <? oc + d then emit (plain_world dl) (CEq oc nc (oc + d - oc)) w1
                else Ok w1) = Ok w2 /\
               plain_calls w2 = plain_calls pl ++ e1 /\
               RawPre cmp oc nc c0 (oc + d) (nc + d) i1 e1 /\
               i1 <= oc + d /\ (0 < d -> In (CEq oc nc d) e1)).
    { destruct (oc <? oc + d) eqn:E.
      - apply Nat.ltb_lt in E. replace (oc + d - oc) with d by lia.
        eexists. exists (oc + d), [CEq oc nc d]. split; [reflexivity|].
        split; [unfold plain_calls; cbn [p_log rev]; now rewrite Hlog1|].
        split; [apply (RP_eq cmp oc nc c0 oc nc c0 d []); [lia|exact Hseg|apply RP_nil]|].
        split; [lia|]. intros _. now left.
      - apply Nat.ltb_ge in E. assert (d = 0) by lia. subst d.
        exists w1, c0, []. rewrite !Nat.add_0_r. split; [reflexivity|].
        split; [unfold plain_calls; rewrite Hlog1; now rewrite app_nil_r|].
        split; [apply RP_nil|]. split; [lia|lia]. }
    destruct HE1 as (w2 & i1 & e1 & He & Hlog2 & Hpre1 & Hi1 & Hin1). rewrite He. cbn [bind].
    (* the inner diff on the gap *)
    pose (I := PreInv cmp (oc + d) (nc + d) i1 w2).
    assert (HRn : Respects (no_finish (plain_world dl)) cmp I)
      by (apply Respects_pre; apply Logging_no_finish).
    destruct (myers_run (no_finish (plain_world dl)) cmp I (oc + d) oi (nc + d) ni i1 w2 HRn
                (EmitTotal_no_finish dl) Hd1 Hd2)
      as (w3 & w3' & i2 & Hm & Hi2 & HI3 & Hfin); try assumption.
    { eapply CmpTotal_sub; [exact Htot|lia..]. }
    { apply PreInv_init. }
    rewrite Hm. cbn [bind].
    cbn [emit no_finish] in Hfin. inversion Hfin; subst w3'. clear Hfin.
    eexists. eexists. split; [reflexivity|].
    destruct HI3 as (ext & Hlog3 & Hpre3).
    exists (body ++ e1 ++ ext), i2. cbn [fst snd old_current new_current].
    split; [rewrite Hlog3, Hlog2, Hlog; now rewrite !app_assoc|].
    split; [eapply RawPre_trans; [exact Hpre|]; eapply RawPre_trans; eassumption|].
    split; [exact Hi2|].
    right. exists A, k, l. repeat split; try assumption; try lia.
    intros a b Hin.
    destruct Hcur as [(-> & _)|(A' & k0 & l0 & -> & Hk0 & Hl0 & Hx0 & Hy0 & Hc0' & Hcov)];
      [destruct Hin|].
    apply in_app_or in Hin. destruct Hin as [Hin|[Hin|[]]].
    - eapply Covered_incl; [|exact (Hcov a b Hin)]. apply incl_appl. apply incl_refl.
    - inversion Hin; subst a b. exists oc, nc. split; [exact Hx0|]. split; [exact Hy0|].
      pose proof (Huo k0 k oc oi Hk0 Hx0 Hk). pose proof (Hun l0 l nc ni Hl0 Hy0 Hl).
      exists oc, nc, d, 0. rewrite !Nat.add_0_r.
      assert (Hd : 0 < d) by (apply Hpos; assumption).
      split; [|auto]. apply in_or_app. right. apply in_or_app. left. now apply Hin1.
  Qed.

  Lemma anchor_loop_spec : forall len A k l sw,
    P A k l sw -> SegEq ucmp k l len ->
    exists sw',
      anchor_loop (plain_world dl) cmp uo un len k l sw = Ok sw' /\
      P (A ++ upairs k l len) (k + len) (l + len) sw'.
  Proof.
    induction len as [|len IH]; intros A k l sw HP Hseg; cbn [anchor_loop upairs].
    - exists sw. rewrite !Nat.add_0_r, app_nil_r. auto.
    - destruct sw as [ps pl].
      destruct (ucmp_true_inv cmp uo un k l) as (oi & ni & Hk & Hl & Hmatch).
      { specialize (Hseg 0 ltac:(lia)). now rewrite !Nat.add_0_r in Hseg. }
      destruct (anchor_step_spec A k l ps pl oi ni HP Hk Hl Hmatch) as (ps' & pl' & Hs & HP').
      rewrite Hs. cbn [bind].
      destruct (IH (A ++ [(k, l)]) (S k) (S l) (ps', pl') HP') as (sw' & Hl' & HP'').
      { intros t Ht. replace (S k + t) with (k + S t) by lia.
        replace (S l + t) with (l + S t) by lia. apply Hseg. lia. }
      exists sw'. split; [exact Hl'|].
      replace (k + S len) with (S k + len) by lia.
      replace (l + S len) with (S l + len) by lia.
      rewrite <- app_assoc in HP''. exact HP''.
  Qed.

  (* ------------------------------------------------ the Patience hook (PW) *)
  Lemma PW_changes o sw : Forall IsChange o -> emit_all PW o sw = Ok sw.
  Proof.
    induction 1 as [|c o Hc Ho IH]; cbn [emit_all]; [reflexivity|].
    destruct c; try contradiction; cbn [emit PW patience_world patience_emit bind]; exact IH.
  Qed.

  Definition ek (rs : rstate) (u : nat) : nat :=
    match r_eq rs with Some (eo, _, _) => eo | None => u end.
  Definition el (rs : rstate) (v : nat) : nat :=
    match r_eq rs with Some (_, en, _) => en | None => v end.
  (* anchor pairs of the pending equal: received by Replace, not yet by Patience *)
  Definition pend (rs : rstate) : list (nat * nat) :=
    match r_eq rs with Some (eo, en, el0) => upairs eo en el0 | None => [] end.

  (* handing the pending equal (if any) to the Patience hook *)
  Lemma PW_flush A u v u0 rs sw :
    Inv ucmp u v u0 rs -> P A (ek rs u) (el rs v) sw ->
    exists sw', emit_all PW (fst (tr_flush_eq rs)) sw = Ok sw' /\ P (A ++ pend rs) u v sw'.
  Proof.
    intros HI HP.
    destruct HI as [Hi0|eo en el0 Hel Heo Hen Hpseg Hi0|dl0 Hdl Hdo|inn il Hil Hi0 Hinn
                   |dl0 dn io inn il Hdl Hil Hdo Hinn];
      cbn [tr_flush_eq r_eq fst ek el pend emit_all] in *;
      try (exists sw; rewrite app_nil_r; auto; fail).
    destruct (anchor_loop_spec el0 A eo en sw HP Hpseg) as (sw' & Hl & HP').
    exists sw'. cbn [emit PW patience_world patience_emit]. rewrite Hl. cbn [bind].
    split; [reflexivity|]. now rewrite Heo, Hen in HP'.
  Qed.

  (* Patience::finish from the cursor *)
  Lemma PW_finish A k l ps pl :
    P A k l (ps, pl) ->
    exists pl' body,
      emit PW CFin (ps, pl) = Ok (ps, pl') /\
      plain_calls pl' = plain_calls w0 ++ body ++ [CFin] /\
      RawWalk cmp oe ne os ns os body /\
      forall a b, In (a, b) A -> Covered a b body.
  Proof.
    intros (body & c0 & Hlog & Hpre & Hc0 & Hcur). cbn [fst snd] in *.
    cbn [emit PW patience_world patience_emit].
    set (oc := old_current ps) in *. set (nc := new_current ps) in *.
    pose proof (CurA_AtCursor _ _ _ _ _ _ Hcur) as Hat.
    destruct (AtCursor_bounds _ _ _ _ Hat) as [Hoc Hnc].
    pose (I := PreInv cmp oc nc c0 pl).
    assert (HRp : Respects (plain_world dl) cmp I)
      by (apply Respects_pre; apply Logging_plain).
    assert (Htot' : CmpTotal cmp oc oe nc ne) by (eapply CmpTotal_sub; [exact Htot|lia..]).
    destruct (myers_run (plain_world dl) cmp I oc oe nc ne c0 pl HRp (EmitTotal_plain dl))
      as (w3 & w3' & i2 & Hm & Hi2 & HI3 & Hfin); try assumption; try lia.
    { apply PreInv_init. }
    rewrite Hm. cbn [bind].
    destruct HI3 as (ext & Hlog3 & Hpre3).
    cbn [emit plain_world] in Hfin. injection Hfin as Hw3.
    exists w3, (body ++ ext). split; [reflexivity|]. split; [|split].
    - rewrite <- Hw3. unfold plain_calls in *. cbn [p_log rev]. rewrite Hlog3, Hlog.
      now rewrite !app_assoc.
    - eapply RawPre_walk. eapply RawPre_trans; eassumption.
    - intros a b Hin.
      destruct Hcur as [(-> & _)|(A' & k0 & l0 & -> & Hk0 & Hl0 & Hx0 & Hy0 & Hc0' & Hcov)];
        [destruct Hin|].
      apply in_app_or in Hin. destruct Hin as [Hin|[Hin|[]]].
      + eapply Covered_incl; [|exact (Hcov a b Hin)]. apply incl_appl. apply incl_refl.
      + inversion Hin; subst a b. exists oc, nc. split; [exact Hx0|]. split; [exact Hy0|].
        pose proof (Huo_r _ _ Hx0). pose proof (Hun_r _ _ Hy0).
        destruct (myers_first_eq dl cmp oc oe nc ne pl w3 ltac:(lia) ltac:(lia) Htot' Hc0' Hm)
          as (p & rest & Hp & Hlogp).
        assert (Hext : ext ++ [CFin] = CEq oc nc p :: rest).
        { apply (app_inv_head (plain_calls pl)). rewrite <- Hlogp, <- Hw3.
          unfold plain_calls in *. cbn [p_log rev]. rewrite Hlog3. now rewrite app_assoc. }
        exists oc, nc, p, 0. rewrite !Nat.add_0_r. split; [|auto].
        apply in_or_app. right.
        assert (Hin' : In (CEq oc nc p) (ext ++ [CFin])) by (rewrite Hext; now left).
        apply in_app_or in Hin'. destruct Hin' as [Hin'|[Hin'|[]]]; [exact Hin'|discriminate].
  Qed.

  (* ------------------------------------- the compound world Replace<Patience> *)
  Lemma RW_emit c rs sw : emit RW c (rs, sw) = run_trace PW (replace_step dbg c rs) sw.
  Proof. exact (replace_emit_step PW dbg c rs sw). Qed.

  Lemma RW_probe rs ps pl b w' :
    probe RW (rs, (ps, pl)) = (b, w') ->
    exists pl', w' = (rs, (ps, pl')) /\ p_log pl' = p_log pl.
  Proof.
    unfold RW, PW, replace_world, patience_world, lift_probe, plain_world.
    cbn [probe fst snd].
    destruct (deadline_exceeded dl (p_ctr pl)) as [b' c]. intros H. inversion H.
    eexists. split; reflexivity.
  Qed.

  Definition J (A : list (nat * nat)) (u v u0 : nat) (w : rstate * (pstate * plain)) : Prop :=
    Inv ucmp u v u0 (fst w) /\ P A (ek (fst w) u) (el (fst w) v) (snd w).

  Definition start : rstate * (pstate * plain) :=
    (rstate0, ({| old_current := os; new_current := ns |}, w0)).

  Lemma J_init : J [] 0 0 0 start.
  Proof. split; cbn [fst snd start]; [now apply Inv_none|exact P_init]. Qed.

  Lemma J_probe A u v u0 w b w' :
    J A u v u0 w -> probe RW w = (b, w') -> J A u v u0 w' /\ fst w' = fst w.
  Proof.
    destruct w as [rs [ps pl]]. intros [HI HP] Hp. cbn [fst snd] in *.
    apply RW_probe in Hp. destruct Hp as (pl' & -> & Hlog). cbn [fst snd].
    split; [|reflexivity]. split; cbn [fst snd]; [exact HI|]. eapply P_log; eassumption.
  Qed.

  Lemma J_tick A u v u0 w k :
    J A u v u0 w -> J A u v u0 (tick RW k w) /\ fst (tick RW k w) = fst w.
  Proof.
    destruct w as [rs [ps pl]]. intros [HI HP]. cbn [fst snd] in *.
    split; [|reflexivity]. split; [exact HI|].
    cbn [fst snd tick RW replace_world lift_tick PW patience_world].
    eapply P_log; [|exact HP]. reflexivity.
  Qed.

  Lemma J_eq A u v u0 w l :
    J A u v u0 w -> 0 < l -> SegEq ucmp u v l ->
    exists w', emit RW (CEq u v l) w = Ok w' /\ J A (u + l) (v + l) (u + l) w' /\
               pend (fst w') = pend (fst w) ++ upairs u v l.
  Proof.
    destruct w as [rs sw]. intros [HI HP] Hl Hseg. cbn [fst snd] in *.
    destruct (step_eq ucmp (u + l) (v + l) u v u0 l rs HI Hl Hseg (le_n _) (le_n _))
      as (o1 & s1 & Hstep & HI1 & _ & _).
    destruct (step_eq_shape dbg _ _ _ _ _ _ (Hstep dbg)) as [Hch Hreq].
    exists (s1, sw). split; [|split].
    - rewrite RW_emit, (Hstep dbg). unfold run_trace. cbn [fst snd].
      rewrite (PW_changes _ _ Hch). reflexivity.
    - split; cbn [fst snd]; [exact HI1|].
      unfold ek, el in *. rewrite Hreq. destruct (r_eq rs) as [[[eo en] el0]|]; exact HP.
    - cbn [fst]. unfold pend. rewrite Hreq.
      destruct (r_eq rs) as [[[eo en] el0]|] eqn:Er; [|reflexivity].
      destruct (Inv_eq_cursor _ _ _ _ _ _ _ _ HI Er) as [<- <-]. apply upairs_app.
  Qed.

  Lemma J_del A u v u0 w l :
    J A u v u0 w -> 0 < l ->
    exists w', emit RW (CDel u l v) w = Ok w' /\ J (A ++ pend (fst w)) (u + l) v u0 w' /\
               pend (fst w') = [].
  Proof.
    destruct w as [rs sw]. intros [HI HP] Hl. cbn [fst snd] in *.
    destruct (step_del ucmp 0 0 u v u0 l rs HI Hl) as (o1 & s1 & Hstep & HI1 & _ & _).
    destruct (step_del_shape dbg _ _ _ _ _ _ (Hstep dbg)) as [Ho1 Hreq]. subst o1.
    destruct (PW_flush A u v u0 rs sw HI HP) as (sw' & Hfl & HP').
    exists (s1, sw'). split; [|split].
    - rewrite RW_emit, (Hstep dbg). unfold run_trace. cbn [fst snd]. rewrite Hfl. reflexivity.
    - split; cbn [fst snd]; [exact HI1|]. unfold ek, el. rewrite Hreq.
      eapply P_mono; [| |exact HP']; lia.
    - cbn [fst]. unfold pend. now rewrite Hreq.
  Qed.

  Lemma J_ins A u v u0 w o l :
    J A u v u0 w -> 0 < l -> u0 <= o -> o <= u ->
    exists w', emit RW (CIns o v l) w = Ok w' /\ J (A ++ pend (fst w)) u (v + l) u0 w' /\
               pend (fst w') = [].
  Proof.
    destruct w as [rs sw]. intros [HI HP] Hl Ho1 Ho2. cbn [fst snd] in *.
    destruct (step_ins ucmp 0 0 u v u0 o l rs HI Hl Ho1 Ho2) as (o1 & s1 & Hstep & HI1 & _ & _).
    destruct (step_ins_shape dbg _ _ _ _ _ _ (Hstep dbg)) as [Ho Hreq]. subst o1.
    destruct (PW_flush A u v u0 rs sw HI HP) as (sw' & Hfl & HP').
    exists (s1, sw'). split; [|split].
    - rewrite RW_emit, (Hstep dbg). unfold run_trace. cbn [fst snd]. rewrite Hfl. reflexivity.
    - split; cbn [fst snd]; [exact HI1|]. unfold ek, el. rewrite Hreq.
      eapply P_mono; [| |exact HP']; lia.
    - cbn [fst]. unfold pend. now rewrite Hreq.
  Qed.

  Lemma J_fin A u v u0 w :
    J A u v u0 w ->
    exists rs' ps' pl' body,
      emit RW CFin w = Ok (rs', (ps', pl')) /\
      plain_calls pl' = plain_calls w0 ++ body ++ [CFin] /\
      RawWalk cmp oe ne os ns os body /\
      forall a b, In (a, b) (A ++ pend (fst w)) -> Covered a b body.
  Proof.
    destruct w as [rs sw]. intros [HI HP]. cbn [fst snd] in *.
    destruct (step_fin ucmp u v u0 rs HI) as (out & Hstep & _).
    destruct (step_fin_shape dbg _ _ _ (Hstep dbg)) as (o2 & Hout & Hch). subst out.
    destruct (PW_flush A u v u0 rs sw HI HP) as ([ps' pl1] & Hfl & HP').
    destruct (PW_finish _ u v ps' pl1 HP') as (pl' & body & Hfin & Hlog & Hwalk & Hcov).
    exists rstate0, ps', pl', body. split; [|auto].
    rewrite RW_emit, (Hstep dbg). unfold run_trace. cbn [fst snd].
    rewrite emit_all_app, Hfl. cbn [bind].
    rewrite emit_all_app, (PW_changes _ _ Hch). cbn [bind emit_all].
    rewrite Hfin. reflexivity.
  Qed.

  (* ---- Part 2: the invariant with the ghost list hidden ---- *)
  Definition JE (u v u0 : nat) (w : rstate * (pstate * plain)) : Prop :=
    exists A, J A u v u0 w.

  Lemma Respects_JE : Respects RW ucmp JE.
  Proof.
    split.
    - intros u v u0 w b w' [A HJ] Hp. exists A. exact (proj1 (J_probe _ _ _ _ _ _ _ HJ Hp)).
    - intros u v u0 w k [A HJ]. exists A. exact (proj1 (J_tick _ _ _ _ _ k HJ)).
    - intros u v u0 w l w' [A HJ] Hl Hseg He.
      destruct (J_eq A u v u0 w l HJ Hl Hseg) as (w'' & He' & HJ' & _).
      exists A. congruence.
    - intros u v u0 w l w' [A HJ] Hl He.
      destruct (J_del A u v u0 w l HJ Hl) as (w'' & He' & HJ' & _).
      eexists. replace w' with w'' by congruence. exact HJ'.
    - intros u v u0 w o l w' [A HJ] Hl Ho1 Ho2 He.
      destruct (J_ins A u v u0 w o l HJ Hl Ho1 Ho2) as (w'' & He' & HJ' & _).
      eexists. replace w' with w'' by congruence. exact HJ'.
  Qed.

  Lemma EmitsUnder_JE : EmitsUnder RW ucmp JE.
  Proof.
    split.
    - intros u v u0 w l [A HJ] Hl Hseg.
      destruct (J_eq A u v u0 w l HJ Hl Hseg) as (w' & He & _). eauto.
    - intros u v u0 w l [A HJ] Hl.
      destruct (J_del A u v u0 w l HJ Hl) as (w' & He & _). eauto.
    - intros u v u0 w o l [A HJ] Hl Ho1 Ho2.
      destruct (J_ins A u v u0 w o l HJ Hl Ho1 Ho2) as (w' & He & _). eauto.
  Qed.

  Lemma CmpTotal_ucmp : CmpTotal ucmp 0 (length uo) 0 (length un).
  Proof.
    intros i j Hi Hj. unfold ucmp, unique_cmp.
    destruct (nth_error uo i) as [x|] eqn:Ex; [|apply nth_error_None in Ex; lia].
    destruct (nth_error un j) as [y|] eqn:Ey; [|apply nth_error_None in Ey; lia].
    apply Huo_r in Ex. apply Hun_r in Ey. apply Htot; lia.
  Qed.

  Lemma outer_valid rs' ps' w1 :
    myers_diff RW ucmp 0 (length uo) 0 (length un) start = Ok (rs', (ps', w1)) ->
    exists cs, plain_calls w1 = plain_calls w0 ++ cs /\ RawStrong cmp os oe ns ne cs.
  Proof.
    intros H.
    destruct (myers_respects RW ucmp JE 0 (length uo) 0 (length un) start _
                Respects_JE (snake_spec _ RW ucmp) (Nat.le_0_l _) (Nat.le_0_l _)
                CmpTotal_ucmp (ex_intro _ [] J_init) H) as (w'' & u0 & _ & [A HJ] & Hfin).
    destruct (J_fin _ _ _ _ _ HJ) as (rs2 & ps2 & pl2 & body & Hfin' & Hlog & Hwalk & _).
    rewrite Hfin' in Hfin. inversion Hfin; subst.
    exists (body ++ [CFin]). split; [exact Hlog|]. exists body. auto.
  Qed.

  Lemma outer_total :
    exists rs' ps' w1,
      myers_diff RW ucmp 0 (length uo) 0 (length un) start = Ok (rs', (ps', w1)).
  Proof.
    destruct (myers_total_inv RW ucmp JE 0 (length uo) 0 (length un) start 0
                Respects_JE (snake_spec _ RW ucmp) EmitsUnder_JE (Nat.le_0_l _) (Nat.le_0_l _)
                CmpTotal_ucmp (le_n _) (ex_intro _ [] J_init)) as (w'' & u0 & _ & [A HJ] & Hm).
    destruct (J_fin _ _ _ _ _ HJ) as (rs2 & ps2 & pl2 & body & Hfin' & _).
    exists rs2, ps2, pl2. rewrite Hm. exact Hfin'.
  Qed.

  (* ---- Part 3: the same run with a ghost log of the OUTER calls ---- *)
  Definition LW : world (list call * (rstate * (pstate * plain))) := log_world RW.

  (* the anchors reported so far are the processed ones followed by the pending ones *)
  Definition JL (u v u0 : nat) (tw : list call * (rstate * (pstate * plain))) : Prop :=
    exists A, J A u v u0 (snd tw) /\ anchors_of (rev (fst tw)) = A ++ pend (fst (snd tw)).

  Lemma Respects_JL : Respects LW ucmp JL.
  Proof.
    split.
    - intros u v u0 [T w] b tw' (A & HJ & HA) Hp. cbn [fst snd] in *.
      unfold LW in Hp. rewrite log_probe in Hp. inversion Hp; subst. clear Hp.
      destruct (J_probe A u v u0 w _ _ HJ (surjective_pairing _)) as [HJ' Hfst].
      exists A. split; [exact HJ'|].
      change (anchors_of (rev T) = A ++ pend (fst (snd (probe RW w)))). now rewrite Hfst.
    - intros u v u0 [T w] k (A & HJ & HA). cbn [fst snd] in *.
      destruct (J_tick A u v u0 w k HJ) as [HJ' Hfst].
      exists A. split; [exact HJ'|].
      change (anchors_of (rev T) = A ++ pend (fst (tick RW k w))). now rewrite Hfst.
    - intros u v u0 [T w] l [T' w'] (A & HJ & HA) Hl Hseg He. cbn [fst snd] in *.
      apply log_emit_inv in He. destruct He as [-> He].
      destruct (J_eq A u v u0 w l HJ Hl Hseg) as (w'' & He' & HJ' & Hpend).
      assert (w'' = w') by congruence. subst w''.
      exists A. cbn [fst snd rev]. split; [exact HJ'|].
      rewrite anchors_of_app, HA, Hpend. cbn [anchors_of flat_map].
      now rewrite app_nil_r, app_assoc.
    - intros u v u0 [T w] l [T' w'] (A & HJ & HA) Hl He. cbn [fst snd] in *.
      apply log_emit_inv in He. destruct He as [-> He].
      destruct (J_del A u v u0 w l HJ Hl) as (w'' & He' & HJ' & Hpend).
      assert (w'' = w') by congruence. subst w''.
      exists (A ++ pend (fst w)). cbn [fst snd rev]. split; [exact HJ'|].
      rewrite anchors_of_app, HA, Hpend. cbn [anchors_of flat_map]. reflexivity.
    - intros u v u0 [T w] o l [T' w'] (A & HJ & HA) Hl Ho1 Ho2 He. cbn [fst snd] in *.
      apply log_emit_inv in He. destruct He as [-> He].
      destruct (J_ins A u v u0 w o l HJ Hl Ho1 Ho2) as (w'' & He' & HJ' & Hpend).
      assert (w'' = w') by congruence. subst w''.
      exists (A ++ pend (fst w)). cbn [fst snd rev]. split; [exact HJ'|].
      rewrite anchors_of_app, HA, Hpend. cbn [anchors_of flat_map]. reflexivity.
  Qed.

  (* every clock: each anchor pair reported by the outer run is paired by an
     Equal of the final script *)
  Lemma outer_logged T rs' ps' w1 :
    myers_diff LW ucmp 0 (length uo) 0 (length un) ([], start) = Ok (T, (rs', (ps', w1))) ->
    exists cs,
      plain_calls w1 = plain_calls w0 ++ cs /\ RawStrong cmp os oe ns ne cs /\
      forall a b, In (a, b) (anchors_of (rev T)) -> Covered a b cs.
  Proof.
    intros H.
    assert (H0 : JL 0 0 0 ([], start)).
    { exists []. cbn [fst snd]. split; [exact J_init|reflexivity]. }
    destruct (myers_respects LW ucmp JL 0 (length uo) 0 (length un) ([], start) _
                Respects_JL (snake_spec _ LW ucmp) (Nat.le_0_l _) (Nat.le_0_l _)
                CmpTotal_ucmp H0 H) as ([T'' w''] & u0 & _ & (A & HJ & HA) & Hfin).
    cbn [fst snd] in *.
    apply log_emit_inv in Hfin. destruct Hfin as [-> Hfin].
    destruct (J_fin _ _ _ _ _ HJ) as (rs2 & ps2 & pl2 & body & Hfin' & Hlog & Hwalk & Hcov).
    rewrite Hfin' in Hfin. inversion Hfin; subst.
    exists (body ++ [CFin]). split; [exact Hlog|]. split; [exists body; auto|].
    intros a b Hin. cbn [rev] in Hin. rewrite anchors_of_app in Hin.
    cbn [anchors_of flat_map] in Hin. rewrite app_nil_r, HA in Hin.
    eapply Covered_incl; [|exact (Hcov a b Hin)]. apply incl_appl. apply incl_refl.
  Qed.

End Patience.

Lemma RW_no_deadline dbg cmp uo un oe ne x :
  fst (probe (RW None dbg cmp uo un oe ne) x) = false.
Proof. destruct x as [rs [ps pl]]. reflexivity. Qed.

(* ====================================================================== *)
(* PART 2, main theorems                                                   *)
(* ====================================================================== *)

(* C01 for Patience, every clock, debug and release builds.  No premise on
   [oo] / [nn]: an Ok result already means [unique] returned two ascending
   index lists inside the ranges, and nothing else about them is used. *)
Theorem patience_valid dl dbg cmp oo nn os oe ns ne w0 w1 :
  os <= oe -> ns <= ne -> CmpTotal cmp os oe ns ne ->
  patience_diff (plain_world dl) dbg cmp oo nn os oe ns ne w0 = Ok w1 ->
  exists cs, plain_calls w1 = plain_calls w0 ++ cs /\ RawStrong cmp os oe ns ne cs.
Proof.
  intros Hoe Hne Htot H. unfold patience_diff in H.
  apply bind_Ok_inv in H. destruct H as (uo & Huo & H).
  apply bind_Ok_inv in H. destruct H as (un & Hun & H).
  apply bind_Ok_inv in H. destruct H as ([rs' [ps' w1']] & Hm & H).
  inversion H; subst w1'. clear H.
  destruct (unique_asc oo os oe uo Huo) as [Ha1 Hr1].
  destruct (unique_asc nn ns ne un Hun) as [Ha2 Hr2].
  exact (outer_valid dl dbg cmp uo un os oe ns ne w0 Hoe Hne Htot Ha1 Ha2 Hr1 Hr2 rs' ps' w1 Hm).
Qed.

(* C07 for Patience: no panic, no fuel exhaustion, every clock *)
Theorem patience_no_panic dl dbg cmp oo nn os oe ns ne w0 :
  os <= oe -> ns <= ne -> CmpTotal cmp os oe ns ne ->
  SameTotal oo os oe -> SameTotal nn ns ne ->
  exists w1, patience_diff (plain_world dl) dbg cmp oo nn os oe ns ne w0 = Ok w1.
Proof.
  intros Hoe Hne Htot Hoo Hnn. unfold patience_diff.
  destruct (unique_total oo os oe Hoo) as [uo Huo].
  destruct (unique_total nn ns ne Hnn) as [un Hun].
  rewrite Huo, Hun. cbn [bind].
  destruct (unique_asc oo os oe uo Huo) as [Ha1 Hr1].
  destruct (unique_asc nn ns ne un Hun) as [Ha2 Hr2].
  destruct (outer_total dl dbg cmp uo un os oe ns ne w0 Hoe Hne Htot Ha1 Ha2 Hr1 Hr2)
    as (rs' & ps' & w1 & Hm).
  unfold RW, PW, ucmp, start in Hm. rewrite Hm. cbn [bind]. eauto.
Qed.

(* the two together, in one statement *)
Corollary patience_ok_valid dl dbg cmp oo nn os oe ns ne w0 :
  os <= oe -> ns <= ne -> CmpTotal cmp os oe ns ne ->
  SameTotal oo os oe -> SameTotal nn ns ne ->
  exists w1 cs,
    patience_diff (plain_world dl) dbg cmp oo nn os oe ns ne w0 = Ok w1 /\
    plain_calls w1 = plain_calls w0 ++ cs /\ RawStrong cmp os oe ns ne cs.
Proof.
  intros Hoe Hne Htot Hoo Hnn.
  destruct (patience_no_panic dl dbg cmp oo nn os oe ns ne w0 Hoe Hne Htot Hoo Hnn) as [w1 H].
  destruct (patience_valid dl dbg cmp oo nn os oe ns ne w0 w1 Hoe Hne Htot H) as (cs & H1 & H2).
  exists w1, cs. auto.
Qed.

(* ====================================================================== *)
(* PART 3, anchors (C15)                                                   *)
(* ====================================================================== *)

(* Every clock.  The run of patience_diff is the projection of a run whose
   outer Myers diff also records, in a ghost log T (most recent first), the
   calls it makes to Replace<Patience<..>>; every anchor pair inside an Equal
   of T is paired by an Equal of the final script. *)
Theorem patience_anchors_logged dl dbg cmp oo nn os oe ns ne w0 w1 uo un :
  os <= oe -> ns <= ne -> CmpTotal cmp os oe ns ne ->
  unique oo os oe = Ok uo -> unique nn ns ne = Ok un ->
  patience_diff (plain_world dl) dbg cmp oo nn os oe ns ne w0 = Ok w1 ->
  exists T rs' ps' cs,
    myers_diff (LW dl dbg cmp uo un oe ne) (unique_cmp cmp uo un)
               0 (length uo) 0 (length un) ([], start os ns w0) = Ok (T, (rs', (ps', w1))) /\
    plain_calls w1 = plain_calls w0 ++ cs /\ RawStrong cmp os oe ns ne cs /\
    forall a b, In (a, b) (anchors_of (rev T)) -> Covered uo un a b cs.
Proof.
  intros Hoe Hne Htot Huo Hun H. unfold patience_diff in H.
  rewrite Huo, Hun in H. cbn [bind] in H.
  apply bind_Ok_inv in H. destruct H as ([rs' [ps' w1']] & Hm & H).
  inversion H; subst w1'. clear H.
  destruct (unique_asc oo os oe uo Huo) as [Ha1 Hr1].
  destruct (unique_asc nn ns ne un Hun) as [Ha2 Hr2].
  destruct (myers_log_lift _ _ _ _ _ _ _ _ [] Hm) as [T HT].
  destruct (outer_logged dl dbg cmp uo un os oe ns ne w0 Hoe Hne Htot Ha1 Ha2 Hr1 Hr2
              T rs' ps' w1 HT) as (cs & Hlog & Hraw & Hcov).
  exists T, rs', ps', cs. auto.
Qed.

(* number of matched items of a walk *)
Lemma RawWalk_totals cmp oe ne i j i0 body :
  RawWalk cmp oe ne i j i0 body ->
  deleted (capture_calls body) + equal_total (capture_calls body) + i = oe /\
  inserted (capture_calls body) + equal_total (capture_calls body) + j = ne.
Proof.
  intros H. induction H as [i0|i j i0 l cs Hl Hseg Hr IH|i j i0 l cs Hl Hr IH
                            |i j i0 o l cs Hl Ho1 Ho2 Hr IH];
    cbn [capture_calls call_to_op].
  - cbn. lia.
  - rewrite deleted_Equal, inserted_Equal, equal_total_Equal. lia.
  - rewrite deleted_Delete, inserted_Delete, equal_total_Delete. lia.
  - rewrite deleted_Insert, inserted_Insert, equal_total_Insert. lia.
Qed.

Lemma anchors_length body : length (anchors_of body) = equal_total (capture_calls body).
Proof.
  induction body as [|c body IH]; [reflexivity|].
  destruct c as [o n l|o l n|o n l|o ol n nl|]; cbn [capture_calls call_to_op].
  - rewrite equal_total_Equal.
    change (anchors_of (CEq o n l :: body)) with (upairs o n l ++ anchors_of body).
    now rewrite app_length, upairs_length, IH.
  - rewrite equal_total_Delete. exact IH.
  - rewrite equal_total_Insert. exact IH.
  - rewrite equal_total_Replace. exact IH.
  - exact IH.
Qed.

(* the stand-alone Myers run on the two unique lists, without deadline, reports
   exactly LCS-many anchor pairs *)
Theorem unique_run_anchor_count cmp uo un os oe ns ne wT L :
  CmpTotal cmp os oe ns ne ->
  (forall a x, nth_error uo a = Some x -> os <= x < oe) ->
  (forall a x, nth_error un a = Some x -> ns <= x < ne) ->
  myers_diff (plain_world None) (unique_cmp cmp uo un) 0 (length uo) 0 (length un) plain0
  = Ok wT ->
  IsLcsLen (unique_cmp cmp uo un) 0 (length uo) 0 (length un) L ->
  length (anchors_of (plain_calls wT)) = L.
Proof.
  intros Htot Hr1 Hr2 Hm HL.
  assert (Htu : CmpTotal (unique_cmp cmp uo un) 0 (length uo) 0 (length un)).
  { intros i j Hi Hj. unfold unique_cmp.
    destruct (nth_error uo i) as [x|] eqn:Ex; [|apply nth_error_None in Ex; lia].
    destruct (nth_error un j) as [y|] eqn:Ey; [|apply nth_error_None in Ey; lia].
    apply Hr1 in Ex. apply Hr2 in Ey. apply Htot; lia. }
  pose proof (snake_spec _ (plain_world None) (unique_cmp cmp uo un)) as HS.
  destruct (myers_valid None _ 0 (length uo) 0 (length un) plain0 wT HS
              (Nat.le_0_l _) (Nat.le_0_l _) Htu Hm) as (cs & Hcs & body & -> & Hwalk).
  pose proof (myers_minimal_lcs _ 0 (length uo) 0 (length un) plain0 wT _ L HS
                (Nat.le_0_l _) (Nat.le_0_l _) Htu Hm Hcs HL) as Hmin.
  cbn [plain_calls plain0 p_log rev app] in Hcs. rewrite Hcs.
  rewrite capture_calls_app in Hmin. cbn [capture_calls call_to_op] in Hmin.
  rewrite app_nil_r in Hmin.
  destruct (RawWalk_totals _ _ _ _ _ _ _ Hwalk) as [Hd Hi].
  rewrite anchors_of_app. cbn [anchors_of flat_map]. rewrite app_nil_r, anchors_length. lia.
Qed.

(* No deadline.  T is now the call sequence of the stand-alone outer run. *)
Theorem patience_anchors dbg cmp oo nn os oe ns ne w0 w1 uo un :
  os <= oe -> ns <= ne -> CmpTotal cmp os oe ns ne ->
  unique oo os oe = Ok uo -> unique nn ns ne = Ok un ->
  patience_diff (plain_world None) dbg cmp oo nn os oe ns ne w0 = Ok w1 ->
  exists wT cs,
    myers_diff (plain_world None) (unique_cmp cmp uo un) 0 (length uo) 0 (length un) plain0
    = Ok wT /\
    plain_calls w1 = plain_calls w0 ++ cs /\ RawStrong cmp os oe ns ne cs /\
    (forall a b, In (a, b) (anchors_of (plain_calls wT)) ->
                 exists x y, nth_error uo a = Some x /\ nth_error un b = Some y /\
                             CoveredBy x y cs) /\
    (forall L, IsLcsLen (unique_cmp cmp uo un) 0 (length uo) 0 (length un) L ->
               length (anchors_of (plain_calls wT)) = L).
Proof.
  intros Hoe Hne Htot Huo Hun H.
  destruct (patience_anchors_logged None dbg cmp oo nn os oe ns ne w0 w1 uo un
              Hoe Hne Htot Huo Hun H) as (T & rs' & ps' & cs & HT & Hlog & Hraw & Hcov).
  destruct (myers_log_plain _ _ _ _ _ _ _ _ _ _ plain0
              (RW_no_deadline dbg cmp uo un oe ne) HT eq_refl)
    as (wT & HwT & HlogT).
  exists wT, cs. split; [exact HwT|]. split; [exact Hlog|]. split; [exact Hraw|].
  split.
  - intros a b Hin. unfold plain_calls in Hin. rewrite HlogT in Hin. exact (Hcov a b Hin).
  - intros L HL.
    destruct (unique_asc oo os oe uo Huo) as [_ Hr1].
    destruct (unique_asc nn ns ne un Hun) as [_ Hr2].
    exact (unique_run_anchor_count cmp uo un os oe ns ne wT L Htot Hr1 Hr2 HwT HL).
Qed.

(* C15, first half, in the task's form *)
Theorem patience_anchor_matched dbg cmp oo nn os oe ns ne w0 w1 uo un wT u v l t :
  os <= oe -> ns <= ne -> CmpTotal cmp os oe ns ne ->
  unique oo os oe = Ok uo -> unique nn ns ne = Ok un ->
  patience_diff (plain_world None) dbg cmp oo nn os oe ns ne w0 = Ok w1 ->
  myers_diff (plain_world None) (unique_cmp cmp uo un) 0 (length uo) 0 (length un) plain0
  = Ok wT ->
  In (CEq u v l) (plain_calls wT) -> t < l ->
  exists x y cs,
    nth_error uo (u + t) = Some x /\ nth_error un (v + t) = Some y /\
    plain_calls w1 = plain_calls w0 ++ cs /\
    exists o n len t', In (CEq o n len) cs /\ t' < len /\ o + t' = x /\ n + t' = y.
Proof.
  intros Hoe Hne Htot Huo Hun H HwT Hin Ht.
  destruct (patience_anchors dbg cmp oo nn os oe ns ne w0 w1 uo un Hoe Hne Htot Huo Hun H)
    as (wT' & cs & HwT' & Hlog & _ & Hcov & _).
  assert (wT' = wT) by congruence. subst wT'.
  destruct (Hcov (u + t) (v + t)) as (x & y & Hx & Hy & Hc).
  { apply In_anchors_of. exists u, v, l, t. auto. }
  exists x, y, cs. auto.
Qed.

(* C15, second half *)
Theorem patience_anchor_max dbg cmp oo nn os oe ns ne w0 w1 uo un wT L :
  os <= oe -> ns <= ne -> CmpTotal cmp os oe ns ne ->
  unique oo os oe = Ok uo -> unique nn ns ne = Ok un ->
  patience_diff (plain_world None) dbg cmp oo nn os oe ns ne w0 = Ok w1 ->
  myers_diff (plain_world None) (unique_cmp cmp uo un) 0 (length uo) 0 (length un) plain0
  = Ok wT ->
  IsLcsLen (unique_cmp cmp uo un) 0 (length uo) 0 (length un) L ->
  length (anchors_of (plain_calls wT)) = L.
Proof.
  intros Hoe Hne Htot Huo Hun H HwT HL.
  destruct (patience_anchors dbg cmp oo nn os oe ns ne w0 w1 uo un Hoe Hne Htot Huo Hun H)
    as (wT' & cs & HwT' & _ & _ & _ & Hmax).
  assert (wT' = wT) by congruence. subst wT'. exact (Hmax L HL).
Qed.

(* the instance of the task statement: items compared through a boolean
   equality on two lookups (nothing about [eqb] is needed) *)
Corollary patience_anchors_cmp_of {A} (eqb : A -> A -> bool) (old new : lookup A)
          dbg os oe ns ne w0 w1 uo un :
  let cmp := cmp_of eqb old new in
  os <= oe -> ns <= ne -> CmpTotal cmp os oe ns ne ->
  unique (cmp_same eqb old) os oe = Ok uo -> unique (cmp_same eqb new) ns ne = Ok un ->
  patience_diff (plain_world None) dbg cmp (cmp_same eqb old) (cmp_same eqb new)
                os oe ns ne w0 = Ok w1 ->
  exists wT cs,
    myers_diff (plain_world None) (unique_cmp cmp uo un) 0 (length uo) 0 (length un) plain0
    = Ok wT /\
    plain_calls w1 = plain_calls w0 ++ cs /\ RawStrong cmp os oe ns ne cs /\
    (forall a b, In (a, b) (anchors_of (plain_calls wT)) ->
                 exists x y, nth_error uo a = Some x /\ nth_error un b = Some y /\
                             CoveredBy x y cs) /\
    (forall L, IsLcsLen (unique_cmp cmp uo un) 0 (length uo) 0 (length un) L ->
               length (anchors_of (plain_calls wT)) = L).
Proof. intros cmp. apply patience_anchors. Qed.

Print Assumptions patience_valid.
Print Assumptions patience_no_panic.
Print Assumptions patience_ok_valid.
Print Assumptions patience_anchors_logged.
Print Assumptions patience_anchors.
Print Assumptions patience_anchor_matched.
Print Assumptions patience_anchor_max.
Print Assumptions patience_anchors_cmp_of.
