(* Proofs/ReplaceLoose.v — the Replace<D> adapter on LOOSE input.

   Proofs/Replace.v treats the calls an algorithm makes (a [RawWalk]).  In
   [capture_diff] Replace sits BEHIND Compact, so what it receives is the
   cleaned-up op list replayed as calls: a walk whose carried indices (the new
   index of a Delete, the old index of an Insert) are arbitrary ([OpsWalk]
   with exact = false), or exact when the repair switch is on.

   Result (one proof for both modes, parameter [ex]): on the calls
   [map op_to_call ops ++ [CFin]] with [OpsWalk cmp ex oe ne os ns ops], no
   empty op and no Replace op, the pure transducer [replace_trace] never hits
   a debug assertion, does not depend on [dbg], ends fully flushed, and its
   output is an [OpsWalk cmp ex] op list that alternates and has the same
   totals.  (The debug_assert_eq! of Replace::delete / Replace::insert compare
   only NON-carried indices, and those are exact in every walk.) *)
From Similar Require Import Model.Base Model.Utils Model.Myers Model.Hooks
  Spec.Script Proofs.Utils Proofs.Replace.

#[local] Hint Rewrite
  deleted_Equal deleted_Delete deleted_Insert deleted_Replace
  inserted_Equal inserted_Delete inserted_Insert inserted_Replace
  equal_total_Equal equal_total_Delete equal_total_Insert equal_total_Replace
  deleted_nil inserted_nil equal_total_nil : lsums.

Definition NoRepOp (x : op) : Prop := op_tag x <> TReplace.

(* the calls Compact replays: one call per op *)
Lemma capture_calls_map_op_to_call ops : capture_calls (map op_to_call ops) = ops.
Proof.
  induction ops as [|x r IH]; [reflexivity|].
  destruct x; cbn [map op_to_call capture_calls call_to_op]; rewrite IH; reflexivity.
Qed.

Lemma map_op_to_call_no_fin ops : ~ In CFin (map op_to_call ops).
Proof.
  induction ops as [|x r IH]; [intros []|].
  cbn [map In]. intros [H|H]; [destruct x; discriminate|exact (IH H)].
Qed.

(* a call list without finish / replace is the replay of its captured ops *)
Definition edit_callb (c : call) : Prop :=
  match c with CEq _ _ _ | CDel _ _ _ | CIns _ _ _ => True | _ => False end.

Lemma edit_calls_replay body :
  Forall edit_callb body -> body = map op_to_call (capture_calls body).
Proof.
  induction 1 as [|c body Hc _ IH]; [reflexivity|].
  destruct c; cbn [edit_callb] in Hc; try contradiction;
    cbn [capture_calls call_to_op map op_to_call]; rewrite <- IH; reflexivity.
Qed.

Lemma edit_calls_norep body :
  Forall edit_callb body -> Forall NoRepOp (capture_calls body).
Proof.
  induction 1 as [|c body Hc _ IH]; [constructor|].
  destruct c; cbn [edit_callb] in Hc; try contradiction;
    cbn [capture_calls call_to_op]; constructor; try exact IH; discriminate.
Qed.

Section LooseWalk.
  Variable cmp : cmpf.
  Variable ex : bool.
  Variables oe ne : nat.

  Lemma OpsWalk_bounds i j ops : OpsWalk cmp ex oe ne i j ops -> i <= oe /\ j <= ne.
  Proof. induction 1; lia. Qed.

  (* The pending state while the cursor of the incoming walk is (i,j).
     Carried indices of pending material are unconstrained unless [ex]. *)
  Inductive LInv (i j : nat) : rstate -> Prop :=
  | LI_none : LInv i j (Build_rstate None None None)
  | LI_eq eo en el :
      0 < el -> eo + el = i -> en + el = j -> SegEq cmp eo en el ->
      LInv i j (Build_rstate None None (Some (eo, en, el)))
  | LI_del dO dl dn :
      0 < dl -> dO + dl = i -> (ex = true -> dn = j) ->
      LInv i j (Build_rstate (Some (dO, dl, dn)) None None)
  | LI_ins io inn il :
      0 < il -> inn + il = j -> (ex = true -> io = i) ->
      LInv i j (Build_rstate None (Some (io, inn, il)) None)
  | LI_both dO dl dn io inn il :
      0 < dl -> 0 < il -> dO + dl = i -> inn + il = j ->
      LInv i j (Build_rstate (Some (dO, dl, dn)) (Some (io, inn, il)) None).

  (* what the remaining output [out] looks like, given the pending state [s]
     at cursor (i,j) and the remaining input ops [rest] *)
  Definition LPost (i j : nat) (s : rstate) (rest : list op) (out : list call) : Prop :=
    FinishLast out /\
    OpsWalk cmp ex oe ne (fst (pstart s i j)) (snd (pstart s i j)) (capture_calls out) /\
    Alternating (capture_calls out) /\
    HeadOK s (capture_calls out) /\
    deleted (capture_calls out) = pdel s + deleted rest /\
    inserted (capture_calls out) = pins s + inserted rest /\
    equal_total (capture_calls out) = peq s + equal_total rest.

  Ltac post_red :=
    cbn [pstart pdel pins peq HeadOK HeadEq r_eq r_del r_ins fst snd app
         capture_calls call_to_op IsEqualOp NonEmptyOp] in *.

  Ltac no_fin := intros Hin; cbn [In] in Hin; intuition discriminate.

  Ltac dbg_refl :=
    intros dbg; cbn;
    repeat match goal with
           | H : _ = _ |- _ => rewrite H
           end;
    rewrite ?Nat.eqb_refl; cbn [negb]; rewrite ?Bool.andb_false_r; reflexivity.

  (* ---- Equal arrives ---- *)
  Lemma lstep_eq i j l s :
    LInv i j s -> 0 < l -> SegEq cmp i j l -> i + l <= oe -> j + l <= ne ->
    exists o1 s1,
      (forall dbg, replace_step dbg (CEq i j l) s = (o1, Some s1)) /\
      LInv (i + l) (j + l) s1 /\
      forall rest out, LPost (i + l) (j + l) s1 rest out ->
                       LPost i j s (Equal i j l :: rest) (o1 ++ out).
  Proof.
    intros HI Hl Hseg Hoe Hne.
    destruct HI as [|eo en el Hel Heo Hen Hpseg|dO dl dn Hdl Hdo Hdn|io inn il Hil Hinn Hio
                   |dO dl dn io inn il Hdl Hil Hdo Hinn];
      (eexists; eexists; split; [intros dbg; reflexivity|]).
    - split; [apply LI_eq; auto|].
      intros rest out (Hfin & Hwalk & Halt & Hhd & Hd & Hi & He). unfold LPost in *. post_red.
      autorewrite with lsums in *. repeat split; auto; lia.
    - split.
      { apply LI_eq; try lia.
        apply SegEq_app; [exact Hpseg|]. rewrite Heo, Hen. exact Hseg. }
      intros rest out (Hfin & Hwalk & Halt & Hhd & Hd & Hi & He). unfold LPost in *. post_red.
      autorewrite with lsums in *. repeat split; auto; lia.
    - split; [apply LI_eq; auto|].
      intros rest out (Hfin & Hwalk & Halt & Hhd & Hd & Hi & He). unfold LPost in *. post_red.
      autorewrite with lsums in *. repeat split; auto; try lia.
      + apply FinishLast_cons; [discriminate|exact Hfin].
      + apply OW_del; [exact Hdn|lia|]. rewrite Hdo. exact Hwalk.
      + apply alt_change_cons; cbn; auto.
    - split; [apply LI_eq; auto|].
      intros rest out (Hfin & Hwalk & Halt & Hhd & Hd & Hi & He). unfold LPost in *. post_red.
      autorewrite with lsums in *. repeat split; auto; try lia.
      + apply FinishLast_cons; [discriminate|exact Hfin].
      + apply OW_ins; [exact Hio|lia|]. rewrite Hinn. exact Hwalk.
      + apply alt_change_cons; cbn; auto.
    - split; [apply LI_eq; auto|].
      intros rest out (Hfin & Hwalk & Halt & Hhd & Hd & Hi & He). unfold LPost in *. post_red.
      autorewrite with lsums in *. repeat split; auto; try lia.
      + apply FinishLast_cons; [discriminate|exact Hfin].
      + apply OW_rep; [lia|lia|]. rewrite Hdo, Hinn. exact Hwalk.
      + apply alt_change_cons; cbn; auto.
  Qed.

  (* ---- Delete arrives: its old index is the cursor, its new index is
     arbitrary (the cursor when [ex]) ---- *)
  Lemma lstep_del i j l n s :
    LInv i j s -> 0 < l -> (ex = true -> n = j) ->
    exists o1 s1,
      (forall dbg, replace_step dbg (CDel i l n) s = (o1, Some s1)) /\
      LInv (i + l) j s1 /\
      forall rest out, LPost (i + l) j s1 rest out ->
                       LPost i j s (Delete i l n :: rest) (o1 ++ out).
  Proof.
    intros HI Hl Hn.
    destruct HI as [|eo en el Hel Heo Hen Hpseg|dO dl dn Hdl Hdo Hdn|io inn il Hil Hinn Hio
                   |dO dl dn io inn il Hdl Hil Hdo Hinn].
    - eexists; eexists; split; [intros dbg; reflexivity|].
      split; [apply LI_del; auto|].
      intros rest out (Hfin & Hwalk & Halt & Hhd & Hd & Hi & He). unfold LPost in *. post_red.
      autorewrite with lsums in *. repeat split; auto; lia.
    - eexists; eexists; split; [intros dbg; reflexivity|].
      split; [apply LI_del; auto|].
      intros rest out (Hfin & Hwalk & Halt & Hhd & Hd & Hi & He). unfold LPost in *. post_red.
      autorewrite with lsums in *. repeat split; auto; try lia.
      + apply FinishLast_cons; [discriminate|exact Hfin].
      + apply OW_eq; [exact Hpseg|]. rewrite Heo, Hen. exact Hwalk.
      + apply alt_equal_cons; cbn; auto.
    - exists [], (Build_rstate (Some (dO, dl + l, dn)) None None).
      split; [dbg_refl|].
      split; [apply LI_del; try lia; exact Hdn|].
      intros rest out (Hfin & Hwalk & Halt & Hhd & Hd & Hi & He). unfold LPost in *. post_red.
      autorewrite with lsums in *. repeat split; auto; lia.
    - eexists; eexists; split; [intros dbg; reflexivity|].
      split; [apply LI_both; auto|].
      intros rest out (Hfin & Hwalk & Halt & Hhd & Hd & Hi & He). unfold LPost in *. post_red.
      autorewrite with lsums in *. repeat split; auto; lia.
    - exists [], (Build_rstate (Some (dO, dl + l, dn)) (Some (io, inn, il)) None).
      split; [dbg_refl|].
      split; [apply LI_both; lia|].
      intros rest out (Hfin & Hwalk & Halt & Hhd & Hd & Hi & He). unfold LPost in *. post_red.
      autorewrite with lsums in *. repeat split; auto; lia.
  Qed.

  (* ---- Insert arrives: its new index is the cursor, its old index is
     arbitrary (the cursor when [ex]) ---- *)
  Lemma lstep_ins i j o l s :
    LInv i j s -> 0 < l -> (ex = true -> o = i) ->
    exists o1 s1,
      (forall dbg, replace_step dbg (CIns o j l) s = (o1, Some s1)) /\
      LInv i (j + l) s1 /\
      forall rest out, LPost i (j + l) s1 rest out ->
                       LPost i j s (Insert o j l :: rest) (o1 ++ out).
  Proof.
    intros HI Hl Ho.
    destruct HI as [|eo en el Hel Heo Hen Hpseg|dO dl dn Hdl Hdo Hdn|io inn il Hil Hinn Hio
                   |dO dl dn io inn il Hdl Hil Hdo Hinn].
    - eexists; eexists; split; [intros dbg; reflexivity|].
      split; [apply LI_ins; auto|].
      intros rest out (Hfin & Hwalk & Halt & Hhd & Hd & Hi & He). unfold LPost in *. post_red.
      autorewrite with lsums in *. repeat split; auto; lia.
    - eexists; eexists; split; [intros dbg; reflexivity|].
      split; [apply LI_ins; auto|].
      intros rest out (Hfin & Hwalk & Halt & Hhd & Hd & Hi & He). unfold LPost in *. post_red.
      autorewrite with lsums in *. repeat split; auto; try lia.
      + apply FinishLast_cons; [discriminate|exact Hfin].
      + apply OW_eq; [exact Hpseg|]. rewrite Heo, Hen. exact Hwalk.
      + apply alt_equal_cons; cbn; auto.
    - eexists; eexists; split; [intros dbg; reflexivity|].
      split; [apply LI_both; auto|].
      intros rest out (Hfin & Hwalk & Halt & Hhd & Hd & Hi & He). unfold LPost in *. post_red.
      autorewrite with lsums in *. repeat split; auto; lia.
    - exists [], (Build_rstate None (Some (io, inn, l + il)) None).
      split; [dbg_refl|].
      split; [apply LI_ins; try lia; exact Hio|].
      intros rest out (Hfin & Hwalk & Halt & Hhd & Hd & Hi & He). unfold LPost in *. post_red.
      autorewrite with lsums in *. repeat split; auto; lia.
    - exists [], (Build_rstate (Some (dO, dl, dn)) (Some (io, inn, l + il)) None).
      split; [dbg_refl|].
      split; [apply LI_both; lia|].
      intros rest out (Hfin & Hwalk & Halt & Hhd & Hd & Hi & He). unfold LPost in *. post_red.
      autorewrite with lsums in *. repeat split; auto; lia.
  Qed.

  (* ---- finish arrives at the end of the walk ---- *)
  Lemma lstep_fin s :
    LInv oe ne s ->
    exists out,
      (forall dbg, replace_step dbg CFin s = (out, Some rstate0)) /\
      LPost oe ne s [] out.
  Proof.
    intros HI.
    destruct HI as [|eo en el Hel Heo Hen Hpseg|dO dl dn Hdl Hdo Hdn|io inn il Hil Hinn Hio
                   |dO dl dn io inn il Hdl Hil Hdo Hinn];
      (eexists; split; [intros dbg; reflexivity|]);
      unfold LPost; post_red; autorewrite with lsums;
      (split; [eexists [_]; split; [reflexivity|no_fin] || apply FinishLast_one|]).
    - repeat split; auto; constructor.
    - repeat split; auto; try lia.
      + apply OW_eq; [exact Hpseg|]. rewrite Heo, Hen. constructor.
      + apply Alt_one. exact Hel.
    - repeat split; auto; try lia.
      + apply OW_del; [exact Hdn|lia|]. rewrite Hdo. constructor.
      + apply Alt_one. exact Hdl.
    - repeat split; auto; try lia.
      + apply OW_ins; [exact Hio|lia|]. rewrite Hinn. constructor.
      + apply Alt_one. exact Hil.
    - repeat split; auto; try lia.
      + apply OW_rep; [lia|lia|]. rewrite Hdo, Hinn. constructor.
      + apply Alt_one. split; assumption.
  Qed.

  (* The invariant along the walk, generalised over the pending state. *)
  Lemma loose_walk_trace i j ops :
    OpsWalk cmp ex oe ne i j ops -> Forall NonEmptyOp ops -> Forall NoRepOp ops ->
    forall s, LInv i j s ->
    exists out,
      (forall dbg, replace_trace dbg (map op_to_call ops ++ [CFin]) s = (out, Some rstate0)) /\
      LPost i j s ops out.
  Proof.
    induction 1 as [|i j l r Hseg Hw IH|i j l n r Hn Hb Hw IH|i j o l r Ho Hb Hw IH
                   |i j ol nl r Hb1 Hb2 Hw IH]; intros Hne Hnr s HI.
    - destruct (lstep_fin s HI) as (out & Hstep & HP).
      exists out. split; [|exact HP].
      intros dbg. cbn [map app replace_trace]. rewrite Hstep. now rewrite app_nil_r.
    - apply Forall_cons_iff in Hne. destruct Hne as [Hl Hne].
      apply Forall_cons_iff in Hnr. destruct Hnr as [_ Hnr]. cbn [NonEmptyOp] in Hl.
      destruct (OpsWalk_bounds _ _ _ Hw) as [Hoe Hne'].
      destruct (lstep_eq i j l s HI Hl Hseg Hoe Hne') as (o1 & s1 & Hstep & HI1 & HP).
      destruct (IH Hne Hnr s1 HI1) as (out & Htr & HP1).
      exists (o1 ++ out). split; [|exact (HP _ _ HP1)].
      intros dbg. cbn [map app op_to_call].
      exact (replace_trace_cons _ _ _ _ _ _ _ _ (Hstep dbg) (Htr dbg)).
    - apply Forall_cons_iff in Hne. destruct Hne as [Hl Hne].
      apply Forall_cons_iff in Hnr. destruct Hnr as [_ Hnr]. cbn [NonEmptyOp] in Hl.
      destruct (lstep_del i j l n s HI Hl Hn) as (o1 & s1 & Hstep & HI1 & HP).
      destruct (IH Hne Hnr s1 HI1) as (out & Htr & HP1).
      exists (o1 ++ out). split; [|exact (HP _ _ HP1)].
      intros dbg. cbn [map app op_to_call].
      exact (replace_trace_cons _ _ _ _ _ _ _ _ (Hstep dbg) (Htr dbg)).
    - apply Forall_cons_iff in Hne. destruct Hne as [Hl Hne].
      apply Forall_cons_iff in Hnr. destruct Hnr as [_ Hnr]. cbn [NonEmptyOp] in Hl.
      destruct (lstep_ins i j o l s HI Hl Ho) as (o1 & s1 & Hstep & HI1 & HP).
      destruct (IH Hne Hnr s1 HI1) as (out & Htr & HP1).
      exists (o1 ++ out). split; [|exact (HP _ _ HP1)].
      intros dbg. cbn [map app op_to_call].
      exact (replace_trace_cons _ _ _ _ _ _ _ _ (Hstep dbg) (Htr dbg)).
    - apply Forall_cons_iff in Hnr. destruct Hnr as [Hx _]. exfalso. apply Hx. reflexivity.
  Qed.
End LooseWalk.

(* ====================================================================== *)
(* Main theorems                                                           *)
(* ====================================================================== *)

(* the calls Replace hands to its inner hook when Compact replays [ops] *)
Definition replace_ops_out (ops : list op) : list call :=
  fst (replace_trace false (map op_to_call ops ++ [CFin]) rstate0).

Section Main.
  Variable cmp : cmpf.
  Variable ex : bool.
  Variables os oe ns ne : nat.
  Variable ops : list op.
  Hypothesis Hwalk : OpsWalk cmp ex oe ne os ns ops.
  Hypothesis Hne : Forall NonEmptyOp ops.
  Hypothesis Hnr : Forall NoRepOp ops.

  (* no debug assertion fires, the result does not depend on [dbg], and
     everything is flushed *)
  Theorem replace_loose_trace : forall dbg,
    replace_trace dbg (map op_to_call ops ++ [CFin]) rstate0 = (replace_ops_out ops, Some rstate0).
  Proof.
    destruct (loose_walk_trace cmp ex oe ne os ns ops Hwalk Hne Hnr rstate0 (LI_none _ _ _ _))
      as (out & Htr & _).
    intros dbg. unfold replace_ops_out. rewrite (Htr false). exact (Htr dbg).
  Qed.

  (* the content of the output: same mode as the input *)
  Theorem replace_loose_out_spec :
    FinishLast (replace_ops_out ops) /\
    OpsWalk cmp ex oe ne os ns (capture_calls (replace_ops_out ops)) /\
    Alternating (capture_calls (replace_ops_out ops)) /\
    deleted (capture_calls (replace_ops_out ops)) = deleted ops /\
    inserted (capture_calls (replace_ops_out ops)) = inserted ops /\
    equal_total (capture_calls (replace_ops_out ops)) = equal_total ops.
  Proof.
    destruct (loose_walk_trace cmp ex oe ne os ns ops Hwalk Hne Hnr rstate0 (LI_none _ _ _ _))
      as (out & Htr & HP).
    unfold replace_ops_out. rewrite (Htr false). cbn [fst].
    destruct HP as (Hfin & Hw & Halt & _ & Hd & Hi & He).
    cbn in Hw, Hd, Hi, He. repeat split; assumption.
  Qed.

  (* over an arbitrary inner world, in debug and release builds alike:
     Replace<D> fed with the replayed ops is "feed replace_ops_out to D" *)
  Theorem replace_loose_any_world {W} (wd : world W) dbg w :
    emit_all (replace_world wd dbg) (map op_to_call ops ++ [CFin]) (rstate0, w) =
    (do w' <- emit_all wd (replace_ops_out ops) w; Ok (rstate0, w')).
  Proof. rewrite replace_world_trace, replace_loose_trace. reflexivity. Qed.

  Theorem replace_loose_dbg_independent {W} (wd : world W) w :
    emit_all (replace_world wd true) (map op_to_call ops ++ [CFin]) (rstate0, w) =
    emit_all (replace_world wd false) (map op_to_call ops ++ [CFin]) (rstate0, w).
  Proof. rewrite !replace_loose_any_world. reflexivity. Qed.

  (* the recording hook *)
  Theorem replace_loose_plain dl dbg w0 :
    emit_all (replace_world (plain_world dl) dbg) (map op_to_call ops ++ [CFin]) (rstate0, w0) =
    Ok (rstate0, {| p_ctr := p_ctr w0; p_log := rev (replace_ops_out ops) ++ p_log w0 |}).
  Proof. rewrite replace_loose_any_world, plain_emit_all. reflexivity. Qed.
End Main.

(* the two instances, in the vocabulary of Spec/Script.v *)
Theorem replace_loose cmp os oe ns ne ops :
  OpsLoose cmp os oe ns ne ops -> Forall NonEmptyOp ops -> Forall NoRepOp ops ->
  (forall dbg, replace_trace dbg (map op_to_call ops ++ [CFin]) rstate0
               = (replace_ops_out ops, Some rstate0)) /\
  FinishLast (replace_ops_out ops) /\
  OpsLoose cmp os oe ns ne (capture_calls (replace_ops_out ops)) /\
  Alternating (capture_calls (replace_ops_out ops)) /\
  deleted (capture_calls (replace_ops_out ops)) = deleted ops /\
  inserted (capture_calls (replace_ops_out ops)) = inserted ops /\
  equal_total (capture_calls (replace_ops_out ops)) = equal_total ops.
Proof.
  intros Hw Hne Hnr. split.
  - exact (replace_loose_trace cmp false os oe ns ne ops Hw Hne Hnr).
  - exact (replace_loose_out_spec cmp false os oe ns ne ops Hw Hne Hnr).
Qed.

Theorem replace_exact cmp os oe ns ne ops :
  OpsExact cmp os oe ns ne ops -> Forall NonEmptyOp ops -> Forall NoRepOp ops ->
  OpsExact cmp os oe ns ne (capture_calls (replace_ops_out ops)).
Proof.
  intros Hw Hne Hnr.
  exact (proj1 (proj2 (replace_loose_out_spec cmp true os oe ns ne ops Hw Hne Hnr))).
Qed.

(* the task's formulation: calls [body ++ [CFin]], body made of
   equal/delete/insert calls only, whose captured ops form a loose walk *)
Corollary replace_loose_body cmp os oe ns ne body :
  Forall edit_callb body ->
  OpsLoose cmp os oe ns ne (capture_calls body) -> Forall NonEmptyOp (capture_calls body) ->
  exists out,
    (forall dbg, replace_trace dbg (body ++ [CFin]) rstate0 = (out, Some rstate0)) /\
    FinishLast out /\
    OpsLoose cmp os oe ns ne (capture_calls out) /\
    Alternating (capture_calls out) /\
    deleted (capture_calls out) = deleted (capture_calls body) /\
    inserted (capture_calls out) = inserted (capture_calls body) /\
    equal_total (capture_calls out) = equal_total (capture_calls body) /\
    (OpsExact cmp os oe ns ne (capture_calls body) -> OpsExact cmp os oe ns ne (capture_calls out)).
Proof.
  intros Hb Hw Hne.
  pose proof (edit_calls_norep body Hb) as Hnr.
  destruct (replace_loose cmp os oe ns ne _ Hw Hne Hnr) as (H1 & H2 & H3 & H4 & H5 & H6 & H7).
  exists (replace_ops_out (capture_calls body)).
  split.
  { intros dbg. rewrite (edit_calls_replay body Hb) at 1. apply H1. }
  do 6 (split; [assumption|]).
  intros Hex. apply replace_exact; assumption.
Qed.

Print Assumptions replace_loose_trace.
Print Assumptions replace_loose_out_spec.
Print Assumptions replace_loose_any_world.
Print Assumptions replace_loose_plain.
Print Assumptions replace_loose.
Print Assumptions replace_exact.
Print Assumptions replace_loose_body.
