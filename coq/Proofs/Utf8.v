(* Proofs/Utf8.v — the UTF-8 decoder of Model/Utf8.v partitions its input into
   chars (C06, part 1).
     decode_partition : the chars of [decode bs] are consecutive, non-empty,
                        at most 4 bytes long and cover [0, length bs)
     decode_valid_len : a valid char is exactly [len_utf8 cp] bytes long
     decode_char_ok   : an ASCII code point is a valid one-byte char whose
                        byte is the code point; every other char (multi-byte
                        or invalid subpart) consists of bytes >= 128
   and the corollaries relating the bytes 10 / 13 to the chars LF / CR. *)
From Coq Require Import NArith Lia ZifyBool.
From Similar Require Import Model.Base Model.Utf8.

Arguments N.add : simpl never.
Arguments N.sub : simpl never.
Arguments N.mul : simpl never.
Arguments N.eqb : simpl never.
Arguments N.ltb : simpl never.
Arguments N.leb : simpl never.

(* ------------------------------------------------------------------ *)
(* list segments                                                       *)

(* the bytes in [a, b) *)
Definition seg {A} (l : list A) (a b : nat) : list A := firstn (b - a) (skipn a l).

Lemma skipn_skipn : forall {A} (n m : nat) (l : list A),
  skipn n (skipn m l) = skipn (m + n) l.
Proof.
  intros A n m; revert n.
  induction m as [|m IH]; intros n l.
  - reflexivity.
  - destruct l as [|x l].
    + rewrite !skipn_nil. reflexivity.
    + cbn [skipn Nat.add]. apply IH.
Qed.

Lemma firstn_add : forall {A} (n m : nat) (l : list A),
  firstn (n + m) l = firstn n l ++ firstn m (skipn n l).
Proof.
  intros A n; induction n as [|n IH]; intros m l.
  - reflexivity.
  - destruct l as [|x l].
    + cbn [Nat.add firstn skipn app]. rewrite firstn_nil. reflexivity.
    + cbn [Nat.add firstn skipn app]. rewrite IH. reflexivity.
Qed.

Lemma seg_nil : forall {A} (l : list A) a, seg l a a = [].
Proof. intros. unfold seg. rewrite Nat.sub_diag. reflexivity. Qed.

Lemma seg_app : forall {A} (l : list A) a b c,
  a <= b -> b <= c -> seg l a c = seg l a b ++ seg l b c.
Proof.
  intros A l a b c Hab Hbc. unfold seg.
  replace (c - a) with ((b - a) + (c - b)) by lia.
  rewrite firstn_add, skipn_skipn.
  replace (a + (b - a)) with b by lia. reflexivity.
Qed.

Lemma seg_length : forall {A} (l : list A) a b,
  a <= b -> b <= length l -> length (seg l a b) = b - a.
Proof.
  intros A l a b Hab Hb. unfold seg.
  rewrite firstn_length, skipn_length. lia.
Qed.

Lemma seg_all : forall {A} (l : list A), seg l 0 (length l) = l.
Proof. intros. unfold seg. rewrite Nat.sub_0_r. cbn [skipn]. apply firstn_all. Qed.

(* the first element of a segment only depends on its start *)
Lemma seg_head : forall {A} (l : list A) s e e' x tl,
  seg l s e = x :: tl -> s < e' -> exists tl', seg l s e' = x :: tl'.
Proof.
  intros A l s e e' x tl H Hlt. unfold seg in *.
  destruct (skipn s l) as [|y l'].
  - rewrite firstn_nil in H. discriminate.
  - destruct (e - s) as [|n]; [discriminate|].
    cbn [firstn] in H. injection H as Hx _. subst y.
    destruct (e' - s) as [|n'] eqn:E; [lia|].
    cbn [firstn]. eexists. reflexivity.
Qed.

Lemma seg_skipn : forall {A} (l : list A) p a b,
  seg (skipn p l) a b = seg l (p + a) (p + b).
Proof.
  intros. unfold seg. rewrite skipn_skipn.
  replace (p + b - (p + a)) with (b - a) by lia. reflexivity.
Qed.

(* ------------------------------------------------------------------ *)
(* one decoding step                                                   *)

Definition ge128 (b : N) : Prop := (128 <= b)%N.

Lemma len_utf8_cases : forall cp,
  ((cp < 128)%N /\ len_utf8 cp = 1) \/
  ((128 <= cp < 2048)%N /\ len_utf8 cp = 2) \/
  ((2048 <= cp < 65536)%N /\ len_utf8 cp = 3) \/
  ((65536 <= cp)%N /\ len_utf8 cp = 4).
Proof.
  intros cp. unfold len_utf8.
  destruct (N.ltb_spec cp 128); [left; split; [lia|reflexivity]|].
  destruct (N.ltb_spec cp 2048); [right; left; split; [lia|reflexivity]|].
  destruct (N.ltb_spec cp 65536); [right; right; left; split; [lia|reflexivity]|].
  right; right; right; split; [lia|reflexivity].
Qed.

Lemma len_utf8_1 : forall cp, (cp < 128)%N -> len_utf8 cp = 1.
Proof. intros cp H. destruct (len_utf8_cases cp) as [[? ?]|[[? ?]|[[? ?]|[? ?]]]]; auto; lia. Qed.
Lemma len_utf8_2 : forall cp, (128 <= cp < 2048)%N -> len_utf8 cp = 2.
Proof. intros cp H. destruct (len_utf8_cases cp) as [[? ?]|[[? ?]|[[? ?]|[? ?]]]]; auto; lia. Qed.
Lemma len_utf8_3 : forall cp, (2048 <= cp < 65536)%N -> len_utf8 cp = 3.
Proof. intros cp H. destruct (len_utf8_cases cp) as [[? ?]|[[? ?]|[[? ?]|[? ?]]]]; auto; lia. Qed.
Lemma len_utf8_4 : forall cp, (65536 <= cp)%N -> len_utf8 cp = 4.
Proof. intros cp H. destruct (len_utf8_cases cp) as [[? ?]|[[? ?]|[[? ?]|[? ?]]]]; auto; lia. Qed.

(* what one step may return *)
Definition step_ok (bs : list N) (x : option N) (k : nat) : Prop :=
  1 <= k <= 4 /\ k <= length bs /\
  match x with
  | Some cp =>
      k = len_utf8 cp /\
      (((cp < 128)%N /\ firstn k bs = [cp]) \/
       ((128 <= cp <= 1114111)%N /\ Forall ge128 (firstn k bs)))
  | None => Forall ge128 (firstn k bs)
  end.

Ltac step_split H :=
  repeat match type of H with
         | context [match ?l with [] => _ | _ :: _ => _ end] => is_var l; destruct l
         | context [if ?c then _ else _] =>
             let E := fresh "E" in destruct c eqn:E
         end.

Ltac bool_hyps :=
  repeat match goal with
         | H : context [if ?c then _ else _] |- _ =>
             let E := fresh "E" in destruct c eqn:E
         end.

Ltac step_fin :=
  unfold step_ok, ge128; cbn [length firstn];
  split; [lia|]; split; [lia|];
  try (split; [first [ symmetry; apply len_utf8_1; lia
                     | symmetry; apply len_utf8_2; lia
                     | symmetry; apply len_utf8_3; lia
                     | symmetry; apply len_utf8_4; lia ]|]);
  first [ left; split; [lia|reflexivity]
        | right; split; [lia|repeat constructor; lia]
        | repeat constructor; lia ].

Lemma decode_step_ok : forall b0 r x k,
  decode_step (b0 :: r) = (x, k) -> step_ok (b0 :: r) x k.
Proof.
  intros b0 r x k H.
  unfold decode_step in H. cbv zeta in H.
  destruct (N.ltb_spec b0 128) as [Hlt|Hge].
  { injection H as <- <-. step_fin. }
  destruct (in_rng b0 194 223) eqn:E2.
  { unfold in_rng, is_cont in *.
    step_split H; injection H as <- <-; bool_hyps; unfold in_rng in *; step_fin. }
  destruct (in_rng b0 224 239) eqn:E3.
  { unfold in_rng, is_cont in *.
    step_split H; injection H as <- <-; bool_hyps; unfold in_rng in *; step_fin. }
  destruct (in_rng b0 240 244) eqn:E4.
  { unfold in_rng, is_cont in *.
    step_split H; injection H as <- <-; bool_hyps; unfold in_rng in *; step_fin. }
  injection H as <- <-. step_fin.
Qed.

(* ------------------------------------------------------------------ *)
(* the decoded chars                                                   *)

(* consecutive non-empty chars of at most 4 bytes covering [pos, total) *)
Fixpoint Chars (pos : nat) (cs : list dchar) (total : nat) : Prop :=
  match cs with
  | [] => pos = total
  | c :: r => dc_start c = pos /\ pos < dc_end c /\ dc_end c <= pos + 4 /\
              Chars (dc_end c) r total
  end.

Lemma Chars_unfold : forall pos cs total,
  Chars pos cs total =
  match cs with
  | [] => pos = total
  | c :: r => dc_start c = pos /\ pos < dc_end c /\ dc_end c <= pos + 4 /\
              Chars (dc_end c) r total
  end.
Proof. intros pos cs total; destruct cs; reflexivity. Qed.

Lemma Chars_le : forall cs pos total, Chars pos cs total -> pos <= total.
Proof.
  induction cs as [|c r IH]; intros pos total H; cbn [Chars] in H.
  - lia.
  - destruct H as (_ & Hlt & _ & Hr). apply IH in Hr. lia.
Qed.

(* a char against the input it was decoded from *)
Definition char_ok (bs : list N) (c : dchar) : Prop :=
  dc_start c < dc_end c /\ dc_end c <= dc_start c + 4 /\ dc_end c <= length bs /\
  (dc_valid c = true -> dc_end c = dc_start c + len_utf8 (dc_cp c)) /\
  (((dc_cp c < 128)%N /\ dc_valid c = true /\ seg bs (dc_start c) (dc_end c) = [dc_cp c]) \/
   ((128 <= dc_cp c <= 1114111)%N /\ Forall ge128 (seg bs (dc_start c) (dc_end c)))).

Lemma decode_from_ok : forall bs fuel pos,
  pos <= length bs -> length bs - pos <= fuel ->
  Chars pos (decode_from fuel pos (skipn pos bs)) (length bs) /\
  Forall (char_ok bs) (decode_from fuel pos (skipn pos bs)).
Proof.
  intros bs fuel; induction fuel as [|fuel IH]; intros pos Hpos Hfuel.
  - cbn [decode_from Chars]. split; [lia|constructor].
  - cbn [decode_from].
    destruct (skipn pos bs) as [|b0 r] eqn:Es.
    { cbn [Chars]. split; [|constructor].
      assert (Hl : length (skipn pos bs) = 0) by (rewrite Es; reflexivity).
      rewrite skipn_length in Hl. lia. }
    destruct (decode_step (b0 :: r)) as [x k] eqn:Ed.
    pose proof (decode_step_ok _ _ _ _ Ed) as (Hk & Hlen & Hx).
    assert (Hl : length (b0 :: r) = length bs - pos)
      by (rewrite <- Es; apply skipn_length).
    destruct k as [|k']; [lia|]. set (k := S k') in *.
    rewrite <- Es, skipn_skipn.
    destruct (IH (pos + k)) as [IHc IHf]; [lia|lia|].
    assert (Hseg : seg bs pos (pos + k) = firstn k (b0 :: r)).
    { unfold seg. rewrite Es. f_equal. lia. }
    split.
    + cbn [Chars dc_start dc_end]. repeat split; try lia. exact IHc.
    + constructor; [|exact IHf].
      unfold char_ok; cbn [dc_start dc_end dc_cp dc_valid].
      rewrite Hseg.
      split; [lia|]. split; [lia|]. split; [lia|].
      destruct x as [cp|].
      * destruct Hx as [Hkl Hcase]. split; [intros _; lia|].
        destruct Hcase as [[Hc Hf]|[Hc Hf]]; [left|right]; auto.
      * split; [discriminate|]. right. split; [unfold replacement; lia|exact Hx].
Qed.

Theorem decode_partition : forall bs, Chars 0 (decode bs) (length bs).
Proof.
  intros bs. unfold decode.
  destruct (decode_from_ok bs (length bs) 0) as [H _]; [lia|lia|exact H].
Qed.

Theorem decode_char_ok : forall bs, Forall (char_ok bs) (decode bs).
Proof.
  intros bs. unfold decode.
  destruct (decode_from_ok bs (length bs) 0) as [_ H]; [lia|lia|exact H].
Qed.

Theorem decode_valid_len : forall bs c,
  In c (decode bs) -> dc_valid c = true ->
  dc_end c - dc_start c = len_utf8 (dc_cp c).
Proof.
  intros bs c Hin Hv.
  pose proof (decode_char_ok bs) as H. rewrite Forall_forall in H.
  destruct (H c Hin) as (_ & _ & _ & Hl & _). specialize (Hl Hv). lia.
Qed.

(* ------------------------------------------------------------------ *)
(* ASCII chars, in particular LF and CR                                *)

Lemma char_ok_ascii : forall bs c,
  char_ok bs c -> (dc_cp c < 128)%N ->
  dc_valid c = true /\ dc_end c = dc_start c + 1 /\
  seg bs (dc_start c) (dc_end c) = [dc_cp c].
Proof.
  intros bs c (Hlt & _ & Hle & _ & [(_ & Hv & Hs)|(Hc & _)]) Hcp; [|lia].
  split; [exact Hv|]. split; [|exact Hs].
  assert (Hl : length (seg bs (dc_start c) (dc_end c)) = 1) by (rewrite Hs; reflexivity).
  rewrite seg_length in Hl; lia.
Qed.

(* the first byte of a char: an ASCII byte is the code point, otherwise both
   the byte and the code point are >= 128 *)
Lemma char_ok_head : forall bs c,
  char_ok bs c ->
  exists b0 tl, seg bs (dc_start c) (dc_end c) = b0 :: tl /\
    (((b0 < 128)%N /\ dc_cp c = b0) \/ ((128 <= b0)%N /\ (128 <= dc_cp c)%N)).
Proof.
  intros bs c (Hlt & _ & Hle & _ & [(Hc & Hv & Hs)|(Hc & Hf)]).
  - exists (dc_cp c), []. split; [exact Hs|left; split; [lia|reflexivity]].
  - destruct (seg bs (dc_start c) (dc_end c)) as [|b0 tl] eqn:Es.
    + assert (Hl : length (seg bs (dc_start c) (dc_end c)) = 0) by (rewrite Es; reflexivity).
      rewrite seg_length in Hl; lia.
    + exists b0, tl. split; [reflexivity|]. right.
      inversion Hf as [|? ? Hb _]. unfold ge128 in Hb. lia.
Qed.

Lemma seg_nth : forall {A} (l : list A) s e x tl,
  seg l s e = x :: tl -> nth_error l s = Some x.
Proof.
  intros A l s e x tl H. unfold seg in H.
  rewrite <- (firstn_skipn s l) at 1.
  destruct (Nat.le_gt_cases (length l) s) as [Hge|Hlt].
  - rewrite skipn_all2 in H by lia. rewrite firstn_nil in H. discriminate.
  - rewrite nth_error_app2; rewrite firstn_length; [|lia].
    replace (s - Nat.min s (length l)) with 0 by lia.
    destruct (skipn s l); [rewrite firstn_nil in H; discriminate|].
    destruct (e - s); [discriminate|]. cbn [firstn] in H. injection H as -> _.
    reflexivity.
Qed.

Lemma nth_seg : forall {A} (l : list A) s x,
  nth_error l s = Some x -> seg l s (s + 1) = [x].
Proof.
  intros A l; induction l as [|y l IH]; intros s x H.
  - destruct s; discriminate.
  - destruct s as [|s].
    + cbn in H. injection H as ->. reflexivity.
    + cbn [nth_error] in H. apply IH in H. unfold seg in *.
      cbn [skipn Nat.add]. replace (S (s + 1) - S s) with (s + 1 - s) by lia. exact H.
Qed.

(* a char LF / CR is a valid one-byte char and its byte in the input is 10 / 13 *)
Theorem decode_newline_char : forall bs c,
  In c (decode bs) -> (dc_cp c = 10 \/ dc_cp c = 13)%N ->
  dc_valid c = true /\ dc_end c = dc_start c + 1 /\
  nth_error bs (dc_start c) = Some (dc_cp c).
Proof.
  intros bs c Hin Hcp.
  pose proof (decode_char_ok bs) as H. rewrite Forall_forall in H.
  destruct (char_ok_ascii bs c (H c Hin)) as (Hv & He & Hs); [lia|].
  split; [exact Hv|]. split; [exact He|]. eapply seg_nth; exact Hs.
Qed.

(* conversely a byte < 128 (in particular 10 / 13) of the input is a char of
   its own with that code point: it cannot hide inside a multi-byte sequence
   or an invalid subpart *)
Lemma Chars_covers : forall cs pos total i,
  Chars pos cs total -> pos <= i < total ->
  exists c, In c cs /\ dc_start c <= i < dc_end c.
Proof.
  induction cs as [|c r IH]; intros pos total i H Hi; cbn [Chars] in H.
  - lia.
  - destruct H as (Hs & Hlt & _ & Hr).
    destruct (Nat.lt_ge_cases i (dc_end c)) as [Hin|Hout].
    + exists c. split; [left; reflexivity|lia].
    + destruct (IH _ _ i Hr) as (c' & Hc' & Hi'); [lia|].
      exists c'. split; [right; exact Hc'|exact Hi'].
Qed.

Theorem decode_ascii_byte : forall bs i b,
  nth_error bs i = Some b -> (b < 128)%N ->
  exists c, In c (decode bs) /\ dc_start c = i /\ dc_end c = i + 1 /\
            dc_cp c = b /\ dc_valid c = true.
Proof.
  intros bs i b Hn Hb.
  assert (Hi : i < length bs) by (apply nth_error_Some; rewrite Hn; discriminate).
  destruct (Chars_covers _ _ _ i (decode_partition bs)) as (c & Hin & Hr); [lia|].
  pose proof (decode_char_ok bs) as H. rewrite Forall_forall in H.
  specialize (H c Hin).
  assert (Hseg : seg bs (dc_start c) (dc_end c) =
                 seg bs (dc_start c) i ++ [b] ++ seg bs (i + 1) (dc_end c)).
  { rewrite (seg_app bs (dc_start c) i (dc_end c)) by lia.
    rewrite (seg_app bs i (i + 1) (dc_end c)) by lia.
    rewrite (nth_seg _ _ _ Hn). reflexivity. }
  pose proof H as (Hlt & _ & Hle & _ & [(Hc & Hv & Hs)|(Hc & Hf)]).
  - destruct (char_ok_ascii bs c H Hc) as (_ & He & _).
    assert (dc_start c = i) by lia. subst i.
    rewrite He, (nth_seg _ _ _ Hn) in Hs.
    exists c. repeat split; auto; try lia. congruence.
  - exfalso. rewrite Hseg in Hf. apply Forall_app in Hf as [_ Hf].
    apply Forall_app in Hf as [Hf _]. inversion Hf as [|? ? Hb' _].
    unfold ge128 in Hb'. lia.
Qed.

Corollary decode_newline_byte : forall bs i b,
  nth_error bs i = Some b -> (b = 10 \/ b = 13)%N ->
  exists c, In c (decode bs) /\ dc_start c = i /\ dc_end c = i + 1 /\
            dc_cp c = b /\ dc_valid c = true.
Proof. intros bs i b Hn Hb. apply decode_ascii_byte; [exact Hn|lia]. Qed.
