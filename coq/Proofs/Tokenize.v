(* Proofs/Tokenize.v — C06: the tokenizers of Model/Tokenize.v are lossless
   partitions of their input with the documented token shape, in byte mode on
   arbitrary bytes and in str mode on valid UTF-8, and the two modes agree on
   valid UTF-8. *)
From Coq Require Import NArith Lia ZifyBool.
From Similar Require Import Model.Base Model.Utf8 Model.Tokenize Check.Tokens Proofs.Utf8.

Arguments N.add : simpl never.
Arguments N.sub : simpl never.
Arguments N.mul : simpl never.
Arguments N.eqb : simpl never.
Arguments N.ltb : simpl never.
Arguments N.leb : simpl never.

Lemma tok_bytes_seg : forall bs s e, tok_bytes bs (s, e) = seg bs s e.
Proof. reflexivity. Qed.

(* ------------------------------------------------------------------ *)
(* the partition checker, declaratively: losslessness                  *)

Lemma check_partition_seg : forall bs toks pos,
  check_partition toks pos (length bs) = true ->
  concat (map (tok_bytes bs) toks) = seg bs pos (length bs) /\
  Forall (fun t => tok_bytes bs t <> []) toks.
Proof.
  intros bs toks; induction toks as [|[s e] r IH]; intros pos H; cbn [check_partition] in H.
  - apply Nat.eqb_eq in H. subst pos. rewrite seg_nil. split; [reflexivity|constructor].
  - rewrite !andb_true_iff in H. destruct H as [[[H1 H2] H3] H4].
    apply Nat.eqb_eq in H1; apply Nat.ltb_lt in H2; apply Nat.leb_le in H3. subst s.
    destruct (IH _ H4) as [IHc IHf]. split.
    + cbn [map concat]. rewrite IHc, tok_bytes_seg.
      symmetry. apply seg_app; lia.
    + constructor; [|exact IHf]. rewrite tok_bytes_seg. intros Hn.
      assert (Hl : length (seg bs pos e) = 0) by (rewrite Hn; reflexivity).
      rewrite seg_length in Hl; lia.
Qed.

Theorem check_partition_lossless : forall bs toks,
  check_partition toks 0 (length bs) = true ->
  concat (map (tok_bytes bs) toks) = bs /\
  Forall (fun t => tok_bytes bs t <> []) toks.
Proof.
  intros bs toks H. destruct (check_partition_seg bs toks 0 H) as [Hc Hf].
  rewrite seg_all in Hc. split; assumption.
Qed.

(* ------------------------------------------------------------------ *)
(* chars                                                               *)

Definition VL (c : dchar) : Prop := dc_end c = dc_start c + len_utf8 (dc_cp c).

Lemma chars_partition : forall cs pos total,
  Chars pos cs total ->
  check_partition (map (fun c => (dc_start c, dc_end c)) cs) pos total = true.
Proof.
  induction cs as [|c r IH]; intros pos total H; cbn [Chars map check_partition] in *.
  - apply Nat.eqb_eq. exact H.
  - destruct H as (Hs & Hlt & _ & Hr). rewrite (IH _ _ Hr).
    pose proof (Chars_le _ _ _ Hr). rewrite andb_true_r.
    rewrite !andb_true_iff, Nat.eqb_eq, Nat.ltb_lt, Nat.leb_le. lia.
Qed.

Lemma chars_shape : forall cs,
  check_chars_shape_from cs (map (fun c => (dc_start c, dc_end c)) cs) = true.
Proof.
  induction cs as [|c r IH]; cbn [map check_chars_shape_from]; [reflexivity|].
  rewrite !Nat.eqb_refl. exact IH.
Qed.

Lemma chars_str_bytes : forall cs,
  Forall VL cs ->
  map (fun c => (dc_start c, dc_start c + len_utf8 (dc_cp c))) cs =
  map (fun c => (dc_start c, dc_end c)) cs.
Proof.
  induction cs as [|c r IH]; intros H; cbn [map]; [reflexivity|].
  inversion H as [|? ? Hc Hr]; subst. unfold VL in Hc. rewrite <- Hc, (IH Hr). reflexivity.
Qed.

(* ------------------------------------------------------------------ *)
(* runs (words, lines-and-newlines)                                    *)

Lemma run_bytes_spec : forall cls k total r e0 e rest,
  Chars e0 r total -> run_bytes cls k r e0 = (e, rest) ->
  Chars e rest total /\ length rest <= length r /\
  match rest with c2 :: _ => Bool.eqb (cls (dc_cp c2)) k = false | [] => True end /\
  ((e = e0 /\ rest = r) \/ (e0 < e /\ take_class cls k r e = Some rest)).
Proof.
  intros cls k total r; induction r as [|c r IH]; intros e0 e rest HC H; cbn [run_bytes] in H.
  - injection H as <- <-. repeat split; auto.
  - destruct (Bool.eqb (cls (dc_cp c)) k) eqn:Ek.
    + cbn [Chars] in HC. destruct HC as (Hs & Hlt & _ & Hr).
      destruct (IH _ _ _ Hr H) as (HC' & Hlen & Hhd & Hcase).
      split; [exact HC'|]. split; [cbn [length]; lia|]. split; [exact Hhd|].
      right. cbn [take_class]. rewrite Ek.
      destruct Hcase as [[-> ->]|[Hlt' Ht]].
      * split; [lia|]. rewrite Nat.eqb_refl. reflexivity.
      * split; [lia|].
        destruct (Nat.eqb_spec (dc_end c) e); [lia|].
        destruct (Nat.ltb_spec (dc_end c) e); [exact Ht|lia].
    + injection H as <- <-. split; [exact HC|]. split; [lia|]. split; [exact Ek|]. left; auto.
Qed.

Lemma run_bytes_Forall : forall (P : dchar -> Prop) cls k r e0,
  Forall P r -> Forall P (snd (run_bytes cls k r e0)).
Proof.
  intros P cls k r; induction r as [|c r IH]; intros e0 H; cbn [run_bytes].
  - constructor.
  - destruct (Bool.eqb (cls (dc_cp c)) k).
    + apply IH. inversion H; assumption.
    + exact H.
Qed.

Lemma runs_bytes_ok : forall cls total fuel cs pos,
  Chars pos cs total -> length cs <= fuel ->
  check_partition (runs_bytes fuel cls cs) pos total = true /\
  check_runs_shape cls cs (runs_bytes fuel cls cs) = true.
Proof.
  intros cls total fuel; induction fuel as [|fuel IH]; intros cs pos HC Hf.
  - destruct cs as [|c r]; [|cbn [length] in Hf; lia].
    cbn [runs_bytes check_partition check_runs_shape Chars] in *.
    split; [apply Nat.eqb_eq; exact HC|reflexivity].
  - destruct cs as [|c r].
    + cbn [runs_bytes check_partition check_runs_shape Chars] in *.
      split; [apply Nat.eqb_eq; exact HC|reflexivity].
    + cbn [runs_bytes].
      destruct (run_bytes cls (cls (dc_cp c)) r (dc_end c)) as [e rest] eqn:Er.
      cbn [Chars] in HC. destruct HC as (Hs & Hlt & _ & Hr).
      destruct (run_bytes_spec _ _ _ _ _ _ _ Hr Er) as (HC' & Hlen & Hhd & Hcase).
      destruct (IH rest e HC') as [IHp IHs]; [cbn [length] in Hf; lia|].
      pose proof (Chars_le _ _ _ HC') as Hle.
      assert (Hee : dc_end c <= e) by (destruct Hcase as [[-> _]|[? _]]; lia).
      split.
      * cbn [check_partition]. rewrite IHp, andb_true_r.
        rewrite !andb_true_iff, Nat.eqb_eq, Nat.ltb_lt, Nat.leb_le. lia.
      * cbn [check_runs_shape]. rewrite Nat.eqb_refl. cbn [andb].
        assert (Ht : take_class cls (cls (dc_cp c)) (c :: r) e = Some rest).
        { cbn [take_class]. rewrite Bool.eqb_reflx.
          destruct Hcase as [[-> ->]|[Hlt' Ht]].
          - rewrite Nat.eqb_refl. reflexivity.
          - destruct (Nat.eqb_spec (dc_end c) e); [lia|].
            destruct (Nat.ltb_spec (dc_end c) e); [exact Ht|lia]. }
        rewrite Ht. destruct rest as [|c2 rest']; [exact IHs|].
        rewrite Hhd. cbn [negb andb]. exact IHs.
Qed.

Lemma run_str_bytes : forall cls k total r e0,
  Chars e0 r total -> Forall VL r -> run_str cls k r e0 = run_bytes cls k r e0.
Proof.
  intros cls k total r; induction r as [|c r IH]; intros e0 HC HV; cbn [run_str run_bytes].
  - reflexivity.
  - destruct (Bool.eqb (cls (dc_cp c)) k); [|reflexivity].
    cbn [Chars] in HC. destruct HC as (Hs & _ & _ & Hr).
    inversion HV as [|? ? Hc HV']; subst. unfold VL in Hc.
    rewrite <- Hc. apply IH; assumption.
Qed.

Lemma runs_str_bytes : forall cls total fuel cs pos,
  Chars pos cs total -> Forall VL cs -> runs_str fuel cls cs = runs_bytes fuel cls cs.
Proof.
  intros cls total fuel; induction fuel as [|fuel IH]; intros cs pos HC HV; [reflexivity|].
  destruct cs as [|c r]; [reflexivity|].
  cbn [runs_str runs_bytes].
  cbn [Chars] in HC. destruct HC as (Hs & _ & _ & Hr).
  inversion HV as [|? ? Hc HV']; subst. unfold VL in Hc.
  rewrite <- Hc. rewrite (run_str_bytes _ _ total _ _ Hr HV').
  pose proof (run_bytes_Forall VL cls (cls (dc_cp c)) r (dc_end c) HV') as HVr.
  destruct (run_bytes cls (cls (dc_cp c)) r (dc_end c)) as [e rest] eqn:Er.
  destruct (run_bytes_spec _ _ _ _ _ _ _ Hr Er) as (HC' & _).
  cbn [snd] in HVr. f_equal. exact (IH rest e HC' HVr).
Qed.

(* ------------------------------------------------------------------ *)
(* lines                                                               *)

Lemma forallb_rev : forall {A} (f : A -> bool) l, forallb f (rev l) = forallb f l.
Proof.
  intros A f l; induction l as [|x l IH]; [reflexivity|].
  cbn [rev forallb]. rewrite forallb_app, IH. cbn [forallb].
  rewrite andb_true_r. apply andb_comm.
Qed.

Lemma not_nl_cr : forall b, not_nl b = true -> is_cr b = false.
Proof. intros b. unfold not_nl. destruct (is_cr b); [discriminate|reflexivity]. Qed.
Lemma not_nl_lf : forall b, not_nl b = true -> is_lf b = false.
Proof. intros b. unfold not_nl. destruct (is_cr b), (is_lf b); try discriminate; reflexivity. Qed.

Lemma line_shape_crlf : forall pre x y,
  forallb not_nl pre = true -> line_shape (pre ++ [13; 10]%N) x y = true.
Proof.
  intros pre x y H. unfold line_shape. rewrite rev_app_distr. cbn [rev app].
  change (is_lf 10) with true. change (is_cr 13) with true. cbn iota.
  rewrite forallb_rev. exact H.
Qed.

Lemma line_shape_lf : forall pre x y,
  forallb not_nl pre = true -> line_shape (pre ++ [10]%N) x y = true.
Proof.
  intros pre x y H. unfold line_shape. rewrite rev_app_distr. cbn [rev app].
  change (is_lf 10) with true. cbn iota.
  rewrite <- forallb_rev in H.
  destruct (rev pre) as [|b2 r2]; [reflexivity|].
  pose proof H as H'. cbn [forallb] in H'. apply andb_true_iff in H' as [Hb _].
  rewrite (not_nl_cr _ Hb). exact H.
Qed.

Lemma line_shape_cr : forall pre y,
  forallb not_nl pre = true -> line_shape (pre ++ [13]%N) false y = true.
Proof.
  intros pre y H. unfold line_shape. rewrite rev_app_distr. cbn [rev app].
  change (is_lf 13) with false. change (is_cr 13) with true. cbn iota.
  cbn [negb andb]. rewrite forallb_rev. exact H.
Qed.

Lemma line_shape_last : forall t x,
  t <> [] -> forallb not_nl t = true -> line_shape t x true = true.
Proof.
  intros t x Hne H. unfold line_shape.
  destruct (rev t) as [|b1 r1] eqn:Er.
  - apply (f_equal (@rev N)) in Er. rewrite rev_involutive in Er. contradiction.
  - pose proof H as H'. rewrite <- forallb_rev, Er in H'. cbn [forallb] in H'.
    apply andb_true_iff in H' as [Hb _].
    rewrite (not_nl_lf _ Hb), (not_nl_cr _ Hb). cbn [andb]. exact H.
Qed.

Definition next_lf (bs : list N) (r : list token) : bool :=
  match r with
  | t2 :: _ => match tok_bytes bs t2 with b :: _ => is_lf b | [] => false end
  | [] => false
  end.
Definition is_nil {A} (r : list A) : bool := match r with [] => true | _ => false end.

Lemma check_lines_shape_cons : forall bs t r,
  check_lines_shape bs (t :: r) =
  line_shape (tok_bytes bs t) (next_lf bs r) (is_nil r) && check_lines_shape bs r.
Proof. reflexivity. Qed.

(* if no segment starting at pos starts with LF, the next token does not *)
Lemma next_lf_false : forall bs toks pos total,
  check_partition toks pos total = true ->
  (forall e b tl, seg bs pos e = b :: tl -> b <> 10%N) ->
  next_lf bs toks = false.
Proof.
  intros bs toks pos total Hp Hb.
  destruct toks as [|[s e] r]; [reflexivity|].
  cbn [check_partition] in Hp. rewrite !andb_true_iff in Hp.
  destruct Hp as [[[H1 _] _] _]. apply Nat.eqb_eq in H1. subst s.
  cbn [next_lf]. rewrite tok_bytes_seg.
  destruct (seg bs pos e) as [|b tl] eqn:Es; [reflexivity|].
  specialize (Hb _ _ _ Es). unfold is_lf.
  destruct (N.eqb_spec b 10); [contradiction|reflexivity].
Qed.

Lemma seg_empty : forall {A} (l : list A) s e, e <= s -> seg l s e = [].
Proof. intros A l s e H. unfold seg. replace (e - s) with 0 by lia. reflexivity. Qed.

Lemma seg_past : forall {A} (l : list A) s e, length l <= s -> seg l s e = [].
Proof. intros A l s e H. unfold seg. rewrite skipn_all2 by lia. apply firstn_nil. Qed.

(* the byte at the start of the remaining chars is not LF unless the first
   remaining char is LF *)
Lemma start_not_lf : forall bs r p,
  Chars p r (length bs) -> Forall (char_ok bs) r ->
  match r with c2 :: _ => dc_cp c2 <> 10%N | [] => True end ->
  forall e b tl, seg bs p e = b :: tl -> b <> 10%N.
Proof.
  intros bs r p HC HF Hn e b tl Hs.
  destruct r as [|c2 r2].
  - cbn [Chars] in HC. subst p. rewrite seg_past in Hs by lia. discriminate.
  - cbn [Chars] in HC. destruct HC as (Hst & _).
    inversion HF as [|? ? Hc2 _]; subst.
    destruct (char_ok_head bs c2 Hc2) as (b0 & tl0 & Hs0 & Hcase).
    destruct (Nat.lt_ge_cases (dc_start c2) e) as [Hlt|Hge].
    + destruct (seg_head _ _ _ e _ _ Hs0 Hlt) as (tl' & Hs').
      rewrite Hs' in Hs. injection Hs as <- _.
      destruct Hcase as [[_ Hcp]|[Hb _]]; [congruence|lia].
    + rewrite seg_empty in Hs by lia. discriminate.
Qed.

Lemma char_not_nl : forall bs c,
  char_ok bs c -> dc_cp c <> 13%N -> dc_cp c <> 10%N ->
  forallb not_nl (seg bs (dc_start c) (dc_end c)) = true.
Proof.
  intros bs c (_ & _ & _ & _ & [(_ & _ & Hs)|(_ & Hf)]) N13 N10.
  - rewrite Hs. cbn [forallb]. unfold not_nl, is_cr, is_lf.
    destruct (N.eqb_spec (dc_cp c) 13); [contradiction|].
    destruct (N.eqb_spec (dc_cp c) 10); [contradiction|]. reflexivity.
  - apply forallb_forall. intros b Hb. rewrite Forall_forall in Hf.
    specialize (Hf b Hb). unfold ge128 in Hf. unfold not_nl, is_cr, is_lf.
    destruct (N.eqb_spec b 13); [lia|].
    destruct (N.eqb_spec b 10); [lia|]. reflexivity.
Qed.

Lemma lines_bytes_ok : forall bs n cs lp p,
  length cs <= n ->
  Chars p cs (length bs) -> Forall (char_ok bs) cs ->
  lp <= p -> forallb not_nl (seg bs lp p) = true ->
  check_partition (lines_bytes cs lp (length bs)) lp (length bs) = true /\
  check_lines_shape bs (lines_bytes cs lp (length bs)) = true.
Proof.
  intros bs. set (total := length bs).
  assert (Hnil : forall lp p, Chars p [] total -> lp <= p ->
            forallb not_nl (seg bs lp p) = true ->
            check_partition (lines_bytes [] lp total) lp total = true /\
            check_lines_shape bs (lines_bytes [] lp total) = true).
  { intros lp p HC Hle Hnonl. cbn [Chars] in HC. subst p. cbn [lines_bytes].
    destruct (Nat.ltb_spec lp total) as [Hlt|Hge].
    - split.
      + cbn [check_partition]. rewrite !andb_true_iff, !Nat.eqb_eq, Nat.ltb_lt, Nat.leb_le. lia.
      + rewrite check_lines_shape_cons. cbn [check_lines_shape is_nil].
        rewrite andb_true_r, tok_bytes_seg.
        apply line_shape_last; [|exact Hnonl].
        intros Hn. assert (Hl : length (seg bs lp total) = 0) by (rewrite Hn; reflexivity).
        rewrite seg_length in Hl; lia.
    - split; [cbn [check_partition]; apply Nat.eqb_eq; lia|reflexivity]. }
  induction n as [|n IH]; intros cs lp p Hlen HC HF Hle Hnonl.
  { destruct cs; [|cbn [length] in Hlen; lia]. eapply Hnil; eassumption. }
  destruct cs as [|c r]; [eapply Hnil; eassumption|].
  cbn [length] in Hlen.
  cbn [Chars] in HC. destruct HC as (Hs & Hlt & _ & Hr).
  inversion HF as [|? ? Hc HFr]; subst.
  pose proof (Chars_le _ _ _ Hr) as Hle_end.
  (* a token ending at the end of c, followed by the tokens of the rest *)
  assert (Hemit : forall term r' e',
            seg bs lp e' = seg bs lp (dc_start c) ++ term ->
            lp < e' -> Chars e' r' total -> Forall (char_ok bs) r' -> length r' <= n ->
            (forall x y, forallb not_nl (seg bs lp (dc_start c)) = true ->
                         line_shape (seg bs lp (dc_start c) ++ term)
                                    (x && next_lf bs (lines_bytes r' e' total)) y = true) ->
            check_partition ((lp, e') :: lines_bytes r' e' total) lp total = true /\
            check_lines_shape bs ((lp, e') :: lines_bytes r' e' total) = true).
  { intros term r' e' Hseg Hlt' Hr' HF' Hlen' Hshape.
    destruct (IH r' e' e') as [IHp IHs]; auto.
    { rewrite seg_nil. reflexivity. }
    pose proof (Chars_le _ _ _ Hr') as Hle'.
    split.
    - cbn [check_partition]. rewrite IHp, andb_true_r.
      rewrite !andb_true_iff, Nat.eqb_eq, Nat.ltb_lt, Nat.leb_le. lia.
    - rewrite check_lines_shape_cons, IHs, andb_true_r, tok_bytes_seg, Hseg.
      specialize (Hshape true (is_nil (lines_bytes r' e' total)) Hnonl).
      cbn [andb] in Hshape. exact Hshape. }
  cbn [lines_bytes].
  destruct (N.eqb_spec (dc_cp c) 13) as [E13|N13].
  - destruct (char_ok_ascii bs c Hc) as (_ & He & Hsc); [lia|]. rewrite E13 in Hsc.
    assert (Hlone : match r with c2 :: _ => dc_cp c2 <> 10%N | [] => True end ->
              check_partition ((lp, dc_end c) :: lines_bytes r (dc_end c) total) lp total = true /\
              check_lines_shape bs ((lp, dc_end c) :: lines_bytes r (dc_end c) total) = true).
    { intros Hn. apply (Hemit [13%N]); auto; try lia.
      - rewrite (seg_app bs lp (dc_start c) (dc_end c)) by lia. rewrite Hsc. reflexivity.
      - intros x y Hpre.
        destruct (IH r (dc_end c) (dc_end c)) as [IHp _]; auto; try lia.
        { rewrite seg_nil. reflexivity. }
        rewrite (next_lf_false bs _ _ _ IHp (start_not_lf bs r _ Hr HFr Hn)).
        rewrite andb_false_r. apply line_shape_cr. exact Hpre. }
    destruct r as [|c2 r2]; [apply Hlone; exact I|].
    destruct (N.eqb_spec (dc_cp c2) 10) as [E10|N10]; [|apply Hlone; exact N10].
    cbn [Chars] in Hr. destruct Hr as (Hs2 & _ & _ & Hr2).
    inversion HFr as [|? ? Hc2 HFr2]; subst.
    destruct (char_ok_ascii bs c2 Hc2) as (_ & He2 & Hsc2); [lia|]. rewrite E10 in Hsc2.
    cbn [length] in Hlen.
    replace (dc_end c + 1) with (dc_end c2) by lia.
    apply (Hemit [13; 10]%N); auto; try lia.
    + rewrite (seg_app bs lp (dc_start c) (dc_end c2)) by lia.
      rewrite (seg_app bs (dc_start c) (dc_end c) (dc_end c2)) by lia.
      rewrite Hsc, <- Hs2, Hsc2. reflexivity.
    + intros x y Hpre. apply line_shape_crlf. exact Hpre.
  - destruct (N.eqb_spec (dc_cp c) 10) as [E10|N10].
    + destruct (char_ok_ascii bs c Hc) as (_ & He & Hsc); [lia|]. rewrite E10 in Hsc.
      apply (Hemit [10%N]); auto; try lia.
      * rewrite (seg_app bs lp (dc_start c) (dc_end c)) by lia. rewrite Hsc. reflexivity.
      * intros x y Hpre. apply line_shape_lf. exact Hpre.
    + apply (IH r lp (dc_end c)); auto; try lia.
      rewrite (seg_app bs lp (dc_start c) (dc_end c)) by lia.
      rewrite forallb_app, Hnonl. cbn [andb]. apply char_not_nl; assumption.
Qed.

Lemma lines_str_bytes : forall bs total n cs lp,
  length cs <= n -> Forall (char_ok bs) cs ->
  lines_str cs lp total = lines_bytes cs lp total.
Proof.
  intros bs total n; induction n as [|n IH]; intros cs lp Hlen HF.
  { destruct cs; [reflexivity|cbn [length] in Hlen; lia]. }
  destruct cs as [|c r]; [reflexivity|].
  cbn [length] in Hlen. inversion HF as [|? ? Hc HFr]; subst.
  cbn [lines_str lines_bytes].
  destruct (N.eqb_spec (dc_cp c) 13) as [E13|N13].
  - destruct (char_ok_ascii bs c Hc) as (_ & He & _); [lia|].
    replace (dc_start c + 2) with (dc_end c + 1) by lia.
    replace (dc_start c + 1) with (dc_end c) by lia.
    destruct r as [|c2 r2].
    + f_equal.
    + inversion HFr as [|? ? Hc2 HFr2]; subst. cbn [length] in Hlen.
      destruct (N.eqb (dc_cp c2) 10); f_equal; apply IH; auto; cbn [length]; lia.
  - destruct (N.eqb_spec (dc_cp c) 10) as [E10|N10].
    + destruct (char_ok_ascii bs c Hc) as (_ & He & _); [lia|].
      replace (dc_start c + 1) with (dc_end c) by lia.
      f_equal. apply IH; auto; lia.
    + apply IH; auto; lia.
Qed.

(* ------------------------------------------------------------------ *)
(* main theorems                                                       *)

Lemma valid_VL : forall bs, valid_utf8 bs = true -> Forall VL (decode bs).
Proof.
  intros bs H. unfold valid_utf8 in H. rewrite forallb_forall in H.
  pose proof (decode_char_ok bs) as Hok. rewrite Forall_forall in Hok.
  apply Forall_forall. intros c Hin.
  destruct (Hok c Hin) as (_ & _ & _ & Hl & _). exact (Hl (H c Hin)).
Qed.

Theorem tok_bytes_ok : forall k bs, check_tokens k bs (tokenize true k bs) = true.
Proof.
  intros k bs. unfold check_tokens.
  pose proof (decode_partition bs) as HC. pose proof (decode_char_ok bs) as HF.
  destruct k; cbn [tokenize].
  - unfold tokenize_lines_bytes.
    destruct (lines_bytes_ok bs (length (decode bs)) (decode bs) 0 0) as [Hp Hs]; auto.
    rewrite Hp, Hs. reflexivity.
  - unfold tokenize_lines_and_newlines_bytes, check_lnl_shape. cbv zeta.
    destruct (runs_bytes_ok is_newline_cp (length bs) (length (decode bs)) (decode bs) 0)
      as [Hp Hs]; auto.
    rewrite Hp, Hs. reflexivity.
  - unfold tokenize_words_bytes, check_words_shape. cbv zeta.
    destruct (runs_bytes_ok is_whitespace (length bs) (length (decode bs)) (decode bs) 0)
      as [Hp Hs]; auto.
    rewrite Hp, Hs. reflexivity.
  - unfold tokenize_chars_bytes, check_chars_shape.
    rewrite (chars_partition _ _ _ HC), chars_shape. reflexivity.
Qed.

(* lines: the str and byte tokenizers agree on every input *)
Theorem tokenize_lines_str_bytes : forall bs, tokenize_lines_str bs = tokenize_lines_bytes bs.
Proof.
  intros bs. unfold tokenize_lines_str, tokenize_lines_bytes.
  apply (lines_str_bytes bs (length bs) (length (decode bs))); [lia|apply decode_char_ok].
Qed.

Theorem tok_str_bytes_agree : forall k bs,
  valid_utf8 bs = true -> tokenize false k bs = tokenize true k bs.
Proof.
  intros k bs Hv.
  pose proof (decode_partition bs) as HC. pose proof (valid_VL bs Hv) as HV.
  destruct k; cbn [tokenize].
  - apply tokenize_lines_str_bytes.
  - unfold tokenize_lines_and_newlines_str, tokenize_lines_and_newlines_bytes. cbv zeta.
    exact (runs_str_bytes _ _ _ _ _ HC HV).
  - unfold tokenize_words_str, tokenize_words_bytes. cbv zeta.
    exact (runs_str_bytes _ _ _ _ _ HC HV).
  - unfold tokenize_chars_str, tokenize_chars_bytes. apply chars_str_bytes. exact HV.
Qed.

Theorem tok_str_ok : forall k bs,
  valid_utf8 bs = true -> check_tokens k bs (tokenize false k bs) = true.
Proof.
  intros k bs Hv. rewrite (tok_str_bytes_agree k bs Hv). apply tok_bytes_ok.
Qed.

(* losslessness as a statement about bytes *)
Theorem check_tokens_lossless : forall k bs toks,
  check_tokens k bs toks = true ->
  concat (map (tok_bytes bs) toks) = bs /\ Forall (fun t => tok_bytes bs t <> []) toks.
Proof.
  intros k bs toks H. unfold check_tokens in H. apply andb_true_iff in H as [H _].
  apply check_partition_lossless. exact H.
Qed.

Corollary tokenize_bytes_lossless : forall k bs,
  concat (map (tok_bytes bs) (tokenize true k bs)) = bs /\
  Forall (fun t => tok_bytes bs t <> []) (tokenize true k bs).
Proof. intros k bs. apply (check_tokens_lossless k). apply tok_bytes_ok. Qed.

Corollary tokenize_str_lossless : forall k bs,
  valid_utf8 bs = true ->
  concat (map (tok_bytes bs) (tokenize false k bs)) = bs /\
  Forall (fun t => tok_bytes bs t <> []) (tokenize false k bs).
Proof. intros k bs Hv. apply (check_tokens_lossless k). apply tok_str_ok. exact Hv. Qed.

(* ------------------------------------------------------------------ *)
(* declarative readings of the shape checkers for lines and chars      *)

(* a line token is a CR/LF-free prefix followed by exactly one terminator
   LF, CRLF, or CR not followed by LF; only the last token may lack it *)
Lemma line_shape_sound : forall t next_is_lf is_last,
  line_shape t next_is_lf is_last = true ->
  exists pre, forallb not_nl pre = true /\
    (t = pre ++ [10]%N \/ t = pre ++ [13; 10]%N \/
     (t = pre ++ [13]%N /\ next_is_lf = false) \/
     (t = pre /\ pre <> [] /\ is_last = true)).
Proof.
  intros t nlf lst H. unfold line_shape in H.
  destruct (rev t) as [|b1 r1] eqn:Er; [discriminate|].
  apply (f_equal (@rev N)) in Er. rewrite rev_involutive in Er. cbn [rev] in Er.
  unfold is_lf, is_cr in H.
  destruct (N.eqb_spec b1 10) as [E1|N1].
  - subst b1. destruct r1 as [|b2 r2].
    + exists []. split; [reflexivity|]. left. exact Er.
    + destruct (N.eqb_spec b2 13) as [E2|N2].
      * subst b2. exists (rev r2). rewrite forallb_rev. split; [exact H|].
        right; left. rewrite Er. cbn [rev]. rewrite <- app_assoc. reflexivity.
      * exists (rev (b2 :: r2)). rewrite forallb_rev. split; [exact H|]. left. exact Er.
  - destruct (N.eqb_spec b1 13) as [E1|N13].
    + subst b1. apply andb_true_iff in H as [Hn Hf].
      exists (rev r1). rewrite forallb_rev. split; [exact Hf|].
      right; right; left. split; [exact Er|]. destruct nlf; [discriminate|reflexivity].
    + apply andb_true_iff in H as [Hl Hf]. exists t. split; [exact Hf|].
      right; right; right. split; [reflexivity|]. split; [|exact Hl].
      rewrite Er. intros Hn. apply app_eq_nil in Hn as [_ Hn]. discriminate.
Qed.

Lemma check_chars_shape_iff : forall cs toks,
  check_chars_shape_from cs toks = true <->
  toks = map (fun c => (dc_start c, dc_end c)) cs.
Proof.
  induction cs as [|c r IH]; intros toks.
  - destruct toks as [|[s e] tr]; cbn [check_chars_shape_from map]; split; intros H;
      try reflexivity; discriminate.
  - destruct toks as [|[s e] tr]; cbn [check_chars_shape_from map].
    + split; discriminate.
    + rewrite !andb_true_iff, !Nat.eqb_eq, IH. split.
      * intros [[-> ->] ->]. reflexivity.
      * intros H. injection H as -> -> ->. auto.
Qed.
