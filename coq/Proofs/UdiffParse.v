(* Proofs/UdiffParse.v — the unified-diff parser of Spec/UdiffParse.v inverts
   the printer of Spec/UdiffHunks.v (property C05 tooling).

     parse_sound        parse_udiff hint header s = Some hs ->
                        print_udiff hint header hs = s        [every s, both hints]
     parse_print        parse_udiff true header (print_udiff true header hs) = Some hs
                                                              [well-formed hs]
     parse_print_nohint parse_udiff false header (print_udiff false header hs)
                          = Some (map norm_hunk hs)           [well-formed hs]
     check_patch_wf / model_hunks_wf   the hunk records of a rendered diff are
                        well-formed when the lines are lines
     render_parse_applies / render_parse_applies_nohint / text_render_parse_applies
                        parse (render ...) passes check_patch *)
From Coq Require Import NArith.
From Similar Require Import Model.Base Model.Iter Model.Capture Model.Utf8 Model.Tokenize
     Model.TextDiff Spec.Script Spec.Patch Spec.UdiffHunks Spec.UdiffParse
     Check.Tokens Proofs.Udiff Proofs.Tokenize.

Arguments N.add : simpl never.
Arguments N.sub : simpl never.
Arguments N.mul : simpl never.
Arguments N.eqb : simpl never.
Arguments N.ltb : simpl never.
Arguments N.leb : simpl never.

(* ------------------------------------------------------------------ *)
(* 1. strip_prefix                                                      *)
(* ------------------------------------------------------------------ *)

Lemma strip_prefix_sound p : forall s r, strip_prefix p s = Some r -> s = p ++ r.
Proof.
  induction p as [|x p IH]; intros s r H; cbn [strip_prefix] in H.
  - injection H as H. subst r. reflexivity.
  - destruct s as [|y s]; [discriminate H|].
    destruct (N.eqb x y) eqn:E; [|discriminate H].
    apply N.eqb_eq in E. subst y. cbn [app]. f_equal. apply IH. exact H.
Qed.

Lemma strip_prefix_app p r : strip_prefix p (p ++ r) = Some r.
Proof.
  induction p as [|x p IH]; cbn [strip_prefix app]; [reflexivity|].
  rewrite N.eqb_refl. exact IH.
Qed.

Lemma strip_prefix_head_ne x p y s : x <> y -> strip_prefix (x :: p) (y :: s) = None.
Proof.
  intros Hne. cbn [strip_prefix]. destruct (N.eqb x y) eqn:E; [|reflexivity].
  apply N.eqb_eq in E. contradiction.
Qed.

(* ------------------------------------------------------------------ *)
(* 2. decimal numbers                                                   *)
(* ------------------------------------------------------------------ *)

Definition digit (k : nat) : N := (N.of_nat (k mod 10) + 48)%N.

Lemma dec_digits_acc : forall n fuel acc, n < fuel -> dec_digits fuel n acc = dec n ++ acc.
Proof.
  induction n as [n IH] using lt_wf_ind. intros fuel acc Hf.
  destruct fuel as [|fuel]; [lia|].
  unfold dec. cbn [dec_digits].
  destruct (n <? 10) eqn:E.
  - reflexivity.
  - apply Nat.ltb_ge in E.
    assert (Hq : n / 10 < n) by (apply Nat.div_lt; lia).
    rewrite (IH (n / 10) Hq fuel) by lia.
    rewrite (IH (n / 10) Hq n) by lia.
    rewrite <- app_assoc. reflexivity.
Qed.

Lemma dec_small n : n < 10 -> dec n = [digit n].
Proof.
  intros H. unfold dec. cbn [dec_digits].
  apply Nat.ltb_lt in H. rewrite H. reflexivity.
Qed.

Lemma dec_step n : 10 <= n -> dec n = dec (n / 10) ++ [digit n].
Proof.
  intros H. unfold dec at 1. cbn [dec_digits].
  apply Nat.ltb_ge in H. rewrite H. apply Nat.ltb_ge in H.
  apply dec_digits_acc. apply Nat.div_lt; lia.
Qed.

Lemma dec_snoc a k : 0 < a -> k < 10 -> dec (10 * a + k) = dec a ++ [digit k].
Proof.
  intros Ha Hk. rewrite dec_step by lia.
  assert (Eq : (10 * a + k) / 10 = a).
  { symmetry. apply (Nat.div_unique (10 * a + k) 10 a k); [exact Hk|reflexivity]. }
  assert (Em : (10 * a + k) mod 10 = k).
  { symmetry. apply (Nat.mod_unique (10 * a + k) 10 a k); [exact Hk|reflexivity]. }
  rewrite Eq. unfold digit. rewrite Em, (Nat.mod_small k 10 Hk). reflexivity.
Qed.

Lemma is_digit_spec c : is_digit c = true <-> (48 <= c <= 57)%N.
Proof.
  unfold is_digit. rewrite andb_true_iff, !N.leb_le. reflexivity.
Qed.

Lemma digit_of_byte c : is_digit c = true -> digit (N.to_nat (c - 48)) = c.
Proof.
  intros H. apply is_digit_spec in H. unfold digit.
  rewrite Nat.mod_small by lia. lia.
Qed.

Lemma digit_is_digit k : is_digit (digit k) = true.
Proof.
  apply is_digit_spec. unfold digit.
  pose proof (Nat.mod_upper_bound k 10). lia.
Qed.

(* what parse_digits has read so far is the decimal of the accumulator *)
Lemma parse_digits_sound : forall s acc v rest,
  (0 < acc)%N -> parse_digits acc s = (v, rest) ->
  exists ds, s = ds ++ rest /\ dec (N.to_nat v) = dec (N.to_nat acc) ++ ds.
Proof.
  induction s as [|c r IH]; intros acc v rest Hacc H; cbn [parse_digits] in H.
  - injection H as Hv Hr. subst v rest. exists []. split; [reflexivity|symmetry; apply app_nil_r].
  - destruct (is_digit c) eqn:Ed.
    + assert (Hacc' : (0 < 10 * acc + (c - 48))%N) by lia.
      destruct (IH _ _ _ Hacc' H) as (ds & Er & Ed').
      exists (c :: ds). split; [rewrite Er; reflexivity|].
      rewrite Ed'.
      pose proof (proj1 (is_digit_spec c) Ed) as Hc.
      replace (N.to_nat (10 * acc + (c - 48))) with (10 * N.to_nat acc + N.to_nat (c - 48)) by lia.
      rewrite dec_snoc by lia. rewrite (digit_of_byte c Ed).
      rewrite <- app_assoc. reflexivity.
    + injection H as Hv Hr. subst v rest. exists []. split; [reflexivity|symmetry; apply app_nil_r].
Qed.

Theorem parse_nat_sound s n rest : parse_nat s = Some (n, rest) -> s = dec n ++ rest.
Proof.
  unfold parse_nat. destruct s as [|c r]; [discriminate|].
  destruct (is_digit c) eqn:Ed; [|discriminate].
  destruct (N.eqb c 48) eqn:E0.
  - apply N.eqb_eq in E0. subst c. intros H.
    assert (Hn : n = 0 /\ rest = r).
    { destruct r as [|c2 r2]; [injection H as <- <-; auto|].
      destruct (is_digit c2); [discriminate H|]. injection H as <- <-; auto. }
    destruct Hn as [-> ->]. reflexivity.
  - apply N.eqb_neq in E0. pose proof (proj1 (is_digit_spec c) Ed) as Hc.
    destruct (parse_digits (c - 48) r) as [v rest'] eqn:Ep. intros H. injection H as <- <-.
    destruct (parse_digits_sound r (c - 48)%N v rest' ltac:(lia) Ep) as (ds & Er & Ed').
    rewrite Ed', Er. rewrite dec_small by lia. rewrite (digit_of_byte c Ed). reflexivity.
Qed.

Definition nodigit_head (s : list N) : Prop :=
  match s with c :: _ => is_digit c = false | [] => True end.

Definition dstep (a c : N) : N := (10 * a + (c - 48))%N.

Lemma parse_digits_app ds : Forall (fun c => is_digit c = true) ds ->
  forall acc rest, nodigit_head rest ->
  parse_digits acc (ds ++ rest) = (fold_left dstep ds acc, rest).
Proof.
  induction 1 as [|c ds Hc _ IH]; intros acc rest Hr; cbn [app fold_left].
  - destruct rest as [|c r]; cbn [parse_digits]; [reflexivity|].
    cbn [nodigit_head] in Hr. rewrite Hr. reflexivity.
  - cbn [parse_digits]. rewrite Hc. apply IH. exact Hr.
Qed.

Lemma dec_facts : forall n,
  Forall (fun c => is_digit c = true) (dec n) /\
  fold_left dstep (dec n) 0%N = N.of_nat n /\
  (0 < n -> exists c ds, dec n = c :: ds /\ c <> 48%N).
Proof.
  induction n as [n IH] using lt_wf_ind.
  destruct (Nat.lt_ge_cases n 10) as [Hs|Hb].
  - rewrite (dec_small n Hs). split; [|split].
    + constructor; [apply digit_is_digit|constructor].
    + cbn [fold_left]. unfold dstep, digit. rewrite (Nat.mod_small n 10 Hs). lia.
    + intros Hn. exists (digit n), []. split; [reflexivity|].
      unfold digit. rewrite (Nat.mod_small n 10 Hs). lia.
  - rewrite (dec_step n Hb).
    assert (Hq : n / 10 < n) by (apply Nat.div_lt; lia).
    assert (Hq0 : 0 < n / 10) by (apply Nat.div_str_pos; lia).
    destruct (IH (n / 10) Hq) as (Hall & Hval & Hhd). split; [|split].
    + apply Forall_app. split; [exact Hall|]. constructor; [apply digit_is_digit|constructor].
    + rewrite fold_left_app, Hval. cbn [fold_left]. unfold dstep, digit.
      pose proof (Nat.div_mod n 10 ltac:(lia)) as Hdm.
      pose proof (Nat.mod_upper_bound n 10 ltac:(lia)) as Hm. lia.
    + intros _. destruct (Hhd Hq0) as (c & ds & E & Hc).
      exists c, (ds ++ [digit n]). rewrite E. split; [reflexivity|exact Hc].
Qed.

Theorem parse_nat_dec n rest : nodigit_head rest -> parse_nat (dec n ++ rest) = Some (n, rest).
Proof.
  intros Hr. destruct (dec_facts n) as (Hall & Hval & Hhd).
  destruct n as [|n].
  - change (dec 0) with [48%N]. cbn [app]. unfold parse_nat.
    change (is_digit 48) with true. change (N.eqb 48 48) with true. cbv iota.
    destruct rest as [|c2 r2]; [reflexivity|]. cbn [nodigit_head] in Hr. rewrite Hr. reflexivity.
  - destruct (Hhd ltac:(lia)) as (c & ds & E & Hc). rewrite E in *.
    inversion Hall as [|? ? Hd Hds]; subst. cbn [app]. unfold parse_nat.
    rewrite Hd. apply N.eqb_neq in Hc. rewrite Hc.
    rewrite (parse_digits_app ds Hds _ rest Hr).
    cbn [fold_left] in Hval. unfold dstep at 2 in Hval.
    replace (10 * 0 + (c - 48))%N with (c - 48)%N in Hval by lia.
    rewrite Hval, Nat2N.id. reflexivity.
Qed.

(* ------------------------------------------------------------------ *)
(* 3. ranges                                                            *)
(* ------------------------------------------------------------------ *)

Theorem parse_range_sound s a b rest :
  parse_range s = Some (a, b, rest) -> s = print_range a b ++ rest.
Proof.
  unfold parse_range, print_range.
  destruct (parse_nat s) as [[a0 r]|] eqn:Ea; [|discriminate].
  apply parse_nat_sound in Ea. subst s.
  destruct r as [|c r'].
  - intros H. injection H as <- <- <-. reflexivity.
  - destruct (N.eqb c 44) eqn:Ec.
    + apply N.eqb_eq in Ec. subst c.
      destruct (parse_nat r') as [[b0 r'']|] eqn:Eb; [|discriminate].
      apply parse_nat_sound in Eb. subst r'.
      destruct (b0 =? 1) eqn:E1; [discriminate|].
      intros H. injection H as <- <- <-. rewrite E1.
      rewrite <- !app_assoc. reflexivity.
    + intros H. injection H as <- <- <-. reflexivity.
Qed.

Theorem parse_range_print a b rest :
  parse_range (print_range a b ++ 32%N :: rest) = Some (a, b, 32%N :: rest).
Proof.
  unfold parse_range, print_range. destruct (b =? 1) eqn:E1.
  - apply Nat.eqb_eq in E1. subst b.
    rewrite parse_nat_dec by reflexivity. reflexivity.
  - rewrite <- !app_assoc. rewrite parse_nat_dec by reflexivity.
    cbn [app]. change (N.eqb 44 44) with true. cbv iota.
    rewrite parse_nat_dec by reflexivity. rewrite E1. reflexivity.
Qed.

(* ------------------------------------------------------------------ *)
(* 4. lines                                                             *)
(* ------------------------------------------------------------------ *)

Lemma read_line_sound : forall s l rest,
  read_line s = Some (l, rest) -> s = l ++ rest /\ ends_with_newline l = true.
Proof.
  induction s as [|c r IH]; intros l rest H; cbn [read_line] in H; [discriminate H|].
  destruct (N.eqb c 10) eqn:E10.
  - apply N.eqb_eq in E10. subst c. injection H as <- <-. split; reflexivity.
  - destruct (N.eqb c 13) eqn:E13.
    + apply N.eqb_eq in E13. subst c.
      destruct r as [|c2 r2]; [injection H as <- <-; split; reflexivity|].
      destruct (N.eqb c2 10) eqn:E2.
      * apply N.eqb_eq in E2. subst c2. injection H as <- <-. split; reflexivity.
      * injection H as <- <-. split; reflexivity.
    + destruct (read_line r) as [[l1 rest1]|] eqn:Er; [|discriminate H].
      injection H as <- <-. destruct (IH _ _ eq_refl) as [E Hn]. subst r.
      split; [reflexivity|].
      apply ends_with_newline_spec in Hn. destruct Hn as (l' & c' & -> & Hc').
      apply ends_with_newline_spec. exists (c :: l'), c'. split; [reflexivity|exact Hc'].
Qed.

Definition NoNl (pre : list N) : Prop := Forall (fun b => not_nl b = true) pre.

Lemma not_nl_spec b : not_nl b = true -> N.eqb b 10 = false /\ N.eqb b 13 = false.
Proof.
  unfold not_nl, is_cr, is_lf. intros H. apply negb_true_iff, orb_false_iff in H.
  destruct H as [H13 H10]. split; assumption.
Qed.

Lemma read_line_lf pre : NoNl pre -> forall rest,
  read_line (pre ++ 10%N :: rest) = Some (pre ++ [10%N], rest).
Proof.
  induction 1 as [|c pre Hc _ IH]; intros rest; cbn [app read_line].
  - reflexivity.
  - destruct (not_nl_spec c Hc) as [E10 E13]. rewrite E10, E13, IH. reflexivity.
Qed.

Lemma read_line_crlf pre : NoNl pre -> forall rest,
  read_line (pre ++ 13%N :: 10%N :: rest) = Some (pre ++ [13; 10]%N, rest).
Proof.
  induction 1 as [|c pre Hc _ IH]; intros rest; cbn [app read_line].
  - reflexivity.
  - destruct (not_nl_spec c Hc) as [E10 E13]. rewrite E10, E13, IH. reflexivity.
Qed.

Definition nolf_head (s : list N) : Prop :=
  match s with c :: _ => c <> 10%N | [] => True end.

Lemma read_line_cr pre : NoNl pre -> forall rest, nolf_head rest ->
  read_line (pre ++ 13%N :: rest) = Some (pre ++ [13%N], rest).
Proof.
  induction 1 as [|c pre Hc _ IH]; intros rest Hr; cbn [app read_line].
  - change (N.eqb 13 10) with false. change (N.eqb 13 13) with true. cbv iota.
    destruct rest as [|c2 r2]; [reflexivity|]. cbn [nolf_head] in Hr.
    apply N.eqb_neq in Hr. rewrite Hr. reflexivity.
  - destruct (not_nl_spec c Hc) as [E10 E13]. rewrite E10, E13, (IH rest Hr). reflexivity.
Qed.

Lemma strip_nl_sound l l0 : strip_nl l = Some l0 -> l = l0 ++ [10%N].
Proof.
  unfold strip_nl. destruct (rev l) as [|c r] eqn:E; [discriminate|].
  destruct (N.eqb c 10) eqn:Ec; [|discriminate]. apply N.eqb_eq in Ec. subst c.
  intros H. injection H as <-. rewrite <- (rev_involutive l), E. reflexivity.
Qed.

Lemma strip_nl_app l0 : strip_nl (l0 ++ [10%N]) = Some l0.
Proof.
  unfold strip_nl. rewrite rev_app_distr. cbn [rev app].
  change (N.eqb 10 10) with true. cbv iota. rewrite rev_involutive. reflexivity.
Qed.

(* the shape of a line *)
Inductive line_term : list N -> Prop :=
| lt_none : line_term []
| lt_lf : line_term [10%N]
| lt_crlf : line_term [13; 10]%N
| lt_cr : line_term [13%N].

Lemma line_okb_split : forall l, line_okb l = true ->
  exists pre term, l = pre ++ term /\ NoNl pre /\ line_term term.
Proof.
  induction l as [|c r IH]; intros H.
  - exists [], []. split; [reflexivity|]. split; constructor.
  - cbn [line_okb] in H. destruct (N.eqb c 10) eqn:E10.
    + apply N.eqb_eq in E10. subst c. destruct r; [|discriminate H].
      exists [], [10%N]. split; [reflexivity|]. split; constructor.
    + destruct (N.eqb c 13) eqn:E13.
      * apply N.eqb_eq in E13. subst c. destruct r as [|c2 r2].
        -- exists [], [13%N]. split; [reflexivity|]. split; constructor.
        -- apply andb_true_iff in H. destruct H as [H2 H3].
           apply N.eqb_eq in H2. subst c2. destruct r2; [|discriminate H3].
           exists [], [13; 10]%N. split; [reflexivity|]. split; constructor.
      * destruct (IH H) as (pre & term & -> & Hpre & Hterm).
        exists (c :: pre), term. split; [reflexivity|]. split; [|exact Hterm].
        constructor; [|exact Hpre]. unfold not_nl, is_cr, is_lf. rewrite E10, E13. reflexivity.
Qed.

Lemma line_okb_intro pre : NoNl pre -> forall term, line_term term ->
  line_okb (pre ++ term) = true.
Proof.
  induction 1 as [|c pre Hc _ IH]; intros term Ht; cbn [app].
  - destruct Ht; reflexivity.
  - cbn [line_okb]. destruct (not_nl_spec c Hc) as [E10 E13]. rewrite E10, E13.
    apply IH. exact Ht.
Qed.

Lemma ewn_nonl pre : NoNl pre -> ends_with_newline pre = false.
Proof.
  intros H. destruct (ends_with_newline pre) eqn:E; [|reflexivity].
  apply ends_with_newline_spec in E. destruct E as (l' & c & -> & Hc).
  apply Forall_app in H. destruct H as [_ H]. inversion H as [|? ? Hn _]; subst.
  destruct (not_nl_spec c Hn) as [E10 E13].
  destruct Hc as [->| ->]; discriminate.
Qed.

Lemma ewn_snoc pre c : (c = 13 \/ c = 10)%N -> ends_with_newline (pre ++ [c]) = true.
Proof. intros H. apply ends_with_newline_spec. exists pre, c. auto. Qed.

(* ------------------------------------------------------------------ *)
(* 5. body lines                                                        *)
(* ------------------------------------------------------------------ *)

Lemma tag_of_char_sound c t : tag_of_char c = Some t -> c = tag_char t.
Proof.
  unfold tag_of_char.
  destruct (N.eqb c 32) eqn:E1.
  { apply N.eqb_eq in E1. intros H. injection H as <-. exact E1. }
  destruct (N.eqb c 45) eqn:E2.
  { apply N.eqb_eq in E2. intros H. injection H as <-. exact E2. }
  destruct (N.eqb c 43) eqn:E3; [|discriminate].
  apply N.eqb_eq in E3. intros H. injection H as <-. exact E3.
Qed.

Lemma tag_of_char_tag t : tag_of_char (tag_char t) = Some t.
Proof. destruct t; reflexivity. Qed.

Lemma marker_split : txt_no_newline_marker = 10%N :: txt_marker_tail.
Proof. reflexivity. Qed.

(* soundness of one body line, for every input *)
Theorem parse_item_sound hint s t l rest :
  parse_item hint s = Some (t, l, rest) -> s = print_item hint (t, l) ++ rest.
Proof.
  unfold parse_item. destruct s as [|c r]; [discriminate|].
  destruct (tag_of_char c) as [t0|] eqn:Et; [|discriminate].
  apply tag_of_char_sound in Et. subst c.
  destruct (read_line r) as [[l1 rest1]|] eqn:Er; [|discriminate].
  apply read_line_sound in Er. destruct Er as [-> Hn].
  assert (Hplain : Some (t0, l1, rest1) = Some (t, l, rest) ->
                   tag_char t0 :: l1 ++ rest1 = print_item hint (t, l) ++ rest).
  { intros H. injection H as <- <- <-. unfold print_item. cbn [fst snd].
    rewrite Hn, app_nil_r. reflexivity. }
  destruct hint; [|exact Hplain].
  destruct (strip_prefix txt_marker_tail rest1) as [rest'|] eqn:Em; [|exact Hplain].
  apply strip_prefix_sound in Em. subst rest1.
  destruct (strip_nl l1) as [l0|] eqn:El; [|discriminate].
  apply strip_nl_sound in El. subst l1.
  destruct (ends_with_newline l0) eqn:E0; [discriminate|].
  intros H. injection H as <- <- <-. unfold print_item. cbn [fst snd]. rewrite E0.
  unfold missing_newline_text. rewrite marker_split. cbn [app]. f_equal.
  rewrite <- !app_assoc. reflexivity.
Qed.

(* what may follow a body line: nothing, a tag byte or '@' *)
Definition safe_head (s : list N) : Prop :=
  match s with [] => True | c :: _ => c <> 10%N /\ c <> 92%N end.

Lemma safe_nolf s : safe_head s -> nolf_head s.
Proof. destruct s as [|c r]; [trivial|]. intros [H _]. exact H. Qed.

Lemma safe_nomarker s : safe_head s -> strip_prefix txt_marker_tail s = None.
Proof.
  destruct s as [|c r]; [reflexivity|]. intros [_ H].
  unfold txt_marker_tail. apply strip_prefix_head_ne. intros E. apply H. symmetry. exact E.
Qed.

Definition nline (hint : bool) (l : list N) : list N := if hint then l else norm_line l.
Definition nbody (hint : bool) (b : list (ctag * list N)) : list (ctag * list N) :=
  map (fun x => (fst x, nline hint (snd x))) b.
Definition nhunk (hint : bool) (h : hunk) : hunk :=
  {| h_oshown := h_oshown h; h_olen := h_olen h; h_nshown := h_nshown h; h_nlen := h_nlen h;
     h_body := nbody hint (h_body h) |}.

Lemma nline_ewn hint l : ends_with_newline l = true -> nline hint l = l.
Proof. intros H. unfold nline, norm_line. rewrite H. destruct hint; reflexivity. Qed.

Lemma parse_item_print_term hint t l rest :
  ends_with_newline l = true -> read_line (l ++ rest) = Some (l, rest) -> safe_head rest ->
  parse_item hint (print_item hint (t, l) ++ rest) = Some (t, nline hint l, rest).
Proof.
  intros Hn Hrl Hr. unfold print_item, parse_item. cbn [fst snd app].
  rewrite tag_of_char_tag, Hn, app_nil_r, Hrl, (nline_ewn hint l Hn).
  destruct hint; [|reflexivity]. rewrite (safe_nomarker rest Hr). reflexivity.
Qed.

Theorem parse_item_print hint t l rest :
  line_okb l = true -> safe_head rest ->
  parse_item hint (print_item hint (t, l) ++ rest) = Some (t, nline hint l, rest).
Proof.
  intros Hl Hr. destruct (line_okb_split l Hl) as (pre & term & -> & Hpre & Hterm).
  destruct Hterm.
  - rewrite app_nil_r. pose proof (ewn_nonl pre Hpre) as Hn.
    unfold print_item, parse_item. cbn [fst snd app]. rewrite tag_of_char_tag, Hn.
    unfold missing_newline_text, nline, norm_line. rewrite Hn. destruct hint.
    + rewrite marker_split, <- app_assoc. cbn [app]. rewrite (read_line_lf pre Hpre).
      rewrite strip_prefix_app, strip_nl_app, Hn. reflexivity.
    + rewrite <- app_assoc. cbn [app]. rewrite (read_line_lf pre Hpre). reflexivity.
  - apply parse_item_print_term; [apply ewn_snoc; auto| |exact Hr].
    rewrite <- app_assoc. cbn [app]. apply read_line_lf. exact Hpre.
  - apply parse_item_print_term; [|  |exact Hr].
    + change [13; 10]%N with ([13] ++ [10])%N. rewrite app_assoc. apply ewn_snoc. auto.
    + rewrite <- app_assoc. cbn [app]. apply read_line_crlf. exact Hpre.
  - apply parse_item_print_term; [apply ewn_snoc; auto| |exact Hr].
    rewrite <- app_assoc. cbn [app]. apply read_line_cr; [exact Hpre|apply safe_nolf; exact Hr].
Qed.

(* ------------------------------------------------------------------ *)
(* 6. hunk bodies                                                       *)
(* ------------------------------------------------------------------ *)

Theorem parse_body_sound hint : forall fuel o n s b rest,
  parse_body hint fuel o n s = Some (b, rest) -> s = print_body hint b ++ rest.
Proof.
  induction fuel as [|fuel IH]; intros o n s b rest H; cbn [parse_body] in H;
    destruct ((o =? 0) && (n =? 0)).
  - injection H as <- <-. reflexivity.
  - discriminate H.
  - injection H as <- <-. reflexivity.
  - destruct (parse_item hint s) as [[[t l] r1]|] eqn:Ei; [|discriminate H].
    destruct (count_down t o n) as [[o' n']|]; [|discriminate H].
    destruct (parse_body hint fuel o' n' r1) as [[b1 rest1]|] eqn:Eb; [|discriminate H].
    injection H as <- <-. apply parse_item_sound in Ei. apply IH in Eb. subst s r1.
    rewrite print_body_cons, <- app_assoc. reflexivity.
Qed.

Lemma counts_le b : length b <= old_count b + new_count b.
Proof.
  unfold old_count, new_count.
  induction b as [|[t l] b IH]; [cbn; lia|].
  destruct t; cbn [filter fst length]; lia.
Qed.

Lemma tag_safe t : tag_char t <> 10%N /\ tag_char t <> 92%N.
Proof. destruct t; split; discriminate. Qed.

Lemma body_safe hint b rest : safe_head rest -> safe_head (print_body hint b ++ rest).
Proof.
  intros Hr. destruct b as [|[t l] b]; [exact Hr|].
  rewrite print_body_cons. unfold print_item. cbn [fst snd app safe_head]. apply tag_safe.
Qed.

Definition LinesOk (b : list (ctag * list N)) : Prop :=
  Forall (fun x => line_okb (snd x) = true) b.

Theorem parse_body_print hint : forall b, LinesOk b ->
  forall fuel rest, length b <= fuel -> safe_head rest ->
  parse_body hint fuel (old_count b) (new_count b) (print_body hint b ++ rest)
  = Some (nbody hint b, rest).
Proof.
  induction 1 as [|[t l] b Hl _ IH]; intros fuel rest Hf Hr.
  - destruct fuel; reflexivity.
  - destruct fuel as [|fuel]; [cbn [length] in Hf; lia|].
    assert (Hc : count_down t (old_count ((t, l) :: b)) (new_count ((t, l) :: b))
                 = Some (old_count b, new_count b)) by (destruct t; reflexivity).
    assert (Hz : (old_count ((t, l) :: b) =? 0) && (new_count ((t, l) :: b) =? 0) = false).
    { unfold old_count, new_count.
      destruct t; cbn [filter fst length Nat.eqb andb]; try reflexivity; apply andb_false_r. }
    cbn [parse_body]. rewrite Hz, print_body_cons, <- app_assoc.
    cbn [snd] in Hl.
    rewrite (parse_item_print hint t l _ Hl (body_safe hint b rest Hr)), Hc.
    cbn [length] in Hf. rewrite (IH fuel rest ltac:(lia) Hr). reflexivity.
Qed.

(* ------------------------------------------------------------------ *)
(* 7. hunks and the whole text                                          *)
(* ------------------------------------------------------------------ *)

Lemma print_hunk_nonempty hint h : h_body h <> [] ->
  print_hunk hint h =
  txt_hunk_open ++ print_range (h_oshown h) (h_olen h) ++
  txt_hunk_mid ++ print_range (h_nshown h) (h_nlen h) ++ txt_hunk_close ++
  print_body hint (h_body h).
Proof.
  intros Hb. unfold print_hunk. destruct (h_body h); [contradiction Hb; reflexivity|reflexivity].
Qed.

Theorem parse_hunk_sound hint s h rest :
  parse_hunk hint s = Some (h, rest) -> s = print_hunk hint h ++ rest /\ h_body h <> [].
Proof.
  unfold parse_hunk.
  destruct (strip_prefix txt_hunk_open s) as [s1|] eqn:E1; [|discriminate].
  destruct (parse_range s1) as [[[a b] s2]|] eqn:E2; [|discriminate].
  destruct (strip_prefix txt_hunk_mid s2) as [s3|] eqn:E3; [|discriminate].
  destruct (parse_range s3) as [[[c d] s4]|] eqn:E4; [|discriminate].
  destruct (strip_prefix txt_hunk_close s4) as [s5|] eqn:E5; [|discriminate].
  destruct (parse_body hint (b + d) b d s5) as [[[|x body] rest1]|] eqn:E6; try discriminate.
  intros H. injection H as <- <-.
  apply strip_prefix_sound in E1. apply parse_range_sound in E2.
  apply strip_prefix_sound in E3. apply parse_range_sound in E4.
  apply strip_prefix_sound in E5. apply parse_body_sound in E6.
  split; [|cbn [h_body]; discriminate].
  rewrite print_hunk_nonempty by (cbn [h_body]; discriminate).
  cbn [h_body h_oshown h_olen h_nshown h_nlen].
  subst s s1 s2 s3 s4 s5. repeat rewrite <- app_assoc. reflexivity.
Qed.

Lemma parse_range_mid a b X :
  parse_range (print_range a b ++ txt_hunk_mid ++ X) = Some (a, b, txt_hunk_mid ++ X).
Proof. exact (parse_range_print a b ([43%N] ++ X)). Qed.

Lemma parse_range_close a b X :
  parse_range (print_range a b ++ txt_hunk_close ++ X) = Some (a, b, txt_hunk_close ++ X).
Proof. exact (parse_range_print a b ([64; 64; 10]%N ++ X)). Qed.

Definition HunkWf (h : hunk) : Prop := hunk_wfb h = true.

Lemma hunk_wf_inv h : HunkWf h ->
  h_body h <> [] /\ old_count (h_body h) = h_olen h /\ new_count (h_body h) = h_nlen h /\
  LinesOk (h_body h).
Proof.
  unfold HunkWf, hunk_wfb. intros H.
  apply andb_true_iff in H. destruct H as [H H4].
  apply andb_true_iff in H. destruct H as [H H3].
  apply andb_true_iff in H. destruct H as [H1 H2].
  apply Nat.eqb_eq in H2. apply Nat.eqb_eq in H3.
  split; [destruct (h_body h); [discriminate H1|discriminate]|].
  split; [exact H2|]. split; [exact H3|].
  apply Forall_forall. exact (proj1 (forallb_forall _ _) H4).
Qed.

Theorem parse_hunk_print hint h rest :
  HunkWf h -> safe_head rest ->
  parse_hunk hint (print_hunk hint h ++ rest) = Some (nhunk hint h, rest).
Proof.
  intros Hwf Hr. destruct (hunk_wf_inv h Hwf) as (Hne & Ho & Hn & Hl).
  rewrite (print_hunk_nonempty hint h Hne). unfold parse_hunk.
  repeat rewrite <- app_assoc.
  rewrite strip_prefix_app, parse_range_mid, strip_prefix_app, parse_range_close,
    strip_prefix_app.
  rewrite <- Ho, <- Hn.
  rewrite (parse_body_print hint (h_body h) Hl _ rest (counts_le (h_body h)) Hr).
  unfold nhunk. rewrite <- Ho, <- Hn.
  destruct (h_body h) as [|x body]; [contradiction Hne; reflexivity|].
  reflexivity.
Qed.

Theorem parse_hunks_sound hint : forall fuel s hs,
  parse_hunks hint fuel s = Some hs -> s = print_hunks hint hs.
Proof.
  induction fuel as [|fuel IH]; intros s hs H; destruct s as [|c s']; cbn [parse_hunks] in H.
  - injection H as <-. reflexivity.
  - discriminate H.
  - injection H as <-. reflexivity.
  - destruct (parse_hunk hint (c :: s')) as [[h rest]|] eqn:Eh; [|discriminate H].
    destruct (parse_hunks hint fuel rest) as [hs'|] eqn:Er; [|discriminate H].
    injection H as <-. apply parse_hunk_sound in Eh. destruct Eh as [Eh _].
    apply IH in Er. rewrite Eh, Er. reflexivity.
Qed.

Lemma hunks_safe hint hs : Forall HunkWf hs -> safe_head (print_hunks hint hs).
Proof.
  intros H. destruct hs as [|h hs]; [exact I|].
  inversion H as [|? ? Hh _]; subst.
  destruct (hunk_wf_inv h Hh) as (Hne & _).
  destruct (print_hunk_head hint h Hne) as [r E].
  unfold print_hunks. cbn [flat_map]. rewrite E. cbn [app safe_head]. split; discriminate.
Qed.

Theorem parse_hunks_print hint : forall hs, Forall HunkWf hs ->
  forall fuel, length hs <= fuel ->
  parse_hunks hint fuel (print_hunks hint hs) = Some (map (nhunk hint) hs).
Proof.
  induction 1 as [|h hs Hh Hhs IH]; intros fuel Hf.
  - destruct fuel; reflexivity.
  - destruct fuel as [|fuel]; [cbn [length] in Hf; lia|].
    change (print_hunks hint (h :: hs)) with (print_hunk hint h ++ print_hunks hint hs).
    destruct (print_hunk hint h ++ print_hunks hint hs) as [|c s'] eqn:Es.
    + destruct (hunk_wf_inv h Hh) as (Hne & _).
      destruct (print_hunk_head hint h Hne) as [r E]. rewrite E in Es. discriminate Es.
    + cbn [parse_hunks]. rewrite <- Es.
      rewrite (parse_hunk_print hint h _ Hh (hunks_safe hint hs Hhs)).
      cbn [length] in Hf. rewrite (IH fuel ltac:(lia)). reflexivity.
Qed.

Lemma print_hunks_length hint hs : Forall HunkWf hs -> length hs <= length (print_hunks hint hs).
Proof.
  induction 1 as [|h hs Hh _ IH]; [cbn; lia|].
  change (print_hunks hint (h :: hs)) with (print_hunk hint h ++ print_hunks hint hs).
  destruct (hunk_wf_inv h Hh) as (Hne & _).
  destruct (print_hunk_head hint h Hne) as [r E]. rewrite E, app_length. cbn [length]. lia.
Qed.

(* SOUNDNESS: whatever is accepted is exactly the printed text of the result *)
Theorem parse_sound hint header s hs :
  parse_udiff hint header s = Some hs -> print_udiff hint header hs = s.
Proof.
  unfold parse_udiff. destruct s as [|c s'].
  - intros H. injection H as <-. apply print_udiff_nil.
  - destruct header as [[a b]|].
    + destruct (strip_prefix (file_header a b) (c :: s')) as [s1|] eqn:Ep; [|discriminate].
      destruct (parse_hunks hint (length s1) s1) as [[|h hs']|] eqn:Eh; try discriminate.
      intros H. injection H as <-.
      apply strip_prefix_sound in Ep. apply parse_hunks_sound in Eh.
      rewrite Ep, Eh. reflexivity.
    + intros H. apply parse_hunks_sound in H. rewrite H. apply print_udiff_none.
Qed.

(* COMPLETENESS, both hints: the result is the normalised hunk list *)
Theorem parse_print_gen hint header hs :
  Forall HunkWf hs ->
  parse_udiff hint header (print_udiff hint header hs) = Some (map (nhunk hint) hs).
Proof.
  intros Hwf. destruct hs as [|h hs'].
  - rewrite print_udiff_nil. reflexivity.
  - set (hs := h :: hs') in *.
    pose proof (print_hunks_length hint hs Hwf) as Hlen.
    assert (Hhd : exists r, print_hunks hint hs = 64%N :: r).
    { apply print_hunks_head; [|discriminate].
      eapply Forall_impl; [|exact Hwf]. intros h0 Hh0. exact (proj1 (hunk_wf_inv h0 Hh0)). }
    destruct Hhd as [r Ehd].
    destruct header as [[a b]|].
    + rewrite print_udiff_some by discriminate. unfold parse_udiff.
      destruct (file_header a b ++ print_hunks hint hs) as [|c s'] eqn:Es.
      { unfold file_header, txt_old_file in Es. cbn [app] in Es. discriminate Es. }
      rewrite <- Es, strip_prefix_app.
      rewrite (parse_hunks_print hint hs Hwf _ Hlen). reflexivity.
    + rewrite print_udiff_none. unfold parse_udiff.
      rewrite Ehd. cbv iota. rewrite <- Ehd.
      rewrite (parse_hunks_print hint hs Hwf _ Hlen). reflexivity.
Qed.

Lemma nbody_true b : nbody true b = b.
Proof.
  unfold nbody. induction b as [|[t l] b IH]; cbn [map fst snd nline]; [reflexivity|].
  f_equal. exact IH.
Qed.

Lemma nhunk_true h : nhunk true h = h.
Proof. destruct h as [a b c d body]. unfold nhunk. cbn [h_oshown h_olen h_nshown h_nlen h_body]. rewrite nbody_true. reflexivity. Qed.

Lemma nhunk_false h : nhunk false h = norm_hunk h.
Proof. reflexivity. Qed.

(* COMPLETENESS with the hint on: the parser inverts the printer *)
Theorem parse_print header hs :
  Forall HunkWf hs -> parse_udiff true header (print_udiff true header hs) = Some hs.
Proof.
  intros Hwf. rewrite (parse_print_gen true header hs Hwf). f_equal.
  rewrite <- (map_id hs) at 2. apply map_ext. exact nhunk_true.
Qed.

(* with the hint off, "a" and "a\n" print alike; the parser returns the latter *)
Theorem parse_print_nohint header hs :
  Forall HunkWf hs ->
  parse_udiff false header (print_udiff false header hs) = Some (map norm_hunk hs).
Proof. intros Hwf. exact (parse_print_gen false header hs Hwf). Qed.

(* ------------------------------------------------------------------ *)
(* 8. hunk records that pass check_patch are well-formed                *)
(* ------------------------------------------------------------------ *)

Definition LinesOkL (L : list (list N)) : Prop := Forall (fun l => line_okb l = true) L.

Section Wf.
  Variable old : list (list N).

  Lemma apply_body_facts : forall body cur c out a b,
    apply_body old body cur = Some (c, out, a, b) ->
    a = old_count body /\ b = new_count body /\
    (forall t l, In (t, l) body -> t <> ChInsert -> In l old) /\
    (forall l, In (ChInsert, l) body -> In l out).
  Proof.
    unfold old_count, new_count.
    induction body as [|[t l] body IH]; intros cur c out a b H; cbn [apply_body] in H.
    - injection H as <- <- <- <-. repeat split; try reflexivity; intros; contradiction.
    - destruct t.
      + destruct (nth_error old cur) as [l'|] eqn:En; [|discriminate H].
        destruct (bytes_eqb l l') eqn:Eb; [|discriminate H].
        destruct (apply_body old body (S cur)) as [[[[c1 out1] a1] b1]|] eqn:Er; [|discriminate H].
        injection H as <- <- <- <-. destruct (IH _ _ _ _ _ Er) as (Ha & Hb & Hold & Hins).
        apply bytes_eqb_eq in Eb. subst l'. apply nth_error_In in En.
        cbn [filter fst length]. split; [f_equal; exact Ha|]. split; [f_equal; exact Hb|]. split.
        * intros t0 l0 [E|Hin] Ht; [injection E as <- <-; exact En|exact (Hold t0 l0 Hin Ht)].
        * intros l0 [E|Hin]; [discriminate E|right; exact (Hins l0 Hin)].
      + destruct (nth_error old cur) as [l'|] eqn:En; [|discriminate H].
        destruct (bytes_eqb l l') eqn:Eb; [|discriminate H].
        destruct (apply_body old body (S cur)) as [[[[c1 out1] a1] b1]|] eqn:Er; [|discriminate H].
        injection H as <- <- <- <-. destruct (IH _ _ _ _ _ Er) as (Ha & Hb & Hold & Hins).
        apply bytes_eqb_eq in Eb. subst l'. apply nth_error_In in En.
        cbn [filter fst length]. split; [f_equal; exact Ha|]. split; [exact Hb|]. split.
        * intros t0 l0 [E|Hin] Ht; [injection E as <- <-; exact En|exact (Hold t0 l0 Hin Ht)].
        * intros l0 [E|Hin]; [discriminate E|exact (Hins l0 Hin)].
      + destruct (apply_body old body cur) as [[[[c1 out1] a1] b1]|] eqn:Er; [|discriminate H].
        injection H as <- <- <- <-. destruct (IH _ _ _ _ _ Er) as (Ha & Hb & Hold & Hins).
        cbn [filter fst length]. split; [exact Ha|]. split; [f_equal; exact Hb|]. split.
        * intros t0 l0 [E|Hin] Ht; [injection E as <- <-; contradiction Ht; reflexivity
                                   |exact (Hold t0 l0 Hin Ht)].
        * intros l0 [E|Hin]; [injection E as <-; left; reflexivity|right; exact (Hins l0 Hin)].
  Qed.

  (* counts as in the header; ' ' and '-' lines are lines of old; '+' lines
     are lines of the result *)
  Definition HunkFacts (res : list (list N)) (h : hunk) : Prop :=
    old_count (h_body h) = h_olen h /\ new_count (h_body h) = h_nlen h /\
    (forall t l, In (t, l) (h_body h) -> t <> ChInsert -> In l old) /\
    (forall l, In (ChInsert, l) (h_body h) -> In l res).

  Lemma apply_hunks_facts : forall hs pos out res,
    apply_hunks old hs pos out = Some res ->
    (forall l, In l out -> In l res) /\ Forall (HunkFacts res) hs.
  Proof.
    induction hs as [|h hs IH]; intros pos out res H; cbn [apply_hunks] in H.
    - injection H as <-. split; [|constructor]. intros l Hl. apply in_or_app. left. exact Hl.
    - destruct (true_start (h_oshown h) (h_olen h)) as [s|]; [|discriminate H].
      destruct (true_start (h_nshown h) (h_nlen h)) as [ns|]; [|discriminate H].
      destruct ((pos <=? s) && (s <=? length old)); [|discriminate H].
      cbv zeta in H.
      destruct (length (out ++ firstn (s - pos) (skipn pos old)) =? ns); [|discriminate H].
      destruct (apply_body old (h_body h) s) as [[[[cur produced] a] b]|] eqn:Eb; [|discriminate H].
      destruct ((a =? h_olen h) && (b =? h_nlen h)) eqn:Ec; [|discriminate H].
      apply andb_true_iff in Ec. destruct Ec as [Ea Ebb].
      apply Nat.eqb_eq in Ea. apply Nat.eqb_eq in Ebb.
      destruct (IH _ _ _ H) as [Hout Hall].
      destruct (apply_body_facts _ _ _ _ _ _ Eb) as (Ha & Hb & Hold & Hins).
      split.
      + intros l Hl. apply Hout. apply in_or_app. left. apply in_or_app. left. exact Hl.
      + constructor; [|exact Hall]. unfold HunkFacts.
        split; [congruence|]. split; [congruence|]. split; [exact Hold|].
        intros l Hl. apply Hout. apply in_or_app. right. exact (Hins l Hl).
  Qed.
End Wf.

(* [check_patch] implies everything [hunk_wfb] asks, given that the lines of
   both sides are lines *)
Theorem check_patch_wf n hs old new :
  LinesOkL old -> LinesOkL new -> check_patch n hs old new = true -> Forall HunkWf hs.
Proof.
  intros Hold Hnew H. unfold check_patch in H.
  apply andb_true_iff in H. destruct H as [Hshape Happ].
  unfold apply_strict in Happ.
  destruct (apply_hunks old hs 0 []) as [out|] eqn:Ea; [|discriminate Happ].
  apply lines_eqb_eq in Happ. subst out.
  destruct (apply_hunks_facts old hs 0 [] new Ea) as [_ Hall].
  apply Forall_forall. intros h Hh.
  pose proof (proj1 (forallb_forall _ _) Hshape h Hh) as Hs.
  apply shape_body_nonempty in Hs.
  pose proof (proj1 (Forall_forall _ _) Hall h Hh) as (Ho & Hn & Hio & Hin).
  unfold HunkWf, hunk_wfb. rewrite Ho, Hn, !Nat.eqb_refl.
  destruct (h_body h) as [|x body] eqn:Eb; [contradiction Hs; reflexivity|].
  cbn [andb]. apply forallb_forall. intros [t l] Htl. cbn [snd].
  destruct t.
  - exact (proj1 (Forall_forall _ _) Hold l (Hio ChEqual l Htl ltac:(discriminate))).
  - exact (proj1 (Forall_forall _ _) Hold l (Hio ChDelete l Htl ltac:(discriminate))).
  - exact (proj1 (Forall_forall _ _) Hnew l (Hin l Htl)).
Qed.

(* the hunk records of the renderer's model are well-formed *)
Theorem model_hunks_wf old new ops n hs :
  OpsExact (cmp_of bytes_eqb (slice_lookup old) (slice_lookup new)) 0 (length old) 0 (length new) ops ->
  Alternating ops ->
  LinesOkL old -> LinesOkL new ->
  model_hunks old new ops n = Ok hs -> Forall HunkWf hs.
Proof.
  intros Hex Halt Ho Hn Hm.
  destruct (udiff_applies old new ops n Hex Halt) as (hs' & Hm' & Hchk).
  rewrite Hm in Hm'. injection Hm' as <-.
  exact (check_patch_wf n hs old new Ho Hn Hchk).
Qed.

(* ------------------------------------------------------------------ *)
(* 9. the line tokens of tokenize_lines are lines                       *)
(* ------------------------------------------------------------------ *)

Lemma nonl_of_forallb pre : forallb not_nl pre = true -> NoNl pre.
Proof. intros H. apply Forall_forall. exact (proj1 (forallb_forall _ _) H). Qed.

Lemma line_shape_okb t nlf lst : line_shape t nlf lst = true -> line_okb t = true.
Proof.
  intros H. destruct (line_shape_sound t nlf lst H) as (pre & Hpre & Hc).
  apply nonl_of_forallb in Hpre.
  destruct Hc as [->|[->|[[-> _]|[-> _]]]].
  - apply line_okb_intro; [exact Hpre|constructor].
  - apply line_okb_intro; [exact Hpre|constructor].
  - apply line_okb_intro; [exact Hpre|constructor].
  - rewrite <- (app_nil_r pre). apply line_okb_intro; [exact Hpre|constructor].
Qed.

Lemma check_lines_shape_okb bs : forall toks,
  check_lines_shape bs toks = true -> LinesOkL (map (tok_bytes bs) toks).
Proof.
  induction toks as [|t r IH]; intros H; cbn [map]; [constructor|].
  cbn [check_lines_shape] in H. apply andb_true_iff in H. destruct H as [H1 H2].
  constructor; [exact (line_shape_okb _ _ _ H1)|exact (IH H2)].
Qed.

Theorem tokenize_lines_ok bm bs :
  LinesOkL (map (tok_bytes bs) (tokenize bm TkLines bs)).
Proof.
  assert (E : tokenize bm TkLines bs = tokenize true TkLines bs).
  { destruct bm; [reflexivity|]. cbn [tokenize]. apply tokenize_lines_str_bytes. }
  rewrite E. pose proof (tok_bytes_ok TkLines bs) as H. unfold check_tokens in H.
  apply andb_true_iff in H. destruct H as [_ H]. exact (check_lines_shape_okb bs _ H).
Qed.

(* ------------------------------------------------------------------ *)
(* 10. check_patch is stable under the hint-off normalisation           *)
(* ------------------------------------------------------------------ *)

Definition nitem (x : ctag * list N) : ctag * list N := (fst x, norm_line (snd x)).

Lemma norm_hunk_body h : h_body (norm_hunk h) = map nitem (h_body h).
Proof. reflexivity. Qed.

Lemma apply_body_norm old : forall body cur c out a b,
  apply_body old body cur = Some (c, out, a, b) ->
  apply_body (map norm_line old) (map nitem body) cur = Some (c, map norm_line out, a, b).
Proof.
  induction body as [|[t l] body IH]; intros cur c out a b H;
    cbn [apply_body map nitem fst snd] in *.
  - injection H as <- <- <- <-. reflexivity.
  - destruct t.
    + rewrite nth_error_map.
      destruct (nth_error old cur) as [l'|] eqn:En; [|discriminate H]. cbn [option_map].
      destruct (bytes_eqb l l') eqn:Eb; [|discriminate H].
      apply bytes_eqb_eq in Eb. subst l'. rewrite bytes_eqb_refl.
      destruct (apply_body old body (S cur)) as [[[[c1 out1] a1] b1]|] eqn:Er; [|discriminate H].
      injection H as <- <- <- <-. rewrite (IH _ _ _ _ _ Er). reflexivity.
    + rewrite nth_error_map.
      destruct (nth_error old cur) as [l'|] eqn:En; [|discriminate H]. cbn [option_map].
      destruct (bytes_eqb l l') eqn:Eb; [|discriminate H].
      apply bytes_eqb_eq in Eb. subst l'. rewrite bytes_eqb_refl.
      destruct (apply_body old body (S cur)) as [[[[c1 out1] a1] b1]|] eqn:Er; [|discriminate H].
      injection H as <- <- <- <-. rewrite (IH _ _ _ _ _ Er). reflexivity.
    + destruct (apply_body old body cur) as [[[[c1 out1] a1] b1]|] eqn:Er; [|discriminate H].
      injection H as <- <- <- <-. rewrite (IH _ _ _ _ _ Er). reflexivity.
Qed.

Lemma apply_hunks_norm old : forall hs pos out res,
  apply_hunks old hs pos out = Some res ->
  apply_hunks (map norm_line old) (map norm_hunk hs) pos (map norm_line out)
  = Some (map norm_line res).
Proof.
  induction hs as [|h hs IH]; intros pos out res H; cbn [apply_hunks map] in *.
  - injection H as <-. rewrite skipn_map, map_app. reflexivity.
  - rewrite norm_hunk_body. cbn [norm_hunk h_oshown h_olen h_nshown h_nlen].
    destruct (true_start (h_oshown h) (h_olen h)) as [s|]; [|discriminate H].
    destruct (true_start (h_nshown h) (h_nlen h)) as [ns|]; [|discriminate H].
    rewrite map_length.
    destruct ((pos <=? s) && (s <=? length old)); [|discriminate H].
    cbv zeta in *. rewrite skipn_map, firstn_map, <- map_app, map_length.
    destruct (length (out ++ firstn (s - pos) (skipn pos old)) =? ns); [|discriminate H].
    destruct (apply_body old (h_body h) s) as [[[[cur produced] a] b]|] eqn:Eb; [|discriminate H].
    rewrite (apply_body_norm old _ _ _ _ _ _ Eb).
    destruct ((a =? h_olen h) && (b =? h_nlen h)); [|discriminate H].
    rewrite <- map_app. exact (IH _ _ _ H).
Qed.

Lemma existsb_nitem b :
  existsb (fun x => negb (is_ctx x)) (map nitem b) = existsb (fun x => negb (is_ctx x)) b.
Proof. induction b as [|x b IH]; cbn [map existsb]; [reflexivity|]. rewrite IH. reflexivity. Qed.

Lemma leading_ctx_nitem b : leading_ctx (map nitem b) = leading_ctx b.
Proof.
  induction b as [|x b IH]; cbn [map leading_ctx]; [reflexivity|].
  change (is_ctx (nitem x)) with (is_ctx x). rewrite IH. reflexivity.
Qed.

Lemma del_after_ins_nitem : forall b s, del_after_ins (map nitem b) s = del_after_ins b s.
Proof.
  induction b as [|[t l] b IH]; intros s; cbn [map nitem fst snd del_after_ins]; [reflexivity|].
  destruct t; rewrite ?IH; reflexivity.
Qed.

Lemma hunk_shape_norm n h : hunk_shape_ok n (norm_hunk h) = hunk_shape_ok n h.
Proof.
  unfold hunk_shape_ok. cbv zeta. rewrite norm_hunk_body.
  rewrite existsb_nitem, leading_ctx_nitem, <- map_rev, leading_ctx_nitem, del_after_ins_nitem.
  reflexivity.
Qed.

Theorem check_patch_norm n hs old new :
  check_patch n hs old new = true ->
  check_patch n (map norm_hunk hs) (map norm_line old) (map norm_line new) = true.
Proof.
  unfold check_patch, apply_strict. intros H.
  apply andb_true_iff in H. destruct H as [Hs Ha].
  destruct (apply_hunks old hs 0 []) as [out|] eqn:Ea; [|discriminate Ha].
  apply lines_eqb_eq in Ha. subst out.
  pose proof (apply_hunks_norm old hs 0 [] new Ea) as Hn. cbn [map] in Hn.
  rewrite Hn, lines_eqb_refl, andb_true_r.
  apply forallb_forall. intros h' Hh'. apply in_map_iff in Hh'.
  destruct Hh' as (h & <- & Hh). rewrite hunk_shape_norm.
  exact (proj1 (forallb_forall _ _) Hs h Hh).
Qed.

Lemma print_item_norm x : print_item false (nitem x) = print_item false x.
Proof.
  destruct x as [t l]. unfold print_item, nitem, norm_line. cbn [fst snd].
  destruct (ends_with_newline l) eqn:E.
  - rewrite E. reflexivity.
  - rewrite (ewn_snoc l 10%N) by auto. unfold missing_newline_text.
    rewrite app_nil_r. reflexivity.
Qed.

(* the normalised hunks print to the same text *)
Theorem print_udiff_norm header hs :
  Forall (fun h => h_body h <> []) hs ->
  print_udiff false header (map norm_hunk hs) = print_udiff false header hs.
Proof.
  intros Hne.
  assert (Eh : print_hunks false (map norm_hunk hs) = print_hunks false hs).
  { unfold print_hunks. induction Hne as [|h hs Hh _ IH]; cbn [map flat_map]; [reflexivity|].
    rewrite IH. f_equal. unfold print_hunk. rewrite norm_hunk_body.
    cbn [norm_hunk h_oshown h_olen h_nshown h_nlen].
    destruct (h_body h) as [|x b] eqn:Eb; [reflexivity|]. rewrite <- Eb.
    assert (Ebody : print_body false (map nitem (h_body h)) = print_body false (h_body h)).
    { unfold print_body. clear. induction (h_body h) as [|y b IH]; cbn [map flat_map]; [reflexivity|].
      rewrite IH, print_item_norm. reflexivity. }
    rewrite Ebody, Eb. reflexivity. }
  unfold print_udiff. rewrite Eh. destruct hs; reflexivity.
Qed.

(* ------------------------------------------------------------------ *)
(* 11. corollaries: parse (render ...) passes check_patch               *)
(* ------------------------------------------------------------------ *)

(* what the run-time check  parse_udiff + check_patch  establishes about the
   bytes s, without any assumption on s *)
Theorem parse_check_meaning hint header s n hs old new :
  parse_udiff hint header s = Some hs -> check_patch n hs old new = true ->
  s = print_udiff hint header hs /\
  apply_strict hs old = Some new /\
  Forall (fun h => hunk_shape_ok n h = true) hs.
Proof.
  intros Hp Hc. split; [symmetry; exact (parse_sound hint header s hs Hp)|].
  unfold check_patch in Hc. apply andb_true_iff in Hc. destruct Hc as [Hs Ha].
  split.
  - destruct (apply_strict hs old) as [out|]; [|discriminate Ha].
    apply lines_eqb_eq in Ha. subst out. reflexivity.
  - apply Forall_forall. exact (proj1 (forallb_forall _ _) Hs).
Qed.

(* the text determines the hunk records *)
Theorem print_udiff_inj header hs1 hs2 :
  Forall HunkWf hs1 -> Forall HunkWf hs2 ->
  print_udiff true header hs1 = print_udiff true header hs2 -> hs1 = hs2.
Proof.
  intros H1 H2 E. pose proof (parse_print header hs1 H1) as P1.
  rewrite E, (parse_print header hs2 H2) in P1. injection P1 as <-. reflexivity.
Qed.

Section Render.
  Variables old new : list (list N).
  Let cmp := cmp_of bytes_eqb (slice_lookup old) (slice_lookup new).
  Hypothesis Hold : LinesOkL old.
  Hypothesis Hnew : LinesOkL new.

  (* hint on: the rendered text parses back to the model's hunk records,
     and they pass check_patch *)
  Theorem render_parse_applies ops n header :
    OpsExact cmp 0 (length old) 0 (length new) ops -> Alternating ops ->
    exists s hs,
      render_udiff old new true true false ops n header = Ok s /\
      model_hunks old new ops n = Ok hs /\
      parse_udiff true header s = Some hs /\
      check_patch n hs old new = true.
  Proof.
    intros Hex Halt. destruct (udiff_applies old new ops n Hex Halt) as (hs & Hm & Hchk).
    exists (print_udiff true header hs), hs.
    split; [rewrite udiff_render_eq_print_gen, Hm; reflexivity|].
    split; [exact Hm|]. split; [|exact Hchk].
    apply parse_print. exact (check_patch_wf n hs old new Hold Hnew Hchk).
  Qed.

  (* hint off: the parser returns the normalised records (a final "\n" added
     to every line without terminator); they pass check_patch against the
     equally normalised lines *)
  Theorem render_parse_applies_nohint ops n header :
    OpsExact cmp 0 (length old) 0 (length new) ops -> Alternating ops ->
    exists s hs,
      render_udiff old new true false false ops n header = Ok s /\
      model_hunks old new ops n = Ok hs /\
      parse_udiff false header s = Some (map norm_hunk hs) /\
      check_patch n (map norm_hunk hs) (map norm_line old) (map norm_line new) = true.
  Proof.
    intros Hex Halt. destruct (udiff_applies old new ops n Hex Halt) as (hs & Hm & Hchk).
    exists (print_udiff false header hs), hs.
    split; [rewrite udiff_render_eq_print_gen, Hm; reflexivity|].
    split; [exact Hm|]. split; [|exact (check_patch_norm n hs old new Hchk)].
    apply parse_print_nohint. exact (check_patch_wf n hs old new Hold Hnew Hchk).
  Qed.
End Render.

(* the same for the line tokens of two texts (either tokenizer flavour) *)
Theorem text_render_parse_applies (bm : bool) (o nw : list N) ops n header :
  let old := map (tok_bytes o) (tokenize bm TkLines o) in
  let new := map (tok_bytes nw) (tokenize bm TkLines nw) in
  OpsExact (cmp_of bytes_eqb (slice_lookup old) (slice_lookup new)) 0 (length old) 0 (length new) ops ->
  Alternating ops ->
  exists s hs,
    render_udiff old new true true false ops n header = Ok s /\
    parse_udiff true header s = Some hs /\
    check_patch n hs old new = true.
Proof.
  intros old new Hex Halt.
  destruct (render_parse_applies old new (tokenize_lines_ok bm o) (tokenize_lines_ok bm nw)
              ops n header Hex Halt) as (s & hs & Hr & _ & Hp & Hc).
  exists s, hs. auto.
Qed.

(* ------------------------------------------------------------------ *)
(* 12. strictness, on examples                                          *)
(* ------------------------------------------------------------------ *)

(* "@@ -1 +1 @@\n-a\n+b\n" *)
Example parse_accepts :
  parse_udiff true None [64;64;32;45;49;32;43;49;32;64;64;10; 45;97;10; 43;98;10]%N
  = Some [ {| h_oshown := 1; h_olen := 1; h_nshown := 1; h_nlen := 1;
              h_body := [(ChDelete, [97; 10]); (ChInsert, [98; 10])]%N |} ].
Proof. vm_compute. reflexivity. Qed.

Example parse_rejects :
  (* "@@ -1,1 +1 @@..." : a count of 1 must be omitted *)
  parse_udiff true None [64;64;32;45;49;44;49;32;43;49;32;64;64;10; 45;97;10; 43;98;10]%N = None /\
  (* "@@ -01 +1 @@..." : leading zero *)
  parse_udiff true None [64;64;32;45;48;49;32;43;49;32;64;64;10; 45;97;10; 43;98;10]%N = None /\
  (* one body line too many for the counts *)
  parse_udiff true None [64;64;32;45;49;32;43;49;32;64;64;10; 45;97;10; 43;98;10; 43;98;10]%N = None /\
  (* one body line too few *)
  parse_udiff true None [64;64;32;45;49;32;43;49;32;64;64;10; 45;97;10]%N = None /\
  (* last line not terminated *)
  parse_udiff true None [64;64;32;45;49;32;43;49;32;64;64;10; 45;97;10; 43;98]%N = None /\
  (* "@@ -0,0 +0,0 @@\n" : a hunk without body *)
  parse_udiff true None [64;64;32;45;48;44;48;32;43;48;44;48;32;64;64;10]%N = None /\
  (* missing file header / unexpected file header *)
  parse_udiff true (Some ([97], [98]))%N [64;64;32;45;49;32;43;49;32;64;64;10; 45;97;10; 43;98;10]%N = None /\
  parse_udiff true None [45;45;45;32;97;10;43;43;43;32;98;10;
                         64;64;32;45;49;32;43;49;32;64;64;10; 45;97;10; 43;98;10]%N = None /\
  (* a file header without any hunk *)
  parse_udiff true (Some ([97], [98]))%N [45;45;45;32;97;10;43;43;43;32;98;10]%N = None /\
  (* the marker after a line that ends in CR LF *)
  parse_udiff true None ([64;64;32;45;49;32;43;48;44;48;32;64;64;10; 45;97;13;10] ++ txt_marker_tail)%N = None /\
  (* the marker with the hint off *)
  parse_udiff false None ([64;64;32;45;49;32;43;48;44;48;32;64;64;10; 45;97;10] ++ txt_marker_tail)%N = None.
Proof. vm_compute. repeat split; reflexivity. Qed.

(* with the hint off the text does not determine the records: "a" and "a\n" *)
Example nohint_ambiguous :
  let h l := {| h_oshown := 1; h_olen := 1; h_nshown := 0; h_nlen := 0;
                h_body := [(ChDelete, l)] |} in
  print_udiff false None [h [97]%N] = print_udiff false None [h [97; 10]%N] /\
  parse_udiff false None (print_udiff false None [h [97]%N]) = Some [h [97; 10]%N].
Proof. vm_compute. split; reflexivity. Qed.

Print Assumptions parse_sound.
Print Assumptions parse_print.
Print Assumptions parse_print_nohint.
Print Assumptions check_patch_wf.
Print Assumptions model_hunks_wf.
Print Assumptions tokenize_lines_ok.
Print Assumptions check_patch_norm.
Print Assumptions print_udiff_norm.
Print Assumptions parse_check_meaning.
Print Assumptions print_udiff_inj.
Print Assumptions render_parse_applies.
Print Assumptions render_parse_applies_nohint.
Print Assumptions text_render_parse_applies.
