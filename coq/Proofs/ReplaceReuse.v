(* Proofs/ReplaceReuse.v -- C08 / C10: a Replace adapter is as good as new after finish.

   Replace<D> keeps three pending runs (delete, insert, equal).  finish flushes all of them with take(), so the
   adapter's state after a finish is the initial one, and one adapter object can be used for any number of
   diffs: feeding it the same script twice makes the inner hook see the same calls twice.  (The harness
   exercises this as stack replace_twice; a finish that leaves a run behind breaks the first theorem.) *)
From Coq Require Import List Arith Lia.
Import ListNotations.
From Similar Require Import Model.Base Model.Utils Model.Myers Model.Hooks Proofs.Replace.

Lemma replace_step_fin_resets dbg s out s' :
  replace_step dbg CFin s = (out, Some s') -> s' = rstate0.
Proof.
  destruct s as [d i e]. unfold replace_step, tr_flush_eq, tr_flush_del_ins, rstate0.
  destruct e as [[[eo en] el]|]; destruct d as [[[dO dl] dn]|]; destruct i as [[[io inn] il]|];
    cbn; intros H; inversion H; reflexivity.
Qed.

Lemma replace_trace_app dbg a : forall b s,
  replace_trace dbg (a ++ b) s =
  match replace_trace dbg a s with
  | (o1, Some s1) => let '(o2, r) := replace_trace dbg b s1 in (o1 ++ o2, r)
  | (o1, None) => (o1, None)
  end.
Proof.
  induction a as [|c a IH]; intros b s.
  - cbn [app replace_trace]. destruct (replace_trace dbg b s) as [o2 r]. reflexivity.
  - cbn [app replace_trace].
    destruct (replace_step dbg c s) as [o1 [s1|]]; [|reflexivity].
    rewrite IH.
    destruct (replace_trace dbg a s1) as [oa [sa|]]; [|reflexivity].
    destruct (replace_trace dbg b sa) as [o2 r]. rewrite app_assoc. reflexivity.
Qed.

(* whatever state the adapter was in and whatever it was fed: after a finish it is in its initial state *)
Theorem replace_finish_resets dbg cs s out s' :
  replace_trace dbg (cs ++ [CFin]) s = (out, Some s') -> s' = rstate0.
Proof.
  rewrite replace_trace_app.
  destruct (replace_trace dbg cs s) as [o1 [s1|]]; [|intros H; inversion H].
  cbn [replace_trace].
  destruct (replace_step dbg CFin s1) as [o2 [s2|]] eqn:E; [|intros H; inversion H].
  rewrite app_nil_r. intros H. inversion H; subst. eapply replace_step_fin_resets; exact E.
Qed.

(* one adapter used for the same script twice: the inner hook sees the same calls twice *)
Theorem replace_twice_same dbg cs out s' :
  replace_trace dbg (cs ++ [CFin]) rstate0 = (out, Some s') ->
  replace_trace dbg ((cs ++ [CFin]) ++ (cs ++ [CFin])) rstate0 = (out ++ out, Some rstate0).
Proof.
  intros H. pose proof (replace_finish_resets _ _ _ _ _ H) as Hs. subst s'.
  rewrite replace_trace_app, H, H. reflexivity.
Qed.

(* the same at the level of the hook world: the state component after a finished run is the initial one *)
Theorem replace_world_finish_resets {W} (wd : world W) dbg cs s w s' w' :
  emit_all (replace_world wd dbg) (cs ++ [CFin]) (s, w) = Ok (s', w') -> s' = rstate0.
Proof.
  intros H. destruct (replace_acts_by_emitting wd dbg _ _ _ _ _ H) as (out & Ht & _).
  eapply replace_finish_resets; exact Ht.
Qed.

Example replace_reuse_instance :
  replace_trace false ([CDel 0 1 0; CIns 1 0 1; CEq 1 1 2] ++ [CFin]) rstate0
  = ([CRep 0 1 0 1; CEq 1 1 2; CFin], Some rstate0).
Proof. vm_compute. reflexivity. Qed.

Print Assumptions replace_finish_resets.
Print Assumptions replace_twice_same.
Print Assumptions replace_world_finish_resets.
