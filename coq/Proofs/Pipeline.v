(* Proofs/Pipeline.v -- the capture pipeline, end to end (C02, C03, C09, C11).

   capture_diff (Model/Capture.v; src/common.rs capture_diff_deadline) runs an
   algorithm against Compact(Replace(Capture)).  The component theorems are
   composed as follows.

   1. SHARED CLOCK.  The algorithms are generic in a world (hook + clock).
      [Hom]: a map g from the states of a world wd2 into those of a world wd1
      that commutes with probe, tick and the equal/delete/insert calls makes
      every function of Myers (find_middle_snake, conquer) and of LCS
      (table_rows, walk) commute with g; the two runs of myers_diff /
      lcs_diff agree up to the final finish call ([FinSim]).  Instance: the
      capture world before finish is the recording world with the same clock,
      the buffer being the log ([cgs]).  Hence
        [capture_diff_eq]: capture_diff = pipeline_ops (raw calls), where the
        raw calls are those of [raw_trace] under the same clock and
        pipeline_ops = Compact's cleanup, then Replace's merging.
   2. [pipeline_spec]: raw walk -> buffered ops loosely valid ->
      compact_preserves_loose -> ReplaceLoose.replace_loose: the captured ops
      are loosely valid, alternate, and keep the totals.
   3. Totality: repair = false via compact_total_norepair (a raw walk
      satisfies InsLow os); repair = true via [DeletePass]: the first pass of
      cleanup turns a raw script into an EXACT one, after which
      Proofs/Compact.v's Exact-mode lemmas apply to the second pass.
   4. End-to-end theorems, for Myers and LCS premise-free, for Patience under
      the explicit premise [PatienceRaw]. *)
From Similar Require Import Model.Base Model.Utils Model.Myers Model.Lcs Model.Hooks
  Model.Patience Model.Compact Model.Capture
  Spec.Script Spec.EditGraph Spec.SnakeSpec Check.Script
  Proofs.Utils Proofs.CheckScript Proofs.Replace Proofs.ReplaceLoose Proofs.LcsLen Proofs.Lcs
  Proofs.Compact Proofs.MyersSnake Proofs.WorldInv Proofs.MyersConquer.

Local Open Scope nat_scope.

Definition rmap {A B} (f : A -> B) (r : res A) : res B :=
  match r with Ok a => Ok (f a) | Panic => Panic | OutOfFuel => OutOfFuel end.

Section Hom.
  Context {W1 W2 : Type}.
  Variable wd1 : world W1.
  Variable wd2 : world W2.
  Variable g : W2 -> W1.
  Hypothesis g_tick : forall k w, tick wd1 k (g w) = g (tick wd2 k w).
  Hypothesis g_probe : forall w, probe wd1 (g w) = (fst (probe wd2 w), g (snd (probe wd2 w))).
  Hypothesis g_emit : forall c w, edit_callb c -> emit wd1 c (g w) = rmap g (emit wd2 c w).
  Variable cmp : cmpf.

  Definition lift {X} (p : X * W2) : X * W1 := (fst p, g (snd p)).

  Ltac pure1 :=
    match goal with
    | |- context [pick ?a ?b ?c] => destruct (pick a b c) as [?| |]
    | |- context [z_to_usize ?a] => destruct (z_to_usize a) as [?| |]
    | |- context [common_prefix_len ?a ?b ?c ?d ?e] =>
        destruct (common_prefix_len a b c d e) as [?| |]
    | |- context [common_suffix_len ?a ?b ?c ?d ?e] =>
        destruct (common_suffix_len a b c d e) as [?| |]
    | |- context [v_set ?a ?b ?c] => destruct (v_set a b c) as [?| |]
    | |- context [v_get ?a ?b] => destruct (v_get a b) as [?| |]
    | |- context [sub_chk ?a ?b] => destruct (sub_chk a b) as [?| |]
    | |- context [if ?b then _ else _] => destruct b
    end.

  Ltac hom_simpl := cbn [bind rmap lift fst snd]; rewrite ?g_tick.

  Lemma fwd_step_hom os oe ns ne d k vf vb w :
    fwd_step wd1 cmp os oe ns ne d k vf vb (g w) =
    rmap lift (fwd_step wd2 cmp os oe ns ne d k vf vb w).
  Proof.
    unfold fwd_step. cbv zeta.
    repeat (hom_simpl; try reflexivity; pure1).
    all: hom_simpl; reflexivity.
  Qed.

  Lemma bwd_step_hom os oe ns ne d k vf vb w :
    bwd_step wd1 cmp os oe ns ne d k vf vb (g w) =
    rmap lift (bwd_step wd2 cmp os oe ns ne d k vf vb w).
  Proof.
    unfold bwd_step. cbv zeta.
    repeat (hom_simpl; try reflexivity; pure1).
    all: hom_simpl; reflexivity.
  Qed.

  Lemma fwd_loop_hom os oe ns ne cnt : forall d k vf vb w,
    fwd_loop wd1 cmp os oe ns ne cnt d k vf vb (g w) =
    rmap lift (fwd_loop wd2 cmp os oe ns ne cnt d k vf vb w).
  Proof.
    induction cnt as [|cnt IH]; intros d k vf vb w; cbn [fwd_loop]; [reflexivity|].
    rewrite fwd_step_hom.
    destruct (fwd_step wd2 cmp os oe ns ne d k vf vb w) as [[[r vf1] w1]| |]; hom_simpl;
      try reflexivity.
    destruct r as [pt|]; [reflexivity|apply IH].
  Qed.

  Lemma bwd_loop_hom os oe ns ne cnt : forall d k vf vb w,
    bwd_loop wd1 cmp os oe ns ne cnt d k vf vb (g w) =
    rmap lift (bwd_loop wd2 cmp os oe ns ne cnt d k vf vb w).
  Proof.
    induction cnt as [|cnt IH]; intros d k vf vb w; cbn [bwd_loop]; [reflexivity|].
    rewrite bwd_step_hom.
    destruct (bwd_step wd2 cmp os oe ns ne d k vf vb w) as [[[r vb1] w1]| |]; hom_simpl;
      try reflexivity.
    destruct r as [pt|]; [reflexivity|apply IH].
  Qed.

  Lemma round_loop_hom os oe ns ne rounds : forall d vf vb w,
    round_loop wd1 cmp os oe ns ne rounds d vf vb (g w) =
    rmap lift (round_loop wd2 cmp os oe ns ne rounds d vf vb w).
  Proof.
    induction rounds as [|rounds IH]; intros d vf vb w; cbn [round_loop]; [reflexivity|].
    rewrite g_probe. destruct (probe wd2 w) as [ex w0]. cbn [fst snd].
    destruct ex; [reflexivity|].
    rewrite fwd_loop_hom.
    destruct (fwd_loop wd2 cmp os oe ns ne (S d) (Z.of_nat d) (Z.of_nat d) vf vb w0)
      as [[[r vf1] w1]| |]; hom_simpl; try reflexivity.
    destruct r as [pt|]; [reflexivity|].
    rewrite bwd_loop_hom.
    destruct (bwd_loop wd2 cmp os oe ns ne (S d) (Z.of_nat d) (Z.of_nat d) vf1 vb w1)
      as [[[r2 vb1] w2]| |]; hom_simpl; try reflexivity.
    destruct r2 as [pt|]; [reflexivity|apply IH].
  Qed.

  Lemma find_middle_snake_hom os oe ns ne vf vb w :
    find_middle_snake wd1 cmp os oe ns ne vf vb (g w) =
    rmap lift (find_middle_snake wd2 cmp os oe ns ne vf vb w).
  Proof.
    unfold find_middle_snake.
    destruct (v_set vf 1%Z 0) as [vf0| |]; hom_simpl; try reflexivity.
    destruct (v_set vb 1%Z 0) as [vb0| |]; hom_simpl; try reflexivity.
    destruct ((vlen vf0 <? max_d (oe - os) (ne - ns)) || (vlen vb0 <? max_d (oe - os) (ne - ns)));
      [reflexivity|apply round_loop_hom].
  Qed.

  Ltac emit1 :=
    match goal with
    | |- context [emit wd1 ?c (g ?w)] =>
        rewrite (g_emit c w I); destruct (emit wd2 c w) as [?| |]
    end.

  Lemma conquer_hom fuel : forall os oe ns ne vf vb w,
    conquer wd1 cmp fuel os oe ns ne vf vb (g w) =
    rmap lift (conquer wd2 cmp fuel os oe ns ne vf vb w).
  Proof.
    induction fuel as [|fuel IH]; intros os oe ns ne vf vb w; cbn [conquer]; [reflexivity|].
    destruct (common_prefix_len cmp os oe ns ne) as [p| |]; hom_simpl; try reflexivity.
    set (w0 := tick wd2 (scan_cmps os oe ns ne p) w).
    assert (HP : exists r : res W2,
               (if 0 <? p then emit wd1 (CEq os ns p) (g w0) else Ok (g w0)) = rmap g r /\
               (if 0 <? p then emit wd2 (CEq os ns p) w0 else Ok w0) = r).
    { destruct (0 <? p); eexists; (split; [|reflexivity]); [apply g_emit; exact I|reflexivity]. }
    destruct HP as (r & -> & ->). destruct r as [w1| |]; hom_simpl; try reflexivity.
    destruct (common_suffix_len cmp (os + p) oe (ns + p) ne) as [s| |]; hom_simpl; try reflexivity.
    destruct (sub_chk oe s) as [oe'| |]; hom_simpl; try reflexivity.
    destruct (sub_chk ne s) as [ne'| |]; hom_simpl; try reflexivity.
    set (w2 := tick wd2 (scan_cmps (os + p) oe (ns + p) ne s) w1).
    match goal with
    | |- bind ?m1 ?k1 = rmap _ (bind ?m2 ?k2) =>
        assert (HM : m1 = rmap lift m2)
    end.
    { destruct (empty_range (os + p) oe' && empty_range (ns + p) ne'); [reflexivity|].
      destruct (empty_range (ns + p) ne').
      { emit1; reflexivity. }
      destruct (empty_range (os + p) oe').
      { emit1; reflexivity. }
      rewrite find_middle_snake_hom.
      destruct (find_middle_snake wd2 cmp (os + p) oe' (ns + p) ne' vf vb w2)
        as [[[[r vf1] vb1] w3]| |]; hom_simpl; try reflexivity.
      destruct r as [[x y]|].
      - rewrite IH. destruct (conquer wd2 cmp fuel (os + p) x (ns + p) y vf1 vb1 w3)
          as [[[vf2 vb2] w4]| |]; hom_simpl; try reflexivity.
        apply IH.
      - emit1; hom_simpl; try reflexivity. emit1; reflexivity. }
    rewrite HM. clear HM.
    match goal with
    | |- bind (rmap _ ?m2) _ = _ => destruct m2 as [[[vf1 vb1] w3]| |]
    end; hom_simpl; try reflexivity.
    destruct (0 <? s); [emit1; reflexivity|reflexivity].
  Qed.

  Lemma table_rows_hom ob nb old_len cnt : forall i w,
    table_rows wd1 cmp ob nb old_len i cnt (g w) =
    rmap lift (table_rows wd2 cmp ob nb old_len i cnt w).
  Proof.
    induction cnt as [|cnt IH]; intros i w; cbn [table_rows]; [reflexivity|].
    rewrite IH. destruct (table_rows wd2 cmp ob nb old_len (S i) cnt w) as [[r w1]| |];
      hom_simpl; try reflexivity.
    destruct r as [rest|]; [|reflexivity].
    rewrite g_probe. destruct (probe wd2 w1) as [ex w2]. cbn [fst snd].
    destruct ex; [reflexivity|].
    destruct (table_row cmp ob nb i 0 old_len (hd [] rest)) as [rw| |]; hom_simpl; reflexivity.
  Qed.

  Lemma walk_hom t ob nb old_len new_len fuel : forall oi ni w,
    walk wd1 cmp fuel t ob nb old_len new_len oi ni (g w) =
    rmap lift (walk wd2 cmp fuel t ob nb old_len new_len oi ni w).
  Proof.
    induction fuel as [|fuel IH]; intros oi ni w; cbn [walk]; [reflexivity|].
    destruct ((ni <? new_len) && (oi <? old_len)); [|reflexivity].
    destruct (cmp (ob + oi) (nb + ni)) as [b| |]; hom_simpl; try reflexivity.
    destruct b; [|destruct (tget t (S ni) oi <=? tget t ni (S oi))];
      emit1; hom_simpl; try reflexivity; apply IH.
  Qed.

  (* the two runs agree up to the final finish call *)
  Definition FinSim (r1 : res W1) (r2 : res W2) : Prop :=
    exists r : res W2,
      r2 = bind r (emit wd2 CFin) /\ r1 = bind r (fun w' => emit wd1 CFin (g w')).

  Lemma finsim_ok w : FinSim (emit wd1 CFin (g w)) (emit wd2 CFin w).
  Proof. exists (Ok w). split; reflexivity. Qed.
  Lemma finsim_panic : FinSim Panic Panic.
  Proof. exists Panic. split; reflexivity. Qed.
  Lemma finsim_oof : FinSim OutOfFuel OutOfFuel.
  Proof. exists OutOfFuel. split; reflexivity. Qed.
  Lemma finsim_emit c w : edit_callb c ->
    FinSim (do w1 <- emit wd1 c (g w); emit wd1 CFin w1) (do w1 <- emit wd2 c w; emit wd2 CFin w1).
  Proof.
    intros Hc. rewrite (g_emit c w Hc). exists (emit wd2 c w). split; [reflexivity|].
    destruct (emit wd2 c w); reflexivity.
  Qed.

  Ltac fin_leaf :=
    first [apply finsim_ok | apply finsim_panic | apply finsim_oof | apply finsim_emit; exact I].

  Lemma myers_diff_finsim os oe ns ne w :
    FinSim (myers_diff wd1 cmp os oe ns ne (g w)) (myers_diff wd2 cmp os oe ns ne w).
  Proof.
    unfold myers_diff. rewrite conquer_hom.
    match goal with |- context [conquer wd2 ?a ?b ?c ?d ?e ?f ?x ?y ?z] =>
      destruct (conquer wd2 a b c d e f x y z) as [[[vf vb] w1]| |] end; hom_simpl; fin_leaf.
  Qed.

  Lemma lcs_tail_finsim os ns p s old_len new_len oi ni w :
    FinSim (lcs_tail wd1 os ns p s old_len new_len oi ni (g w))
           (lcs_tail wd2 os ns p s old_len new_len oi ni w).
  Proof.
    unfold lcs_tail.
    destruct (oi <? old_len); [emit1|]; hom_simpl; try fin_leaf.
    all: destruct (ni <? new_len); [emit1|]; hom_simpl; try fin_leaf.
    all: destruct (0 <? s); fin_leaf.
  Qed.

  Lemma lcs_diff_finsim os oe ns ne w :
    FinSim (lcs_diff wd1 cmp os oe ns ne (g w)) (lcs_diff wd2 cmp os oe ns ne w).
  Proof.
    rewrite !lcs_diff_unfold.
    destruct (empty_range ns ne).
    { destruct (empty_range os oe); fin_leaf. }
    destruct (empty_range os oe); [fin_leaf|].
    destruct (common_prefix_len cmp os oe ns ne) as [p| |]; hom_simpl; try fin_leaf.
    destruct (common_suffix_len cmp (os + p) oe (ns + p) ne) as [s| |]; hom_simpl; try fin_leaf.
    cbv zeta. rewrite ?g_tick.
    destruct ((p =? oe - os) && (oe - os =? ne - ns)); [fin_leaf|].
    unfold lcs_main.
    destruct (sub_chk oe s) as [oe'| |]; hom_simpl; try fin_leaf.
    destruct (sub_chk ne s) as [ne'| |]; hom_simpl; try fin_leaf.
    unfold make_table. rewrite table_rows_hom.
    match goal with |- context [table_rows wd2 ?a ?b ?c ?d ?e ?f ?x] =>
      destruct (table_rows wd2 a b c d e f x) as [[mt w1]| |] end; hom_simpl; try fin_leaf.
    destruct (sub_chk (ne - ns) p) as [nl0| |]; hom_simpl; try fin_leaf.
    destruct (sub_chk nl0 s) as [new_len| |]; hom_simpl; try fin_leaf.
    destruct (sub_chk (oe - os) p) as [ol0| |]; hom_simpl; try fin_leaf.
    destruct (sub_chk ol0 s) as [old_len| |]; hom_simpl; try fin_leaf.
    unfold lcs_emit.
    assert (HW : forall w2,
      FinSim (do '(old_idx, new_idx, w3) <- walk_or_not wd1 cmp mt (os + p) (ns + p) old_len new_len (g w2);
              lcs_tail wd1 os ns p s old_len new_len old_idx new_idx w3)
             (do '(old_idx, new_idx, w3) <- walk_or_not wd2 cmp mt (os + p) (ns + p) old_len new_len w2;
              lcs_tail wd2 os ns p s old_len new_len old_idx new_idx w3)).
    { intros w2. unfold walk_or_not. destruct mt as [t|].
      - rewrite walk_hom.
        match goal with |- context [walk wd2 ?a ?b ?c ?d ?e ?f ?x ?y ?z ?u] =>
          destruct (walk wd2 a b c d e f x y z u) as [[[oi ni] w3]| |] end; hom_simpl; try fin_leaf.
        apply lcs_tail_finsim.
      - hom_simpl. apply lcs_tail_finsim. }
    destruct (0 <? p); [emit1|]; hom_simpl; try fin_leaf; apply HW.
  Qed.
End Hom.

(* ====================================================================== *)
(* The capture world before finish is a recording world                    *)
(* ====================================================================== *)

Lemma capture_calls_rev cs : capture_calls (rev cs) = rev (capture_calls cs).
Proof.
  induction cs as [|c cs IH]; [reflexivity|].
  cbn [rev capture_calls]. rewrite capture_calls_app, IH.
  cbn [capture_calls]. destruct (call_to_op c); cbn [rev]; [reflexivity|apply app_nil_r].
Qed.

(* the compound state in which the plain state [p] is embedded *)
Definition cgs (p : plain) : list op * (rstate * plain) :=
  (capture_calls (p_log p), (rstate0, {| p_ctr := p_ctr p; p_log := [] |})).

Lemma cgs_plain0 : cgs plain0 = ([], (rstate0, plain0)).
Proof. reflexivity. Qed.

Lemma compact_fin_eq {W} (wd : world W) cmp repair buf w :
  emit (compact_world wd cmp repair) CFin (buf, w) =
  match cleanup_diff_ops cmp repair (rev buf) with
  | Ok ops' =>
      match emit_all wd (map op_to_call ops' ++ [CFin]) w with
      | Ok w' => Ok (rev ops', w')
      | Panic => Panic
      | OutOfFuel => OutOfFuel
      end
  | Panic => Panic
  | OutOfFuel => OutOfFuel
  end.
Proof.
  cbn [emit compact_world compact_emit].
  destruct (cleanup_diff_ops cmp repair (rev buf)) as [ops'| |]; cbn [bind]; try reflexivity.
  rewrite Replace.emit_all_app. cbn [emit_all].
  destruct (emit_all wd (map op_to_call ops') w) as [w1| |]; cbn [bind]; try reflexivity.
  destruct (emit wd CFin w1) as [w2| |]; reflexivity.
Qed.

Section CaptureWorld.
  Variable dl : deadline.
  Variables dbg repair : bool.
  Variable orc : oracles.
  Let cw := capture_world dl dbg repair orc.
  Let pw := plain_world dl.
  Let cmp := o_on orc.

  Lemma cgs_tick k w : tick cw k (cgs w) = cgs (tick pw k w).
  Proof. reflexivity. Qed.

  Lemma cgs_probe w : probe cw (cgs w) = (fst (probe pw w), cgs (snd (probe pw w))).
  Proof.
    unfold cw, pw, capture_world, cgs.
    unfold compact_world, replace_world, plain_world, lift_probe.
    cbn [probe fst snd p_ctr p_log].
    destruct (deadline_exceeded dl (p_ctr w)); reflexivity.
  Qed.

  Lemma cgs_emit c w : edit_callb c -> emit cw c (cgs w) = rmap cgs (emit pw c w).
  Proof. destruct c; cbn [edit_callb]; intros Hc; try contradiction; reflexivity. Qed.

  (* finish on the compound world: Compact cleans the buffer up, replays it
     through Replace into the recording hook *)
  Lemma capture_fin_ops os oe ns ne buf p :
    OpsLoose cmp os oe ns ne (rev buf) -> Forall NonEmptyOp (rev buf) -> Forall NoRepOp (rev buf) ->
    emit cw CFin (buf, (rstate0, p)) =
    match cleanup_diff_ops cmp repair (rev buf) with
    | Ok ops' =>
        Ok (rev ops', (rstate0, {| p_ctr := p_ctr p;
                                   p_log := rev (replace_ops_out ops') ++ p_log p |}))
    | Panic => Panic
    | OutOfFuel => OutOfFuel
    end.
  Proof.
    intros Hw Hne Hnr. unfold cw, capture_world. rewrite compact_fin_eq. fold cmp.
    destruct (cleanup_diff_ops cmp repair (rev buf)) as [ops'| |] eqn:Hc; try reflexivity.
    destruct (compact_preserves_loose cmp repair os oe ns ne _ _ Hw Hne Hnr Hc)
      as (Hw' & Hne' & Hnr' & _).
    rewrite (replace_loose_plain cmp false os oe ns ne ops' Hw' Hne' Hnr'). reflexivity.
  Qed.
End CaptureWorld.

(* ====================================================================== *)
(* From raw calls to ops                                                   *)
(* ====================================================================== *)

Section RawOps.
  Variable cmp : cmpf.
  Variables oe ne : nat.

  (* the buffered ops of a raw walk: loosely valid, no empty op, no Replace *)
  Lemma raw_ops i j i0 body :
    RawWalk cmp oe ne i j i0 body ->
    OpsWalk cmp false oe ne i j (capture_calls body) /\
    Forall NonEmptyOp (capture_calls body) /\
    Forall NoRepOp (capture_calls body).
  Proof.
    induction 1 as [i0|i j i0 l cs Hl Hseg Hw (IH1 & IH2 & IH3)|i j i0 l cs Hl Hw (IH1 & IH2 & IH3)
                   |i j i0 o l cs Hl Hlo Hhi Hw (IH1 & IH2 & IH3)];
      cbn [capture_calls call_to_op].
    - repeat split; constructor.
    - repeat split; constructor; try assumption; discriminate.
    - destruct (Replace.RawWalk_bounds _ _ _ _ _ _ _ Hw) as [Hb1 Hb2].
      repeat split; constructor; try assumption; discriminate.
    - destruct (Replace.RawWalk_bounds _ _ _ _ _ _ _ Hw) as [Hb1 Hb2].
      repeat split; constructor; try assumption; discriminate.
  Qed.

  (* the stale-index invariant of Compact: an Insert's carried old index is
     at least (any base below the run start) + equal items before it *)
  Lemma raw_InsLow i j i0 body :
    RawWalk cmp oe ne i j i0 body ->
    forall e, e <= i0 -> e <= i -> InsLow e (capture_calls body).
  Proof.
    induction 1 as [i0|i j i0 l cs Hl Hseg Hw IH|i j i0 l cs Hl Hw IH
                   |i j i0 o l cs Hl Hlo Hhi Hw IH]; intros e He0 Hei;
      cbn [capture_calls call_to_op InsLow elen].
    - exact I.
    - split; [exact I|]. apply IH; lia.
    - split; [exact I|]. rewrite Nat.add_0_r. apply IH; lia.
    - split; [lia|]. rewrite Nat.add_0_r. apply IH; lia.
  Qed.

End RawOps.

(* ====================================================================== *)
(* The pipeline as a function of the raw calls                             *)
(* ====================================================================== *)

(* Compact's cleanup of the buffered ops, then Replace's merging *)
Definition pipeline_ops (cmp : cmpf) (repair : bool) (body : list call) : res (list op) :=
  do ops' <- cleanup_diff_ops cmp repair (capture_calls body);
  Ok (capture_calls (replace_ops_out ops')).

Section PipelineSpec.
  Variable cmp : cmpf.
  Variables os oe ns ne : nat.
  Variable body : list call.
  Hypothesis Hraw : RawWalk cmp oe ne os ns os body.

  Theorem pipeline_spec repair ops :
    pipeline_ops cmp repair body = Ok ops ->
    OpsLoose cmp os oe ns ne ops /\ Alternating ops /\
    deleted ops = deleted (capture_calls body) /\
    inserted ops = inserted (capture_calls body) /\
    equal_total ops = equal_total (capture_calls body).
  Proof.
    unfold pipeline_ops. intros H. apply bind_Ok_inv in H. destruct H as (ops' & Hc & H).
    injection H as <-.
    destruct (raw_ops cmp oe ne os ns os body Hraw) as (Hw & Hne & Hnr).
    destruct (compact_preserves_loose cmp repair os oe ns ne _ _ Hw Hne Hnr Hc)
      as (Hw' & Hne' & Hnr' & Hd & Hi & He).
    destruct (replace_loose cmp os oe ns ne ops' Hw' Hne' Hnr') as (_ & _ & H3 & H4 & H5 & H6 & H7).
    repeat split; try assumption; congruence.
  Qed.

  Hypothesis Htot : CmpTotal cmp os oe ns ne.

  Theorem pipeline_total_norepair : exists ops, pipeline_ops cmp false body = Ok ops.
  Proof.
    destruct (raw_ops cmp oe ne os ns os body Hraw) as (Hw & Hne & Hnr).
    destruct (compact_total_norepair cmp os oe ns ne os _ Htot Hw
                (raw_InsLow cmp oe ne os ns os body Hraw os (le_n _) (le_n _)) Hne Hnr)
      as (ops' & Hc).
    unfold pipeline_ops. rewrite Hc. cbn [bind]. eexists; reflexivity.
  Qed.

End PipelineSpec.

(* ====================================================================== *)
(* The algorithms on the compound world                                    *)
(* ====================================================================== *)

(* what the end-to-end theorems need to know about an algorithm: run on the
   capture world, it behaves as on the bare recording world with the same
   clock up to the finish call, and its raw calls are a walk *)
Definition AlgSim (alg : algorithm) : Prop :=
  forall dl dbg repair orc os oe ns ne,
    os <= oe -> ns <= ne -> CmpTotal (o_on orc) os oe ns ne ->
    exists w',
      diff_deadline alg (plain_world dl) dbg orc os oe ns ne plain0
        = emit (plain_world dl) CFin w' /\
      diff_deadline alg (capture_world dl dbg repair orc) dbg orc os oe ns ne
                    ([], (rstate0, plain0))
        = emit (capture_world dl dbg repair orc) CFin (cgs w') /\
      RawWalk (o_on orc) oe ne os ns os (plain_calls w').

Lemma finsim_algsim dl dbg repair orc os oe ns ne r1 r2 w1 cs :
  FinSim (capture_world dl dbg repair orc) (plain_world dl) cgs r1 r2 ->
  r2 = Ok w1 ->
  plain_calls w1 = plain_calls plain0 ++ cs -> RawStrong (o_on orc) os oe ns ne cs ->
  exists w',
    r2 = emit (plain_world dl) CFin w' /\
    r1 = emit (capture_world dl dbg repair orc) CFin (cgs w') /\
    RawWalk (o_on orc) oe ne os ns os (plain_calls w').
Proof.
  intros (r & H2 & H1) Hok Hcs (body & -> & Hwalk).
  destruct r as [w'| |]; cbn [bind] in H1, H2; try (rewrite H2 in Hok; discriminate).
  exists w'. split; [exact H2|]. split; [exact H1|].
  rewrite H2 in Hok. cbn [emit plain_world] in Hok. injection Hok as <-.
  unfold plain_calls in Hcs. cbn [p_log rev plain0 app] in Hcs.
  apply app_inj_tail in Hcs. destruct Hcs as [Hcs _]. unfold plain_calls. rewrite Hcs. exact Hwalk.
Qed.

Theorem AlgSim_myers : AlgSim Myers.
Proof.
  intros dl dbg repair orc os oe ns ne Ho Hn Htot. cbn [diff_deadline].
  destruct (myers_no_panic dl (o_on orc) os oe ns ne plain0 (snake_spec _ _ _) Ho Hn Htot) as [w1 Hrun].
  destruct (myers_valid dl (o_on orc) os oe ns ne plain0 w1 (snake_spec _ _ _) Ho Hn Htot Hrun)
    as (cs & Hcs & Hstrong).
  rewrite <- cgs_plain0.
  eapply finsim_algsim; [|exact Hrun|exact Hcs|exact Hstrong].
  apply myers_diff_finsim.
  - apply cgs_tick.
  - apply cgs_probe.
  - apply cgs_emit.
Qed.

Theorem AlgSim_lcs : AlgSim Lcs.
Proof.
  intros dl dbg repair orc os oe ns ne Ho Hn Htot. cbn [diff_deadline].
  destruct (lcs_no_panic (o_on orc) dl os oe ns ne plain0 Ho Hn Htot) as [w1 Hrun].
  destruct (lcs_valid (o_on orc) dl os oe ns ne plain0 w1 Ho Hn Hrun) as (cs & Hcs & Hstrong).
  rewrite <- cgs_plain0.
  eapply finsim_algsim; [|exact Hrun|exact Hcs|exact Hstrong].
  apply lcs_diff_finsim.
  - apply cgs_tick.
  - apply cgs_probe.
  - apply cgs_emit.
Qed.

Lemma AlgSim_proved alg : alg <> Patience -> AlgSim alg.
Proof. destruct alg; intros H; [apply AlgSim_myers|now destruct H|apply AlgSim_lcs]. Qed.

(* the structure theorem: capture_diff = pipeline_ops of the raw calls that
   the recording hook sees under the same clock *)
Theorem capture_diff_eq alg dl dbg repair orc os oe ns ne :
  AlgSim alg ->
  os <= oe -> ns <= ne -> CmpTotal (o_on orc) os oe ns ne ->
  exists body c,
    raw_trace alg dl dbg orc os oe ns ne = Ok (body ++ [CFin], c) /\
    RawWalk (o_on orc) oe ne os ns os body /\
    capture_diff alg dl dbg repair orc os oe ns ne =
      (do ops <- pipeline_ops (o_on orc) repair body; Ok (ops, c)).
Proof.
  intros Halg Ho Hn Htot.
  destruct (Halg dl dbg repair orc os oe ns ne Ho Hn Htot) as (w' & Hp & Hc & Hwalk).
  exists (plain_calls w'), (p_ctr w'). split; [|split; [exact Hwalk|]].
  - unfold raw_trace. rewrite Hp. reflexivity.
  - unfold capture_diff. rewrite Hc. unfold cgs.
    destruct (raw_ops _ _ _ _ _ _ _ Hwalk) as (Hw & Hne & Hnr).
    assert (Hrev : rev (capture_calls (p_log w')) = capture_calls (plain_calls w')).
    { unfold plain_calls. now rewrite capture_calls_rev. }
    rewrite (capture_fin_ops dl dbg repair orc os oe ns ne); rewrite Hrev; try assumption.
    unfold pipeline_ops.
    destruct (cleanup_diff_ops (o_on orc) repair (capture_calls (plain_calls w'))) as [ops'| |];
      cbn [bind]; try reflexivity.
    unfold plain_calls. cbn [p_log p_ctr]. now rewrite app_nil_r, rev_involutive.
Qed.

(* ====================================================================== *)
(* End-to-end theorems                                                     *)
(* ====================================================================== *)

(* partial-correctness interface (also satisfiable by Patience, see below) *)
Definition CaptureRaw (alg : algorithm) : Prop :=
  forall dl dbg repair orc os oe ns ne ops c,
    os <= oe -> ns <= ne -> CmpTotal (o_on orc) os oe ns ne ->
    capture_diff alg dl dbg repair orc os oe ns ne = Ok (ops, c) ->
    exists body,
      RawWalk (o_on orc) oe ne os ns os body /\ pipeline_ops (o_on orc) repair body = Ok ops.

Lemma AlgSim_CaptureRaw alg : AlgSim alg -> CaptureRaw alg.
Proof.
  intros Halg dl dbg repair orc os oe ns ne ops c Ho Hn Htot H.
  destruct (capture_diff_eq alg dl dbg repair orc os oe ns ne Halg Ho Hn Htot)
    as (body & c' & _ & Hwalk & Heq).
  exists body. split; [exact Hwalk|].
  rewrite Heq in H. destruct (pipeline_ops (o_on orc) repair body) as [ops0| |]; cbn [bind] in H;
    try discriminate.
  now injection H as -> _.
Qed.

Section EndToEnd.
  Variable alg : algorithm.
  Variable dl : deadline.
  Variables dbg repair : bool.
  Variable orc : oracles.
  Variables os oe ns ne : nat.
  Let cmp := o_on orc.
  Hypothesis Ho : os <= oe.
  Hypothesis Hn : ns <= ne.
  Hypothesis Htot : CmpTotal cmp os oe ns ne.

  (* ---------------------------------------------------------- C02 + C09 *)
  Theorem capture_valid_gen ops c :
    CaptureRaw alg ->
    capture_diff alg dl dbg repair orc os oe ns ne = Ok (ops, c) ->
    OpsLoose cmp os oe ns ne ops /\ Alternating ops.
  Proof.
    intros Halg H.
    destruct (Halg dl dbg repair orc os oe ns ne ops c Ho Hn Htot H) as (body & Hwalk & Hp).
    destruct (pipeline_spec cmp os oe ns ne body Hwalk repair ops Hp) as (H1 & H2 & _).
    split; assumption.
  Qed.

  Theorem capture_valid ops c :
    alg <> Patience ->
    capture_diff alg dl dbg repair orc os oe ns ne = Ok (ops, c) ->
    OpsLoose cmp os oe ns ne ops /\ Alternating ops.
  Proof. intros Ha. apply capture_valid_gen. apply AlgSim_CaptureRaw, AlgSim_proved, Ha. Qed.
End EndToEnd.

(* ---------------------------------------------------------------------- *)
(* minimality (no deadline)                                                *)
(* ---------------------------------------------------------------------- *)

Lemma matches_equal_total ops : matches ops = equal_total ops.
Proof. reflexivity. Qed.

Section Minimal.
  Variable alg : algorithm.
  Variables dbg repair : bool.
  Variable orc : oracles.
  Variables os oe ns ne : nat.
  Let cmp := o_on orc.
  Hypothesis Ha : alg <> Patience.
  Hypothesis Ho : os <= oe.
  Hypothesis Hn : ns <= ne.
  Hypothesis Htot : CmpTotal cmp os oe ns ne.

  Lemma raw_minimal cs c L :
    raw_trace alg None dbg orc os oe ns ne = Ok (cs, c) ->
    IsLcsLen cmp os oe ns ne L ->
    deleted (capture_calls cs) + inserted (capture_calls cs) + 2 * L = (oe - os) + (ne - ns).
  Proof.
    unfold raw_trace. intros H HL.
    destruct (diff_deadline alg (plain_world None) dbg orc os oe ns ne plain0) as [w1| |] eqn:Hrun;
      cbn [bind] in H; try discriminate.
    injection H as Hcs _.
    destruct alg; cbn [diff_deadline] in Hrun.
    - eapply (myers_minimal_lcs cmp os oe ns ne plain0 w1 cs L (snake_spec _ _ _) Ho Hn Htot Hrun);
        [|exact HL]. rewrite Hcs. reflexivity.
    - now destruct Ha.
    - rewrite (IsLcsLen_unique cmp os oe ns ne L _ HL (lcs_len_correct cmp os oe ns ne)).
      eapply (lcs_minimal cmp os oe ns ne plain0 w1 cs Ho Hn Hrun). rewrite Hcs. reflexivity.
  Qed.

  (* C03 *)
  Theorem capture_minimal ops c L :
    capture_diff alg None dbg repair orc os oe ns ne = Ok (ops, c) ->
    IsLcsLen cmp os oe ns ne L ->
    deleted ops + inserted ops + 2 * L = (oe - os) + (ne - ns) /\
    equal_total ops = L /\
    diff_ratio ops (oe - os) (ne - ns) =
      (if (oe - os) + (ne - ns) =? 0 then (1, 1) else (2 * L, (oe - os) + (ne - ns))).
  Proof.
    intros H HL.
    destruct (capture_diff_eq alg None dbg repair orc os oe ns ne (AlgSim_proved alg Ha) Ho Hn Htot)
      as (body & c' & Hraw & Hwalk & Heq).
    rewrite Heq in H.
    destruct (pipeline_ops (o_on orc) repair body) as [ops0| |] eqn:Hp; cbn [bind] in H;
      try discriminate.
    injection H as -> _.
    destruct (pipeline_spec cmp os oe ns ne body Hwalk repair ops Hp) as (Hw & _ & Hd & Hi & _).
    pose proof (raw_minimal _ _ L Hraw HL) as Hmin. rewrite capture_calls_fin in Hmin.
    destruct (OpsWalk_sums cmp _ _ _ _ _ _ Hw) as [Hs1 Hs2].
    assert (Hcost : deleted ops + inserted ops + 2 * L = oe - os + (ne - ns)) by lia.
    assert (HE : equal_total ops = L) by lia.
    split; [exact Hcost|]. split; [exact HE|].
    unfold diff_ratio. rewrite matches_equal_total, HE. reflexivity.
  Qed.
End Minimal.

(* ---------------------------------------------------------------------- *)
(* applying the captured script, and its inverse                           *)
(* ---------------------------------------------------------------------- *)

Definition transpose (cmp : cmpf) : cmpf := fun i j => cmp j i.

Lemma OpsWalk_cmp_ext cmp1 cmp2 ex oe ne i j ops :
  (forall a b, cmp1 a b = Ok true -> cmp2 a b = Ok true) ->
  OpsWalk cmp1 ex oe ne i j ops -> OpsWalk cmp2 ex oe ne i j ops.
Proof.
  intros Hext. induction 1 as [|i j l r Hseg Hw IH|i j l n r Hn Hb Hw IH|i j o l r Ho Hb Hw IH
                              |i j ol nl r Hb1 Hb2 Hw IH].
  - constructor.
  - constructor; [|exact IH]. intros t Ht. apply Hext, Hseg, Ht.
  - constructor; assumption.
  - constructor; assumption.
  - constructor; assumption.
Qed.

(* the inversion lemma: the inverted script walks the transposed problem *)
Lemma OpsWalk_invert cmp ex oe ne i j ops :
  OpsWalk cmp ex oe ne i j ops ->
  OpsWalk (transpose cmp) ex ne oe j i (map invert_op ops).
Proof.
  induction 1 as [|i j l r Hseg Hw IH|i j l n r Hn Hb Hw IH|i j o l r Ho Hb Hw IH
                 |i j ol nl r Hb1 Hb2 Hw IH]; cbn [map invert_op].
  - constructor.
  - constructor; [|exact IH]. intros t Ht. apply Hseg, Ht.
  - constructor; assumption.
  - constructor; assumption.
  - constructor; assumption.
Qed.

Corollary OpsLoose_invert cmp os oe ns ne ops :
  OpsLoose cmp os oe ns ne ops -> OpsLoose (transpose cmp) ns ne os oe (map invert_op ops).
Proof. apply OpsWalk_invert. Qed.

Corollary OpsExact_invert cmp os oe ns ne ops :
  OpsExact cmp os oe ns ne ops -> OpsExact (transpose cmp) ns ne os oe (map invert_op ops).
Proof. apply OpsWalk_invert. Qed.

Section ApplyCaptured.
  Context {A : Type}.
  Variable eqb : A -> A -> bool.
  Hypothesis eqb_spec : forall x y, eqb x y = true <-> x = y.
  Variables old new : list A.

  Lemma CmpTotal_cmp_of os oe ns ne :
    oe <= length old -> ne <= length new ->
    CmpTotal (cmp_of eqb (slice_lookup old) (slice_lookup new)) os oe ns ne.
  Proof.
    intros Ho Hn i j Hi Hj. unfold cmp_of, slice_lookup.
    destruct (nth_error new j) as [y|] eqn:Ey.
    - destruct (nth_error old i) as [x|] eqn:Ex; [eexists; reflexivity|].
      apply nth_error_None in Ex. lia.
    - apply nth_error_None in Ey. lia.
  Qed.

  Lemma transpose_cmp_of a b :
    transpose (cmp_of eqb (slice_lookup old) (slice_lookup new)) a b = Ok true ->
    cmp_of eqb (slice_lookup new) (slice_lookup old) a b = Ok true.
  Proof.
    unfold transpose, cmp_of, slice_lookup.
    destruct (nth_error new a) as [y|]; [|discriminate].
    destruct (nth_error old b) as [x|]; [|discriminate].
    intros H. injection H as H. apply eqb_spec in H. subst y.
    f_equal. apply eqb_spec. reflexivity.
  Qed.

  (* a loosely valid script turns old's range into new's range, and its
     inverse turns new's range back into old's *)
  Theorem apply_loose os oe ns ne ops :
    os <= oe -> ns <= ne ->
    OpsLoose (cmp_of eqb (slice_lookup old) (slice_lookup new)) os oe ns ne ops ->
    apply_ops old new ops = seg new ns (ne - ns) /\
    apply_ops new old (map invert_op ops) = seg old os (oe - os).
  Proof.
    intros Ho Hn Hw. split.
    - eapply (apply_ops_correct eqb (fun x y => proj1 (eqb_spec x y)) old new); [exact Hw|exact Hn].
    - eapply (apply_ops_correct eqb (fun x y => proj1 (eqb_spec x y)) new old); [|exact Ho].
      eapply OpsWalk_cmp_ext; [exact transpose_cmp_of|]. apply OpsWalk_invert. exact Hw.
  Qed.

  (* C02 (apply form) for the capture pipeline *)
  Theorem capture_apply alg dl dbg repair orc os oe ns ne ops c :
    CaptureRaw alg ->
    o_on orc = cmp_of eqb (slice_lookup old) (slice_lookup new) ->
    os <= oe -> ns <= ne -> oe <= length old -> ne <= length new ->
    capture_diff alg dl dbg repair orc os oe ns ne = Ok (ops, c) ->
    apply_ops old new ops = seg new ns (ne - ns) /\
    apply_ops new old (map invert_op ops) = seg old os (oe - os).
  Proof.
    intros Halg Hcmp Ho Hn Hlo Hln H.
    assert (Htot : CmpTotal (o_on orc) os oe ns ne) by (rewrite Hcmp; now apply CmpTotal_cmp_of).
    destruct (capture_valid_gen alg dl dbg repair orc os oe ns ne Ho Hn Htot ops c Halg H) as [Hw _].
    rewrite Hcmp in Hw. now apply apply_loose.
  Qed.
End ApplyCaptured.

(* ---------------------------------------------------------------------- *)
(* identical ranges                                                        *)
(* ---------------------------------------------------------------------- *)

Definition id_calls (os oe ns : nat) : list call := if oe =? os then [] else [CEq os ns (oe - os)].
Definition id_ops (os oe ns : nat) : list op := if oe =? os then [] else [Equal os ns (oe - os)].

(* Compact and Replace leave a lone Equal alone *)
Lemma pass_single cmp repair t fuel o n l :
  fuel <> 0 -> pass cmp repair t fuel ([], Equal o n l, []) = Ok [Equal o n l].
Proof. destruct fuel as [|f]; [now intros []|intros _]. destruct t; reflexivity. Qed.

Lemma outer_fuel_pos l : outer_fuel l <> 0.
Proof. unfold outer_fuel. lia. Qed.

Lemma pipeline_identical cmp os oe ns repair :
  pipeline_ops cmp repair (id_calls os oe ns) = Ok (id_ops os oe ns).
Proof.
  unfold pipeline_ops, id_calls, id_ops. destruct (oe =? os); [reflexivity|].
  cbn [capture_calls call_to_op]. unfold cleanup_diff_ops, run_pass.
  rewrite pass_single by apply outer_fuel_pos. cbn [bind].
  rewrite pass_single by apply outer_fuel_pos. reflexivity.
Qed.

Section Identical.
  Variable cmp : cmpf.
  Variables os oe ns ne : nat.
  Hypothesis Ho : os <= oe.
  Hypothesis Hn : ns <= ne.
  Hypothesis Htot : CmpTotal cmp os oe ns ne.
  Hypothesis Hseg : SegEq cmp os ns (oe - os).
  Hypothesis Hlen : oe - os = ne - ns.


  Lemma prefix_full : common_prefix_len cmp os oe ns ne = Ok (oe - os).
  Proof.
    destruct (common_prefix_len_total cmp os oe ns ne Htot) as [p Hp].
    destruct (common_prefix_len_spec cmp _ _ _ _ _ Hp) as (H1 & H2 & _ & Hstop).
    destruct (Nat.eq_dec p (oe - os)) as [->|Hne]; [exact Hp|].
    exfalso. specialize (Hstop ltac:(lia) ltac:(lia)).
    rewrite (Hseg p ltac:(lia)) in Hstop. discriminate.
  Qed.

  Lemma suffix_none : common_suffix_len cmp (os + (oe - os)) oe (ns + (oe - os)) ne = Ok 0.
  Proof.
    unfold common_suffix_len, empty_range.
    replace (oe <=? os + (oe - os)) with true by (symmetry; apply Nat.leb_le; lia). reflexivity.
  Qed.

  Lemma myers_identical_run dl w :
    exists c, myers_diff (plain_world dl) cmp os oe ns ne w =
              Ok {| p_ctr := c; p_log := CFin :: rev (id_calls os oe ns) ++ p_log w |}.
  Proof.
    unfold myers_diff, myers_fuel.
    replace (oe - os + (ne - ns) + 2) with (S (oe - os + (ne - ns) + 1)) by lia.
    set (md := max_d (oe - os) (ne - ns)).
    set (w0 := tick (plain_world dl) (scan_cmps os oe ns ne (oe - os)) w).
    assert (He : exists w1, emit_eq_opt (plain_world dl) os ns (oe - os) w0 = Ok w1 /\
                            p_log w1 = rev (id_calls os oe ns) ++ p_log w).
    { unfold emit_eq_opt, id_calls. destruct (Nat.eqb_spec oe os) as [E|E].
      - replace (0 <? oe - os) with false by (symmetry; apply Nat.ltb_ge; lia).
        eexists; split; reflexivity.
      - replace (0 <? oe - os) with true by (symmetry; apply Nat.ltb_lt; lia).
        eexists; split; reflexivity. }
    destruct He as (w1 & He & Hlog).
    set (w2 := tick (plain_world dl) (scan_cmps (os + (oe - os)) oe (ns + (oe - os)) ne 0) w1).
    assert (Hrun : conquer (plain_world dl) cmp (S (oe - os + (ne - ns) + 1)) os oe ns ne
                           (v_new md) (v_new md) w = Ok (v_new md, v_new md, w2)).
    { apply conquer_S_iff.
      eapply (Run1_intro _ _ _ _ _ _ _ _ _ _ (oe - os) w1 0 _ _ w2 w2).
      - exact prefix_full.
      - exact He.
      - exact suffix_none.
      - lia.
      - lia.
      - apply MR_empty; lia.
      - reflexivity. }
    rewrite Hrun. cbn [bind emit plain_world].
    eexists. f_equal. f_equal. subst w2. cbn [tick plain_world p_log]. now rewrite Hlog.
  Qed.

  Lemma lcs_identical_run dl w :
    exists c, lcs_diff (plain_world dl) cmp os oe ns ne w =
              Ok {| p_ctr := c; p_log := CFin :: rev (id_calls os oe ns) ++ p_log w |}.
  Proof.
    rewrite lcs_diff_unfold. unfold empty_range, id_calls.
    destruct (Nat.eqb_spec oe os) as [E|E].
    - replace (ne <=? ns) with true by (symmetry; apply Nat.leb_le; lia).
      replace (oe <=? os) with true by (symmetry; apply Nat.leb_le; lia).
      cbn [bind emit plain_world rev app]. eexists; reflexivity.
    - replace (ne <=? ns) with false by (symmetry; apply Nat.leb_gt; lia).
      replace (oe <=? os) with false by (symmetry; apply Nat.leb_gt; lia).
      rewrite prefix_full. cbn [bind]. rewrite suffix_none. cbn [bind].
      rewrite Nat.eqb_refl, Hlen, Nat.eqb_refl. cbn [andb bind emit plain_world rev app].
      eexists; reflexivity.
  Qed.

End Identical.

Theorem identical_raw alg dl dbg orc os oe ns ne :
  alg <> Patience ->
  os <= oe -> ns <= ne -> CmpTotal (o_on orc) os oe ns ne ->
  SegEq (o_on orc) os ns (oe - os) -> oe - os = ne - ns ->
  exists c, raw_trace alg dl dbg orc os oe ns ne = Ok (id_calls os oe ns ++ [CFin], c).
Proof.
  intros Ha Ho Hn Htot Hseg Hlen. unfold raw_trace.
  destruct alg; cbn [diff_deadline]; [|now destruct Ha|].
  - destruct (myers_identical_run (o_on orc) os oe ns ne Ho Hn Htot Hseg Hlen dl plain0) as [c ->].
    cbn [bind]. unfold plain_calls. cbn [p_log p_ctr plain0 rev].
    rewrite app_nil_r, rev_involutive. eexists; reflexivity.
  - destruct (lcs_identical_run (o_on orc) os oe ns ne Ho Hn Htot Hseg Hlen dl plain0) as [c ->].
    cbn [bind]. unfold plain_calls. cbn [p_log p_ctr plain0 rev].
    rewrite app_nil_r, rev_involutive. eexists; reflexivity.
Qed.

(* identical ranges: the captured script is a single Equal (or nothing),
   for every clock *)
Theorem identical_only_equal alg dl dbg repair orc os oe ns ne :
  alg <> Patience ->
  os <= oe -> ns <= ne -> CmpTotal (o_on orc) os oe ns ne ->
  SegEq (o_on orc) os ns (oe - os) -> oe - os = ne - ns ->
  exists c, capture_diff alg dl dbg repair orc os oe ns ne =
            Ok ((if oe =? os then [] else [Equal os ns (oe - os)]), c).
Proof.
  intros Ha Ho Hn Htot Hseg Hlen.
  destruct (capture_diff_eq alg dl dbg repair orc os oe ns ne (AlgSim_proved alg Ha) Ho Hn Htot)
    as (body & c & Hraw & _ & Heq).
  destruct (identical_raw alg dl dbg orc os oe ns ne Ha Ho Hn Htot Hseg Hlen) as [c' Hraw'].
  rewrite Hraw in Hraw'. injection Hraw' as Hb _. apply app_inj_tail in Hb. destruct Hb as [-> _].
  exists c. rewrite Heq, pipeline_identical. reflexivity.
Qed.

(* ---------------------------------------------------------------------- *)
(* ratio facts on the exact fraction                                       *)
(* ---------------------------------------------------------------------- *)

Lemma OpsWalk_nil_inv cmp ex oe ne i j : OpsWalk cmp ex oe ne i j [] -> i = oe /\ j = ne.
Proof. inversion 1; subst; split; reflexivity. Qed.

Lemma OpsWalk_single_eq_inv cmp ex oe ne i j o n l :
  OpsWalk cmp ex oe ne i j [Equal o n l] ->
  o = i /\ n = j /\ SegEq cmp i j l /\ i + l = oe /\ j + l = ne.
Proof.
  intros H. inversion H as [|i' j' l' r Hseg Hr| | |]; subst.
  apply OpsWalk_nil_inv in Hr. destruct Hr as [H1 H2]. repeat split; assumption.
Qed.

Section Ratio.
  Variable cmp : cmpf.
  Variables os oe ns ne : nat.

  Lemma equal_total_le ex ops :
    OpsWalk cmp ex oe ne os ns ops ->
    equal_total ops <= Nat.min (oe - os) (ne - ns).
  Proof. intros Hw. destruct (OpsWalk_sums cmp _ _ _ _ _ _ Hw). lia. Qed.

  (* ratio <= 1 *)
  Theorem ratio_le_one ex ops :
    OpsWalk cmp ex oe ne os ns ops -> 2 * matches ops <= (oe - os) + (ne - ns).
  Proof. intros Hw. pose proof (equal_total_le ex ops Hw). rewrite matches_equal_total. lia. Qed.

  Lemma nonequal_cost x : NonEmptyOp x -> ~ IsEqualOp x -> 0 < deleted [x] + inserted [x].
  Proof.
    destruct x; cbn [NonEmptyOp IsEqualOp deleted inserted fold_right op_old_len op_new_len];
      intros H1 H2; try lia; try (exfalso; apply H2; exact I).
  Qed.

  Lemma deleted_cons x r : deleted (x :: r) = deleted [x] + deleted r.
  Proof. unfold deleted. cbn [fold_right]. lia. Qed.
  Lemma inserted_cons x r : inserted (x :: r) = inserted [x] + inserted r.
  Proof. unfold inserted. cbn [fold_right]. lia. Qed.

  Lemma Alternating_head x r : Alternating (x :: r) -> NonEmptyOp x.
  Proof. inversion 1; assumption. Qed.

  Lemma alternating_no_change ops :
    Alternating ops -> deleted ops = 0 -> inserted ops = 0 ->
    ops = [] \/ exists o n l, ops = [Equal o n l].
  Proof.
    intros Halt Hd Hi. destruct ops as [|x [|y r]].
    - now left.
    - right. apply Alternating_head in Halt.
      destruct x as [o n l| | |]; [now exists o, n, l| | |];
        exfalso; pose proof (nonequal_cost _ Halt (fun H => H)); lia.
    - exfalso. inversion Halt as [| |x' y' r' Hx Hiff Hrest]; subst.
      pose proof (Alternating_head _ _ Hrest) as Hy.
      rewrite deleted_cons, (deleted_cons y r) in Hd. rewrite inserted_cons, (inserted_cons y r) in Hi.
      destruct x as [xo xn xl| | |].
      + assert (Hny : ~ IsEqualOp y) by (apply Hiff; exact I).
        pose proof (nonequal_cost _ Hy Hny). lia.
      + pose proof (nonequal_cost _ Hx (fun H => H)). lia.
      + pose proof (nonequal_cost _ Hx (fun H => H)). lia.
      + pose proof (nonequal_cost _ Hx (fun H => H)). lia.
  Qed.

  (* ratio = 1 only for identical ranges *)
  Theorem ratio_one_identical ex ops :
    OpsWalk cmp ex oe ne os ns ops -> Alternating ops ->
    2 * matches ops = (oe - os) + (ne - ns) ->
    SegEq cmp os ns (oe - os) /\ oe - os = ne - ns.
  Proof.
    intros Hw Halt H. rewrite matches_equal_total in H.
    destruct (OpsWalk_sums cmp _ _ _ _ _ _ Hw) as [Hs1 Hs2].
    destruct (alternating_no_change ops Halt ltac:(lia) ltac:(lia)) as [->|(o & n & l & ->)].
    - apply OpsWalk_nil_inv in Hw. destruct Hw as [H1 H2]. split; [|lia].
      replace (oe - os) with 0 by lia. apply SegEq_0.
    - apply OpsWalk_single_eq_inv in Hw. destruct Hw as (_ & _ & Hseg & H1 & H2).
      split; [|lia]. replace (oe - os) with l by lia. exact Hseg.
  Qed.
End Ratio.

(* C11-style packaging for the pipeline: ratio <= 1, and = 1 exactly for
   identical ranges *)
Theorem capture_ratio alg dl dbg repair orc os oe ns ne ops c :
  alg <> Patience ->
  os <= oe -> ns <= ne -> CmpTotal (o_on orc) os oe ns ne ->
  capture_diff alg dl dbg repair orc os oe ns ne = Ok (ops, c) ->
  matches ops = equal_total ops /\
  equal_total ops <= Nat.min (oe - os) (ne - ns) /\
  2 * matches ops <= (oe - os) + (ne - ns) /\
  (2 * matches ops = (oe - os) + (ne - ns) <->
   SegEq (o_on orc) os ns (oe - os) /\ oe - os = ne - ns).
Proof.
  intros Ha Ho Hn Htot H.
  destruct (capture_valid alg dl dbg repair orc os oe ns ne Ho Hn Htot ops c Ha H) as [Hw Halt].
  split; [reflexivity|]. split; [eapply equal_total_le; exact Hw|].
  split; [eapply ratio_le_one; exact Hw|]. split.
  - eapply ratio_one_identical; eassumption.
  - intros [Hseg Hlen].
    destruct (identical_only_equal alg dl dbg repair orc os oe ns ne Ha Ho Hn Htot Hseg Hlen)
      as [c' H']. rewrite H in H'. injection H' as -> _.
    destruct (Nat.eqb_spec oe os) as [E|E]; cbn [matches fold_right equal_len]; lia.
Qed.


(* ====================================================================== *)
(* Patience: the same theorems under an explicit premise                   *)
(* ====================================================================== *)

(* a recording world: some projection [calls] of the state grows by exactly
   the equal/delete/insert calls made, and a frame predicate [P] survives *)
Record Recording {W} (wd : world W) (calls : W -> list call) (P : W -> Prop) : Prop := {
  rc_probe : forall w b w', P w -> probe wd w = (b, w') -> P w' /\ calls w' = calls w;
  rc_tick : forall k w, P w -> P (tick wd k w) /\ calls (tick wd k w) = calls w;
  rc_emit : forall c w w', edit_callb c -> P w -> emit wd c w = Ok w' ->
                           P w' /\ calls w' = calls w ++ [c]
}.

(* PREMISE (to be discharged by the Patience proofs): on any recording world,
   patience_diff makes a raw walk of the box and then calls finish *)
Definition PatienceRaw : Prop :=
  forall (W : Type) (wd : world W) (calls : W -> list call) (P : W -> Prop)
         dbg orc os oe ns ne w w',
    Recording wd calls P ->
    os <= oe -> ns <= ne -> CmpTotal (o_on orc) os oe ns ne ->
    P w ->
    patience_diff wd dbg (o_on orc) (o_oo orc) (o_nn orc) os oe ns ne w = Ok w' ->
    exists w'' body,
      P w'' /\ calls w'' = calls w ++ body /\
      RawWalk (o_on orc) oe ne os ns os body /\
      emit wd CFin w'' = Ok w'.

Definition ccalls (s : list op * (rstate * plain)) : list call := rev (map op_to_call (fst s)).
Definition cframe (s : list op * (rstate * plain)) : Prop :=
  fst (snd s) = rstate0 /\ p_log (snd (snd s)) = [].

Lemma Recording_capture dl dbg repair orc :
  Recording (capture_world dl dbg repair orc) ccalls cframe.
Proof.
  split.
  - intros [buf [rs p]] b w' [H1 H2] H. cbn [fst snd] in *.
    unfold capture_world, compact_world, replace_world, plain_world, lift_probe in H.
    cbn [probe fst snd] in H. destruct (deadline_exceeded dl (p_ctr p)) as [b' c'].
    injection H as _ <-. unfold cframe, ccalls. cbn [fst snd p_log]. auto.
  - intros k [buf [rs p]] [H1 H2]. unfold cframe, ccalls. cbn. auto.
  - intros c [buf [rs p]] w' Hc [H1 H2] H. cbn [fst snd] in *.
    destruct c; cbn [edit_callb] in Hc; try contradiction;
      cbn in H; injection H as <-; unfold cframe, ccalls; cbn [fst snd map rev op_to_call]; auto.
Qed.

Theorem CaptureRaw_patience : PatienceRaw -> CaptureRaw Patience.
Proof.
  intros HP dl dbg repair orc os oe ns ne ops c Ho Hn Htot H.
  unfold capture_diff in H. cbn [diff_deadline] in H.
  destruct (patience_diff (capture_world dl dbg repair orc) dbg (o_on orc) (o_oo orc) (o_nn orc)
              os oe ns ne ([], (rstate0, plain0))) as [s'| |] eqn:Hrun; cbn [bind] in H;
    try discriminate.
  assert (Hf0 : cframe ([], (rstate0, plain0))) by (split; reflexivity).
  destruct (HP _ _ _ _ dbg orc os oe ns ne _ s' (Recording_capture dl dbg repair orc) Ho Hn Htot
              Hf0 Hrun) as ([buf [rs p]] & body & [Hrs Hlog] & Hcalls & Hwalk & Hfin).
  cbn [fst snd] in Hrs, Hlog. subst rs. unfold ccalls in Hcalls. cbn [fst map rev app] in Hcalls.
  exists body. split; [exact Hwalk|].
  assert (Hrev : rev buf = capture_calls body).
  { rewrite <- Hcalls, capture_calls_rev, capture_calls_map_op_to_call. reflexivity. }
  destruct (raw_ops _ _ _ _ _ _ _ Hwalk) as (Hw & Hne & Hnr).
  pose proof (capture_fin_ops dl dbg repair orc os oe ns ne buf p) as Hfe.
  rewrite Hrev in Hfe. specialize (Hfe Hw Hne Hnr). rewrite Hfe in Hfin. clear Hfe.
  unfold pipeline_ops.
  destruct (cleanup_diff_ops (o_on orc) repair (capture_calls body)) as [ops'| |];
    try discriminate.
  injection Hfin as <-. cbn [bind] in *. injection H as <- _.
  unfold plain_calls. cbn [p_log]. rewrite Hlog, app_nil_r, rev_involutive. reflexivity.
Qed.

Theorem capture_valid_patience dl dbg repair orc os oe ns ne ops c :
  PatienceRaw ->
  os <= oe -> ns <= ne -> CmpTotal (o_on orc) os oe ns ne ->
  capture_diff Patience dl dbg repair orc os oe ns ne = Ok (ops, c) ->
  OpsLoose (o_on orc) os oe ns ne ops /\ Alternating ops.
Proof.
  intros HP Ho Hn Htot. apply capture_valid_gen; try assumption. apply CaptureRaw_patience, HP.
Qed.

Theorem capture_ratio_patience dl dbg repair orc os oe ns ne ops c :
  PatienceRaw ->
  os <= oe -> ns <= ne -> CmpTotal (o_on orc) os oe ns ne ->
  capture_diff Patience dl dbg repair orc os oe ns ne = Ok (ops, c) ->
  2 * matches ops <= (oe - os) + (ne - ns) /\
  (2 * matches ops = (oe - os) + (ne - ns) ->
   SegEq (o_on orc) os ns (oe - os) /\ oe - os = ne - ns).
Proof.
  intros HP Ho Hn Htot H.
  destruct (capture_valid_patience dl dbg repair orc os oe ns ne ops c HP Ho Hn Htot H) as [Hw Halt].
  split; [eapply ratio_le_one; exact Hw|]. eapply ratio_one_identical; eassumption.
Qed.

(* ====================================================================== *)
(* The Delete pass of Compact with the repair switch, on RAW input         *)
(* ====================================================================== *)
(* Proofs/Compact.v shows that cleanup keeps an EXACT script exact when the
   repair switch is on.  The buffered raw script is not exact (Myers'
   deadline fallback), so that theorem does not apply to it directly.  But
   the first pass (Deletes) never slides anything: every Delete bubbles up to
   the start of its run of changes and then down to its end, swapping with
   -- and thereby repairing -- every Insert of the run, and merging with the
   other Deletes.  Inserts that are never swapped sit in runs without a
   Delete, where the raw guarantee i0 <= o <= i already means o = i.  So the
   Delete pass turns a raw script into an exact one; the Insert pass then
   starts from an exact script, which is the situation of Proofs/Compact.v. *)

Section DeletePass.
  Variable cmp : cmpf.
  Variables os oe ns ne : nat.

  (* what is still to be processed: a raw walk from (i,j) to the end, [i0] a
     lower bound for the old index carried by the Inserts of the first run *)
  Fixpoint RunSeg (i j i0 : nat) (l : list op) : Prop :=
    match l with
    | [] => i = oe /\ j = ne
    | Equal o n len :: r =>
        o = i /\ n = j /\ 0 < len /\ SegEq cmp i j len /\ RunSeg (i + len) (j + len) (i + len) r
    | Delete o len n :: r => o = i /\ n = j /\ 0 < len /\ RunSeg (i + len) j i0 r
    | Insert o n len :: r => n = j /\ i0 <= o /\ o <= i /\ 0 < len /\ RunSeg i (j + len) i0 r
    | Replace _ _ _ _ :: _ => False
    end.

  (* what has been processed (most recent op first): an exact walk from
     (os,ns) to (i,j) *)
  Fixpoint BefEx (bef : list op) (i j : nat) : Prop :=
    match bef with
    | [] => i = os /\ j = ns
    | Equal o n len :: r => 0 < len /\ o + len = i /\ n + len = j /\ SegEq cmp o n len /\ BefEx r o n
    | Delete o len n :: r => 0 < len /\ o + len = i /\ n = j /\ BefEx r o j
    | Insert o n len :: r => 0 < len /\ o = i /\ n + len = j /\ BefEx r i n
    | Replace _ _ _ _ :: _ => False
    end.

  Lemma RunSeg_cast i j i0 i' j' i0' l :
    i = i' -> j = j' -> i0' <= i0 -> RunSeg i j i0 l -> RunSeg i' j' i0' l.
  Proof.
    intros <- <-. revert i j i0 i0'. induction l as [|x r IH]; intros i j i0 i0' Hle H; [exact H|].
    destruct x as [o n len|o len n|o n len|]; cbn [RunSeg] in *.
    - exact H.
    - destruct H as (H1 & H2 & H3 & H4). repeat split; try assumption. eapply IH; eassumption.
    - destruct H as (H1 & H2 & H3 & H4 & H5). repeat split; try assumption; try lia.
      eapply IH; eassumption.
    - exact H.
  Qed.

  Lemma RunSeg_raw i j i0 body :
    RawWalk cmp oe ne i j i0 body -> RunSeg i j i0 (capture_calls body).
  Proof.
    induction 1 as [i0|i j i0 l cs Hl Hseg Hw IH|i j i0 l cs Hl Hw IH
                   |i j i0 o l cs Hl Hlo Hhi Hw IH]; cbn [capture_calls call_to_op RunSeg].
    - split; reflexivity.
    - repeat split; assumption.
    - repeat split; assumption.
    - repeat split; assumption.
  Qed.

  Lemma RunSeg_walk l : forall i j i0,
    RunSeg i j i0 l ->
    OpsWalk cmp false oe ne i j l /\ Forall NonEmptyOp l /\ Forall NoRep l.
  Proof.
    induction l as [|x r IH]; intros i j i0 H.
    - destruct H as [-> ->]. repeat split; constructor.
    - destruct x as [o n len|o len n|o n len|]; cbn [RunSeg] in H.
      + destruct H as (-> & -> & Hl & Hseg & Hr). destruct (IH _ _ _ Hr) as (Hw & Hne & Hnr).
        repeat split; constructor; try assumption; discriminate.
      + destruct H as (-> & -> & Hl & Hr). destruct (IH _ _ _ Hr) as (Hw & Hne & Hnr).
        destruct (OpsWalk_bounds _ _ _ _ _ _ _ Hw).
        repeat split; constructor; try assumption; discriminate.
      + destruct H as (-> & H1 & H2 & Hl & Hr). destruct (IH _ _ _ Hr) as (Hw & Hne & Hnr).
        destruct (OpsWalk_bounds _ _ _ _ _ _ _ Hw).
        repeat split; constructor; try assumption; discriminate.
      + contradiction.
  Qed.

  Lemma BefEx_walk ex bef : forall i j rest,
    BefEx bef i j -> OpsWalk cmp ex oe ne i j rest ->
    OpsWalk cmp ex oe ne os ns (rev bef ++ rest).
  Proof.
    induction bef as [|x r IH]; intros i j rest H Hw.
    - destruct H as [-> ->]. exact Hw.
    - cbn [rev]. rewrite <- app_assoc. cbn [app].
      destruct (OpsWalk_bounds _ _ _ _ _ _ _ Hw) as [Hb1 Hb2].
      destruct x as [o n len|o len n|o n len|]; cbn [BefEx] in H.
      + destruct H as (Hl & <- & <- & Hseg & Hr). eapply IH; [exact Hr|]. constructor; assumption.
      + destruct H as (Hl & <- & -> & Hr). eapply IH; [exact Hr|].
        constructor; [reflexivity|lia|exact Hw].
      + destruct H as (Hl & -> & <- & Hr). eapply IH; [exact Hr|].
        constructor; [reflexivity|lia|exact Hw].
      + contradiction.
  Qed.

  Lemma BefEx_ne bef : forall i j, BefEx bef i j -> Forall NonEmptyOp (rev bef) /\ Forall NoRep (rev bef).
  Proof.
    induction bef as [|x r IH]; intros i j H; [split; constructor|].
    cbn [rev]. rewrite !Forall_app.
    destruct x as [o n len|o len n|o n len|]; cbn [BefEx] in H; try contradiction.
    - destruct H as (Hl & _ & _ & _ & Hr). destruct (IH _ _ Hr).
      repeat split; try assumption; repeat constructor; try assumption; discriminate.
    - destruct H as (Hl & _ & _ & Hr). destruct (IH _ _ Hr).
      repeat split; try assumption; repeat constructor; try assumption; discriminate.
    - destruct H as (Hl & _ & _ & Hr). destruct (IH _ _ Hr).
      repeat split; try assumption; repeat constructor; try assumption; discriminate.
  Qed.

  (* the invariant of all loops of the Delete pass *)
  Definition PInv (z : zipper) : Prop :=
    exists i j, BefEx (zbef z) i j /\ RunSeg i j i (zthis z :: zaft z).

  Definition IsDel (z : zipper) : Prop := match zthis z with Delete _ _ _ => True | _ => False end.

  Lemma PInv_ZInv z :
    PInv z -> ZInv cmp os oe ns ne 0 Loose (dtot (zlist z)) (itot (zlist z)) z.
  Proof.
    destruct z as [[bef this] aft]. intros (i & j & Hb & Hr). cbn [zbef zthis zaft] in *.
    destruct (RunSeg_walk _ _ _ _ Hr) as (Hw & Hne & Hnr).
    destruct (BefEx_ne _ _ _ Hb) as (Hne' & Hnr').
    unfold ZInv. cbn [zlist]. apply LInv_of_walk with (ex := false); try discriminate.
    - eapply BefEx_walk; eassumption.
    - apply Forall_app. split; assumption.
    - apply Forall_app. split; assumption.
  Qed.

  (* ---- one step up ---- *)
  Lemma PInv_same bef o l n aft i j :
    BefEx bef i j -> RunSeg i j i (Delete o l n :: aft) -> PInv (bef, Delete o l n, aft).
  Proof. intros Hb Hr. exists i, j. split; assumption. Qed.

  Lemma up_step_PInv z r :
    PInv z -> IsDel z -> up_step cmp true z = Ok r -> PInv (zof r) /\ IsDel (zof r).
  Proof.
    destruct z as [[bef this] aft]. intros (i & j & Hb & Hr) Hd H. cbn [zbef zthis zaft IsDel] in *.
    destruct this as [|o l n| |]; try contradiction.
    pose proof Hr as Hr0. cbn [RunSeg] in Hr. destruct Hr as (-> & -> & Hl & Hr).
    destruct bef as [|[po pn pl|o' l' n'|io inn il|] bef'].
    - cbn [up_step] in H. injection H as <-. cbn [zof]. split; [|exact I].
      eapply PInv_same; eassumption.
    - rewrite delete_never_slides_up in H. pose proof Hb as Hb'. cbn [BefEx] in Hb'.
      destruct Hb' as (Hpl & _).
      replace (op_is_empty (Equal po pn pl)) with false in H
        by (symmetry; apply nonempty_not_empty; exact Hpl).
      injection H as <-. cbn [zof]. split; [|exact I]. eapply PInv_same; eassumption.
    - cbn [up_step op_tag grow_right op_old_len] in H. injection H as <-. cbn [zof].
      split; [|exact I]. cbn [BefEx] in Hb. destruct Hb as (Hl' & Ho' & -> & Hb).
      eapply PInv_same; [exact Hb|]. cbn [RunSeg].
      repeat split; try lia. eapply RunSeg_cast; [| | |exact Hr]; lia.
    - cbn [up_step op_tag repair_pair] in H. injection H as <-. cbn [zof].
      split; [|exact I]. cbn [BefEx] in Hb. destruct Hb as (Hil & -> & Hj & Hb).
      eapply PInv_same; [exact Hb|]. cbn [RunSeg].
      repeat split; try lia. eapply RunSeg_cast; [| | |exact Hr]; lia.
    - cbn [BefEx] in Hb. contradiction.
  Qed.

  Lemma up_step_progress_D z : PInv z -> IsDel z -> exists r, up_step cmp true z = Ok r.
  Proof.
    destruct z as [[bef this] aft]. intros (i & j & Hb & Hr) Hd. cbn [zbef zthis zaft IsDel] in *.
    destruct this as [|o l n| |]; try contradiction.
    destruct bef as [|[po pn pl|o' l' n'|io inn il|] bef'].
    - eexists; reflexivity.
    - rewrite delete_never_slides_up. destruct (op_is_empty (Equal po pn pl)); eexists; reflexivity.
    - eexists; reflexivity.
    - eexists; reflexivity.
    - cbn [BefEx] in Hb. contradiction.
  Qed.

  (* ---- one step down ---- *)
  Lemma down_step_PInv z r :
    PInv z -> IsDel z -> down_step cmp true z = Ok r -> PInv (zof r) /\ IsDel (zof r).
  Proof.
    destruct z as [[bef this] aft]. intros (i & j & Hb & Hr) Hd H. cbn [zbef zthis zaft IsDel] in *.
    destruct this as [|o l n| |]; try contradiction.
    pose proof Hr as Hr0. cbn [RunSeg] in Hr. destruct Hr as (-> & -> & Hl & Hr).
    destruct aft as [|[xo xn xl|o' l' n'|io inn il|] aft'].
    - cbn [down_step] in H. injection H as <-. cbn [zof]. split; [|exact I].
      eapply PInv_same; eassumption.
    - rewrite delete_never_slides_down in H. pose proof Hr as Hr'. cbn [RunSeg] in Hr'.
      destruct Hr' as (_ & _ & Hxl & _).
      replace (op_is_empty (Equal xo xn xl)) with false in H
        by (symmetry; apply nonempty_not_empty; exact Hxl).
      injection H as <-. cbn [zof]. split; [|exact I]. eapply PInv_same; eassumption.
    - cbn [down_step op_tag grow_right op_old_len] in H. injection H as <-. cbn [zof].
      split; [|exact I]. cbn [RunSeg] in Hr. destruct Hr as (-> & -> & Hl' & Hr).
      eapply PInv_same; [exact Hb|]. cbn [RunSeg].
      repeat split; try lia. eapply RunSeg_cast; [| | |exact Hr]; lia.
    - cbn [down_step op_tag repair_pair] in H. injection H as <-. cbn [zof].
      split; [|exact I]. cbn [RunSeg] in Hr. destruct Hr as (-> & Hlo & Hhi & Hil & Hr).
      apply (PInv_same _ _ _ _ _ i (j + il)).
      + cbn [BefEx]. repeat split; try lia. exact Hb.
      + cbn [RunSeg]. repeat split; try lia. exact Hr.
    - cbn [RunSeg] in Hr. contradiction.
  Qed.

  Lemma down_step_progress_D z : PInv z -> IsDel z -> exists r, down_step cmp true z = Ok r.
  Proof.
    destruct z as [[bef this] aft]. intros (i & j & Hb & Hr) Hd. cbn [zbef zthis zaft IsDel] in *.
    destruct this as [|o l n| |]; try contradiction.
    cbn [RunSeg] in Hr. destruct Hr as (_ & _ & _ & Hr).
    destruct aft as [|[xo xn xl|o' l' n'|io inn il|] aft'].
    - eexists; reflexivity.
    - rewrite delete_never_slides_down. destruct (op_is_empty (Equal xo xn xl)); eexists; reflexivity.
    - eexists; reflexivity.
    - eexists; reflexivity.
    - cbn [RunSeg] in Hr. contradiction.
  Qed.

  (* where the way down stops: at the end, or in front of an Equal *)
  Definition DownStop (z : zipper) : Prop :=
    match zaft z with [] => True | Equal _ _ _ :: _ => True | _ => False end.

  Lemma down_step_break z z' :
    PInv z -> IsDel z -> down_step cmp true z = Ok (Break z') -> DownStop z'.
  Proof.
    destruct z as [[bef this] aft]. intros (i & j & Hb & Hr) Hd H. cbn [zbef zthis zaft IsDel] in *.
    destruct this as [|o l n| |]; try contradiction.
    cbn [RunSeg] in Hr. destruct Hr as (_ & _ & _ & Hr).
    destruct aft as [|[xo xn xl|o' l' n'|io inn il|] aft'].
    - cbn [down_step] in H. injection H as <-. exact I.
    - rewrite delete_never_slides_down in H.
      destruct (op_is_empty (Equal xo xn xl)); [discriminate|]. injection H as <-. exact I.
    - cbn [down_step op_tag] in H. discriminate.
    - cbn [down_step op_tag repair_pair] in H. discriminate.
    - cbn [RunSeg] in Hr. contradiction.
  Qed.

  (* run_steps: the last step was a Break *)
  Lemma run_steps_exit (P : zipper -> Prop) step :
    (forall z r, P z -> step z = Ok r -> P (zof r)) ->
    forall fuel z z', P z -> run_steps step fuel z = Ok z' ->
    exists z0, P z0 /\ step z0 = Ok (Break z').
  Proof.
    intros Hstep. induction fuel as [|fuel IH]; intros z z' Hz H; cbn [run_steps] in H; [discriminate|].
    apply bind_Ok_inv in H. destruct H as (r & Hr & H).
    destruct r as [z1|z1]; cbn beta iota in H.
    - eapply IH; [|exact H]. exact (Hstep _ _ Hz Hr).
    - injection H as <-. exists z. split; assumption.
  Qed.

  Definition PD (z : zipper) : Prop := PInv z /\ IsDel z.

  Lemma shift_up_D z : PD z -> exists zu, shift_up cmp true z = Ok zu /\ PD zu.
  Proof.
    intros Hz.
    assert (Hpres : forall z r, PD z -> up_step cmp true z = Ok r -> PD (zof r)).
    { intros z0 r [H1 H2] Hr. exact (up_step_PInv z0 r H1 H2 Hr). }
    destruct (run_steps_ok PD (up_step cmp true) (fun z => ops_weight (zbef z)) Hpres)
      with (fuel := inner_fuel z) (z := z) as [zu Hzu].
    - intros z0 [H1 H2]. exact (up_step_progress_D z0 H1 H2).
    - intros z0 z1. apply up_step_decr.
    - exact Hz.
    - apply up_weight_lt_fuel.
    - exists zu. split; [exact Hzu|]. exact (run_steps_inv PD _ Hpres _ _ _ Hz Hzu).
  Qed.

  Lemma shift_down_D z : PD z -> exists zd, shift_down cmp true z = Ok zd /\ PD zd /\ DownStop zd.
  Proof.
    intros Hz.
    assert (Hpres : forall z r, PD z -> down_step cmp true z = Ok r -> PD (zof r)).
    { intros z0 r [H1 H2] Hr. exact (down_step_PInv z0 r H1 H2 Hr). }
    destruct (run_steps_ok PD (down_step cmp true) (fun z => ops_weight (zaft z)) Hpres)
      with (fuel := inner_fuel z) (z := z) as [zd Hzd].
    - intros z0 [H1 H2]. exact (down_step_progress_D z0 H1 H2).
    - intros z0 z1. apply down_step_decr.
    - exact Hz.
    - apply down_weight_lt_fuel.
    - exists zd. split; [exact Hzd|]. split; [exact (run_steps_inv PD _ Hpres _ _ _ Hz Hzd)|].
      destruct (run_steps_exit PD _ Hpres _ _ _ Hz Hzd) as (z0 & [H1 H2] & Hbr).
      exact (down_step_break z0 zd H1 H2 Hbr).
  Qed.

  (* the result of the pass *)
  Definition ExactList (l : list op) : Prop :=
    OpsWalk cmp true oe ne os ns l /\ Forall NonEmptyOp l /\ Forall NoRep l.

  Lemma BefEx_final bef : BefEx bef oe ne -> ExactList (rev bef).
  Proof.
    intros H. destruct (BefEx_ne _ _ _ H) as [H1 H2]. split; [|split; assumption].
    rewrite <- (app_nil_r (rev bef)). eapply BefEx_walk; [exact H|constructor].
  Qed.

  (* advancing the pointer over a processed op *)
  Lemma PInv_advance bef this nx aft :
    PInv (bef, this, nx :: aft) ->
    (match this with Delete _ _ _ => match nx with Equal _ _ _ => True | _ => False end | _ => True end) ->
    PInv (this :: bef, nx, aft).
  Proof.
    intros (i & j & Hb & Hr) Hnx. cbn [zbef zthis zaft] in *.
    remember (nx :: aft) as rest eqn:Erest.
    destruct this as [o n len|o len n|o n len|]; cbn [RunSeg] in Hr.
    - destruct Hr as (-> & -> & Hl & Hseg & Hr). subst rest. exists (i + len), (j + len).
      cbn [zbef zthis zaft]. split; [|exact Hr]. cbn [BefEx]. repeat split; auto.
    - destruct Hr as (-> & -> & Hl & Hr). subst rest. exists (i + len), j. cbn [zbef zthis zaft].
      split; [cbn [BefEx]; repeat split; auto|].
      destruct nx; try contradiction. exact Hr.
    - destruct Hr as (-> & H1 & H2 & Hl & Hr). assert (o = i) by lia. subst o rest.
      exists i, (j + len). cbn [zbef zthis zaft]. split; [|exact Hr].
      cbn [BefEx]. repeat split; auto.
    - contradiction.
  Qed.

  Lemma PInv_end bef this : PInv (bef, this, []) -> ExactList (rev (this :: bef)).
  Proof.
    intros (i & j & Hb & Hr). cbn [zbef zthis zaft] in *. apply BefEx_final.
    destruct this as [o n len|o len n|o n len|]; cbn [RunSeg BefEx] in *.
    - destruct Hr as (-> & -> & Hl & Hseg & <- & <-). auto.
    - destruct Hr as (-> & -> & Hl & <- & <-). auto.
    - destruct Hr as (-> & H1 & H2 & Hl & <- & <-). assert (o = i) by lia. subst o. auto.
    - contradiction.
  Qed.

  Lemma pass_delete : forall fuel z,
    PInv z -> outer_measure os oe ns ne z < fuel ->
    exists l', pass cmp true TDelete fuel z = Ok l' /\ ExactList l'.
  Proof.
    induction fuel as [|fuel IH]; intros z Hz HM; [lia|].
    assert (Htail : forall z1, PInv z1 ->
              (IsDel z1 -> DownStop z1) ->
              outer_measure os oe ns ne z1 < S fuel ->
              exists l',
                match zaft z1 with
                | [] => Ok (rev (zthis z1 :: zbef z1))
                | nx :: aft' => pass cmp true TDelete fuel (zthis z1 :: zbef z1, nx, aft')
                end = Ok l' /\ ExactList l').
    { intros [[b1 t1] a1] Hz1 Hstop HM1. cbn [zaft zthis zbef].
      destruct a1 as [|nx a1'].
      - eexists. split; [reflexivity|]. apply PInv_end. exact Hz1.
      - apply IH.
        + apply PInv_advance; [exact Hz1|].
          destruct t1; try exact I. specialize (Hstop I). unfold DownStop in Hstop.
          cbn [zaft] in Hstop. destruct nx; try contradiction; exact I.
        + unfold outer_measure, nonEq in *. cbn [zaft zthis zbef netot length] in *. lia. }
    destruct z as [[bef this] aft]. rewrite pass_unfold.
    destruct (tag_match TDelete this) eqn:Et.
    - assert (Hd : IsDel (bef, this, aft)).
      { unfold IsDel. cbn [zthis]. destruct this; cbn in Et; try discriminate. exact I. }
      destruct (shift_up_D _ (conj Hz Hd)) as (zu & Eu & Hzu).
      destruct (shift_down_D _ Hzu) as (zd & Ed & [Hzd Hdd] & Hstop).
      rewrite Eu. cbn [bind]. rewrite Ed. cbn [bind].
      apply Htail; [exact Hzd|intros _; exact Hstop|].
      assert (Hdi : is_di (zthis (bef, this, aft))).
      { cbn [zthis]. destruct this; cbn in Et; try discriminate. exact I. }
      destruct (shift_round_measure cmp true os oe ns ne 0 Loose _ _ _ _ _ (compat_loose true)
                  (PInv_ZInv _ Hz) Hdi Eu Ed) as [Hle Hor].
      destruct (ZInv_bounds _ _ _ _ _ _ _ _ _ _ (PInv_ZInv _ Hzd)) as [Ba Bn].
      unfold outer_measure in *. cbn [zaft] in *.
      destruct Hor as [Hlt|Hlen]; nia.
    - cbn [bind]. apply Htail; [exact Hz| |exact HM].
      intros Hd. unfold IsDel in Hd. cbn [zthis] in Hd.
      destruct this; try contradiction. cbn in Et. discriminate.
  Qed.

  (* the Delete pass turns the buffered raw script into an exact one *)
  Theorem run_pass_delete_raw body :
    RawWalk cmp oe ne os ns os body ->
    exists l1, run_pass cmp true TDelete (capture_calls body) = Ok l1 /\ ExactList l1.
  Proof.
    intros Hraw. pose proof (RunSeg_raw _ _ _ _ Hraw) as Hr.
    destruct (capture_calls body) as [|x r] eqn:E.
    - cbn [run_pass]. eexists. split; [reflexivity|].
      cbn [RunSeg] in Hr. destruct Hr as [H1 H2]. split; [|split; constructor].
      rewrite H1, H2. constructor.
    - cbn [run_pass].
      assert (Hz : PInv ([], x, r)).
      { exists os, ns. cbn [zbef zthis zaft BefEx]. auto. }
      apply pass_delete; [exact Hz|].
      pose proof (PInv_ZInv _ Hz) as HZ.
      destruct (ZInv_bounds _ _ _ _ _ _ _ _ _ _ HZ) as [Ba Bn].
      assert (Hw : items os oe ns ne <= ops_weight (x :: r)).
      { rewrite ops_weight_items. destruct HZ as ((_ & Ho & Hn) & _). cbn [zlist rev app] in Ho, Hn.
        unfold items. lia. }
      unfold outer_measure, outer_fuel. cbn [zaft] in *. nia.
  Qed.
End DeletePass.

(* cleanup with the repair switch on a buffered raw script: total, and the
   result is exact *)
Theorem cleanup_repair_raw cmp os oe ns ne body :
  CmpTotal cmp os oe ns ne ->
  RawWalk cmp oe ne os ns os body ->
  exists ops',
    cleanup_diff_ops cmp true (capture_calls body) = Ok ops' /\
    OpsWalk cmp true oe ne os ns ops' /\ Forall NonEmptyOp ops' /\ Forall NoRep ops'.
Proof.
  intros Htot Hraw.
  destruct (run_pass_delete_raw cmp os oe ns ne body Hraw) as (l1 & H1 & Hw1 & Hne1 & Hnr1).
  unfold cleanup_diff_ops. rewrite H1. cbn [bind].
  assert (Hl1 : Proofs.Compact.LInv cmp os oe ns ne 0 Exact (dtot l1) (itot l1) l1).
  { eapply LInv_of_walk; try eassumption; [reflexivity|discriminate]. }
  destruct (run_pass cmp true TInsert l1) as [l2| |] eqn:H2.
  - exists l2. split; [reflexivity|].
    pose proof (run_pass_inv cmp true os oe ns ne 0 Exact (dtot l1) (itot l1) TInsert l1 l2 compat_exact Hl1 H2) as Hl2.
    apply walk_of_LInv in Hl2. cbn [exactb] in Hl2. tauto.
  - exfalso. revert H2.
    apply (run_pass_no_panic cmp true os oe ns ne 0 Exact (dtot l1) (itot l1) TInsert l1 Htot);
      [discriminate|exact compat_exact|exact Hl1].
  - exfalso. revert H2.
    apply (run_pass_terminates cmp true os oe ns ne 0 Exact (dtot l1) (itot l1) TInsert l1 compat_exact);
      [| |exact Hl1].
    + intros z Hz Hdi E.
      destruct (shift_up_ok cmp true os oe ns ne 0 Exact (dtot l1) (itot l1) z Htot ltac:(discriminate)
                  compat_exact (conj Hz Hdi)) as (z' & Hz' & _).
      rewrite Hz' in E. discriminate.
    + intros z Hz Hdi E.
      destruct (shift_down_ok cmp true os oe ns ne 0 Exact (dtot l1) (itot l1) z Htot compat_exact (conj Hz Hdi))
        as (z' & Hz' & _).
      rewrite Hz' in E. discriminate.
Qed.

Theorem pipeline_repair cmp os oe ns ne body :
  CmpTotal cmp os oe ns ne ->
  RawWalk cmp oe ne os ns os body ->
  exists ops, pipeline_ops cmp true body = Ok ops /\
              OpsExact cmp os oe ns ne ops /\ Alternating ops.
Proof.
  intros Htot Hraw.
  destruct (cleanup_repair_raw cmp os oe ns ne body Htot Hraw) as (ops' & Hc & Hw & Hne & Hnr).
  unfold pipeline_ops. rewrite Hc. cbn [bind]. eexists. split; [reflexivity|]. split.
  - apply replace_exact; assumption.
  - exact (proj1 (proj2 (proj2 (replace_loose_out_spec cmp true os oe ns ne ops' Hw Hne Hnr)))).
Qed.

(* ---------------------------------------------------------------------- *)
(* C11 with the repair switch, absence of panics                           *)
(* ---------------------------------------------------------------------- *)

(* repair = true: every index of every captured op is exact -- for every
   clock, in particular also when Myers fell back at a deadline *)
Theorem capture_exact_repaired_gen alg dl dbg orc os oe ns ne ops c :
  CaptureRaw alg ->
  os <= oe -> ns <= ne -> CmpTotal (o_on orc) os oe ns ne ->
  capture_diff alg dl dbg true orc os oe ns ne = Ok (ops, c) ->
  OpsExact (o_on orc) os oe ns ne ops.
Proof.
  intros Halg Ho Hn Htot H.
  destruct (Halg dl dbg true orc os oe ns ne ops c Ho Hn Htot H) as (body & Hwalk & Hp).
  destruct (pipeline_repair (o_on orc) os oe ns ne body Htot Hwalk) as (ops' & Hp' & Hex & _).
  rewrite Hp in Hp'. injection Hp' as ->. exact Hex.
Qed.

Theorem capture_exact_repaired alg dl dbg orc os oe ns ne ops c :
  alg <> Patience ->
  os <= oe -> ns <= ne -> CmpTotal (o_on orc) os oe ns ne ->
  capture_diff alg dl dbg true orc os oe ns ne = Ok (ops, c) ->
  OpsExact (o_on orc) os oe ns ne ops.
Proof.
  intros Ha. apply capture_exact_repaired_gen. apply AlgSim_CaptureRaw, AlgSim_proved, Ha.
Qed.

Theorem capture_exact_repaired_patience dl dbg orc os oe ns ne ops c :
  PatienceRaw ->
  os <= oe -> ns <= ne -> CmpTotal (o_on orc) os oe ns ne ->
  capture_diff Patience dl dbg true orc os oe ns ne = Ok (ops, c) ->
  OpsExact (o_on orc) os oe ns ne ops.
Proof. intros HP. apply capture_exact_repaired_gen. apply CaptureRaw_patience, HP. Qed.

(* no Panic, no OutOfFuel: every clock, debug and release builds, with and
   without the repair switch *)
Theorem capture_no_panic_gen alg dl dbg repair orc os oe ns ne :
  AlgSim alg ->
  os <= oe -> ns <= ne -> CmpTotal (o_on orc) os oe ns ne ->
  exists ops c, capture_diff alg dl dbg repair orc os oe ns ne = Ok (ops, c).
Proof.
  intros Halg Ho Hn Htot.
  destruct (capture_diff_eq alg dl dbg repair orc os oe ns ne Halg Ho Hn Htot)
    as (body & c & _ & Hwalk & Heq).
  assert (Hp : exists ops, pipeline_ops (o_on orc) repair body = Ok ops).
  { destruct repair.
    - destruct (pipeline_repair (o_on orc) os oe ns ne body Htot Hwalk) as (ops & Hp & _). eauto.
    - exact (pipeline_total_norepair (o_on orc) os oe ns ne body Hwalk Htot). }
  destruct Hp as [ops Hp]. exists ops, c. rewrite Heq, Hp. reflexivity.
Qed.

Theorem capture_no_panic alg dl dbg repair orc os oe ns ne :
  alg <> Patience ->
  os <= oe -> ns <= ne -> CmpTotal (o_on orc) os oe ns ne ->
  exists ops c, capture_diff alg dl dbg repair orc os oe ns ne = Ok (ops, c).
Proof. intros Ha. apply capture_no_panic_gen, AlgSim_proved, Ha. Qed.

(* ---------------------------------------------------------------------- *)
(* debug assertions never matter                                           *)
(* ---------------------------------------------------------------------- *)
Theorem capture_dbg_independent alg dl repair orc os oe ns ne :
  alg <> Patience ->
  os <= oe -> ns <= ne -> CmpTotal (o_on orc) os oe ns ne ->
  capture_diff alg dl true repair orc os oe ns ne = capture_diff alg dl false repair orc os oe ns ne.
Proof.
  intros Ha Ho Hn Htot.
  destruct (capture_diff_eq alg dl true repair orc os oe ns ne (AlgSim_proved alg Ha) Ho Hn Htot)
    as (b1 & c1 & Hr1 & _ & ->).
  destruct (capture_diff_eq alg dl false repair orc os oe ns ne (AlgSim_proved alg Ha) Ho Hn Htot)
    as (b2 & c2 & Hr2 & _ & ->).
  assert (E : raw_trace alg dl true orc os oe ns ne = raw_trace alg dl false orc os oe ns ne).
  { destruct alg; [reflexivity|now destruct Ha|reflexivity]. }
  rewrite E, Hr2 in Hr1. injection Hr1 as Hb ->. apply app_inj_tail in Hb. destruct Hb as [-> _].
  reflexivity.
Qed.

Print Assumptions capture_diff_eq.
Print Assumptions capture_valid.
Print Assumptions capture_minimal.
Print Assumptions capture_apply.
Print Assumptions identical_only_equal.
Print Assumptions capture_ratio.
Print Assumptions capture_no_panic.
Print Assumptions capture_exact_repaired.
Print Assumptions capture_dbg_independent.
Print Assumptions run_pass_delete_raw.
Print Assumptions cleanup_repair_raw.
Print Assumptions CaptureRaw_patience.
Print Assumptions capture_valid_patience.
Print Assumptions capture_ratio_patience.
Print Assumptions capture_exact_repaired_patience.
