(* Proofs/Identify.v — IdentifyDistinct (src/algorithms/utils.rs) and the
   100-token switch of TextDiffConfig::diff (src/text/mod.rs).

   C14: a text diff is the sequence diff of its tokens; the integer mapping
        IdentifyDistinct is total in bounds and faithful to item equality.
   C20: results depend only on the equality pattern of the items.

   The only axiom used is functional_extensionality (in the four theorems
   that equate whole runs: textdiff_eq_tokens_diff, relabel_capture_diff,
   relabel_raw_trace and their corollaries).  Every other statement here is
   closed under the global context. *)
From Coq Require Import FunctionalExtensionality NArith.
From Similar Require Import Model.Base Model.Utils Model.Capture Model.TextDiff.

(* ------------------------------------------------------------------ *)
(* Restricted growth strings: "first-seen numbering".                  *)
(* [rgs next l]: every element is at most the next unused number, and   *)
(* the next unused number is 1 + the maximum seen so far.               *)
(* ------------------------------------------------------------------ *)
Fixpoint rgs (next : nat) (l : list nat) : Prop :=
  match l with
  | [] => True
  | x :: r => x <= next /\ rgs (Nat.max next (S x)) r
  end.

Fixpoint rgs_next (next : nat) (l : list nat) : nat :=
  match l with
  | [] => next
  | x :: r => rgs_next (Nat.max next (S x)) r
  end.

Lemma rgs_app : forall l1 l2 n,
  rgs n (l1 ++ l2) <-> rgs n l1 /\ rgs (rgs_next n l1) l2.
Proof.
  induction l1 as [|x l1 IH]; intros l2 n; cbn [app rgs rgs_next].
  - tauto.
  - rewrite IH. tauto.
Qed.

Lemma rgs_next_app : forall l1 l2 n,
  rgs_next n (l1 ++ l2) = rgs_next (rgs_next n l1) l2.
Proof.
  induction l1 as [|x l1 IH]; intros l2 n; cbn [app rgs_next]; auto.
Qed.

Lemma rgs_next_ge : forall l n, n <= rgs_next n l.
Proof.
  induction l as [|x l IH]; intros n; cbn [rgs_next]; auto.
  specialize (IH (Nat.max n (S x))). lia.
Qed.

(* all elements are below the final counter *)
Lemma rgs_next_bound : forall l n x, In x l -> x < rgs_next n l.
Proof.
  induction l as [|y l IH]; intros n x Hin; cbn [rgs_next]; [destruct Hin|].
  destruct Hin as [Heq | Hin].
  - subst y. pose proof (rgs_next_ge l (Nat.max n (S x))). lia.
  - apply IH; exact Hin.
Qed.

(* the numbers used are exactly next .. rgs_next-1: no gaps *)
Lemma rgs_covers : forall l n, rgs n l ->
  forall v, n <= v < rgs_next n l -> In v l.
Proof.
  induction l as [|x l IH]; intros n Hr v Hv; cbn [rgs rgs_next] in *.
  - lia.
  - destruct Hr as [Hx Hr].
    destruct (Nat.eq_dec v x) as [Heq | Hne]; [left; auto|].
    right. apply (IH _ Hr). lia.
Qed.

(* a first occurrence receives the next unused number *)
Lemma rgs_fresh : forall l1 x l2,
  rgs 0 (l1 ++ x :: l2) -> ~ In x l1 -> x = rgs_next 0 l1.
Proof.
  intros l1 x l2 Hr Hnin.
  apply rgs_app in Hr. destruct Hr as [Hr1 Hr2]. cbn [rgs] in Hr2.
  destruct Hr2 as [Hle _].
  destruct (Nat.eq_dec x (rgs_next 0 l1)) as [|Hne]; auto.
  exfalso. apply Hnin. apply (rgs_covers _ _ Hr1). lia.
Qed.

(* a repeated occurrence receives a number already used *)
Lemma rgs_seen : forall l1 x l2,
  rgs 0 (l1 ++ x :: l2) -> In x l1 -> x < rgs_next 0 l1.
Proof. intros l1 x l2 _ Hin. apply rgs_next_bound; exact Hin. Qed.

(* ------------------------------------------------------------------ *)
(* OffsetLookup                                                         *)
(* ------------------------------------------------------------------ *)
Lemma offset_lookup_0 : forall (A : Type) (l : list A) i,
  offset_lookup 0 l i = nth_error l i.
Proof.
  intros A l i. unfold offset_lookup. cbn [Nat.ltb Nat.leb]. rewrite Nat.sub_0_r. reflexivity.
Qed.

Lemma offset_lookup_some : forall (A : Type) off (l : list A) i,
  (exists x, offset_lookup off l i = Some x) <-> off <= i < off + length l.
Proof.
  intros A off l i. unfold offset_lookup.
  destruct (i <? off) eqn:Hlt.
  - apply Nat.ltb_lt in Hlt. split; [intros [x Hx]; discriminate | lia].
  - apply Nat.ltb_ge in Hlt. split.
    + intros [x Hx].
      assert (Hn : nth_error l (i - off) <> None) by (rewrite Hx; discriminate).
      apply nth_error_Some in Hn. lia.
    + intros Hr. destruct (nth_error l (i - off)) as [x|] eqn:E; eauto.
      apply nth_error_None in E. lia.
Qed.

Lemma offset_lookup_nth : forall (A : Type) off (l : list A) i d,
  off <= i < off + length l -> offset_lookup off l i = Some (nth (i - off) l d).
Proof.
  intros A off l i d Hr. unfold offset_lookup.
  destruct (i <? off) eqn:Hlt.
  - apply Nat.ltb_lt in Hlt. lia.
  - apply nth_error_nth'. lia.
Qed.

Lemma offset_lookup_none : forall (A : Type) off (l : list A) i,
  ~ (off <= i < off + length l) -> offset_lookup off l i = None.
Proof.
  intros A off l i Hr. unfold offset_lookup.
  destruct (i <? off) eqn:Hlt; auto.
  apply Nat.ltb_ge in Hlt. apply nth_error_None. lia.
Qed.

(* ------------------------------------------------------------------ *)
(* Congruence: identify_distinct only consults the oracles on in-range  *)
(* keys.                                                                *)
(* ------------------------------------------------------------------ *)
Section Congruence.
  Variables oo nn on oo' nn' on' : cmpf.
  Variable P : side * nat -> Prop.
  Hypothesis Hagree : forall a b, P a -> P b ->
    key_eq oo nn on a b = key_eq oo' nn' on' a b.

  Lemma assoc_find_ext : forall m k,
    P k -> (forall k' id, In (k', id) m -> P k') ->
    assoc_find oo nn on k m = assoc_find oo' nn' on' k m.
  Proof.
    induction m as [|[k' id] m IH]; intros k Hk Hm; cbn [assoc_find]; auto.
    rewrite Hagree; [|exact Hk|apply (Hm k' id); left; reflexivity].
    destruct (key_eq oo' nn' on' k k') as [[|]| |]; cbn [bind]; auto.
    apply IH; auto. intros k'' id' Hin. apply (Hm k'' id'). right; exact Hin.
  Qed.

  Lemma scan_keys : forall (o1 o2 o3 : cmpf) sd len i m next acc m' n' l,
    identify_scan o1 o2 o3 sd i len m next acc = Ok (m', n', l) ->
    (forall k id, In (k, id) m -> P k) ->
    (forall t, t < len -> P (sd, i + t)) ->
    forall k id, In (k, id) m' -> P k.
  Proof.
    intros o1 o2 o3 sd.
    induction len as [|len IH]; intros i m next acc m' n' l Hrun Hm Hr; cbn [identify_scan] in Hrun.
    - inversion Hrun; subst. exact Hm.
    - assert (Hi : P (sd, i)) by (specialize (Hr 0); rewrite Nat.add_0_r in Hr; apply Hr; lia).
      assert (Hr' : forall t, t < len -> P (sd, S i + t)).
      { intros t Ht. replace (S i + t) with (i + S t) by lia. apply Hr. lia. }
      destruct (assoc_find o1 o2 o3 (sd, i) m) as [[id|]| |]; cbn [bind] in Hrun; try discriminate.
      + eapply IH; eauto.
      + eapply IH; [exact Hrun| |exact Hr'].
        intros k id Hin. apply in_app_or in Hin. destruct Hin as [Hin | [Heq | []]].
        * apply (Hm k id Hin).
        * inversion Heq; subst. exact Hi.
  Qed.

  Lemma scan_ext : forall sd len i m next acc,
    (forall k id, In (k, id) m -> P k) ->
    (forall t, t < len -> P (sd, i + t)) ->
    identify_scan oo nn on sd i len m next acc =
    identify_scan oo' nn' on' sd i len m next acc.
  Proof.
    intros sd. induction len as [|len IH]; intros i m next acc Hm Hr; cbn [identify_scan]; auto.
    assert (Hi : P (sd, i)) by (specialize (Hr 0); rewrite Nat.add_0_r in Hr; apply Hr; lia).
    assert (Hr' : forall t, t < len -> P (sd, S i + t)).
    { intros t Ht. replace (S i + t) with (i + S t) by lia. apply Hr. lia. }
    rewrite (assoc_find_ext m (sd, i) Hi Hm).
    destruct (assoc_find oo' nn' on' (sd, i) m) as [[id|]| |]; cbn [bind]; auto.
    apply IH; auto.
    intros k id Hin. apply in_app_or in Hin. destruct Hin as [Hin | [Heq | []]].
    - apply (Hm k id Hin).
    - inversion Heq; subst. exact Hi.
  Qed.
End Congruence.

Definition key_in_range (os oe ns ne : nat) (k : side * nat) : Prop :=
  match k with
  | (SOld, i) => os <= i < oe
  | (SNew, j) => ns <= j < ne
  end.

(* identify_distinct depends on the three oracles only through their values
   on the ranges *)
Theorem identify_distinct_ext : forall (oo nn on oo' nn' on' : cmpf) os oe ns ne,
  (forall i i', os <= i < oe -> os <= i' < oe -> oo i i' = oo' i i') ->
  (forall j j', ns <= j < ne -> ns <= j' < ne -> nn j j' = nn' j j') ->
  (forall i j, os <= i < oe -> ns <= j < ne -> on i j = on' i j) ->
  identify_distinct oo nn on os oe ns ne = identify_distinct oo' nn' on' os oe ns ne.
Proof.
  intros oo nn on oo' nn' on' os oe ns ne Hoo Hnn Hon.
  assert (Hagree : forall a b, key_in_range os oe ns ne a -> key_in_range os oe ns ne b ->
                               key_eq oo nn on a b = key_eq oo' nn' on' a b).
  { intros [[|] i] [[|] j] Ha Hb; cbn [key_eq key_in_range] in *; auto. }
  assert (Hro : forall t, t < oe - os -> key_in_range os oe ns ne (SOld, os + t))
    by (intros t Ht; cbn [key_in_range]; lia).
  assert (Hrn : forall t, t < ne - ns -> key_in_range os oe ns ne (SNew, ns + t))
    by (intros t Ht; cbn [key_in_range]; lia).
  unfold identify_distinct.
  rewrite (scan_ext oo nn on oo' nn' on' _ Hagree SOld (oe - os) os [] 0 []);
    [|intros k id []|exact Hro].
  destruct (identify_scan oo' nn' on' SOld os (oe - os) [] 0 []) as [[[m next] oids]| |] eqn:E1;
    cbn [bind]; auto.
  rewrite (scan_ext oo nn on oo' nn' on' _ Hagree SNew (ne - ns) ns m next []); auto.
  eapply scan_keys; [exact E1|intros k id []|exact Hro].
Qed.

(* ------------------------------------------------------------------ *)
(* The mapping itself                                                   *)
(* ------------------------------------------------------------------ *)
Section Identify.
  Variable A : Type.
  Variable eqb : A -> A -> bool.
  Hypothesis eqb_spec : forall x y, eqb x y = true <-> x = y.
  Variables old new : lookup A.
  Variables os oe ns ne : nat.
  Hypothesis Hold : forall i, os <= i < oe -> exists x, old i = Some x.
  Hypothesis Hnew : forall j, ns <= j < ne -> exists y, new j = Some y.

  Local Notation oo := (cmp_same eqb old).
  Local Notation nn := (cmp_same eqb new).
  Local Notation on := (cmp_of eqb old new).

  Definition key_val (k : side * nat) : option A :=
    match k with
    | (SOld, i) => old i
    | (SNew, j) => new j
    end.

  Lemma eqb_sym : forall x y, eqb x y = eqb y x.
  Proof.
    intros x y. apply eq_true_iff_eq. rewrite !eqb_spec. split; auto.
  Qed.

  Lemma key_eq_val : forall a b x y,
    key_val a = Some x -> key_val b = Some y ->
    key_eq oo nn on a b = Ok (eqb x y).
  Proof.
    intros [[|] i] [[|] j] x y Ha Hb; cbn [key_eq key_val] in *;
      unfold cmp_same, cmp_of; rewrite Ha, Hb; auto.
    rewrite eqb_sym. reflexivity.
  Qed.

  (* the association list maps one representative of each class seen so far
     to a distinct id below [next] *)
  Definition minv (m : list ((side * nat) * nat)) (next : nat) : Prop :=
    (forall k id, In (k, id) m -> exists x, key_val k = Some x) /\
    (forall k id, In (k, id) m -> id < next) /\
    (forall k1 id1 k2 id2, In (k1, id1) m -> In (k2, id2) m ->
                           key_val k1 = key_val k2 -> id1 = id2) /\
    (forall k1 k2 id, In (k1, id) m -> In (k2, id) m -> key_val k1 = key_val k2).

  Lemma minv_nil : minv [] 0.
  Proof. repeat split; intros; try contradiction. Qed.

  Lemma assoc_find_spec : forall m k x,
    (forall k' id, In (k', id) m -> exists y, key_val k' = Some y) ->
    key_val k = Some x ->
    exists r, assoc_find oo nn on k m = Ok r /\
      match r with
      | Some id => exists k', In (k', id) m /\ key_val k' = key_val k
      | None => forall k' id, In (k', id) m -> key_val k' <> key_val k
      end.
  Proof.
    induction m as [|[k' id] m IH]; intros k x Hdef Hk; cbn [assoc_find].
    - exists None. split; auto.
    - destruct (Hdef k' id) as [y Hy]; [left; reflexivity|].
      rewrite (key_eq_val k k' x y Hk Hy). cbn [bind].
      destruct (eqb x y) eqn:E.
      + apply eqb_spec in E. subst y.
        exists (Some id). split; auto. exists k'. split; [left; reflexivity|congruence].
      + destruct (IH k x) as [r [Hr Hspec]]; auto.
        { intros k'' id' Hin. apply (Hdef k'' id'). right; exact Hin. }
        exists r. split; auto. destruct r as [id'|].
        * destruct Hspec as [k'' [Hin Hv]]. exists k''. split; [right; exact Hin|exact Hv].
        * intros k'' id' [Heq | Hin].
          -- inversion Heq; subst. intros Hc. rewrite Hy, Hk in Hc. inversion Hc; subst.
             assert (Ht : eqb x x = true) by (apply eqb_spec; reflexivity). congruence.
          -- apply (Hspec k'' id' Hin).
  Qed.

  Lemma minv_snoc : forall m next k x,
    minv m next -> key_val k = Some x ->
    (forall k' id, In (k', id) m -> key_val k' <> key_val k) ->
    minv (m ++ [(k, next)]) (S next).
  Proof.
    intros m next k x [Hdef [Hlt [Hfun Hinj]]] Hk Hfresh.
    assert (Hcase : forall k' id, In (k', id) (m ++ [(k, next)]) ->
                                  In (k', id) m \/ (k' = k /\ id = next)).
    { intros k' id Hin. apply in_app_or in Hin. destruct Hin as [Hin | [Heq | []]]; auto.
      inversion Heq; auto. }
    unfold minv. repeat split.
    - intros k' id Hin. destruct (Hcase _ _ Hin) as [Hm | [-> ->]]; eauto.
    - intros k' id Hin. destruct (Hcase _ _ Hin) as [Hm | [-> ->]]; [|lia].
      specialize (Hlt _ _ Hm). lia.
    - intros k1 id1 k2 id2 H1 H2 Hv.
      destruct (Hcase _ _ H1) as [Hm1 | [-> ->]]; destruct (Hcase _ _ H2) as [Hm2 | [-> ->]]; auto.
      + eauto.
      + exfalso. apply (Hfresh _ _ Hm1). exact Hv.
      + exfalso. apply (Hfresh _ _ Hm2). symmetry; exact Hv.
    - intros k1 k2 id H1 H2.
      destruct (Hcase _ _ H1) as [Hm1 | [-> Hid1]]; destruct (Hcase _ _ H2) as [Hm2 | [-> Hid2]]; auto.
      + eauto.
      + specialize (Hlt _ _ Hm1). lia.
      + specialize (Hlt _ _ Hm2). lia.
  Qed.

  Lemma scan_spec : forall sd len i m next acc,
    minv m next ->
    (forall t, t < len -> exists x, key_val (sd, i + t) = Some x) ->
    exists m' next' ids,
      identify_scan oo nn on sd i len m next acc = Ok (m', next', rev acc ++ ids) /\
      minv m' next' /\
      length ids = len /\
      (forall k id, In (k, id) m -> In (k, id) m') /\
      (forall t, t < len -> exists k', In (k', nth t ids 0) m' /\ key_val k' = key_val (sd, i + t)) /\
      rgs next ids /\ next' = rgs_next next ids.
  Proof.
    intros sd. induction len as [|len IH]; intros i m next acc Hinv Hr; cbn [identify_scan].
    - exists m, next, []. rewrite app_nil_r. cbn [rgs rgs_next length].
      split; [reflexivity|]. split; [exact Hinv|]. split; [reflexivity|].
      split; [auto|]. split; [intros t Ht; lia|]. split; [exact I|reflexivity].
    - destruct (Hr 0) as [x Hx]; [lia|]. rewrite Nat.add_0_r in Hx.
      assert (Hr' : forall t, t < len -> exists y, key_val (sd, S i + t) = Some y).
      { intros t Ht. replace (S i + t) with (i + S t) by lia. apply Hr. lia. }
      destruct Hinv as [Hdef Hrest].
      destruct (assoc_find_spec m (sd, i) x Hdef Hx) as [r [Hfind Hspec]].
      rewrite Hfind. cbn [bind]. destruct r as [id|].
      + destruct Hspec as [k0 [Hin0 Hv0]].
        destruct (IH (S i) m next (id :: acc) (conj Hdef Hrest) Hr')
          as [m' [next' [ids [Hrun [Hinv' [Hlen [Hsub [Hids [Hrgs Hnext]]]]]]]]].
        exists m', next', (id :: ids).
        assert (Hidlt : id < next) by (destruct Hrest as [Hlt _]; apply (Hlt _ _ Hin0)).
        split; [rewrite Hrun; cbn [rev]; rewrite <- app_assoc; reflexivity|].
        split; [exact Hinv'|]. split; [cbn [length]; lia|]. split; [exact Hsub|].
        split.
        * intros [|t] Ht; cbn [nth].
          -- exists k0. rewrite Nat.add_0_r. split; auto.
          -- replace (i + S t) with (S i + t) by lia. apply Hids. lia.
        * cbn [rgs rgs_next]. replace (Nat.max next (S id)) with next by lia.
          split; [split; [lia|exact Hrgs]|exact Hnext].
      + assert (Hinv1 : minv (m ++ [((sd, i), next)]) (S next))
          by (apply (minv_snoc m next (sd, i) x (conj Hdef Hrest) Hx Hspec)).
        destruct (IH (S i) _ (S next) (next :: acc) Hinv1 Hr')
          as [m' [next' [ids [Hrun [Hinv' [Hlen [Hsub [Hids [Hrgs Hnext]]]]]]]]].
        exists m', next', (next :: ids).
        split; [rewrite Hrun; cbn [rev]; rewrite <- app_assoc; reflexivity|].
        split; [exact Hinv'|]. split; [cbn [length]; lia|].
        split; [intros k id Hin; apply Hsub; apply in_or_app; left; exact Hin|].
        split.
        * intros [|t] Ht; cbn [nth].
          -- exists (sd, i). rewrite Nat.add_0_r. split; auto.
             apply Hsub. apply in_or_app. right. left. reflexivity.
          -- replace (i + S t) with (S i + t) by lia. apply Hids. lia.
        * cbn [rgs rgs_next]. replace (Nat.max next (S next)) with (S next) by lia.
          split; [split; [lia|exact Hrgs]|exact Hnext].
  Qed.

  (* everything the scans establish, in one statement *)
  Lemma identify_full :
    exists oids nids m next,
      identify_distinct oo nn on os oe ns ne = Ok (oids, nids) /\
      length oids = oe - os /\ length nids = ne - ns /\
      minv m next /\
      (forall a, a < oe - os ->
         exists k', In (k', nth a oids 0) m /\ key_val k' = old (os + a)) /\
      (forall b, b < ne - ns ->
         exists k', In (k', nth b nids 0) m /\ key_val k' = new (ns + b)) /\
      rgs 0 (oids ++ nids) /\ next = rgs_next 0 (oids ++ nids).
  Proof.
    assert (Hro : forall t, t < oe - os -> exists x, key_val (SOld, os + t) = Some x)
      by (intros t Ht; cbn [key_val]; apply Hold; lia).
    assert (Hrn : forall t, t < ne - ns -> exists x, key_val (SNew, ns + t) = Some x)
      by (intros t Ht; cbn [key_val]; apply Hnew; lia).
    destruct (scan_spec SOld (oe - os) os [] 0 [] minv_nil Hro)
      as [m1 [next1 [oids [Hrun1 [Hinv1 [Hlen1 [_ [Hids1 [Hrgs1 Hnext1]]]]]]]]].
    destruct (scan_spec SNew (ne - ns) ns m1 next1 [] Hinv1 Hrn)
      as [m2 [next2 [nids [Hrun2 [Hinv2 [Hlen2 [Hsub2 [Hids2 [Hrgs2 Hnext2]]]]]]]]].
    cbn [rev app] in Hrun1, Hrun2.
    exists oids, nids, m2, next2.
    split; [unfold identify_distinct; rewrite Hrun1; cbn [bind]; rewrite Hrun2; reflexivity|].
    split; [exact Hlen1|]. split; [exact Hlen2|]. split; [exact Hinv2|].
    split; [|split; [|split]].
    - intros a Ha. destruct (Hids1 a Ha) as [k' [Hin Hv]]. exists k'. split; auto.
    - exact Hids2.
    - apply rgs_app. subst next1. split; auto.
    - rewrite rgs_next_app. subst next1. exact Hnext2.
  Qed.

  (* two keys with ids in a map satisfying [minv]: same id iff same value *)
  Lemma minv_iff : forall m next k1 id1 k2 id2 (v1 v2 : option A),
    minv m next ->
    In (k1, id1) m -> key_val k1 = v1 ->
    In (k2, id2) m -> key_val k2 = v2 ->
    (id1 = id2 <-> v1 = v2).
  Proof.
    intros m next k1 id1 k2 id2 v1 v2 [_ [_ [Hfun Hinj]]] H1 Hv1 H2 Hv2. subst v1 v2. split.
    - intros Heq. subst id2. apply (Hinj _ _ _ H1 H2).
    - intros Heq. apply (Hfun _ _ _ _ H1 H2 Heq).
  Qed.

  (* ---- identify_ok: total in bounds, right lengths ---- *)
  Theorem identify_ok :
    exists oids nids,
      identify_distinct oo nn on os oe ns ne = Ok (oids, nids) /\
      length oids = oe - os /\ length nids = ne - ns.
  Proof.
    destruct identify_full as [oids [nids [m [next [Hrun [Hl1 [Hl2 _]]]]]]].
    exists oids, nids. auto.
  Qed.

  (* ---- identify_iff_eq: equal ids <-> equal items ---- *)
  Theorem identify_iff_eq : forall oids nids,
    identify_distinct oo nn on os oe ns ne = Ok (oids, nids) ->
    (forall a a', a < oe - os -> a' < oe - os ->
       (nth a oids 0 = nth a' oids 0 <-> old (os + a) = old (os + a'))) /\
    (forall b b', b < ne - ns -> b' < ne - ns ->
       (nth b nids 0 = nth b' nids 0 <-> new (ns + b) = new (ns + b'))) /\
    (forall a b, a < oe - os -> b < ne - ns ->
       (nth a oids 0 = nth b nids 0 <-> old (os + a) = new (ns + b))).
  Proof.
    intros oids0 nids0 Hrun0.
    destruct identify_full as [oids [nids [m [next [Hrun [_ [_ [Hinv [Ho [Hn _]]]]]]]]]].
    rewrite Hrun0 in Hrun. inversion Hrun; subst oids0 nids0. clear Hrun Hrun0.
    split; [|split].
    - intros a a' Ha Ha'.
      destruct (Ho a Ha) as [k1 [H1 Hv1]]. destruct (Ho a' Ha') as [k2 [H2 Hv2]].
      exact (minv_iff m next _ _ _ _ _ _ Hinv H1 Hv1 H2 Hv2).
    - intros b b' Hb Hb'.
      destruct (Hn b Hb) as [k1 [H1 Hv1]]. destruct (Hn b' Hb') as [k2 [H2 Hv2]].
      exact (minv_iff m next _ _ _ _ _ _ Hinv H1 Hv1 H2 Hv2).
    - intros a b Ha Hb.
      destruct (Ho a Ha) as [k1 [H1 Hv1]]. destruct (Hn b Hb) as [k2 [H2 Hv2]].
      exact (minv_iff m next _ _ _ _ _ _ Hinv H1 Hv1 H2 Hv2).
  Qed.

  (* ---- identify_first_seen: the numbering is the first-seen numbering over
     the old range followed by the new range (a restricted growth string):
     each id is at most the number of distinct ids before it; by
     [rgs_fresh]/[rgs_covers] a first occurrence gets exactly that number and
     the ids used before it are 0 .. that number - 1. ---- *)
  Theorem identify_first_seen : forall oids nids,
    identify_distinct oo nn on os oe ns ne = Ok (oids, nids) ->
    rgs 0 (oids ++ nids).
  Proof.
    intros oids0 nids0 Hrun0.
    destruct identify_full as [oids [nids [m [next [Hrun [_ [_ [_ [_ [_ [Hrgs _]]]]]]]]]]].
    rewrite Hrun0 in Hrun. inversion Hrun; subst. exact Hrgs.
  Qed.

  (* ---- identify_ranges ---- *)
  Theorem identify_ranges : forall oids nids,
    identify_distinct oo nn on os oe ns ne = Ok (oids, nids) ->
    os + length oids = Nat.max os oe /\ ns + length nids = Nat.max ns ne /\
    (os <= oe -> os + length oids = oe) /\ (ns <= ne -> ns + length nids = ne) /\
    (forall i, (exists v, offset_lookup os oids i = Some v) <-> os <= i < oe) /\
    (forall j, (exists v, offset_lookup ns nids j = Some v) <-> ns <= j < ne).
  Proof.
    intros oids0 nids0 Hrun0.
    destruct identify_ok as [oids [nids [Hrun [Hl1 Hl2]]]].
    rewrite Hrun0 in Hrun. inversion Hrun; subst oids0 nids0. clear Hrun Hrun0.
    split; [lia|]. split; [lia|]. split; [lia|]. split; [lia|].
    split; intros i; rewrite offset_lookup_some; lia.
  Qed.

  (* ---- the oracles of the id lists agree with the item oracles in range
     (axiom free) ---- *)
  Theorem identify_oracles_in_range : forall oids nids,
    identify_distinct oo nn on os oe ns ne = Ok (oids, nids) ->
    (forall i j, os <= i < oe -> ns <= j < ne ->
       cmp_of Nat.eqb (offset_lookup os oids) (offset_lookup ns nids) i j = on i j) /\
    (forall i i', os <= i < oe -> os <= i' < oe ->
       cmp_same Nat.eqb (offset_lookup os oids) i i' = oo i i') /\
    (forall j j', ns <= j < ne -> ns <= j' < ne ->
       cmp_same Nat.eqb (offset_lookup ns nids) j j' = nn j j').
  Proof.
    intros oids nids Hrun.
    destruct (identify_iff_eq oids nids Hrun) as [Hoo [Hnn Hon]].
    destruct identify_ok as [oids1 [nids1 [Hrun1 [Hl1 Hl2]]]].
    rewrite Hrun in Hrun1. inversion Hrun1; subst oids1 nids1. clear Hrun1.
    split; [|split].
    - intros i j Hi Hj. unfold cmp_of.
      rewrite (offset_lookup_nth _ ns nids j 0) by lia.
      rewrite (offset_lookup_nth _ os oids i 0) by lia.
      destruct (Hold i Hi) as [x Hx]. destruct (Hnew j Hj) as [y Hy]. rewrite Hx, Hy.
      f_equal. apply eq_true_iff_eq. rewrite Nat.eqb_eq, eqb_spec.
      specialize (Hon (i - os) (j - ns)).
      replace (os + (i - os)) with i in Hon by lia.
      replace (ns + (j - ns)) with j in Hon by lia.
      rewrite Hx, Hy in Hon.
      split; intros H.
      + symmetry in H. apply Hon in H; try lia. congruence.
      + symmetry. apply Hon; try lia. congruence.
    - intros i i' Hi Hi'. unfold cmp_same.
      rewrite (offset_lookup_nth _ os oids i 0) by lia.
      rewrite (offset_lookup_nth _ os oids i' 0) by lia.
      destruct (Hold i Hi) as [x Hx]. destruct (Hold i' Hi') as [x' Hx']. rewrite Hx, Hx'.
      f_equal. apply eq_true_iff_eq. rewrite Nat.eqb_eq, eqb_spec.
      specialize (Hoo (i - os) (i' - os)).
      replace (os + (i - os)) with i in Hoo by lia.
      replace (os + (i' - os)) with i' in Hoo by lia.
      rewrite Hx, Hx' in Hoo.
      split; intros H.
      + apply Hoo in H; try lia. congruence.
      + apply Hoo; try lia. congruence.
    - intros j j' Hj Hj'. unfold cmp_same.
      rewrite (offset_lookup_nth _ ns nids j 0) by lia.
      rewrite (offset_lookup_nth _ ns nids j' 0) by lia.
      destruct (Hnew j Hj) as [y Hy]. destruct (Hnew j' Hj') as [y' Hy']. rewrite Hy, Hy'.
      f_equal. apply eq_true_iff_eq. rewrite Nat.eqb_eq, eqb_spec.
      specialize (Hnn (j - ns) (j' - ns)).
      replace (ns + (j - ns)) with j in Hnn by lia.
      replace (ns + (j' - ns)) with j' in Hnn by lia.
      rewrite Hy, Hy' in Hnn.
      split; intros H.
      + apply Hnn in H; try lia. congruence.
      + apply Hnn; try lia. congruence.
  Qed.
End Identify.

(* ---- the ids depend only on the equality pattern (C20) ---- *)
Theorem identify_pattern :
  forall (A A' : Type) (eqb : A -> A -> bool) (eqb' : A' -> A' -> bool)
         (old new : lookup A) (old' new' : lookup A') os oe ns ne,
    (forall i, os <= i < oe -> exists x, old i = Some x) ->
    (forall j, ns <= j < ne -> exists y, new j = Some y) ->
    (forall i, os <= i < oe -> exists x, old' i = Some x) ->
    (forall j, ns <= j < ne -> exists y, new' j = Some y) ->
    (forall i i' x x' y y', os <= i < oe -> os <= i' < oe ->
       old i = Some x -> old i' = Some x' -> old' i = Some y -> old' i' = Some y' ->
       eqb x x' = eqb' y y') ->
    (forall j j' x x' y y', ns <= j < ne -> ns <= j' < ne ->
       new j = Some x -> new j' = Some x' -> new' j = Some y -> new' j' = Some y' ->
       eqb x x' = eqb' y y') ->
    (forall i j x x' y y', os <= i < oe -> ns <= j < ne ->
       new j = Some x -> old i = Some x' -> new' j = Some y -> old' i = Some y' ->
       eqb x x' = eqb' y y') ->
    identify_distinct (cmp_same eqb old) (cmp_same eqb new) (cmp_of eqb old new) os oe ns ne =
    identify_distinct (cmp_same eqb' old') (cmp_same eqb' new') (cmp_of eqb' old' new') os oe ns ne.
Proof.
  intros A A' eqb eqb' old new old' new' os oe ns ne Ho Hn Ho' Hn' Poo Pnn Pon.
  apply identify_distinct_ext.
  - intros i i' Hi Hi'. unfold cmp_same.
    destruct (Ho i Hi) as [x Hx]. destruct (Ho i' Hi') as [x' Hx'].
    destruct (Ho' i Hi) as [y Hy]. destruct (Ho' i' Hi') as [y' Hy'].
    rewrite Hx, Hx', Hy, Hy'. f_equal. apply (Poo i i' x x' y y'); auto.
  - intros j j' Hj Hj'. unfold cmp_same.
    destruct (Hn j Hj) as [x Hx]. destruct (Hn j' Hj') as [x' Hx'].
    destruct (Hn' j Hj) as [y Hy]. destruct (Hn' j' Hj') as [y' Hy'].
    rewrite Hx, Hx', Hy, Hy'. f_equal. apply (Pnn j j' x x' y y'); auto.
  - intros i j Hi Hj. unfold cmp_of.
    destruct (Hn j Hj) as [x Hx]. destruct (Ho i Hi) as [x' Hx'].
    destruct (Hn' j Hj) as [y Hy]. destruct (Ho' i Hi) as [y' Hy'].
    rewrite Hx, Hx', Hy, Hy'. f_equal. apply (Pon i j x x' y y'); auto.
Qed.

(* ------------------------------------------------------------------ *)
(* Part 2: list-based items; the text diff is the token diff (C14)      *)
(* ------------------------------------------------------------------ *)
Lemma bytes_eqb_spec : forall a b, bytes_eqb a b = true <-> a = b.
Proof.
  induction a as [|x a IH]; intros [|y b]; cbn [bytes_eqb]; split; intros H;
    try reflexivity; try discriminate.
  - apply andb_true_iff in H. destruct H as [Hx Hr].
    apply N.eqb_eq in Hx. apply IH in Hr. congruence.
  - inversion H; subst. apply andb_true_iff. split; [apply N.eqb_refl|apply IH; reflexivity].
Qed.

Lemma slice_lookup_some : forall (A : Type) (l : list A) i,
  0 <= i < length l -> exists x, slice_lookup l i = Some x.
Proof.
  intros A l i Hi. unfold slice_lookup.
  destruct (nth_error l i) as [x|] eqn:E; eauto.
  apply nth_error_None in E. lia.
Qed.

Lemma slice_lookup_none : forall (A : Type) (l : list A) i,
  ~ (0 <= i < 0 + length l) -> slice_lookup l i = None.
Proof. intros A l i Hi. unfold slice_lookup. apply nth_error_None. lia. Qed.

Section IdentifyLists.
  Variable A : Type.
  Variable eqb : A -> A -> bool.
  Hypothesis eqb_spec : forall x y, eqb x y = true <-> x = y.
  Variables olds news : list A.

  Local Notation orc := (oracles_of_items eqb (slice_lookup olds) (slice_lookup news)).

  Theorem identify_lists_ok :
    exists oids nids,
      identify_distinct (o_oo orc) (o_nn orc) (o_on orc) 0 (length olds) 0 (length news)
        = Ok (oids, nids) /\
      length oids = length olds /\ length nids = length news.
  Proof.
    destruct (identify_ok A eqb eqb_spec (slice_lookup olds) (slice_lookup news)
                0 (length olds) 0 (length news)
                (slice_lookup_some A olds) (slice_lookup_some A news))
      as [oids [nids [Hrun [Hl1 Hl2]]]].
    exists oids, nids. cbn [o_oo o_nn o_on oracles_of_items]. rewrite Nat.sub_0_r in Hl1, Hl2. auto.
  Qed.

  (* axiom-free: on ALL index pairs (out of range both sides panic) *)
  Theorem identify_oracles_pointwise : forall oids nids,
    identify_distinct (o_oo orc) (o_nn orc) (o_on orc) 0 (length olds) 0 (length news)
      = Ok (oids, nids) ->
    let orc' := oracles_of_items Nat.eqb (offset_lookup 0 oids) (offset_lookup 0 nids) in
    (forall i j, o_on orc' i j = o_on orc i j) /\
    (forall i i', o_oo orc' i i' = o_oo orc i i') /\
    (forall j j', o_nn orc' j j' = o_nn orc j j').
  Proof.
    intros oids nids Hrun orc'. subst orc'. cbn [o_oo o_nn o_on oracles_of_items] in *.
    destruct identify_lists_ok as [oids1 [nids1 [Hrun1 [Hl1 Hl2]]]].
    cbn [o_oo o_nn o_on oracles_of_items] in Hrun1.
    rewrite Hrun in Hrun1. inversion Hrun1; subst oids1 nids1. clear Hrun1.
    destruct (identify_oracles_in_range A eqb eqb_spec (slice_lookup olds) (slice_lookup news)
                0 (length olds) 0 (length news)
                (slice_lookup_some A olds) (slice_lookup_some A news) oids nids Hrun)
      as [Hon [Hoo Hnn]].
    split; [|split].
    - intros i j.
      destruct (lt_dec i (length olds)) as [Hi|Hi]; destruct (lt_dec j (length news)) as [Hj|Hj];
        try (apply Hon; lia); unfold cmp_of.
      + rewrite (offset_lookup_none _ 0 nids j) by lia.
        rewrite (slice_lookup_none _ news j) by lia. reflexivity.
      + rewrite (offset_lookup_none _ 0 oids i) by lia.
        rewrite (slice_lookup_none _ olds i) by lia.
        destruct (offset_lookup 0 nids j), (slice_lookup news j); reflexivity.
      + rewrite (offset_lookup_none _ 0 nids j) by lia.
        rewrite (slice_lookup_none _ news j) by lia. reflexivity.
    - intros i i'.
      destruct (lt_dec i (length olds)) as [Hi|Hi]; destruct (lt_dec i' (length olds)) as [Hi'|Hi'];
        try (apply Hoo; lia); unfold cmp_same.
      + rewrite (offset_lookup_none _ 0 oids i') by lia.
        rewrite (slice_lookup_none _ olds i') by lia.
        destruct (offset_lookup 0 oids i), (slice_lookup olds i); reflexivity.
      + rewrite (offset_lookup_none _ 0 oids i) by lia.
        rewrite (slice_lookup_none _ olds i) by lia. reflexivity.
      + rewrite (offset_lookup_none _ 0 oids i) by lia.
        rewrite (slice_lookup_none _ olds i) by lia. reflexivity.
    - intros j j'.
      destruct (lt_dec j (length news)) as [Hj|Hj]; destruct (lt_dec j' (length news)) as [Hj'|Hj'];
        try (apply Hnn; lia); unfold cmp_same.
      + rewrite (offset_lookup_none _ 0 nids j') by lia.
        rewrite (slice_lookup_none _ news j') by lia.
        destruct (offset_lookup 0 nids j), (slice_lookup news j); reflexivity.
      + rewrite (offset_lookup_none _ 0 nids j) by lia.
        rewrite (slice_lookup_none _ news j) by lia. reflexivity.
      + rewrite (offset_lookup_none _ 0 nids j) by lia.
        rewrite (slice_lookup_none _ news j) by lia. reflexivity.
  Qed.

  (* with functional extensionality the oracle records are equal *)
  Theorem identify_oracles_eq : forall oids nids,
    identify_distinct (o_oo orc) (o_nn orc) (o_on orc) 0 (length olds) 0 (length news)
      = Ok (oids, nids) ->
    oracles_of_items Nat.eqb (offset_lookup 0 oids) (offset_lookup 0 nids) = orc.
  Proof.
    intros oids nids Hrun.
    destruct (identify_oracles_pointwise oids nids Hrun) as [Hon [Hoo Hnn]].
    cbn [o_oo o_nn o_on oracles_of_items] in Hon, Hoo, Hnn.
    unfold oracles_of_items. f_equal.
    - extensionality i; extensionality j; apply Hon.
    - extensionality i; extensionality j; apply Hoo.
    - extensionality i; extensionality j; apply Hnn.
  Qed.

  (* both branches of the 100-token switch give the diff of the token lists *)
  Theorem textdiff_eq_tokens_diff_gen : forall alg dl dbg repair,
    textdiff_ops alg dl dbg repair orc (length olds) (length news) =
    capture_diff alg dl dbg repair orc 0 (length olds) 0 (length news).
  Proof.
    intros alg dl dbg repair. unfold textdiff_ops.
    destruct ((100 <? length olds) || (100 <? length news)); [|reflexivity].
    destruct identify_lists_ok as [oids [nids [Hrun [Hl1 Hl2]]]].
    rewrite Hrun. cbn [bind].
    rewrite (identify_oracles_eq oids nids Hrun). cbn [Nat.add]. rewrite Hl1, Hl2. reflexivity.
  Qed.
End IdentifyLists.

(* C14, as stated for byte-string tokens *)
Theorem textdiff_eq_tokens_diff : forall (olds news : list (list N)) alg dl dbg repair,
  let orc := oracles_of_items bytes_eqb (slice_lookup olds) (slice_lookup news) in
  textdiff_ops alg dl dbg repair orc (length olds) (length news) =
  capture_diff alg dl dbg repair orc 0 (length olds) 0 (length news).
Proof.
  intros olds news alg dl dbg repair orc. subst orc.
  apply (textdiff_eq_tokens_diff_gen (list N) bytes_eqb bytes_eqb_spec).
Qed.

(* the small branch needs nothing *)
Lemma textdiff_small_branch : forall alg dl dbg repair orc olen nlen,
  olen <= 100 -> nlen <= 100 ->
  textdiff_ops alg dl dbg repair orc olen nlen = capture_diff alg dl dbg repair orc 0 olen 0 nlen.
Proof.
  intros alg dl dbg repair orc olen nlen Ho Hn. unfold textdiff_ops.
  replace (100 <? olen) with false by (symmetry; apply Nat.ltb_ge; lia).
  replace (100 <? nlen) with false by (symmetry; apply Nat.ltb_ge; lia).
  reflexivity.
Qed.

Lemma newline_flag_spec : forall ov is_lines,
  newline_flag ov is_lines = match ov with Some b => b | None => is_lines end.
Proof. reflexivity. Qed.

(* ------------------------------------------------------------------ *)
(* Part 3: relabelling invariance (C20)                                 *)
(* ------------------------------------------------------------------ *)
Section Relabel.
  Variables A B : Type.
  Variable eqbA : A -> A -> bool.
  Variable eqbB : B -> B -> bool.
  Variable f : A -> B.
  (* the relabelling preserves and reflects the equality test *)
  Hypothesis Hf : forall x y, eqbB (f x) (f y) = eqbA x y.

  Lemma slice_lookup_map : forall (l : list A) i,
    slice_lookup (map f l) i = option_map f (slice_lookup l i).
  Proof. intros l i. unfold slice_lookup. apply nth_error_map. Qed.

  Theorem relabel_oracles_pointwise_gen : forall (old new : list A),
    let orcB := oracles_of_items eqbB (slice_lookup (map f old)) (slice_lookup (map f new)) in
    let orcA := oracles_of_items eqbA (slice_lookup old) (slice_lookup new) in
    (forall i j, o_on orcB i j = o_on orcA i j) /\
    (forall i i', o_oo orcB i i' = o_oo orcA i i') /\
    (forall j j', o_nn orcB j j' = o_nn orcA j j').
  Proof.
    intros old new orcB orcA. subst orcB orcA. cbn [o_on o_oo o_nn oracles_of_items].
    split; [|split].
    - intros i j. unfold cmp_of. rewrite !slice_lookup_map.
      destruct (slice_lookup new j), (slice_lookup old i); cbn [option_map]; auto.
      rewrite Hf. reflexivity.
    - intros i i'. unfold cmp_same. rewrite !slice_lookup_map.
      destruct (slice_lookup old i), (slice_lookup old i'); cbn [option_map]; auto.
      rewrite Hf. reflexivity.
    - intros j j'. unfold cmp_same. rewrite !slice_lookup_map.
      destruct (slice_lookup new j), (slice_lookup new j'); cbn [option_map]; auto.
      rewrite Hf. reflexivity.
  Qed.

  Theorem relabel_oracles_eq_gen : forall (old new : list A),
    oracles_of_items eqbB (slice_lookup (map f old)) (slice_lookup (map f new)) =
    oracles_of_items eqbA (slice_lookup old) (slice_lookup new).
  Proof.
    intros old new.
    destruct (relabel_oracles_pointwise_gen old new) as [Hon [Hoo Hnn]].
    cbn [o_on o_oo o_nn oracles_of_items] in Hon, Hoo, Hnn.
    unfold oracles_of_items. f_equal.
    - extensionality i; extensionality j; apply Hon.
    - extensionality i; extensionality j; apply Hoo.
    - extensionality i; extensionality j; apply Hnn.
  Qed.
End Relabel.

Section RelabelInjective.
  Variables A B : Type.
  Variable eqbA : A -> A -> bool.
  Variable eqbB : B -> B -> bool.
  Hypothesis eqbA_spec : forall x y, eqbA x y = true <-> x = y.
  Hypothesis eqbB_spec : forall x y, eqbB x y = true <-> x = y.
  Variable f : A -> B.
  Hypothesis f_inj : forall x y, f x = f y -> x = y.

  Lemma injective_eqb : forall x y, eqbB (f x) (f y) = eqbA x y.
  Proof.
    intros x y. apply eq_true_iff_eq. rewrite eqbA_spec, eqbB_spec. split.
    - apply f_inj.
    - intros ->. reflexivity.
  Qed.

  (* axiom free *)
  Theorem relabel_oracles_pointwise : forall (old new : list A),
    let orcB := oracles_of_items eqbB (slice_lookup (map f old)) (slice_lookup (map f new)) in
    let orcA := oracles_of_items eqbA (slice_lookup old) (slice_lookup new) in
    (forall i j, o_on orcB i j = o_on orcA i j) /\
    (forall i i', o_oo orcB i i' = o_oo orcA i i') /\
    (forall j j', o_nn orcB j j' = o_nn orcA j j').
  Proof. exact (relabel_oracles_pointwise_gen A B eqbA eqbB f injective_eqb). Qed.

  Theorem relabel_capture_diff : forall (old new : list A) alg dl dbg repair os oe ns ne,
    capture_diff alg dl dbg repair
      (oracles_of_items eqbB (slice_lookup (map f old)) (slice_lookup (map f new))) os oe ns ne =
    capture_diff alg dl dbg repair
      (oracles_of_items eqbA (slice_lookup old) (slice_lookup new)) os oe ns ne.
  Proof.
    intros old new alg dl dbg repair os oe ns ne.
    rewrite (relabel_oracles_eq_gen A B eqbA eqbB f injective_eqb). reflexivity.
  Qed.

  Theorem relabel_raw_trace : forall (old new : list A) alg dl dbg os oe ns ne,
    raw_trace alg dl dbg
      (oracles_of_items eqbB (slice_lookup (map f old)) (slice_lookup (map f new))) os oe ns ne =
    raw_trace alg dl dbg
      (oracles_of_items eqbA (slice_lookup old) (slice_lookup new)) os oe ns ne.
  Proof.
    intros old new alg dl dbg os oe ns ne.
    rewrite (relabel_oracles_eq_gen A B eqbA eqbB f injective_eqb). reflexivity.
  Qed.

  Theorem relabel_textdiff_ops : forall (old new : list A) alg dl dbg repair,
    textdiff_ops alg dl dbg repair
      (oracles_of_items eqbB (slice_lookup (map f old)) (slice_lookup (map f new)))
      (length (map f old)) (length (map f new)) =
    textdiff_ops alg dl dbg repair
      (oracles_of_items eqbA (slice_lookup old) (slice_lookup new)) (length old) (length new).
  Proof.
    intros old new alg dl dbg repair.
    rewrite (relabel_oracles_eq_gen A B eqbA eqbB f injective_eqb). rewrite !map_length. reflexivity.
  Qed.

  (* the ids are invariant too (axiom free) *)
  Theorem relabel_identify : forall (old new : list A) os oe ns ne,
    let orcB := oracles_of_items eqbB (slice_lookup (map f old)) (slice_lookup (map f new)) in
    let orcA := oracles_of_items eqbA (slice_lookup old) (slice_lookup new) in
    identify_distinct (o_oo orcB) (o_nn orcB) (o_on orcB) os oe ns ne =
    identify_distinct (o_oo orcA) (o_nn orcA) (o_on orcA) os oe ns ne.
  Proof.
    intros old new os oe ns ne orcB orcA.
    destruct (relabel_oracles_pointwise old new) as [Hon [Hoo Hnn]].
    apply identify_distinct_ext; intros; [apply Hoo|apply Hnn|apply Hon].
  Qed.
End RelabelInjective.

(* the str and byte tokenizers: equal item lists give equal diffs *)
Lemma str_bytes_same_ops : forall (A : Type) (eqb : A -> A -> bool)
    (olds news olds' news' : list A) alg dl dbg repair,
  olds = olds' -> news = news' ->
  textdiff_ops alg dl dbg repair
    (oracles_of_items eqb (slice_lookup olds) (slice_lookup news)) (length olds) (length news) =
  textdiff_ops alg dl dbg repair
    (oracles_of_items eqb (slice_lookup olds') (slice_lookup news')) (length olds') (length news').
Proof. intros; subst; reflexivity. Qed.
