(* Proofs/Iter.v — property C13: expanding ops into changes and slices is
   faithful.  Specification [expand_op]/[expand_all] (independent of the
   iterator state machine of Model/Iter.v) and the proofs that the model of
   ChangesIter / AllChangesIter / DiffOp::iter_slices / apply_to_hook agrees
   with it. *)
From Similar Require Import Model.Base Model.Iter.

(* ------------------------------------------------------------------ *)
(* Result-monad bookkeeping                                            *)
(* ------------------------------------------------------------------ *)

Lemma bind_ok_app_nil {B} (m : res (list B)) :
  bind m (fun b => Ok ([] ++ b)) = m.
Proof. destruct m; reflexivity. Qed.

(* ------------------------------------------------------------------ *)
(* [sequence]: all-or-nothing collection of optional values            *)
(* ------------------------------------------------------------------ *)

Fixpoint sequence {B} (l : list (option B)) : option (list B) :=
  match l with
  | [] => Some []
  | None :: _ => None
  | Some b :: r =>
      match sequence r with
      | Some bs => Some (b :: bs)
      | None => None
      end
  end.

Lemma sequence_map_Some {B} (bs : list B) : sequence (map Some bs) = Some bs.
Proof.
  induction bs as [|b bs IH]; cbn [map sequence]; [reflexivity|].
  rewrite IH; reflexivity.
Qed.

Lemma sequence_Some_inv {B} (l : list (option B)) :
  forall bs, sequence l = Some bs -> l = map Some bs.
Proof.
  induction l as [|x r IH]; intros bs Hs; cbn [sequence] in Hs.
  - injection Hs as <-. reflexivity.
  - destruct x as [b|]; [|discriminate Hs].
    destruct (sequence r) as [bs'|] eqn:Er; [|discriminate Hs].
    injection Hs as <-. cbn [map]. f_equal. apply IH. reflexivity.
Qed.

Lemma sequence_Some_iff {B} (l : list (option B)) bs :
  sequence l = Some bs <-> l = map Some bs.
Proof.
  split; [apply sequence_Some_inv|intros ->; apply sequence_map_Some].
Qed.

Lemma sequence_None_iff {B} (l : list (option B)) :
  sequence l = None <-> In None l.
Proof.
  induction l as [|x r IH]; cbn [sequence In].
  - split; [discriminate|intros []].
  - destruct x as [b|].
    + destruct (sequence r) as [bs|].
      * split; [discriminate|]. intros [Hx|Hin]; [discriminate Hx|].
        apply IH in Hin. discriminate Hin.
      * split; [|reflexivity]. intros _. right. apply IH. reflexivity.
    + split; [intros _; left; reflexivity|reflexivity].
Qed.

Lemma nth_error_seq0 (l k : nat) : k < l -> nth_error (seq 0 l) k = Some k.
Proof.
  intros Hk. rewrite (nth_error_nth' (seq 0 l) 0) by (rewrite seq_length; exact Hk).
  rewrite seq_nth by exact Hk. reflexivity.
Qed.

(* the k-th element of a successful [sequence (map g (seq 0 l))] *)
Lemma sequence_map_seq_nth {B} (g : nat -> option B) (l : nat) (bs : list B) :
  sequence (map g (seq 0 l)) = Some bs ->
  length bs = l /\
  (forall k b, nth_error bs k = Some b -> k < l /\ g k = Some b) /\
  (forall k, k < l -> exists b, nth_error bs k = Some b /\ g k = Some b).
Proof.
  intros Hs. apply sequence_Some_inv in Hs.
  assert (Hlen : length bs = l).
  { apply (f_equal (@length _)) in Hs.
    rewrite !map_length, seq_length in Hs. symmetry; exact Hs. }
  assert (Hnth : forall k b, nth_error bs k = Some b -> k < l /\ g k = Some b).
  { intros k b Hk.
    assert (Hkl : k < l).
    { rewrite <- Hlen. apply nth_error_Some. rewrite Hk. discriminate. }
    split; [exact Hkl|].
    apply (map_nth_error Some) in Hk. rewrite <- Hs in Hk.
    rewrite (map_nth_error g k (seq 0 l) (nth_error_seq0 l k Hkl)) in Hk.
    injection Hk as Hk. exact Hk. }
  split; [exact Hlen|]. split; [exact Hnth|].
  intros k Hkl.
  destruct (nth_error bs k) as [b|] eqn:Eb.
  - exists b. split; [reflexivity|]. apply (Hnth k b Eb).
  - apply nth_error_None in Eb. lia.
Qed.

Lemma sequence_map_seq_intro {B} (bs : list B) :
  forall (g : nat -> option B) (l : nat),
    length bs = l ->
    (forall k b, nth_error bs k = Some b -> g k = Some b) ->
    sequence (map g (seq 0 l)) = Some bs.
Proof.
  induction bs as [|b bs IH]; intros g l Hlen Hnth; cbn [length] in Hlen; subst l.
  - reflexivity.
  - cbn [seq map sequence]. rewrite (Hnth 0 b eq_refl).
    rewrite <- seq_shift, map_map.
    rewrite (IH (fun k => g (S k)) (length bs) eq_refl).
    + reflexivity.
    + intros k b' Hk. apply (Hnth (S k) b'). exact Hk.
Qed.

(* ------------------------------------------------------------------ *)
(* Specification                                                       *)
(* ------------------------------------------------------------------ *)

Definition app_opt {B} (a b : option (list B)) : option (list B) :=
  match a with
  | None => None
  | Some xs => match b with
               | None => None
               | Some ys => Some (xs ++ ys)
               end
  end.

Definition op_nchanges (x : op) : nat :=
  match x with
  | Equal _ _ l => l
  | Delete _ ol _ => ol
  | Insert _ _ nl => nl
  | Replace _ ol _ nl => ol + nl
  end.

Section Spec.
  Context {A : Type}.
  Variables old new : lookup A.

  (* the t-th change of an old-side run starting at old index o (and new
     index n when the change carries a new index, i.e. for Equal) *)
  Definition old_change (tg : ctag) (wn : bool) (o n t : nat) : option (change A) :=
    match old (o + t) with
    | Some v => Some {| ch_tag := tg; ch_old := Some (o + t);
                        ch_new := if wn then Some (n + t) else None;
                        ch_val := v |}
    | None => None
    end.

  Definition new_change (n t : nat) : option (change A) :=
    match new (n + t) with
    | Some v => Some {| ch_tag := ChInsert; ch_old := None;
                        ch_new := Some (n + t); ch_val := v |}
    | None => None
    end.

  Definition expand_old (tg : ctag) (wn : bool) (o n l : nat) : option (list (change A)) :=
    sequence (map (old_change tg wn o n) (seq 0 l)).

  Definition expand_new (n l : nat) : option (list (change A)) :=
    sequence (map (new_change n) (seq 0 l)).

  Definition expand_op (x : op) : option (list (change A)) :=
    match x with
    | Equal o n l => expand_old ChEqual true o n l
    | Delete o ol n => expand_old ChDelete false o n ol
    | Insert _ n nl => expand_new n nl
    | Replace o ol n nl =>
        app_opt (expand_old ChDelete false o n ol) (expand_new n nl)
    end.

  Fixpoint expand_all (ops : list op) : option (list (change A)) :=
    match ops with
    | [] => Some []
    | x :: rest => app_opt (expand_op x) (expand_all rest)
    end.

  (* ---------------------------------------------------------------- *)
  (* Unfolding the spec one step at a time                             *)
  (* ---------------------------------------------------------------- *)

  Lemma expand_old_0 tg wn o n : expand_old tg wn o n 0 = Some [].
  Proof. reflexivity. Qed.

  Lemma expand_new_0 n : expand_new n 0 = Some [].
  Proof. reflexivity. Qed.

  Lemma expand_old_S tg wn o n l :
    expand_old tg wn o n (S l) =
    match old o with
    | None => None
    | Some v =>
        match expand_old tg wn (S o) (if wn then S n else n) l with
        | None => None
        | Some cs =>
            Some ({| ch_tag := tg; ch_old := Some o;
                     ch_new := if wn then Some n else None; ch_val := v |} :: cs)
        end
    end.
  Proof.
    unfold expand_old. cbn [seq map sequence].
    rewrite <- seq_shift, map_map.
    unfold old_change at 1. rewrite !Nat.add_0_r.
    destruct (old o) as [v|]; [|reflexivity].
    replace (map (fun t => old_change tg wn o n (S t)) (seq 0 l))
      with (map (old_change tg wn (S o) (if wn then S n else n)) (seq 0 l)).
    - reflexivity.
    - apply map_ext. intros t. unfold old_change.
      rewrite !Nat.add_succ_r. cbn [Nat.add].
      destruct wn; cbn [Nat.add]; reflexivity.
  Qed.

  Lemma expand_new_S n l :
    expand_new n (S l) =
    match new n with
    | None => None
    | Some v =>
        match expand_new (S n) l with
        | None => None
        | Some cs =>
            Some ({| ch_tag := ChInsert; ch_old := None;
                     ch_new := Some n; ch_val := v |} :: cs)
        end
    end.
  Proof.
    unfold expand_new. cbn [seq map sequence].
    rewrite <- seq_shift, map_map.
    unfold new_change at 1. rewrite !Nat.add_0_r.
    destruct (new n) as [v|]; [|reflexivity].
    replace (map (fun t => new_change n (S t)) (seq 0 l))
      with (map (new_change (S n)) (seq 0 l)).
    - reflexivity.
    - apply map_ext. intros t. unfold new_change.
      rewrite !Nat.add_succ_r. cbn [Nat.add]. reflexivity.
  Qed.

  (* ---------------------------------------------------------------- *)
  (* 1. ChangesIter against the spec                                   *)
  (* ---------------------------------------------------------------- *)

  Lemma run_done f s :
    iter_next old new s = Ok None -> iter_run old new (S f) s = Ok [].
  Proof. intros Hn. cbn [iter_run]. rewrite Hn. reflexivity. Qed.

  (* l consecutive old-side steps *)
  Lemma run_old_phase tg t wn
    (Hnext : forall s, it_tag s = tg -> it_old_i s < it_old_end s ->
                       iter_next old new s = step_old old s t wn) :
    forall l f ne oi nidx ni,
      iter_run old new (l + f) (Build_iter_state (oi + l) ne oi nidx oi ni tg) =
      do a <- of_option (expand_old t wn oi nidx l);
      do b <- iter_run old new f
                (Build_iter_state (oi + l) ne (oi + l)
                   (if wn then nidx + l else nidx) (oi + l) ni tg);
      Ok (a ++ b).
  Proof.
    induction l as [|l IH]; intros f ne oi nidx ni.
    - rewrite expand_old_0. cbn [of_option bind Nat.add].
      rewrite !Nat.add_0_r.
      replace (if wn then nidx else nidx) with nidx by (destruct wn; reflexivity).
      symmetry. apply bind_ok_app_nil.
    - change (S l + f) with (S (l + f)). cbn [iter_run].
      rewrite Hnext by (cbn; first [reflexivity|lia]).
      unfold step_old. cbn [it_old_i it_old_end it_new_end it_old_index it_new_index it_new_i it_tag].
      rewrite expand_old_S.
      destruct (old oi) as [v|]; [|reflexivity].
      cbn [of_option bind].
      replace (oi + S l) with (S oi + l) by lia.
      rewrite IH.
      replace (if wn then (if wn then S nidx else nidx) + l else if wn then S nidx else nidx)
        with (if wn then nidx + S l else nidx)
        by (destruct wn; [lia|reflexivity]).
      replace (S oi - 1) with oi by lia.
      replace (if wn then Some ((if wn then S nidx else nidx) - 1) else None)
        with (if wn then Some nidx else None)
        by (destruct wn; [f_equal; lia|reflexivity]).
      destruct (expand_old t wn (S oi) (if wn then S nidx else nidx) l) as [cs|];
        [|reflexivity].
      cbn [of_option bind].
      destruct (iter_run old new f _) as [b| |]; reflexivity.
  Qed.

  (* l consecutive new-side steps (the old side being exhausted) *)
  Lemma run_new_phase tg
    (Hnext : forall s, it_tag s = tg -> it_old_end s <= it_old_i s ->
                       it_new_i s < it_new_end s ->
                       iter_next old new s = step_new new s) :
    forall l f oe oidx oi ni, oe <= oi ->
      iter_run old new (l + f) (Build_iter_state oe (ni + l) oidx ni oi ni tg) =
      do a <- of_option (expand_new ni l);
      do b <- iter_run old new f
                (Build_iter_state oe (ni + l) oidx (ni + l) oi (ni + l) tg);
      Ok (a ++ b).
  Proof.
    induction l as [|l IH]; intros f oe oidx oi ni Hoe.
    - rewrite expand_new_0. cbn [of_option bind Nat.add].
      rewrite !Nat.add_0_r. symmetry. apply bind_ok_app_nil.
    - change (S l + f) with (S (l + f)). cbn [iter_run].
      rewrite Hnext by (cbn; first [reflexivity|lia]).
      unfold step_new. cbn [it_old_i it_old_end it_new_end it_old_index it_new_index it_new_i it_tag].
      rewrite expand_new_S.
      destruct (new ni) as [v|]; [|reflexivity].
      cbn [of_option bind].
      replace (ni + S l) with (S ni + l) by lia.
      rewrite IH by exact Hoe.
      replace (S ni - 1) with ni by lia.
      destruct (expand_new (S ni) l) as [cs|]; [|reflexivity].
      cbn [of_option bind].
      destruct (iter_run old new f _) as [b| |]; reflexivity.
  Qed.

  Lemma next_equal s :
    it_tag s = TEqual -> it_old_i s < it_old_end s ->
    iter_next old new s = step_old old s ChEqual true.
  Proof.
    intros Ht Hlt. unfold iter_next. rewrite Ht.
    apply Nat.ltb_lt in Hlt. rewrite Hlt. reflexivity.
  Qed.

  Lemma next_delete s :
    it_tag s = TDelete -> it_old_i s < it_old_end s ->
    iter_next old new s = step_old old s ChDelete false.
  Proof.
    intros Ht Hlt. unfold iter_next. rewrite Ht.
    apply Nat.ltb_lt in Hlt. rewrite Hlt. reflexivity.
  Qed.

  Lemma next_replace_old s :
    it_tag s = TReplace -> it_old_i s < it_old_end s ->
    iter_next old new s = step_old old s ChDelete false.
  Proof.
    intros Ht Hlt. unfold iter_next. rewrite Ht.
    apply Nat.ltb_lt in Hlt. rewrite Hlt. reflexivity.
  Qed.

  Lemma next_insert s :
    it_tag s = TInsert -> it_old_end s <= it_old_i s ->
    it_new_i s < it_new_end s ->
    iter_next old new s = step_new new s.
  Proof.
    intros Ht _ Hlt. unfold iter_next. rewrite Ht.
    apply Nat.ltb_lt in Hlt. rewrite Hlt. reflexivity.
  Qed.

  Lemma next_replace_new s :
    it_tag s = TReplace -> it_old_end s <= it_old_i s ->
    it_new_i s < it_new_end s ->
    iter_next old new s = step_new new s.
  Proof.
    intros Ht Hge Hlt. unfold iter_next. rewrite Ht.
    apply Nat.ltb_ge in Hge. rewrite Hge.
    apply Nat.ltb_lt in Hlt. rewrite Hlt. reflexivity.
  Qed.

  (* a state whose ranges are both exhausted yields None *)
  Lemma next_exhausted s :
    it_old_end s <= it_old_i s -> it_new_end s <= it_new_i s ->
    iter_next old new s = Ok None.
  Proof.
    intros Ho Hn. unfold iter_next.
    apply Nat.ltb_ge in Ho. apply Nat.ltb_ge in Hn. rewrite Ho, Hn.
    destruct (it_tag s); reflexivity.
  Qed.

  (* Equal never looks at the new range *)
  Lemma next_equal_done s :
    it_tag s = TEqual -> it_old_end s <= it_old_i s ->
    iter_next old new s = Ok None.
  Proof.
    intros Ht Ho. unfold iter_next. rewrite Ht.
    apply Nat.ltb_ge in Ho. rewrite Ho. reflexivity.
  Qed.

  Lemma of_option_app_nil (o : option (list (change A))) :
    (do a <- of_option o; do b <- Ok []; Ok (a ++ b)) = of_option o.
  Proof. destruct o as [a|]; cbn; [rewrite app_nil_r|]; reflexivity. Qed.

  Theorem iter_changes_spec (x : op) :
    iter_changes old new x = of_option (expand_op x).
  Proof.
    unfold iter_changes.
    destruct x as [o n l|o ol n|o n nl|o ol n nl];
      cbn [op_old_len op_new_len expand_op];
      unfold iter_new, op_old_end, op_new_end;
      cbn [op_old_start op_new_start op_old_len op_new_len op_tag].
    - (* Equal: fuel l + l + 1 *)
      rewrite <- Nat.add_assoc.
      rewrite (run_old_phase TEqual ChEqual true next_equal).
      rewrite Nat.add_1_r, run_done
        by (apply next_equal_done; cbn; first [reflexivity|lia]).
      apply of_option_app_nil.
    - (* Delete: fuel ol + 0 + 1 *)
      rewrite <- Nat.add_assoc.
      rewrite (run_old_phase TDelete ChDelete false next_delete).
      cbn [Nat.add]. rewrite run_done by (apply next_exhausted; cbn; lia).
      apply of_option_app_nil.
    - (* Insert: fuel 0 + nl + 1 *)
      cbn [Nat.add].
      rewrite (run_new_phase TInsert next_insert) by lia.
      rewrite run_done by (apply next_exhausted; cbn; lia).
      apply of_option_app_nil.
    - (* Replace: fuel ol + nl + 1 *)
      rewrite <- Nat.add_assoc.
      rewrite (run_old_phase TReplace ChDelete false next_replace_old).
      rewrite (run_new_phase TReplace next_replace_new) by lia.
      rewrite run_done by (apply next_exhausted; cbn; lia).
      destruct (expand_old ChDelete false o n ol) as [a|]; [|reflexivity].
      destruct (expand_new n nl) as [b|]; [|reflexivity].
      cbn. rewrite app_nil_r. reflexivity.
  Qed.

  (* ---------------------------------------------------------------- *)
  (* 3. Shape of the expansion                                         *)
  (* ---------------------------------------------------------------- *)

  (* c is the old-side change at old index i, with new index [on] *)
  Definition old_shape (tg : ctag) (i : nat) (on : option nat) (c : change A) : Prop :=
    ch_tag c = tg /\ ch_old c = Some i /\ ch_new c = on /\ old i = Some (ch_val c).

  (* c is the Insert change at new index j *)
  Definition new_shape (j : nat) (c : change A) : Prop :=
    ch_tag c = ChInsert /\ ch_old c = None /\ ch_new c = Some j /\
    new j = Some (ch_val c).

  (* what the k-th change (0-based) of op x has to look like *)
  Definition change_shape (x : op) (k : nat) (c : change A) : Prop :=
    match x with
    | Equal o n _ => old_shape ChEqual (o + k) (Some (n + k)) c
    | Delete o _ _ => old_shape ChDelete (o + k) None c
    | Insert _ n _ => new_shape (n + k) c
    | Replace o ol n _ =>
        if k <? ol then old_shape ChDelete (o + k) None c
        else new_shape (n + (k - ol)) c
    end.

  Lemma old_change_shape tg wn o n k c :
    old_change tg wn o n k = Some c ->
    old_shape tg (o + k) (if wn then Some (n + k) else None) c.
  Proof.
    unfold old_change, old_shape. intros Hc.
    destruct (old (o + k)) as [v|]; [|discriminate Hc].
    injection Hc as <-. cbn. repeat split; reflexivity.
  Qed.

  Lemma new_change_shape n k c :
    new_change n k = Some c -> new_shape (n + k) c.
  Proof.
    unfold new_change, new_shape. intros Hc.
    destruct (new (n + k)) as [v|]; [|discriminate Hc].
    injection Hc as <-. cbn. repeat split; reflexivity.
  Qed.

  Lemma expand_old_shape tg wn o n l cs :
    expand_old tg wn o n l = Some cs ->
    length cs = l /\
    forall k c, nth_error cs k = Some c ->
      k < l /\ old_shape tg (o + k) (if wn then Some (n + k) else None) c.
  Proof.
    unfold expand_old. intros Hs.
    apply sequence_map_seq_nth in Hs. destruct Hs as (Hlen & Hnth & _).
    split; [exact Hlen|]. intros k c Hk.
    destruct (Hnth k c Hk) as [Hkl Hc].
    split; [exact Hkl|]. apply old_change_shape. exact Hc.
  Qed.

  Lemma expand_new_shape n l cs :
    expand_new n l = Some cs ->
    length cs = l /\
    forall k c, nth_error cs k = Some c -> k < l /\ new_shape (n + k) c.
  Proof.
    unfold expand_new. intros Hs.
    apply sequence_map_seq_nth in Hs. destruct Hs as (Hlen & Hnth & _).
    split; [exact Hlen|]. intros k c Hk.
    destruct (Hnth k c Hk) as [Hkl Hc].
    split; [exact Hkl|]. apply new_change_shape. exact Hc.
  Qed.

  Lemma app_opt_Some {B} (a b : option (list B)) cs :
    app_opt a b = Some cs ->
    exists xs ys, a = Some xs /\ b = Some ys /\ cs = xs ++ ys.
  Proof.
    unfold app_opt. intros H.
    destruct a as [xs|]; [|discriminate H].
    destruct b as [ys|]; [|discriminate H].
    injection H as <-. exists xs, ys. repeat split; reflexivity.
  Qed.

  Theorem expand_op_shape (x : op) (cs : list (change A)) :
    expand_op x = Some cs ->
    length cs = op_nchanges x /\
    forall k c, nth_error cs k = Some c -> change_shape x k c.
  Proof.
    destruct x as [o n l|o ol n|o n nl|o ol n nl];
      cbn [expand_op op_nchanges change_shape]; intros Hx.
    - apply expand_old_shape in Hx. destruct Hx as [Hlen Hnth].
      split; [exact Hlen|]. intros k c Hk. apply (Hnth k c Hk).
    - apply expand_old_shape in Hx. destruct Hx as [Hlen Hnth].
      split; [exact Hlen|]. intros k c Hk. apply (Hnth k c Hk).
    - apply expand_new_shape in Hx. destruct Hx as [Hlen Hnth].
      split; [exact Hlen|]. intros k c Hk. apply (Hnth k c Hk).
    - apply app_opt_Some in Hx. destruct Hx as (xs & ys & Hxs & Hys & ->).
      apply expand_old_shape in Hxs. destruct Hxs as [Hlx Hnx].
      apply expand_new_shape in Hys. destruct Hys as [Hly Hny].
      split; [rewrite app_length, Hlx, Hly; reflexivity|].
      intros k c Hk.
      destruct (Nat.ltb_spec k ol) as [Hlt|Hge].
      + rewrite nth_error_app1 in Hk by (rewrite Hlx; exact Hlt).
        apply (Hnx k c Hk).
      + rewrite nth_error_app2 in Hk by (rewrite Hlx; exact Hge).
        rewrite Hlx in Hk. apply (Hny (k - ol) c Hk).
  Qed.

  Lemma old_shape_change tg (wn : bool) o n k c :
    old_shape tg (o + k) (if wn then Some (n + k) else None) c ->
    old_change tg wn o n k = Some c.
  Proof.
    unfold old_change, old_shape. destruct c as [t' o' n' v]. cbn.
    intros (Ht & Ho & Hn & Hv). rewrite Hv. subst t' o' n'. reflexivity.
  Qed.

  Lemma new_shape_change n k c :
    new_shape (n + k) c -> new_change n k = Some c.
  Proof.
    unfold new_change, new_shape. destruct c as [t' o' n' v]. cbn.
    intros (Ht & Ho & Hn & Hv). rewrite Hv. subst t' o' n'. reflexivity.
  Qed.

  (* converse of [expand_op_shape]: length and per-position shape determine
     the expansion, so the shape is a complete description of [expand_op] *)
  Theorem expand_op_shape_conv (x : op) (cs : list (change A)) :
    length cs = op_nchanges x ->
    (forall k c, nth_error cs k = Some c -> change_shape x k c) ->
    expand_op x = Some cs.
  Proof.
    destruct x as [o n l|o ol n|o n nl|o ol n nl];
      cbn [expand_op op_nchanges change_shape]; intros Hlen Hnth.
    - apply sequence_map_seq_intro; [exact Hlen|].
      intros k c Hk. apply old_shape_change. apply (Hnth k c Hk).
    - apply sequence_map_seq_intro; [exact Hlen|].
      intros k c Hk. apply old_shape_change. apply (Hnth k c Hk).
    - apply sequence_map_seq_intro; [exact Hlen|].
      intros k c Hk. apply new_shape_change. apply (Hnth k c Hk).
    - rewrite <- (firstn_skipn ol cs) in Hnth |- *.
      assert (Hl1 : length (firstn ol cs) = ol)
        by (rewrite firstn_length; lia).
      assert (Hl2 : length (skipn ol cs) = nl)
        by (rewrite skipn_length; lia).
      unfold expand_old, expand_new.
      rewrite (sequence_map_seq_intro (firstn ol cs) _ ol Hl1).
      + rewrite (sequence_map_seq_intro (skipn ol cs) _ nl Hl2); [reflexivity|].
        intros k c Hk. apply new_shape_change.
        specialize (Hnth (ol + k) c).
        rewrite nth_error_app2, Hl1 in Hnth by lia.
        replace (ol + k - ol) with k in Hnth by lia.
        specialize (Hnth Hk).
        destruct (Nat.ltb_spec (ol + k) ol) as [Hlt|_]; [lia|]. exact Hnth.
      + intros k c Hk. apply (old_shape_change ChDelete false o n).
        assert (Hkl : k < ol).
        { rewrite <- Hl1. apply nth_error_Some. rewrite Hk. discriminate. }
        specialize (Hnth k c).
        rewrite nth_error_app1 in Hnth by lia.
        specialize (Hnth Hk).
        destruct (Nat.ltb_spec k ol) as [_|Hge]; [|lia]. exact Hnth.
  Qed.

  Lemma op_nchanges_le x : op_nchanges x <= op_old_len x + op_new_len x.
  Proof. destruct x; cbn; lia. Qed.

  (* ---------------------------------------------------------------- *)
  (* 2. AllChangesIter against the spec                                *)
  (* ---------------------------------------------------------------- *)

  (* while the current per-op iterator runs, AllChangesIter mirrors it *)
  Lemma all_run_ok (ops : list op) :
    forall fuel s a, iter_run old new fuel s = Ok a ->
    forall f,
      all_changes_run old new (length a + 1 + f) ops (Some s) =
      do b <- all_changes_run old new f ops None; Ok (a ++ b).
  Proof.
    induction fuel as [|fuel IH]; intros s a Hrun f; cbn [iter_run] in Hrun.
    - discriminate Hrun.
    - destruct (iter_next old new s) as [[[c s']|]| |] eqn:En;
        cbn [bind] in Hrun; try discriminate Hrun.
      + destruct (iter_run old new fuel s') as [rest| |] eqn:Er;
          cbn [bind] in Hrun; try discriminate Hrun.
        injection Hrun as <-.
        change (length (c :: rest) + 1 + f) with (S (length rest + 1 + f)).
        cbn [all_changes_run]. rewrite En. cbn [bind].
        rewrite (IH s' rest Er f).
        destruct (all_changes_run old new f ops None) as [b| |]; reflexivity.
      + injection Hrun as <-.
        change (length (@nil (change A)) + 1 + f) with (S f).
        cbn [all_changes_run]. rewrite En. cbn [bind].
        symmetry. apply bind_ok_app_nil.
  Qed.

  Lemma all_run_panic (ops : list op) :
    forall fuel s, iter_run old new fuel s = Panic ->
    forall f, all_changes_run old new (fuel + f) ops (Some s) = Panic.
  Proof.
    induction fuel as [|fuel IH]; intros s Hrun f; cbn [iter_run] in Hrun.
    - discriminate Hrun.
    - change (S fuel + f) with (S (fuel + f)). cbn [all_changes_run].
      destruct (iter_next old new s) as [[[c s']|]| |] eqn:En;
        cbn [bind] in Hrun; try discriminate Hrun; cbn [bind].
      + destruct (iter_run old new fuel s') as [rest| |] eqn:Er;
          cbn [bind] in Hrun; try discriminate Hrun.
        rewrite (IH s' Er f). reflexivity.
      + reflexivity.
  Qed.

  Lemma ops_total_cons x ops :
    ops_total (x :: ops) = op_old_len x + op_new_len x + 2 + ops_total ops.
  Proof. reflexivity. Qed.

  (* any fuel at least [ops_total ops] suffices *)
  Lemma all_changes_run_ge :
    forall ops f, ops_total ops <= f ->
      all_changes_run old new f ops None = of_option (expand_all ops).
  Proof.
    induction ops as [|x ops IH]; intros f Hf.
    - destruct f as [|f]; [cbn in Hf; lia|]. reflexivity.
    - rewrite ops_total_cons in Hf.
      destruct f as [|f]; [lia|]. cbn [all_changes_run expand_all].
      pose proof (iter_changes_spec x) as Hx. unfold iter_changes in Hx.
      pose proof (op_nchanges_le x) as Hle.
      destruct (expand_op x) as [cs|] eqn:Ex; cbn [of_option] in Hx.
      + destruct (expand_op_shape x cs Ex) as [Hlen _].
        replace f with (length cs + 1 + (f - (length cs + 1))) by lia.
        rewrite (all_run_ok ops _ _ _ Hx).
        rewrite IH by lia.
        destruct (expand_all ops) as [b|]; reflexivity.
      + replace f with (op_old_len x + op_new_len x + 1 +
                        (f - (op_old_len x + op_new_len x + 1))) by lia.
        rewrite (all_run_panic ops _ _ Hx). reflexivity.
  Qed.

  Theorem all_changes_concat (ops : list op) :
    iter_all_changes old new ops = of_option (expand_all ops).
  Proof.
    unfold iter_all_changes. apply all_changes_run_ge. apply le_n.
  Qed.

End Spec.

(* ------------------------------------------------------------------ *)
(* 4. DiffOp::iter_slices against the spec                              *)
(* ------------------------------------------------------------------ *)

(* one slice (tag, items) against the group of changes it stands for *)
Definition slice_matches {A} (p : ctag * list A) (grp : list (change A)) : Prop :=
  snd p = map ch_val grp /\ Forall (fun c => ch_tag c = fst p) grp.

Definition op_slice_tags (x : op) : list ctag :=
  match x with
  | Equal _ _ _ => [ChEqual]
  | Delete _ _ _ => [ChDelete]
  | Insert _ _ _ => [ChInsert]
  | Replace _ _ _ _ => [ChDelete; ChInsert]
  end.

Definition op_slice_lens (x : op) : list nat :=
  match x with
  | Equal _ _ l => [l]
  | Delete _ ol _ => [ol]
  | Insert _ _ nl => [nl]
  | Replace _ ol _ nl => [ol; nl]
  end.

(* the start offsets iter_slices actually slices at are within the lists
   (<= length: one past the end is allowed, as for Rust ranges) *)
Definition op_starts_in {A} (old new : list A) (x : op) : Prop :=
  match x with
  | Equal o _ _ | Delete o _ _ => o <= length old
  | Insert _ n _ => n <= length new
  | Replace o _ n _ => o <= length old /\ n <= length new
  end.

(* every range iter_slices slices is non-empty *)
Definition op_slices_nonempty (x : op) : Prop :=
  match x with
  | Equal _ _ l => 0 < l
  | Delete _ ol _ => 0 < ol
  | Insert _ _ nl => 0 < nl
  | Replace _ ol _ nl => 0 < ol /\ 0 < nl
  end.

Section Slices.
  Context {A : Type}.

  Lemma slice_range_inv (l : list A) a len s :
    slice_range l a (a + len) = Ok s ->
    a + len <= length l /\ s = firstn len (skipn a l).
  Proof.
    unfold slice_range. intros Hs.
    destruct (Nat.leb_spec a (a + len)) as [_|Hlt]; [|lia].
    destruct (Nat.leb_spec (a + len) (length l)) as [Hle|Hgt];
      cbn [andb] in Hs; [|discriminate Hs].
    injection Hs as <-. split; [exact Hle|].
    replace (a + len - a) with len by lia. reflexivity.
  Qed.

  Lemma slice_range_ok (l : list A) a len :
    a + len <= length l ->
    slice_range l a (a + len) = Ok (firstn len (skipn a l)).
  Proof.
    unfold slice_range. intros Hle.
    destruct (Nat.leb_spec a (a + len)) as [_|Hlt]; [|lia].
    destruct (Nat.leb_spec (a + len) (length l)) as [_|Hgt]; [|lia].
    cbn [andb]. replace (a + len - a) with len by lia. reflexivity.
  Qed.

  Lemma skipn_nth_error_cons (l : list A) :
    forall o v, nth_error l o = Some v -> skipn o l = v :: skipn (S o) l.
  Proof.
    induction l as [|a l IH]; intros [|o] v Hn; cbn [nth_error] in Hn;
      try discriminate Hn.
    - injection Hn as ->. reflexivity.
    - change (skipn (S o) (a :: l)) with (skipn o l).
      change (skipn (S (S o)) (a :: l)) with (skipn (S o) l).
      apply IH. exact Hn.
  Qed.

  (* in-bounds runs expand to exactly the sliced items *)
  Lemma expand_old_slice (old : list A) tg wn :
    forall len o n, o + len <= length old ->
    exists cs,
      expand_old (slice_lookup old) tg wn o n len = Some cs /\
      map ch_val cs = firstn len (skipn o old) /\
      Forall (fun c => ch_tag c = tg) cs.
  Proof.
    induction len as [|len IH]; intros o n Hle.
    - exists []. repeat split. constructor.
    - rewrite expand_old_S. unfold slice_lookup at 1.
      destruct (nth_error old o) as [v|] eqn:Ev.
      + destruct (IH (S o) (if wn then S n else n)) as (cs & Hcs & Hval & Htag);
          [lia|].
        rewrite Hcs. eexists. split; [reflexivity|].
        rewrite (skipn_nth_error_cons old o v Ev).
        cbn [map ch_val firstn]. split.
        * f_equal. exact Hval.
        * constructor; [reflexivity|exact Htag].
      + apply nth_error_None in Ev. lia.
  Qed.

  Lemma expand_new_slice (new : list A) :
    forall len n, n + len <= length new ->
    exists cs,
      expand_new (slice_lookup new) n len = Some cs /\
      map ch_val cs = firstn len (skipn n new) /\
      Forall (fun c => ch_tag c = ChInsert) cs.
  Proof.
    induction len as [|len IH]; intros n Hle.
    - exists []. repeat split. constructor.
    - rewrite expand_new_S. unfold slice_lookup at 1.
      destruct (nth_error new n) as [v|] eqn:Ev.
      + destruct (IH (S n)) as (cs & Hcs & Hval & Htag); [lia|].
        rewrite Hcs. eexists. split; [reflexivity|].
        rewrite (skipn_nth_error_cons new n v Ev).
        cbn [map ch_val firstn]. split.
        * f_equal. exact Hval.
        * constructor; [reflexivity|exact Htag].
      + apply nth_error_None in Ev. lia.
  Qed.

  (* a successful expansion reads only in-bounds items *)
  Lemma expand_old_in_bounds (old : list A) tg wn o n len cs :
    expand_old (slice_lookup old) tg wn o n len = Some cs ->
    0 < len -> o + len <= length old.
  Proof.
    unfold expand_old. intros Hs Hpos.
    apply sequence_map_seq_nth in Hs. destruct Hs as (_ & _ & Hall).
    destruct (Hall (len - 1)) as (c & _ & Hc); [lia|].
    unfold old_change, slice_lookup in Hc.
    destruct (nth_error old (o + (len - 1))) as [v|] eqn:Ev; [|discriminate Hc].
    assert (Hlt : o + (len - 1) < length old)
      by (apply nth_error_Some; rewrite Ev; discriminate).
    lia.
  Qed.

  Lemma expand_new_in_bounds (new : list A) n len cs :
    expand_new (slice_lookup new) n len = Some cs ->
    0 < len -> n + len <= length new.
  Proof.
    unfold expand_new. intros Hs Hpos.
    apply sequence_map_seq_nth in Hs. destruct Hs as (_ & _ & Hall).
    destruct (Hall (len - 1)) as (c & _ & Hc); [lia|].
    unfold new_change, slice_lookup in Hc.
    destruct (nth_error new (n + (len - 1))) as [v|] eqn:Ev; [|discriminate Hc].
    assert (Hlt : n + (len - 1) < length new)
      by (apply nth_error_Some; rewrite Ev; discriminate).
    lia.
  Qed.

  Lemma expand_old_in_bounds' (old : list A) tg wn o n len cs :
    expand_old (slice_lookup old) tg wn o n len = Some cs ->
    o <= length old -> o + len <= length old.
  Proof.
    intros Hs Ho. destruct len as [|len]; [lia|].
    apply (expand_old_in_bounds old tg wn o n (S len) cs Hs). lia.
  Qed.

  Lemma expand_new_in_bounds' (new : list A) n len cs :
    expand_new (slice_lookup new) n len = Some cs ->
    n <= length new -> n + len <= length new.
  Proof.
    intros Hs Hn. destruct len as [|len]; [lia|].
    apply (expand_new_in_bounds new n (S len) cs Hs). lia.
  Qed.

  Lemma length_firstn_skipn (l : list A) a len :
    a + len <= length l -> length (firstn len (skipn a l)) = len.
  Proof.
    intros Hle. rewrite firstn_length, skipn_length. lia.
  Qed.

  (* forward direction: a successful iter_slices is the expansion, grouped *)
  Theorem iter_slices_spec (old new : list A) (x : op) (sl : list (ctag * list A)) :
    iter_slices old new x = Ok sl ->
    exists (cs : list (change A)) (css : list (list (change A))),
      expand_op (slice_lookup old) (slice_lookup new) x = Some cs /\
      concat (map snd sl) = map ch_val cs /\
      cs = concat css /\
      Forall2 slice_matches sl css /\
      map fst sl = op_slice_tags x /\
      map (fun p => length (snd p)) sl = op_slice_lens x.
  Proof.
    destruct x as [o n l|o ol n|o n nl|o ol n nl];
      cbn [iter_slices expand_op op_slice_tags op_slice_lens]; intros Hs.
    - destruct (slice_range old o (o + l)) as [s| |] eqn:Es;
        cbn [bind] in Hs; try discriminate Hs.
      injection Hs as <-.
      apply slice_range_inv in Es. destruct Es as [Hle ->].
      destruct (expand_old_slice old ChEqual true l o n Hle) as (cs & Hcs & Hval & Htag).
      exists cs, [cs]. cbn [map snd fst concat]. rewrite !app_nil_r.
      rewrite length_firstn_skipn by exact Hle.
      repeat split; try (symmetry; assumption); try assumption.
      constructor; [|constructor]. split; cbn [fst snd]; [symmetry|]; assumption.
    - destruct (slice_range old o (o + ol)) as [s| |] eqn:Es;
        cbn [bind] in Hs; try discriminate Hs.
      injection Hs as <-.
      apply slice_range_inv in Es. destruct Es as [Hle ->].
      destruct (expand_old_slice old ChDelete false ol o n Hle) as (cs & Hcs & Hval & Htag).
      exists cs, [cs]. cbn [map snd fst concat]. rewrite !app_nil_r.
      rewrite length_firstn_skipn by exact Hle.
      repeat split; try (symmetry; assumption); try assumption.
      constructor; [|constructor]. split; cbn [fst snd]; [symmetry|]; assumption.
    - destruct (slice_range new n (n + nl)) as [s| |] eqn:Es;
        cbn [bind] in Hs; try discriminate Hs.
      injection Hs as <-.
      apply slice_range_inv in Es. destruct Es as [Hle ->].
      destruct (expand_new_slice new nl n Hle) as (cs & Hcs & Hval & Htag).
      exists cs, [cs]. cbn [map snd fst concat]. rewrite !app_nil_r.
      rewrite length_firstn_skipn by exact Hle.
      repeat split; try (symmetry; assumption); try assumption.
      constructor; [|constructor]. split; cbn [fst snd]; [symmetry|]; assumption.
    - destruct (slice_range old o (o + ol)) as [s1| |] eqn:Es1;
        cbn [bind] in Hs; try discriminate Hs.
      destruct (slice_range new n (n + nl)) as [s2| |] eqn:Es2;
        cbn [bind] in Hs; try discriminate Hs.
      injection Hs as <-.
      apply slice_range_inv in Es1. destruct Es1 as [Hle1 ->].
      apply slice_range_inv in Es2. destruct Es2 as [Hle2 ->].
      destruct (expand_old_slice old ChDelete false ol o n Hle1) as (cs1 & Hcs1 & Hval1 & Htag1).
      destruct (expand_new_slice new nl n Hle2) as (cs2 & Hcs2 & Hval2 & Htag2).
      exists (cs1 ++ cs2), [cs1; cs2]. rewrite Hcs1, Hcs2.
      cbn [app_opt map snd fst concat]. rewrite !app_nil_r.
      rewrite !length_firstn_skipn by assumption.
      rewrite map_app, Hval1, Hval2.
      repeat split.
      constructor; [|constructor; [|constructor]];
        (split; cbn [fst snd]; [symmetry|]; assumption).
  Qed.

  (* exact success condition of iter_slices *)
  Theorem iter_slices_ok_iff (old new : list A) (x : op) :
    (exists sl, iter_slices old new x = Ok sl) <->
    (exists cs, expand_op (slice_lookup old) (slice_lookup new) x = Some cs) /\
    op_starts_in old new x.
  Proof.
    split.
    - intros [sl Hs]. split.
      + destruct (iter_slices_spec old new x sl Hs) as (cs & _ & Hcs & _).
        exists cs. exact Hcs.
      + destruct x as [o n l|o ol n|o n nl|o ol n nl];
          cbn [iter_slices op_starts_in] in *.
        * destruct (slice_range old o (o + l)) as [s| |] eqn:Es;
            cbn [bind] in Hs; try discriminate Hs.
          apply slice_range_inv in Es. lia.
        * destruct (slice_range old o (o + ol)) as [s| |] eqn:Es;
            cbn [bind] in Hs; try discriminate Hs.
          apply slice_range_inv in Es. lia.
        * destruct (slice_range new n (n + nl)) as [s| |] eqn:Es;
            cbn [bind] in Hs; try discriminate Hs.
          apply slice_range_inv in Es. lia.
        * destruct (slice_range old o (o + ol)) as [s1| |] eqn:Es1;
            cbn [bind] in Hs; try discriminate Hs.
          destruct (slice_range new n (n + nl)) as [s2| |] eqn:Es2;
            cbn [bind] in Hs; try discriminate Hs.
          apply slice_range_inv in Es1. apply slice_range_inv in Es2. lia.
    - intros [[cs Hcs] Hst].
      destruct x as [o n l|o ol n|o n nl|o ol n nl];
        cbn [iter_slices op_starts_in expand_op] in *.
      + rewrite slice_range_ok
          by (apply (expand_old_in_bounds' old _ _ _ _ _ _ Hcs); exact Hst).
        eexists. reflexivity.
      + rewrite slice_range_ok
          by (apply (expand_old_in_bounds' old _ _ _ _ _ _ Hcs); exact Hst).
        eexists. reflexivity.
      + rewrite slice_range_ok
          by (apply (expand_new_in_bounds' new _ _ _ Hcs); exact Hst).
        eexists. reflexivity.
      + apply app_opt_Some in Hcs. destruct Hcs as (xs & ys & Hxs & Hys & _).
        destruct Hst as [Ho Hn].
        rewrite slice_range_ok
          by (apply (expand_old_in_bounds' old _ _ _ _ _ _ Hxs); exact Ho).
        rewrite slice_range_ok
          by (apply (expand_new_in_bounds' new _ _ _ Hys); exact Hn).
        eexists. reflexivity.
  Qed.

  (* converse on success, with the start offsets within the lists *)
  Theorem iter_slices_total (old new : list A) (x : op) (cs : list (change A)) :
    expand_op (slice_lookup old) (slice_lookup new) x = Some cs ->
    op_old_start x <= length old -> op_new_start x <= length new ->
    exists sl, iter_slices old new x = Ok sl.
  Proof.
    intros Hcs Ho Hn. apply iter_slices_ok_iff. split; [exists cs; exact Hcs|].
    destruct x; cbn [op_starts_in op_old_start op_new_start] in *;
      try split; assumption.
  Qed.

  (* ... or with every sliced range non-empty *)
  Theorem iter_slices_total_nonempty (old new : list A) (x : op) (cs : list (change A)) :
    expand_op (slice_lookup old) (slice_lookup new) x = Some cs ->
    op_slices_nonempty x ->
    exists sl, iter_slices old new x = Ok sl.
  Proof.
    intros Hcs Hne. apply iter_slices_ok_iff. split; [exists cs; exact Hcs|].
    destruct x as [o n l|o ol n|o n nl|o ol n nl];
      cbn [op_starts_in op_slices_nonempty expand_op] in *.
    - pose proof (expand_old_in_bounds old _ _ _ _ _ _ Hcs Hne). lia.
    - pose proof (expand_old_in_bounds old _ _ _ _ _ _ Hcs Hne). lia.
    - pose proof (expand_new_in_bounds new _ _ _ Hcs Hne). lia.
    - apply app_opt_Some in Hcs. destruct Hcs as (xs & ys & Hxs & Hys & _).
      destruct Hne as [Hne1 Hne2].
      pose proof (expand_old_in_bounds old _ _ _ _ _ _ Hxs Hne1).
      pose proof (expand_new_in_bounds new _ _ _ Hys Hne2). lia.
  Qed.

End Slices.

(* Why the converse needs a side condition: a zero-length op whose offset is
   beyond the end expands to no changes at all, yet slicing panics. *)
Example iter_slices_empty_beyond_end :
  expand_op (slice_lookup [7]) (slice_lookup [8]) (Delete 5 0 0) = Some [] /\
  iter_slices [7] [8] (Delete 5 0 0) = Panic.
Proof. split; reflexivity. Qed.

(* ------------------------------------------------------------------ *)
(* 5. apply_to_hook into a Capture hook reproduces the ops             *)
(* ------------------------------------------------------------------ *)

Theorem apply_capture_id (ops : list op) :
  capture_calls (map op_to_call ops) = ops.
Proof.
  induction ops as [|x ops IH]; [reflexivity|].
  cbn [map capture_calls]. destruct x; cbn [op_to_call call_to_op];
    rewrite IH; reflexivity.
Qed.
