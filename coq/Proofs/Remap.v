(* Proofs/Remap.v — C17: SliceRemapper / TextDiffRemapper::iter_slices
   (src/utils.rs) map token ranges back to substrings of the original text. *)
From Coq Require Import NArith.
From Similar Require Import Model.Base Model.Iter Model.Tokenize Model.Capture Model.TextDiff
     Spec.Script Check.Tokens Proofs.Utils Proofs.CheckScript Proofs.Iter.

(* ------------------------------------------------------------------ *)
(* bytes_eqb decides equality                                          *)
(* ------------------------------------------------------------------ *)
Lemma bytes_eqb_refl a : bytes_eqb a a = true.
Proof.
  induction a as [|x a IH]; [reflexivity|].
  cbn [bytes_eqb]. rewrite N.eqb_refl, IH. reflexivity.
Qed.

Lemma bytes_eqb_eq a : forall b, bytes_eqb a b = true -> a = b.
Proof.
  induction a as [|x a IH]; intros [|y b] H; cbn [bytes_eqb] in H; try discriminate H.
  - reflexivity.
  - apply Bool.andb_true_iff in H. destruct H as [Hx Hr].
    apply N.eqb_eq in Hx. subst y. f_equal. apply IH. exact Hr.
Qed.

Theorem bytes_eqb_spec a b : bytes_eqb a b = true <-> a = b.
Proof. split; [apply bytes_eqb_eq|intros ->; apply bytes_eqb_refl]. Qed.

(* ------------------------------------------------------------------ *)
(* Chains of consecutive non-empty tokens                              *)
(* ------------------------------------------------------------------ *)
(* [Chain toks p q]: the tokens are non-empty, consecutive, start at p and
   end at q *)
Inductive Chain : list token -> nat -> nat -> Prop :=
| Chain_nil p : Chain [] p p
| Chain_cons s e r q : s < e -> Chain r e q -> Chain ((s, e) :: r) s q.

Lemma Chain_le toks p q : Chain toks p q -> p <= q.
Proof. intros H. induction H; lia. Qed.

Lemma Chain_lt toks p q : Chain toks p q -> toks <> [] -> p < q.
Proof.
  intros H Hne. destruct H as [p|s e r q Hse Hr]; [congruence|].
  apply Chain_le in Hr. lia.
Qed.

Lemma check_partition_Chain toks : forall pos total,
  check_partition toks pos total = true <-> Chain toks pos total.
Proof.
  induction toks as [|[s e] r IH]; intros pos total; cbn [check_partition].
  - rewrite Nat.eqb_eq. split.
    + intros ->. constructor.
    + intros H. inversion H. reflexivity.
  - rewrite !Bool.andb_true_iff, Nat.eqb_eq, Nat.ltb_lt, Nat.leb_le, IH. split.
    + intros [[[-> Hlt] _] Hr]. constructor; assumption.
    + intros H. inversion H as [|s' e' r' q' Hlt Hr]; subst.
      pose proof (Chain_le _ _ _ Hr). auto.
Qed.

(* the k-th token boundary of a chain starting at p *)
Fixpoint bnd (p : nat) (toks : list token) (k : nat) : nat :=
  match k, toks with
  | S k', t :: r => bnd (snd t) r k'
  | _, _ => p
  end.

Lemma bnd_0 p toks : bnd p toks 0 = p.
Proof. destruct toks; reflexivity. Qed.

Lemma Chain_split toks p q : Chain toks p q -> forall k, k <= length toks ->
  Chain (firstn k toks) p (bnd p toks k) /\ Chain (skipn k toks) (bnd p toks k) q.
Proof.
  intros H. induction H as [p|s e r q Hse Hr IH]; intros k Hk.
  - cbn [length] in Hk. assert (k = 0) by lia. subst k. split; constructor.
  - destruct k as [|k].
    + cbn [firstn skipn bnd]. split; constructor; assumption.
    + cbn [length] in Hk. cbn [firstn skipn bnd snd].
      destruct (IH k ltac:(lia)) as [H1 H2]. split; [constructor; assumption|exact H2].
Qed.

Lemma Chain_nth toks p q : Chain toks p q -> forall k t,
  nth_error toks k = Some t -> fst t = bnd p toks k /\ snd t = bnd p toks (S k).
Proof.
  intros H. induction H as [p|s e r q Hse Hr IH]; intros k t Hk.
  - destruct k; discriminate Hk.
  - destruct k as [|k]; cbn [nth_error] in Hk.
    + injection Hk as <-. cbn [bnd fst snd]. rewrite bnd_0. split; reflexivity.
    + cbn [bnd snd]. apply IH. exact Hk.
Qed.

Lemma bnd_add toks : forall p a c, a <= length toks ->
  bnd p toks (a + c) = bnd (bnd p toks a) (skipn a toks) c.
Proof.
  induction toks as [|t r IH]; intros p a c Ha.
  - cbn [length] in Ha. assert (a = 0) by lia. subst a. reflexivity.
  - destruct a as [|a]; [cbn [Nat.add skipn]; rewrite bnd_0; reflexivity|].
    cbn [length] in Ha. cbn [Nat.add bnd skipn]. apply IH. lia.
Qed.

Lemma bnd_full toks p q : Chain toks p q -> bnd p toks (length toks) = q.
Proof.
  intros H. induction H as [p|s e r q Hse Hr IH]; [reflexivity|].
  cbn [length bnd snd]. exact IH.
Qed.

(* the chain between boundaries a and b *)
Lemma Chain_range toks p q a c : Chain toks p q -> a + c <= length toks ->
  Chain (firstn c (skipn a toks)) (bnd p toks a) (bnd p toks (a + c)).
Proof.
  intros H Hb.
  destruct (Chain_split toks p q H a ltac:(lia)) as [_ H2].
  assert (Hl : c <= length (skipn a toks)) by (rewrite skipn_length; lia).
  destruct (Chain_split _ _ _ H2 c Hl) as [H3 _].
  rewrite <- bnd_add in H3 by lia. exact H3.
Qed.

Lemma bnd_le_end toks p q k : Chain toks p q -> k <= length toks -> bnd p toks k <= q.
Proof.
  intros H Hk. destruct (Chain_split _ _ _ H k Hk) as [_ H2]. eapply Chain_le; eauto.
Qed.

Lemma bnd_mono toks p q a c : Chain toks p q -> a + c <= length toks ->
  bnd p toks a <= bnd p toks (a + c).
Proof. intros H Hb. eapply Chain_le. eapply Chain_range; eauto. Qed.

Lemma bnd_strict toks p q a c : Chain toks p q -> a + c <= length toks -> 0 < c ->
  bnd p toks a < bnd p toks (a + c).
Proof.
  intros H Hb Hc. eapply Chain_lt; [eapply Chain_range; eauto|].
  intros E. apply (f_equal (@length _)) in E.
  rewrite firstn_length, skipn_length in E. cbn [length] in E. lia.
Qed.

(* the tokens of a chain concatenate to the substring they span *)
Lemma tok_bytes_seg (src : list N) s e : tok_bytes src (s, e) = seg src s (e - s).
Proof. reflexivity. Qed.

Lemma seg_0 {A} (l : list A) s : seg l s 0 = [].
Proof. reflexivity. Qed.

Lemma seg_length {A} (l : list A) s len : s + len <= length l -> length (seg l s len) = len.
Proof. intros H. unfold seg. rewrite firstn_length, skipn_length. lia. Qed.

Lemma seg_map {A B} (f : A -> B) (l : list A) s len : seg (map f l) s len = map f (seg l s len).
Proof. unfold seg. rewrite skipn_map, firstn_map. reflexivity. Qed.

Lemma seg_all {A} (l : list A) : seg l 0 (length l) = l.
Proof. unfold seg. cbn [skipn]. apply firstn_all. Qed.

Lemma Chain_concat (src : list N) toks p q : Chain toks p q -> q <= length src ->
  concat (map (tok_bytes src) toks) = seg src p (q - p).
Proof.
  intros H. induction H as [p|s e r q Hse Hr IH]; intros Hq.
  - rewrite Nat.sub_diag. reflexivity.
  - cbn [map concat]. rewrite IH by exact Hq. rewrite tok_bytes_seg.
    pose proof (Chain_le _ _ _ Hr) as Hle.
    replace (q - s) with ((e - s) + (q - e)) by lia.
    rewrite seg_add. replace (s + (e - s)) with e by lia. reflexivity.
Qed.

Lemma Chain_tok_length (src : list N) toks p q : Chain toks p q -> q <= length src ->
  forall k t, nth_error toks k = Some t -> length (tok_bytes src t) = snd t - fst t.
Proof.
  intros H Hq k t Hk.
  assert (Hkl : k < length toks) by (apply nth_error_Some; congruence).
  destruct (Chain_nth _ _ _ H k t Hk) as [Hf Hs].
  pose proof (bnd_le_end _ _ _ (S k) H ltac:(lia)) as Hle.
  destruct t as [s e]. cbn [fst snd] in *. rewrite tok_bytes_seg.
  apply seg_length. pose proof (bnd_mono _ _ _ k 1 H ltac:(lia)) as Hm.
  rewrite Nat.add_1_r in Hm. lia.
Qed.

(* ------------------------------------------------------------------ *)
(* A1: the cumulative ranges are the token boundaries                  *)
(* ------------------------------------------------------------------ *)
Lemma remap_indexes_Chain (src : list N) toks p q : Chain toks p q -> q <= length src ->
  remap_indexes (map (@length N) (map (tok_bytes src) toks)) p = toks.
Proof.
  intros H. induction H as [p|s e r q Hse Hr IH]; intros Hq; [reflexivity|].
  cbn [map remap_indexes]. pose proof (Chain_le _ _ _ Hr) as Hle.
  rewrite tok_bytes_seg, seg_length by lia.
  replace (s + (e - s)) with e by lia. rewrite IH by exact Hq. reflexivity.
Qed.

Theorem remap_indexes_eq (src : list N) (toks : list token) :
  check_partition toks 0 (length src) = true ->
  remap_indexes (map (@length N) (map (tok_bytes src) toks)) 0 = toks.
Proof.
  intros H. apply check_partition_Chain in H.
  eapply remap_indexes_Chain; [exact H|lia].
Qed.

(* ------------------------------------------------------------------ *)
(* A2 / A3 / A5 (slice level)                                          *)
(* ------------------------------------------------------------------ *)
Section Slice.
  Variable src : list N.
  Variable toks : list token.
  Hypothesis Hpart : check_partition toks 0 (length src) = true.
  Let items := map (tok_bytes src) toks.
  Let idx := remap_indexes (map (@length N) items) 0.

  Let Hchain : Chain toks 0 (length src).
  Proof. apply check_partition_Chain. exact Hpart. Qed.

  Let Hidx : idx = toks.
  Proof. apply remap_indexes_eq. exact Hpart. Qed.

  Lemma items_length : length items = length toks.
  Proof. apply map_length. Qed.

  Lemma concat_items : concat items = src.
  Proof.
    unfold items. rewrite (Chain_concat src _ _ _ Hchain) by lia.
    rewrite Nat.sub_0_r. apply seg_all.
  Qed.

  (* the items a .. a+c concatenate to the substring between the boundaries *)
  Lemma concat_seg_items a c : a + c <= length toks ->
    concat (seg items a c) = seg src (bnd 0 toks a) (bnd 0 toks (a + c) - bnd 0 toks a).
  Proof.
    intros Hb. unfold items. rewrite seg_map. unfold seg at 1.
    apply Chain_concat; [eapply Chain_range; eauto|].
    eapply bnd_le_end; eauto.
  Qed.

  Lemma concat_seg_items_nonempty a c : a + c <= length toks -> 0 < c ->
    concat (seg items a c) <> [].
  Proof.
    intros Hb Hc E. apply (f_equal (@length _)) in E.
    rewrite concat_seg_items in E by exact Hb.
    pose proof (bnd_strict _ _ _ a c Hchain Hb Hc) as Hlt.
    pose proof (bnd_le_end _ _ _ (a + c) Hchain Hb) as Hle.
    rewrite seg_length in E by lia. cbn [length] in E. lia.
  Qed.

  (* on a non-empty range the remapper is exactly: slice the item list, then
     concatenate — including when it panics *)
  Lemma remap_slice_toks a b : a < b ->
    remap_slice src toks a b = (do s <- slice_range items a b; Ok (concat s)).
  Proof.
    intros Hab. unfold remap_slice, sub_chk.
    change (@nth_error (nat * nat)) with (@nth_error token).
    destruct (Nat.leb_spec 1 b) as [_|Hb0]; [|lia].
    destruct (Nat.le_gt_cases b (length toks)) as [Hb|Hb].
    - destruct (nth_error toks a) as [ta|] eqn:Ea;
        [|apply nth_error_None in Ea; lia].
      cbn [of_option bind].
      destruct (nth_error toks (b - 1)) as [tb|] eqn:Eb;
        [|apply nth_error_None in Eb; lia].
      cbn [of_option bind].
      destruct (Chain_nth _ _ _ Hchain a ta Ea) as [Hfa _].
      destruct (Chain_nth _ _ _ Hchain (b - 1) tb Eb) as [_ Hsb].
      replace (S (b - 1)) with (a + (b - a)) in Hsb by lia.
      assert (Hbd : a + (b - a) <= length toks) by lia.
      pose proof (bnd_mono _ _ _ a (b - a) Hchain Hbd) as Hm.
      pose proof (bnd_le_end _ _ _ (a + (b - a)) Hchain Hbd) as Hle.
      rewrite Hfa, Hsb.
      replace (bnd 0 toks (a + (b - a))) with (bnd 0 toks a + (bnd 0 toks (a + (b - a)) - bnd 0 toks a)) at 1 by lia.
      rewrite slice_range_ok by lia.
      replace b with (a + (b - a)) at 2 by lia.
      rewrite slice_range_ok by (rewrite items_length; lia).
      cbn [bind]. f_equal. symmetry. apply (concat_seg_items a (b - a)). exact Hbd.
    - assert (Hr : slice_range items a b = Panic).
      { unfold slice_range. rewrite items_length.
        destruct (Nat.leb_spec b (length toks)) as [Hc|_]; [lia|].
        rewrite Bool.andb_false_r. reflexivity. }
      rewrite Hr. cbn [bind].
      destruct (nth_error toks a) as [ta|]; [|reflexivity]. cbn [of_option bind].
      destruct (nth_error toks (b - 1)) as [tb|] eqn:Eb; [|reflexivity].
      assert (b - 1 < length toks) by (apply nth_error_Some; congruence). lia.
  Qed.

  Theorem remap_slice_iter a b : a < b ->
    remap_slice src idx a b = (do s <- slice_range items a b; Ok (concat s)).
  Proof. rewrite Hidx. apply remap_slice_toks. Qed.

  (* A2 *)
  Theorem remap_slice_spec a b : a < b -> b <= length toks ->
    remap_slice src idx a b = Ok (concat (firstn (b - a) (skipn a items))) /\
    exists ta tb, nth_error toks a = Some ta /\ nth_error toks (b - 1) = Some tb /\
      fst ta < snd tb /\ snd tb <= length src /\
      concat (firstn (b - a) (skipn a items)) = seg src (fst ta) (snd tb - fst ta).
  Proof.
    intros Hab Hb. split.
    - rewrite remap_slice_iter by exact Hab. unfold slice_range.
      destruct (Nat.leb_spec a b) as [_|]; [|lia].
      rewrite items_length.
      destruct (Nat.leb_spec b (length toks)) as [_|]; [|lia]. reflexivity.
    - destruct (nth_error toks a) as [ta|] eqn:Ea;
        [|apply nth_error_None in Ea; lia].
      destruct (nth_error toks (b - 1)) as [tb|] eqn:Eb;
        [|apply nth_error_None in Eb; lia].
      exists ta, tb.
      destruct (Chain_nth _ _ _ Hchain a ta Ea) as [Hfa _].
      destruct (Chain_nth _ _ _ Hchain (b - 1) tb Eb) as [_ Hsb].
      replace (S (b - 1)) with (a + (b - a)) in Hsb by lia.
      assert (Hbd : a + (b - a) <= length toks) by lia.
      pose proof (bnd_strict _ _ _ a (b - a) Hchain Hbd ltac:(lia)) as Hm.
      pose proof (bnd_le_end _ _ _ (a + (b - a)) Hchain Hbd) as Hle.
      rewrite Hfa, Hsb. repeat split; try assumption.
      apply (concat_seg_items a (b - a)). exact Hbd.
  Qed.

  (* A3.  An empty range panics at both ends of the token list (at 0 the
     subtraction [range.end - 1] underflows, at [length toks] the start lookup
     fails), but NOT strictly inside it: there [start_a, end_(a-1)) is the empty
     range [start_a, start_a) because the tokens are consecutive, and the
     remapper returns the empty string. *)
  Theorem remap_slice_empty_0 : remap_slice src idx 0 0 = Panic.
  Proof.
    unfold remap_slice. destruct (nth_error idx 0); reflexivity.
  Qed.

  Theorem remap_slice_empty_end a : length toks <= a -> remap_slice src idx a a = Panic.
  Proof.
    intros Ha. rewrite Hidx. unfold remap_slice.
    change (@nth_error (nat * nat)) with (@nth_error token).
    destruct (nth_error toks a) as [t|] eqn:E; [|reflexivity].
    assert (a < length toks) by (apply nth_error_Some; congruence). lia.
  Qed.

  Theorem remap_slice_empty_inside a : 0 < a -> a < length toks ->
    remap_slice src idx a a = Ok [].
  Proof.
    intros H0 Ha. rewrite Hidx. unfold remap_slice, sub_chk.
    change (@nth_error (nat * nat)) with (@nth_error token).
    destruct (Nat.leb_spec 1 a) as [_|]; [|lia].
    destruct (nth_error toks a) as [ta|] eqn:Ea;
      [|apply nth_error_None in Ea; lia].
    cbn [of_option bind].
    destruct (nth_error toks (a - 1)) as [tb|] eqn:Eb;
      [|apply nth_error_None in Eb; lia].
    cbn [of_option bind].
    destruct (Chain_nth _ _ _ Hchain a ta Ea) as [Hfa _].
    destruct (Chain_nth _ _ _ Hchain (a - 1) tb Eb) as [_ Hsb].
    replace (S (a - 1)) with a in Hsb by lia. rewrite Hfa, Hsb.
    pose proof (bnd_le_end _ _ _ a Hchain ltac:(lia)) as Hle.
    unfold slice_range.
    destruct (Nat.leb_spec (bnd 0 toks a) (bnd 0 toks a)) as [_|]; [|lia].
    destruct (Nat.leb_spec (bnd 0 toks a) (length src)) as [_|]; [|lia].
    cbn [andb]. rewrite Nat.sub_diag. reflexivity.
  Qed.

  Theorem remap_slice_empty_panics a :
    remap_slice src idx a a = Panic <-> a = 0 \/ length toks <= a.
  Proof.
    split.
    - intros H. destruct (Nat.eq_dec a 0) as [|Hn]; [now left|].
      destruct (Nat.le_gt_cases (length toks) a) as [|Hlt]; [now right|].
      rewrite remap_slice_empty_inside in H by lia. discriminate H.
    - intros [->|H]; [apply remap_slice_empty_0|now apply remap_slice_empty_end].
  Qed.
End Slice.

(* ------------------------------------------------------------------ *)
(* A4 / A5: ops                                                        *)
(* ------------------------------------------------------------------ *)
Definition cat_slice (p : ctag * list (list N)) : ctag * list N := (fst p, concat (snd p)).

(* what TextDiffRemapper::iter_slices has to return for one op *)
Definition op_remap_spec (oitems nitems : list (list N)) (x : op) : list (ctag * list N) :=
  match x with
  | Equal o _ l => [(ChEqual, concat (seg oitems o l))]
  | Delete o ol _ => [(ChDelete, concat (seg oitems o ol))]
  | Insert _ n nl => [(ChInsert, concat (seg nitems n nl))]
  | Replace o ol n nl => [(ChDelete, concat (seg oitems o ol)); (ChInsert, concat (seg nitems n nl))]
  end.

Definition not_insert (p : ctag * list N) : bool :=
  match fst p with ChInsert => false | _ => true end.
Definition not_delete (p : ctag * list N) : bool :=
  match fst p with ChDelete => false | _ => true end.
Definition old_side (sl : list (ctag * list N)) : list N := concat (map snd (filter not_insert sl)).
Definition new_side (sl : list (ctag * list N)) : list N := concat (map snd (filter not_delete sl)).

Lemma old_side_app a b : old_side (a ++ b) = old_side a ++ old_side b.
Proof. unfold old_side. rewrite filter_app, map_app, concat_app. reflexivity. Qed.
Lemma new_side_app a b : new_side (a ++ b) = new_side a ++ new_side b.
Proof. unfold new_side. rewrite filter_app, map_app, concat_app. reflexivity. Qed.

Lemma slice_range_seg {A} (l : list A) a len : a + len <= length l ->
  slice_range l a (a + len) = Ok (seg l a len).
Proof. apply slice_range_ok. Qed.

Lemma slice_range_oob {A} (l : list A) a b : length l < b -> slice_range l a b = Panic.
Proof.
  intros H. unfold slice_range.
  destruct (Nat.leb_spec b (length l)); [lia|]. rewrite Bool.andb_false_r. reflexivity.
Qed.

Section Ops.
  Variables osrc nsrc : list N.
  Variables otoks ntoks : list token.
  Hypothesis Ho : check_partition otoks 0 (length osrc) = true.
  Hypothesis Hn : check_partition ntoks 0 (length nsrc) = true.
  Let oitems := map (tok_bytes osrc) otoks.
  Let nitems := map (tok_bytes nsrc) ntoks.
  Let oidx := remap_indexes (map (@length N) oitems) 0.
  Let nidx := remap_indexes (map (@length N) nitems) 0.
  Let cmp := cmp_of bytes_eqb (slice_lookup oitems) (slice_lookup nitems).

  (* A5: on a non-empty op the remapper is DiffOp::iter_slices over the item
     lists followed by concatenation of each slice (same tags, same content,
     same panics) *)
  Theorem remap_op_iter_slices (x : op) : NonEmptyOp x ->
    remap_op osrc nsrc oidx nidx x =
    (do sl <- iter_slices oitems nitems x; Ok (map cat_slice sl)).
  Proof.
    intros Hne. destruct x as [o n l|o ol n|o n nl|o ol n nl];
      cbn [NonEmptyOp] in Hne; cbn [remap_op iter_slices].
    - unfold oidx, oitems. rewrite (remap_slice_iter osrc otoks Ho) by lia.
      destruct (slice_range _ o (o + l)); reflexivity.
    - unfold oidx, oitems. rewrite (remap_slice_iter osrc otoks Ho) by lia.
      destruct (slice_range _ o (o + ol)); reflexivity.
    - unfold nidx, nitems. rewrite (remap_slice_iter nsrc ntoks Hn) by lia.
      destruct (slice_range _ n (n + nl)); reflexivity.
    - destruct Hne as [H1 H2].
      unfold oidx, oitems. rewrite (remap_slice_iter osrc otoks Ho) by lia.
      unfold nidx, nitems. rewrite (remap_slice_iter nsrc ntoks Hn) by lia.
      destruct (slice_range _ o (o + ol)); try reflexivity. cbn [bind].
      destruct (slice_range _ n (n + nl)); reflexivity.
  Qed.

  Lemma OpsWalk_bounds exact oe ne i j ops : OpsWalk cmp exact oe ne i j ops -> i <= oe /\ j <= ne.
  Proof. intros H. induction H; lia. Qed.

  (* one non-empty op whose sliced ranges are in bounds *)
  Definition op_remap_in (x : op) : Prop :=
    match x with
    | Equal o _ l | Delete o l _ => o + l <= length otoks
    | Insert _ n l => n + l <= length ntoks
    | Replace o ol n nl => o + ol <= length otoks /\ n + nl <= length ntoks
    end.

  Lemma remap_op_ok (x : op) : NonEmptyOp x -> op_remap_in x ->
    remap_op osrc nsrc oidx nidx x = Ok (op_remap_spec oitems nitems x).
  Proof.
    intros Hne Hb. rewrite remap_op_iter_slices by exact Hne.
    assert (Hlo : length oitems = length otoks) by apply map_length.
    assert (Hln : length nitems = length ntoks) by apply map_length.
    destruct x as [o n l|o ol n|o n nl|o ol n nl];
      cbn [op_remap_in] in Hb; cbn [iter_slices op_remap_spec].
    - rewrite slice_range_seg by lia. reflexivity.
    - rewrite slice_range_seg by lia. reflexivity.
    - rewrite slice_range_seg by lia. reflexivity.
    - rewrite !slice_range_seg by lia. reflexivity.
  Qed.

  Lemma concat_seg_add (its : list (list N)) s a b :
    concat (seg its s (a + b)) = concat (seg its s a) ++ concat (seg its (s + a) b).
  Proof. rewrite seg_add, concat_app. reflexivity. Qed.

  Lemma remap_ops_walk oe ne ops : forall i j,
    oe = length otoks -> ne = length ntoks ->
    OpsWalk cmp false oe ne i j ops -> Forall NonEmptyOp ops ->
    let sl := flat_map (op_remap_spec oitems nitems) ops in
    remap_ops osrc nsrc oidx nidx ops = Ok sl /\
    map fst sl = flat_map op_slice_tags ops /\
    old_side sl = concat (seg oitems i (oe - i)) /\
    new_side sl = concat (seg nitems j (ne - j)) /\
    Forall (fun p => snd p <> []) sl.
  Proof.
    intros i j Eoe Ene H.
    induction H as [|i j l r Hs Hw IH|i j l n r He Hb Hw IH|i j o l r He Hb Hw IH|i j ol nl r Hb1 Hb2 Hw IH];
      intros Hall; cbn zeta.
    - cbn [flat_map remap_ops map]. rewrite !Nat.sub_diag.
      repeat split; constructor.
    - inversion Hall as [|x0 r0 Hx Hr]; subst x0 r0. cbn [NonEmptyOp] in Hx.
      destruct (IH Hr) as (Hok & Htags & Hold & Hnew & Hnz).
      destruct (OpsWalk_bounds _ _ _ _ _ _ Hw) as [Bo Bn].
      cbn [flat_map remap_ops].
      rewrite remap_op_ok by (try exact Hx; cbn [op_remap_in]; lia).
      rewrite Hok. cbn [bind op_remap_spec]. split; [reflexivity|].
      rewrite map_app, old_side_app, new_side_app, Htags, Hold, Hnew.
      cbn [map fst op_slice_tags app]. split; [reflexivity|].
      unfold old_side at 1, new_side at 1. cbn [filter not_insert not_delete fst map snd concat].
      rewrite !app_nil_r.
      split; [|split].
      + replace (oe - i) with (l + (oe - (i + l))) by lia. now rewrite concat_seg_add.
      + rewrite (SegEq_seg bytes_eqb bytes_eqb_eq oitems nitems l i j Hs).
        replace (ne - j) with (l + (ne - (j + l))) by lia. now rewrite concat_seg_add.
      + constructor; [|exact Hnz]. cbn [snd].
        apply (concat_seg_items_nonempty osrc otoks Ho); lia.
    - inversion Hall as [|x0 r0 Hx Hr]; subst x0 r0. cbn [NonEmptyOp] in Hx.
      destruct (IH Hr) as (Hok & Htags & Hold & Hnew & Hnz).
      destruct (OpsWalk_bounds _ _ _ _ _ _ Hw) as [Bo Bn].
      cbn [flat_map remap_ops].
      rewrite remap_op_ok by (try exact Hx; cbn [op_remap_in]; lia).
      rewrite Hok. cbn [bind op_remap_spec]. split; [reflexivity|].
      rewrite map_app, old_side_app, new_side_app, Htags, Hold, Hnew.
      cbn [map fst op_slice_tags app]. split; [reflexivity|].
      unfold old_side at 1, new_side at 1. cbn [filter not_insert not_delete fst map snd concat].
      rewrite !app_nil_r.
      split; [|split].
      + replace (oe - i) with (l + (oe - (i + l))) by lia. now rewrite concat_seg_add.
      + reflexivity.
      + constructor; [|exact Hnz]. cbn [snd].
        apply (concat_seg_items_nonempty osrc otoks Ho); lia.
    - inversion Hall as [|x0 r0 Hx Hr]; subst x0 r0. cbn [NonEmptyOp] in Hx.
      destruct (IH Hr) as (Hok & Htags & Hold & Hnew & Hnz).
      destruct (OpsWalk_bounds _ _ _ _ _ _ Hw) as [Bo Bn].
      cbn [flat_map remap_ops].
      rewrite remap_op_ok by (try exact Hx; cbn [op_remap_in]; lia).
      rewrite Hok. cbn [bind op_remap_spec]. split; [reflexivity|].
      rewrite map_app, old_side_app, new_side_app, Htags, Hold, Hnew.
      cbn [map fst op_slice_tags app]. split; [reflexivity|].
      unfold old_side at 1, new_side at 1. cbn [filter not_insert not_delete fst map snd concat].
      rewrite ?app_nil_r.
      split; [|split].
      + reflexivity.
      + replace (ne - j) with (l + (ne - (j + l))) by lia. now rewrite concat_seg_add.
      + constructor; [|exact Hnz]. cbn [snd].
        apply (concat_seg_items_nonempty nsrc ntoks Hn); lia.
    - inversion Hall as [|x0 r0 Hx Hr]; subst x0 r0. cbn [NonEmptyOp] in Hx. destruct Hx as [Hx1 Hx2].
      destruct (IH Hr) as (Hok & Htags & Hold & Hnew & Hnz).
      destruct (OpsWalk_bounds _ _ _ _ _ _ Hw) as [Bo Bn].
      cbn [flat_map remap_ops].
      rewrite remap_op_ok by (try (split; assumption); cbn [op_remap_in]; lia).
      rewrite Hok. cbn [bind op_remap_spec]. split; [reflexivity|].
      rewrite map_app, old_side_app, new_side_app, Htags, Hold, Hnew.
      cbn [map fst op_slice_tags app]. split; [reflexivity|].
      unfold old_side at 1, new_side at 1. cbn [filter not_insert not_delete fst map snd concat].
      rewrite ?app_nil_r.
      split; [|split].
      + replace (oe - i) with (ol + (oe - (i + ol))) by lia. now rewrite concat_seg_add.
      + replace (ne - j) with (nl + (ne - (j + nl))) by lia. now rewrite concat_seg_add.
      + constructor; [|constructor; [|exact Hnz]]; cbn [snd].
        * apply (concat_seg_items_nonempty osrc otoks Ho); lia.
        * apply (concat_seg_items_nonempty nsrc ntoks Hn); lia.
  Qed.

  (* A4 *)
  Theorem remap_ops_reconstruct (ops : list op) :
    OpsLoose cmp 0 (length otoks) 0 (length ntoks) ops -> Forall NonEmptyOp ops ->
    let sl := flat_map (op_remap_spec oitems nitems) ops in
    remap_ops osrc nsrc oidx nidx ops = Ok sl /\
    map fst sl = flat_map op_slice_tags ops /\
    old_side sl = osrc /\ new_side sl = nsrc /\
    Forall (fun p => snd p <> []) sl.
  Proof.
    intros Hw Hall.
    destruct (remap_ops_walk _ _ ops 0 0 eq_refl eq_refl Hw Hall) as (Hok & Htags & Hold & Hnew & Hnz).
    cbn zeta. split; [exact Hok|]. split; [exact Htags|].
    rewrite Nat.sub_0_r in Hold, Hnew.
    assert (Hlo : length otoks = length oitems) by (symmetry; apply map_length).
    assert (Hln : length ntoks = length nitems) by (symmetry; apply map_length).
    rewrite Hlo, seg_all in Hold. rewrite Hln, seg_all in Hnew.
    unfold oitems in Hold. unfold nitems in Hnew.
    rewrite (concat_items osrc otoks Ho) in Hold. rewrite (concat_items nsrc ntoks Hn) in Hnew.
    repeat split; assumption.
  Qed.
End Ops.
