(* Proofs/Inline.v — C16: iter_inline_changes (src/text/inline.rs):
   MultiLookup, get_original_slices, push_values and the assembled inline
   changes against the plain expansion of the op. *)
From Coq Require Import NArith Sorted.
From Similar Require Import Model.Base Model.Utils Model.Myers Model.Hooks Model.Compact
     Model.Capture Model.Iter Model.Utf8 Model.Tokenize Model.TextDiff Model.Inline
     Spec.Script Check.Tokens Proofs.Utils Proofs.CheckScript Proofs.Iter Proofs.Remap.

(* ------------------------------------------------------------------ *)
(* small list facts                                                    *)
(* ------------------------------------------------------------------ *)
Lemma seg_In {A} (l : list A) : forall s len x, In x (seg l s len) -> In x l.
Proof.
  unfold seg. induction l as [|a l IH]; intros s len x H.
  - destruct s, len; cbn in H; contradiction.
  - destruct s as [|s].
    + cbn [skipn] in H. destruct len as [|len]; [contradiction|].
      cbn [firstn] in H. destruct H as [->|H]; [now left|]. right.
      apply (IH 0 len). exact H.
    + cbn [skipn] in H. right. apply (IH s len). exact H.
Qed.

Lemma Forall_seg {A} (P : A -> Prop) (l : list A) s len : Forall P l -> Forall P (seg l s len).
Proof.
  intros H. apply Forall_forall. intros x Hx. rewrite Forall_forall in H.
  apply H. eapply seg_In; eauto.
Qed.

Lemma seg_cons {A} (l : list A) s len x :
  nth_error l s = Some x -> seg l s (S len) = x :: seg l (S s) len.
Proof. apply seg_S. Qed.

Lemma seg_nil_len {A} (l : list A) s : seg l s 0 = [].
Proof. reflexivity. Qed.

Lemma seg_full {A} (l : list A) : seg l 0 (length l) = l.
Proof. apply seg_all. Qed.

Definition no_nl (bs : list N) : Prop := Forall (fun b => b <> 10%N /\ b <> 13%N) bs.

Lemma no_nl_app a b : no_nl a -> no_nl b -> no_nl (a ++ b).
Proof. intros Ha Hb. apply Forall_app. split; assumption. Qed.

Lemma no_nl_concat l : Forall no_nl l -> no_nl (concat l).
Proof.
  intros H. induction H as [|x l Hx Hl IH]; [constructor|].
  cbn [concat]. apply no_nl_app; assumption.
Qed.


(* ------------------------------------------------------------------ *)
(* tokenize_lines_and_newlines: a segment that does not end with a      *)
(* newline contains no CR / LF (from the documented token shape)        *)
(* ------------------------------------------------------------------ *)
Definition cp_of (r : option N) : N := match r with Some cp => cp | None => replacement end.
Definition step_len (k : nat) : nat := match k with O => 1 | _ => k end.

Ltac nconv := unfold is_cont, in_rng in *; repeat match goal with
  | H : (_ && _) = true |- _ => apply Bool.andb_true_iff in H; destruct H
  | H : (_ && _) = false |- _ => apply Bool.andb_false_iff in H; destruct H
  | H : (_ <=? _)%N = true |- _ => apply N.leb_le in H
  | H : (_ <=? _)%N = false |- _ => apply N.leb_gt in H
  | H : (_ <? _)%N = true |- _ => apply N.ltb_lt in H
  | H : (_ <? _)%N = false |- _ => apply N.ltb_ge in H
  | H : (_ =? _)%N = true |- _ => apply N.eqb_eq in H
  | H : (_ =? _)%N = false |- _ => apply N.eqb_neq in H
  | H : context [if ?c then _ else _] |- _ => destruct c eqn:?
  end.

Lemma decode_step_facts b0 r :
  let rk := decode_step (b0 :: r) in
  let k := step_len (snd rk) in
  1 <= k /\ k <= length (b0 :: r) /\
  ((b0 < 128)%N -> fst rk = Some b0 /\ k = 1) /\
  ((128 <= b0)%N -> Forall (fun b => (128 <= b)%N) (firstn k (b0 :: r)) /\ (128 <= cp_of (fst rk))%N).
Proof.
  unfold decode_step. cbv zeta.
  destruct (b0 <? 128)%N eqn:H0.
  - nconv. cbn [fst snd step_len length]. repeat split; try lia.
  - repeat match goal with
    | |- context [match ?l with [] => _ | _ :: _ => _ end] => is_var l; destruct l
    | |- context [if ?c then _ else _] => destruct c eqn:?
    end; cbn [fst snd step_len length firstn cp_of]; unfold replacement; nconv;
    (repeat split; try lia; intros; repeat constructor; lia).
Qed.


Definition rng (c : dchar) : token := (dc_start c, dc_end c).

Definition char_ok (full : list N) (c : dchar) : Prop :=
  (is_newline_cp (dc_cp c) = true ->
   dc_end c = S (dc_start c) /\ nth_error full (dc_start c) = Some (dc_cp c)) /\
  (is_newline_cp (dc_cp c) = false -> no_nl (tok_bytes full (rng c))).

Lemma is_newline_cp_true cp : is_newline_cp cp = true -> (cp < 128)%N.
Proof.
  unfold is_newline_cp. intros H. apply Bool.orb_true_iff in H.
  destruct H as [H|H]; apply N.eqb_eq in H; lia.
Qed.

Lemma is_newline_cp_false cp : is_newline_cp cp = false -> cp <> 10%N /\ cp <> 13%N.
Proof.
  unfold is_newline_cp. intros H. apply Bool.orb_false_iff in H.
  destruct H as [H1 H2]. apply N.eqb_neq in H1. apply N.eqb_neq in H2. split; assumption.
Qed.

Lemma tok_bytes_at (pre bs : list N) k :
  tok_bytes (pre ++ bs) (length pre, length pre + k) = firstn k bs.
Proof.
  unfold tok_bytes. cbn [fst snd].
  replace (length pre + k - length pre) with k by lia.
  rewrite skipn_app, skipn_all, Nat.sub_diag. reflexivity.
Qed.

Lemma decode_from_facts : forall fuel pre bs, length bs <= fuel ->
  Chain (map rng (decode_from fuel (length pre) bs)) (length pre) (length pre + length bs) /\
  Forall (char_ok (pre ++ bs)) (decode_from fuel (length pre) bs).
Proof.
  induction fuel as [|fuel IH]; intros pre bs Hf.
  - destruct bs; [|cbn [length] in Hf; lia]. cbn [decode_from map length].
    rewrite Nat.add_0_r. split; constructor.
  - destruct bs as [|b0 r].
    + cbn [decode_from map length]. rewrite Nat.add_0_r. split; constructor.
    + cbn [decode_from].
      pose proof (decode_step_facts b0 r) as F. cbv zeta in F.
      destruct (decode_step (b0 :: r)) as [rc k0] eqn:E. cbn [fst snd] in F.
      change (match k0 with 0 => 1 | S _ => k0 end) with (step_len k0).
      set (k := step_len k0) in *.
      destruct F as (Fk1 & Fk2 & Flow & Fhigh).
      set (bs := b0 :: r) in *.
      assert (Hpre : length (pre ++ firstn k bs) = length pre + k).
      { rewrite app_length, firstn_length. lia. }
      assert (Happ : (pre ++ firstn k bs) ++ skipn k bs = pre ++ bs).
      { rewrite <- app_assoc, firstn_skipn. reflexivity. }
      destruct (IH (pre ++ firstn k bs) (skipn k bs)) as [IHc IHo].
      { rewrite skipn_length. lia. }
      rewrite Hpre, Happ in *. rewrite skipn_length in IHc.
      split.
      * cbn [map]. unfold rng at 1. cbn [dc_start dc_end].
        constructor; [lia|].
        replace (length pre + length bs) with (length pre + k + (length bs - k)) by lia.
        exact IHc.
      * constructor; [|exact IHo].
        unfold char_ok, rng. cbn [dc_start dc_end dc_cp].
        change (match rc with Some cp => cp | None => replacement end) with (cp_of rc).
        rewrite tok_bytes_at.
        destruct (N.lt_ge_cases b0 128) as [Hb|Hb].
        -- destruct (Flow Hb) as [-> Hk1]. cbn [cp_of]. rewrite Hk1. split.
           ++ intros _. split; [lia|].
              rewrite nth_error_app2, Nat.sub_diag by lia. reflexivity.
           ++ intros Hn. apply is_newline_cp_false in Hn.
              cbn [firstn bs]. constructor; [exact Hn|constructor].
        -- destruct (Fhigh Hb) as [Hall Hcp]. split.
           ++ intros Hn. apply is_newline_cp_true in Hn. lia.
           ++ intros _. eapply Forall_impl; [|exact Hall].
              intros b Hb'. cbn beta in Hb'. lia.
Qed.

Lemma decode_facts bs :
  Chain (map rng (decode bs)) 0 (length bs) /\ Forall (char_ok bs) (decode bs).
Proof.
  unfold decode. exact (decode_from_facts (length bs) [] bs (le_n _)).
Qed.

Lemma Chain_app_inv a b p q : Chain (a ++ b) p q -> exists m, Chain a p m /\ Chain b m q.
Proof.
  intros H. destruct (Chain_split _ _ _ H (length a)) as [H1 H2].
  { rewrite app_length. lia. }
  rewrite firstn_app, Nat.sub_diag, firstn_all in H1. cbn [firstn] in H1.
  rewrite app_nil_r in H1.
  rewrite skipn_app, Nat.sub_diag, skipn_all in H2. cbn [skipn app] in H2.
  eexists. split; eassumption.
Qed.

Lemma take_class_spec cls k : forall cs e rest p q,
  Chain (map rng cs) p q -> take_class cls k cs e = Some rest ->
  exists taken, cs = taken ++ rest /\ taken <> [] /\
    Forall (fun c => cls (dc_cp c) = k) taken /\
    Chain (map rng taken) p e /\ Chain (map rng rest) e q.
Proof.
  induction cs as [|c r IH]; intros e rest p q Hc Ht; cbn [take_class] in Ht; [discriminate Ht|].
  cbn [map] in Hc. unfold rng at 1 in Hc.
  inversion Hc as [|s0 e0 r0 q0 Hlt Hr]; subst.
  destruct (Bool.eqb (cls (dc_cp c)) k) eqn:Ek; [|discriminate Ht].
  apply Bool.eqb_prop in Ek.
  destruct (Nat.eqb_spec (dc_end c) e) as [He|He].
  - injection Ht as <-. exists [c]. split; [reflexivity|]. split; [discriminate|].
    split; [constructor; [exact Ek|constructor]|]. subst e. split.
    + cbn [map]. unfold rng. constructor; [exact Hlt|constructor].
    + exact Hr.
  - destruct (Nat.ltb_spec (dc_end c) e) as [Hlt2|]; [|discriminate Ht].
    destruct (IH e rest _ _ Hr Ht) as (taken & -> & _ & Hall & Hc1 & Hc2).
    exists (c :: taken). split; [reflexivity|]. split; [discriminate|].
    split; [constructor; assumption|]. split; [|exact Hc2].
    cbn [map]. unfold rng at 1. constructor; assumption.
Qed.

Definition run_token (cls : N -> bool) (cs : list dchar) (t : token) : Prop :=
  exists taken k, taken <> [] /\ Forall (fun c => cls (dc_cp c) = k) taken /\
    Chain (map rng taken) (fst t) (snd t) /\ (forall c, In c taken -> In c cs).

Lemma runs_shape_tokens cls : forall toks cs p q,
  Chain (map rng cs) p q -> check_runs_shape cls cs toks = true ->
  Forall (run_token cls cs) toks.
Proof.
  induction toks as [|[s e] r IH]; intros cs p q Hc H; [constructor|].
  cbn [check_runs_shape] in H. destruct cs as [|c cs']; [discriminate H|].
  apply Bool.andb_true_iff in H. destruct H as [Hs H]. apply Nat.eqb_eq in Hs.
  destruct (take_class cls (cls (dc_cp c)) (c :: cs') e) as [rest|] eqn:Et; [|discriminate H].
  assert (Hrest : check_runs_shape cls rest r = true).
  { destruct rest as [|c2 rest']; [exact H|].
    apply Bool.andb_true_iff in H. apply H. }
  assert (Hp : p = s).
  { cbn [map] in Hc. unfold rng at 1 in Hc. inversion Hc; subst. reflexivity. }
  subst p.
  destruct (take_class_spec _ _ _ _ _ _ _ Hc Et) as (taken & Ecs & Hne & Hall & Hc1 & Hc2).
  constructor.
  - exists taken, (cls (dc_cp c)). cbn [fst snd]. repeat split; try assumption.
    intros c0 Hin. rewrite Ecs. apply in_or_app. now left.
  - specialize (IH rest e q Hc2 Hrest).
    eapply Forall_impl; [|exact IH].
    intros t (tk & k & H1 & H2 & H3 & H4). exists tk, k. repeat split; try assumption.
    intros c0 Hin. rewrite Ecs. apply in_or_app. right. now apply H4.
Qed.

Lemma ends_with_newline_snoc x b : ends_with_newline (x ++ [b]) = is_newline_cp b.
Proof. unfold ends_with_newline. rewrite rev_unit. reflexivity. Qed.

Lemma Chain_In_le toks p q t : Chain toks p q -> In t toks -> p <= fst t /\ fst t < snd t /\ snd t <= q.
Proof.
  intros H. induction H as [p|s e r q Hse Hr IH]; intros Hin; [contradiction|].
  pose proof (Chain_le _ _ _ Hr). destruct Hin as [<-|Hin]; cbn [fst snd]; [lia|].
  specialize (IH Hin). lia.
Qed.

Theorem lnl_token_clean (s : list N) (toks : list token) :
  check_tokens TkLinesNewlines s toks = true ->
  forall t, In t toks -> ends_with_newline (tok_bytes s t) = false -> no_nl (tok_bytes s t).
Proof.
  unfold check_tokens, check_lnl_shape. intros H t Hin Hend.
  apply Bool.andb_true_iff in H. destruct H as [Hpart Hshape].
  apply check_partition_Chain in Hpart.
  destruct (decode_facts s) as [Hdc Hok].
  pose proof (runs_shape_tokens _ _ _ _ _ Hdc Hshape) as Hruns.
  rewrite Forall_forall in Hruns. destruct (Hruns t Hin) as (taken & k & Hne & Hall & Hc & Hsub).
  destruct (Chain_In_le _ _ _ _ Hpart Hin) as (_ & Hlt & Hle).
  assert (Hbytes : tok_bytes s t = concat (map (tok_bytes s) (map rng taken))).
  { rewrite (Chain_concat s _ _ _ Hc Hle). destruct t; reflexivity. }
  rewrite Forall_forall in Hok.
  destruct k.
  - exfalso. destruct (exists_last Hne) as (init & cl & ->).
    rewrite map_app in Hc. apply Chain_app_inv in Hc. destruct Hc as (m & _ & Hcl).
    cbn [map] in Hcl. unfold rng at 1 in Hcl.
    inversion Hcl as [|s0 e0 r0 q0 Hlt0 Hr0]; subst. inversion Hr0; subst.
    assert (Hcin : In cl (decode s)) by (apply Hsub, in_or_app; right; now left).
    destruct (Hok cl Hcin) as [Hnl _].
    assert (Hcls : is_newline_cp (dc_cp cl) = true).
    { rewrite Forall_forall in Hall. apply Hall. apply in_or_app. right. now left. }
    destruct (Hnl Hcls) as [Hend1 Hnth].
    rewrite !map_app, concat_app in Hbytes. cbn [map concat] in Hbytes.
    unfold rng at 2 in Hbytes. rewrite Hend1, tok_bytes_seg in Hbytes.
    replace (S (dc_start cl) - dc_start cl) with 1 in Hbytes by lia.
    rewrite (seg_S _ _ _ _ Hnth) in Hbytes. rewrite app_nil_r in Hbytes.
    change (seg s (S (dc_start cl)) 0) with (@nil N) in Hbytes.
    rewrite Hbytes, ends_with_newline_snoc, Hcls in Hend. discriminate Hend.
  - rewrite Hbytes. apply no_nl_concat. rewrite map_map. apply Forall_forall.
    intros x Hx. apply in_map_iff in Hx. destruct Hx as (c & <- & Hc0).
    destruct (Hok c (Hsub c Hc0)) as [_ Hnn]. apply Hnn.
    rewrite Forall_forall in Hall. apply Hall. exact Hc0.
Qed.

(* ------------------------------------------------------------------ *)
(* the value tables, seen through their contents                        *)
(* ------------------------------------------------------------------ *)
Definition vals := list (bool * list N).

Definition contents (v : list vals) : list (list N) :=
  map (fun xs : vals => concat (map snd xs)) v.

Fixpoint cresize (c : list (list N)) (n : nat) : list (list N) :=
  match n with
  | O => c
  | S n' => match c with
            | [] => [] :: cresize [] n'
            | x :: r => x :: cresize r n'
            end
  end.

Fixpoint capp_at (c : list (list N)) (idx : nat) (s : list N) : list (list N) :=
  match c, idx with
  | x :: r, O => (x ++ s) :: r
  | x :: r, S i => x :: capp_at r i s
  | [], _ => []
  end.

Definition cpush (c : list (list N)) (idx : nat) (s : list N) : list (list N) :=
  capp_at (cresize c (S idx)) idx s.

Lemma contents_resize v : forall n, contents (resize_to v n) = cresize (contents v) n.
Proof.
  intros n. revert v. induction n as [|n IH]; intros v; [reflexivity|].
  destruct v as [|x r]; cbn [resize_to contents map cresize].
  - f_equal. apply (IH []).
  - f_equal. apply IH.
Qed.

Lemma contents_push_at v : forall idx xs,
  contents (push_at v idx xs) = capp_at (contents v) idx (concat (map snd xs)).
Proof.
  induction v as [|x r IH]; intros idx xs; [destruct idx; reflexivity|].
  destruct idx as [|i]; cbn [push_at contents map capp_at].
  - rewrite map_app, concat_app. reflexivity.
  - f_equal. apply IH.
Qed.

Lemma cpush_nil_0 s : cpush [] 0 s = [s].
Proof. reflexivity. Qed.
Lemma cpush_nil_S n s : cpush [] (S n) s = [] :: cpush [] n s.
Proof. reflexivity. Qed.
Lemma cpush_cons_0 x c s : cpush (x :: c) 0 s = (x ++ s) :: c.
Proof. reflexivity. Qed.
Lemma cpush_cons_S x c n s : cpush (x :: c) (S n) s = x :: cpush c n s.
Proof. reflexivity. Qed.

Lemma cpush_new c : forall w, cpush c (length c) w = c ++ [w].
Proof.
  induction c as [|x c IH]; intros w; [reflexivity|].
  cbn [length app]. rewrite cpush_cons_S, IH. reflexivity.
Qed.

Lemma cpush_last c : forall x w, cpush (c ++ [x]) (length c) w = c ++ [x ++ w].
Proof.
  induction c as [|y c IH]; intros x w; [reflexivity|].
  cbn [length app]. rewrite cpush_cons_S, IH. reflexivity.
Qed.

Lemma cpush_cpush k : forall c a b, cpush (cpush c k a) k b = cpush c k (a ++ b).
Proof.
  induction k as [|k IH]; intros [|x c] a b.
  - reflexivity.
  - rewrite !cpush_cons_0, app_assoc. reflexivity.
  - rewrite !cpush_nil_S, cpush_cons_S, IH. reflexivity.
  - rewrite !cpush_cons_S, IH. reflexivity.
Qed.

(* all emphasised values are free of CR / LF *)
Definition clean_vals (xs : vals) : Prop := Forall (fun p => fst p = true -> no_nl (snd p)) xs.
Definition clean (v : list vals) : Prop := Forall clean_vals v.

Lemma clean_resize v : forall n, clean v -> clean (resize_to v n).
Proof.
  intros n. revert v. induction n as [|n IH]; intros v Hv; [exact Hv|].
  destruct v as [|x r]; cbn [resize_to].
  - constructor; [constructor|]. apply IH. constructor.
  - inversion Hv; subst. constructor; [assumption|]. apply IH. assumption.
Qed.

Lemma clean_push_at v : forall idx xs, clean v -> clean_vals xs -> clean (push_at v idx xs).
Proof.
  induction v as [|x r IH]; intros idx xs Hv Hxs; [destruct idx; constructor|].
  inversion Hv; subst. destruct idx as [|i]; cbn [push_at].
  - constructor; [|assumption]. apply Forall_app. split; assumption.
  - constructor; [assumption|]. apply IH; assumption.
Qed.

(* ------------------------------------------------------------------ *)
(* get_original_slices over the list of entries of the range            *)
(* ------------------------------------------------------------------ *)
Definition e_word (e : seq_entry) : list N := fst (fst e).
Definition e_sidx (e : seq_entry) : nat := snd (fst e).
Definition e_off (e : seq_entry) : nat := snd e.

Fixpoint orig_list (strings : list (list N)) (es : list seq_entry)
         (last : option (nat * nat * nat)) (rv : list (nat * list N)) : res (list (nat * list N)) :=
  match es with
  | [] =>
      match last with
      | Some (sidx, start, l) =>
          do s <- of_option (nth_error strings sidx);
          do sl <- slice_range s start (start + l);
          Ok (rev ((sidx, sl) :: rv))
      | None => Ok (rev rv)
      end
  | (w, sidx, cidx) :: r =>
      match last with
      | None => orig_list strings r (Some (sidx, cidx, length w)) rv
      | Some (lsidx, start, ll) =>
          if lsidx =? sidx then orig_list strings r (Some (sidx, start, ll + length w)) rv
          else
            do s <- of_option (nth_error strings lsidx);
            do sl <- slice_range s start (start + ll);
            orig_list strings r (Some (sidx, cidx, length w)) ((lsidx, sl) :: rv)
      end
  end.

Lemma orig_slices_list strings seqs : forall len idx last rv, idx + len <= length seqs ->
  orig_slices strings seqs idx len last rv = orig_list strings (seg seqs idx len) last rv.
Proof.
  induction len as [|len IH]; intros idx last rv Hb.
  - reflexivity.
  - destruct (nth_error seqs idx) as [e|] eqn:E; [|apply nth_error_None in E; lia].
    rewrite (seg_S _ _ _ _ E). cbn [orig_slices]. rewrite E. cbn [of_option bind].
    destruct e as [[w sidx] cidx]. cbn [orig_list].
    destruct last as [[[lsidx start] ll]|].
    + destruct (lsidx =? sidx).
      * apply IH. lia.
      * destruct (of_option (nth_error strings lsidx)) as [s| |]; try reflexivity. cbn [bind].
        destruct (slice_range s start (start + ll)) as [sl| |]; try reflexivity. cbn [bind].
        apply IH. lia.
    + apply IH. lia.
Qed.

(* merging adjacent entries of the same string *)
Fixpoint group_from (es : list seq_entry) (k : nat) (acc : list N) : list (nat * list N) :=
  match es with
  | [] => [(k, acc)]
  | e :: r =>
      if k =? e_sidx e then group_from r (e_sidx e) (acc ++ e_word e)
      else (k, acc) :: group_from r (e_sidx e) (e_word e)
  end.

Definition group_entries (es : list seq_entry) : list (nat * list N) :=
  match es with
  | [] => []
  | e :: r => group_from r (e_sidx e) (e_word e)
  end.

(* entries that are consecutive words of the strings they point into *)
Definition entry_ok (ss : list (list N)) (e : seq_entry) : Prop :=
  exists s, nth_error ss (e_sidx e) = Some s /\
            e_off e + length (e_word e) <= length s /\
            e_word e = seg s (e_off e) (length (e_word e)).

Definition adj_ok (e e' : seq_entry) : Prop :=
  e_sidx e <= e_sidx e' /\
  (e_sidx e = e_sidx e' -> e_off e' = e_off e + length (e_word e)).

Inductive WF (ss : list (list N)) : list seq_entry -> Prop :=
| WF_nil : WF ss []
| WF_one e : entry_ok ss e -> WF ss [e]
| WF_cons e e' r : entry_ok ss e -> adj_ok e e' -> WF ss (e' :: r) -> WF ss (e :: e' :: r).

Lemma WF_tail ss e r : WF ss (e :: r) -> WF ss r.
Proof. intros H. inversion H; subst; [constructor|assumption]. Qed.

Lemma WF_head ss e r : WF ss (e :: r) -> entry_ok ss e.
Proof. intros H. inversion H; subst; assumption. Qed.

Lemma WF_skipn ss : forall n es, WF ss es -> WF ss (skipn n es).
Proof.
  induction n as [|n IH]; intros es H; [exact H|].
  destruct es as [|e r]; [exact H|]. cbn [skipn]. apply IH. eapply WF_tail; eauto.
Qed.

Lemma WF_firstn ss : forall n es, WF ss es -> WF ss (firstn n es).
Proof.
  induction n as [|n IH]; intros es H; [constructor|].
  destruct es as [|e r]; [constructor|]. cbn [firstn].
  pose proof (WF_head _ _ _ H) as He. pose proof (WF_tail _ _ _ H) as Hr.
  specialize (IH r Hr).
  destruct n as [|n']; [cbn [firstn]; now constructor|].
  destruct r as [|e' r']; [cbn [firstn]; now constructor|].
  cbn [firstn] in IH |- *. constructor; [exact He| |exact IH].
  inversion H; subst. assumption.
Qed.

Lemma WF_seg ss es i l : WF ss es -> WF ss (seg es i l).
Proof. intros H. unfold seg. apply WF_firstn, WF_skipn, H. Qed.

Lemma WF_app ss a b : WF ss a -> WF ss b ->
  (forall ea eb, In ea a -> In eb b -> e_sidx ea < e_sidx eb) -> WF ss (a ++ b).
Proof.
  intros Ha Hb Hlt. induction Ha as [|e He|e e' r He Hadj Hr IH].
  - exact Hb.
  - destruct b as [|eb rb]; [now constructor|].
    cbn [app]. constructor; [exact He| |exact Hb].
    assert (e_sidx e < e_sidx eb) by (apply Hlt; now left). split; lia.
  - cbn [app]. constructor; [exact He|exact Hadj|].
    apply IH. intros ea eb Hia Hib. apply Hlt; [now right|exact Hib].
Qed.

Lemma orig_list_pending ss : forall es k start l rv s,
  WF ss es -> nth_error ss k = Some s -> start + l <= length s ->
  match es with
  | e :: _ => k <= e_sidx e /\ (k = e_sidx e -> e_off e = start + l)
  | [] => True
  end ->
  orig_list ss es (Some (k, start, l)) rv = Ok (rev rv ++ group_from es k (seg s start l)).
Proof.
  induction es as [|e r IH]; intros k start l rv s Hwf Hs Hb Hhd.
  - cbn [orig_list group_from]. rewrite Hs. cbn [of_option bind].
    rewrite slice_range_seg by exact Hb. reflexivity.
  - pose proof (WF_head _ _ _ Hwf) as (s' & Hs' & Hb' & Hw').
    pose proof (WF_tail _ _ _ Hwf) as Hr.
    destruct Hhd as [Hle Hoff].
    destruct e as [[w k'] off]. unfold e_sidx, e_off, e_word in *. cbn [fst snd] in *.
    cbn [orig_list group_from]. unfold e_sidx, e_word. cbn [fst snd].
    destruct (Nat.eqb_spec k k') as [Ek|Ek].
    + subst k'. specialize (Hoff eq_refl). subst off.
      assert (s' = s) by congruence. subst s'.
      rewrite (IH k start (l + length w) rv s Hr Hs ltac:(lia)).
      * rewrite seg_add, <- Hw'. reflexivity.
      * destruct r as [|e2 r2]; [exact I|].
        inversion Hwf as [| |e0 e0' r0 _ [Ha1 Ha2] _]; subst.
        unfold e_sidx, e_off, e_word in *. cbn [fst snd] in *. split; [exact Ha1|].
        intros E. rewrite (Ha2 E). lia.
    + rewrite Hs. cbn [of_option bind]. rewrite slice_range_seg by exact Hb. cbn [bind].
      rewrite (IH k' off (length w) ((k, seg s start l) :: rv) s' Hr Hs' Hb').
      * cbn [rev]. rewrite <- app_assoc, <- Hw'. reflexivity.
      * destruct r as [|e2 r2]; [exact I|].
        inversion Hwf as [| |e0 e0' r0 _ [Ha1 Ha2] _]; subst.
        unfold e_sidx, e_off, e_word in *. cbn [fst snd] in *. split; [exact Ha1|].
        intros E. rewrite (Ha2 E). reflexivity.
Qed.

Lemma orig_list_spec ss es : WF ss es -> orig_list ss es None [] = Ok (group_entries es).
Proof.
  intros Hwf. destruct es as [|e r]; [reflexivity|].
  pose proof (WF_head _ _ _ Hwf) as (s' & Hs' & Hb' & Hw').
  destruct e as [[w k] off]. unfold e_sidx, e_off, e_word in *. cbn [fst snd] in *.
  cbn [orig_list group_entries]. unfold e_sidx, e_word. cbn [fst snd].
  rewrite (orig_list_pending ss r k off (length w) [] s' (WF_tail _ _ _ Hwf) Hs' Hb').
  - cbn [rev app]. rewrite <- Hw'. reflexivity.
  - destruct r as [|e2 r2]; [exact I|].
    inversion Hwf as [| |e0 e0' r0 _ [Ha1 Ha2] _]; subst.
    unfold e_sidx, e_off, e_word in *. cbn [fst snd] in *. split; [exact Ha1|].
    intros E. rewrite (Ha2 E). reflexivity.
Qed.

(* pushing the groups = pushing the words one by one *)
Definition cpush_groups (c : list (list N)) (g : list (nat * list N)) : list (list N) :=
  fold_left (fun acc p => cpush acc (fst p) (snd p)) g c.
Definition push_entries (c : list (list N)) (es : list seq_entry) : list (list N) :=
  fold_left (fun acc e => cpush acc (e_sidx e) (e_word e)) es c.

Lemma cpush_groups_from : forall es k acc c,
  cpush_groups c (group_from es k acc) = push_entries (cpush c k acc) es.
Proof.
  induction es as [|e r IH]; intros k acc c; [reflexivity|].
  cbn [group_from]. destruct (Nat.eqb_spec k (e_sidx e)) as [E|E].
  - rewrite IH. cbn [push_entries fold_left]. rewrite <- E, cpush_cpush. reflexivity.
  - unfold cpush_groups. cbn [fold_left fst snd]. apply IH.
Qed.

Lemma cpush_groups_entries es c : cpush_groups c (group_entries es) = push_entries c es.
Proof. destruct es as [|e r]; [reflexivity|]. apply cpush_groups_from. Qed.

Lemma push_entries_app c a b : push_entries c (a ++ b) = push_entries (push_entries c a) b.
Proof. apply fold_left_app. Qed.

(* ---- what the groups are: one per string touched, in increasing string
   order, holding the concatenation of that string's words in the range ---- *)
Definition content_of (es : list seq_entry) (k : nat) : list N :=
  concat (map e_word (filter (fun e => e_sidx e =? k) es)).

Definition sidx_le (a b : seq_entry) : Prop := e_sidx a <= e_sidx b.

Lemma WF_sorted ss es : WF ss es -> StronglySorted sidx_le es.
Proof.
  intros H. induction H as [|e He|e e' r He [Hle _] Hr IH].
  - constructor.
  - constructor; constructor.
  - constructor; [exact IH|]. inversion IH as [|x l Hs Hall]; subst.
    constructor; [exact Hle|]. eapply Forall_impl; [|exact Hall].
    unfold sidx_le. intros a Ha. lia.
Qed.

Lemma StronglySorted_skipn {A} (R : A -> A -> Prop) : forall n l,
  StronglySorted R l -> StronglySorted R (skipn n l).
Proof.
  induction n as [|n IH]; intros l H; [exact H|].
  destruct l as [|a l]; [exact H|]. cbn [skipn]. apply IH. now inversion H.
Qed.

Lemma content_of_cons_eq e r k : e_sidx e = k -> content_of (e :: r) k = e_word e ++ content_of r k.
Proof.
  intros E. unfold content_of. cbn [filter]. rewrite E, Nat.eqb_refl. reflexivity.
Qed.

Lemma content_of_cons_neq e r k : e_sidx e <> k -> content_of (e :: r) k = content_of r k.
Proof.
  intros E. unfold content_of. cbn [filter].
  destruct (Nat.eqb_spec (e_sidx e) k); [contradiction|reflexivity].
Qed.

Lemma content_of_lt es k : Forall (fun e => k < e_sidx e) es -> content_of es k = [].
Proof.
  intros H. induction H as [|e r He Hr IH]; [reflexivity|].
  rewrite content_of_cons_neq by lia. exact IH.
Qed.

Definition group_ok (es : list seq_entry) (p : nat * list N) : Prop :=
  snd p = content_of es (fst p) /\ exists e, In e es /\ e_sidx e = fst p.

Lemma group_ok_cons e r p : e_sidx e < fst p -> group_ok r p -> group_ok (e :: r) p.
Proof.
  intros Hlt [H1 (e0 & Hin & He0)]. split.
  - rewrite content_of_cons_neq by lia. exact H1.
  - exists e0. split; [now right|exact He0].
Qed.

Lemma group_from_spec : forall es k acc,
  StronglySorted sidx_le es -> Forall (fun e => k <= e_sidx e) es ->
  exists tl, group_from es k acc = (k, acc ++ content_of es k) :: tl /\
    StronglySorted lt (k :: map fst tl) /\
    Forall (group_ok es) tl /\
    (forall e, In e es -> e_sidx e = k \/ In (e_sidx e) (map fst tl)).
Proof.
  induction es as [|e r IH]; intros k acc Hs Hk.
  - exists []. cbn [group_from map]. unfold content_of. cbn. rewrite app_nil_r.
    split; [reflexivity|]. split; [constructor; constructor|]. split; [constructor|].
    intros e0 [].
  - inversion Hs as [|x l Hsr Hall]; subst. inversion Hk as [|x l Hke Hkr]; subst.
    cbn [group_from]. destruct (Nat.eqb_spec k (e_sidx e)) as [E|E].
    + subst k.
      destruct (IH (e_sidx e) (acc ++ e_word e) Hsr) as (tl & Hg & Hss & Hok & Hcov).
      { eapply Forall_impl; [|exact Hall]. intros a Ha. exact Ha. }
      exists tl. rewrite Hg. rewrite (content_of_cons_eq e r (e_sidx e)) by reflexivity.
      rewrite <- app_assoc. split; [reflexivity|]. split; [exact Hss|]. split.
      * inversion Hss as [|x l _ Hlt]; subst.
        rewrite Forall_map in Hlt.
        rewrite Forall_forall in Hok, Hlt |- *. intros p Hp.
        apply group_ok_cons; [now apply Hlt|now apply Hok].
      * intros e0 [<-|Hin]; [left; reflexivity|]. apply Hcov. exact Hin.
    + assert (Hlt : k < e_sidx e) by lia.
      destruct (IH (e_sidx e) (e_word e) Hsr) as (tl & Hg & Hss & Hok & Hcov).
      { eapply Forall_impl; [|exact Hall]. intros a Ha. exact Ha. }
      exists ((e_sidx e, e_word e ++ content_of r (e_sidx e)) :: tl).
      rewrite Hg. rewrite (content_of_lt (e :: r) k), app_nil_r.
      2:{ constructor; [exact Hlt|]. eapply Forall_impl; [|exact Hall].
          unfold sidx_le. intros a Ha. lia. }
      split; [reflexivity|]. cbn [map fst].
      inversion Hss as [|x l Hss' Hlt2]; subst.
      split; [|split].
      * constructor; [exact Hss|]. constructor; [exact Hlt|].
        eapply Forall_impl; [|exact Hlt2]. intros a Ha. lia.
      * constructor.
        -- split; cbn [fst snd]; [now rewrite content_of_cons_eq|].
           exists e. split; [now left|reflexivity].
        -- rewrite Forall_map in Hlt2.
           rewrite Forall_forall in Hok, Hlt2 |- *. intros p Hp.
           apply group_ok_cons; [now apply Hlt2|now apply Hok].
      * intros e0 [<-|Hin]; [right; now left|].
        destruct (Hcov e0 Hin) as [Heq|Hin2]; right; [left; auto|right; exact Hin2].
Qed.

Theorem group_entries_spec es : StronglySorted sidx_le es ->
  StronglySorted lt (map fst (group_entries es)) /\
  Forall (group_ok es) (group_entries es) /\
  (forall e, In e es -> In (e_sidx e) (map fst (group_entries es))).
Proof.
  intros Hs. destruct es as [|e r].
  - cbn [group_entries map]. split; [constructor|]. split; [constructor|]. intros e0 [].
  - inversion Hs as [|x l Hsr Hall]; subst. cbn [group_entries].
    destruct (group_from_spec r (e_sidx e) (e_word e) Hsr) as (tl & Hg & Hss & Hok & Hcov).
    { eapply Forall_impl; [|exact Hall]. intros a Ha. exact Ha. }
    rewrite Hg. cbn [map fst]. split; [exact Hss|]. split.
    + inversion Hss as [|x l _ Hlt]; subst. rewrite Forall_map in Hlt. constructor.
      * split; cbn [fst snd]; [now rewrite content_of_cons_eq|].
        exists e. split; [now left|reflexivity].
      * rewrite Forall_forall in Hok, Hlt |- *. intros p Hp.
        apply group_ok_cons; [now apply Hlt|now apply Hok].
    + intros e0 [<-|Hin]; [now left|].
      destruct (Hcov e0 Hin) as [Heq|Hin2]; [left; auto|right; exact Hin2].
Qed.

(* ------------------------------------------------------------------ *)
(* plain changes, explicitly                                           *)
(* ------------------------------------------------------------------ *)
Fixpoint number_plain (t : ctag) (vs : list (list N)) (idx : nat) : list (change (list N)) :=
  match vs with
  | [] => []
  | v :: r =>
      {| ch_tag := t;
         ch_old := match t with ChInsert => None | _ => Some idx end;
         ch_new := match t with ChInsert => Some idx | _ => None end;
         ch_val := v |} :: number_plain t r (S idx)
  end.

Lemma expand_old_delete (old : list (list N)) : forall len o n, o + len <= length old ->
  expand_old (slice_lookup old) ChDelete false o n len =
  Some (number_plain ChDelete (seg old o len) o).
Proof.
  induction len as [|len IH]; intros o n Hb; [reflexivity|].
  rewrite expand_old_S. unfold slice_lookup at 1.
  destruct (nth_error old o) as [v|] eqn:E; [|apply nth_error_None in E; lia].
  cbv iota. rewrite IH by lia. rewrite (seg_S _ _ _ _ E). reflexivity.
Qed.

Lemma expand_new_insert (new : list (list N)) : forall len n, n + len <= length new ->
  expand_new (slice_lookup new) n len = Some (number_plain ChInsert (seg new n len) n).
Proof.
  induction len as [|len IH]; intros n Hb; [reflexivity|].
  rewrite expand_new_S. unfold slice_lookup at 1.
  destruct (nth_error new n) as [v|] eqn:E; [|apply nth_error_None in E; lia].
  rewrite IH by lia. rewrite (seg_S _ _ _ _ E). reflexivity.
Qed.

Lemma expand_replace (old new : list (list N)) o ol n nl :
  o + ol <= length old -> n + nl <= length new ->
  expand_op (slice_lookup old) (slice_lookup new) (Replace o ol n nl) =
  Some (number_plain ChDelete (seg old o ol) o ++ number_plain ChInsert (seg new n nl) n).
Proof.
  intros Ho Hn. cbn [expand_op]. rewrite expand_old_delete, expand_new_insert by assumption.
  reflexivity.
Qed.

Definition ic_flat (ic : ichange) : ctag * option nat * option nat * list N :=
  (ic_tag ic, ic_old ic, ic_new ic, concat (map snd (ic_vals ic))).
Definition ch_flat (c : change (list N)) : ctag * option nat * option nat * list N :=
  (ch_tag c, ch_old c, ch_new c, ch_val c).
Definition ic_shape (ic : ichange) : ctag * option nat * option nat :=
  (ic_tag ic, ic_old ic, ic_new ic).
Definition ch_shape (c : change (list N)) : ctag * option nat * option nat :=
  (ch_tag c, ch_old c, ch_new c).

Lemma flat_shape ics cs : map ic_flat ics = map ch_flat cs -> map ic_shape ics = map ch_shape cs.
Proof.
  intros H. apply (f_equal (map fst)) in H. rewrite !map_map in H. exact H.
Qed.

Lemma number_changes_flat t : forall v idx,
  map ic_flat (number_changes t v idx) = map ch_flat (number_plain t (contents v) idx).
Proof.
  induction v as [|x r IH]; intros idx; [reflexivity|].
  cbn [number_changes contents map number_plain]. f_equal. apply IH.
Qed.

Lemma plain_flat cs : map ic_flat (map plain_ichange cs) = map ch_flat cs.
Proof.
  rewrite map_map. apply map_ext. intros c. unfold ic_flat, ch_flat, plain_ichange.
  cbn [ic_tag ic_old ic_new ic_vals map snd concat]. rewrite app_nil_r. reflexivity.
Qed.

(* no value of a plain inline change is emphasised *)
Definition no_emph (ic : ichange) : Prop := Forall (fun p : bool * list N => fst p = false) (ic_vals ic).

Lemma plain_no_emph cs : Forall no_emph (map plain_ichange cs).
Proof.
  apply Forall_forall. intros ic Hin. apply in_map_iff in Hin. destruct Hin as (c & <- & _).
  unfold no_emph, plain_ichange. cbn [ic_vals]. constructor; [reflexivity|constructor].
Qed.

Lemma no_emph_clean ic : no_emph ic -> clean_vals (ic_vals ic).
Proof.
  unfold no_emph, clean_vals. intros H. eapply Forall_impl; [|exact H].
  intros p Hp Ht. rewrite Hp in Ht. discriminate Ht.
Qed.

Lemma number_changes_clean t : forall v idx, clean v ->
  Forall (fun ic => clean_vals (ic_vals ic)) (number_changes t v idx).
Proof.
  induction v as [|x r IH]; intros idx Hv; [constructor|].
  inversion Hv; subst. cbn [number_changes]. constructor; [assumption|]. now apply IH.
Qed.

Lemma OpsWalk_bounds_gen cmp exact oe ne i j ops :
  OpsWalk cmp exact oe ne i j ops -> i <= oe /\ j <= ne.
Proof. intros H. induction H; lia. Qed.

(* the closure of iter_inline_changes's main loop *)
Definition istep (bytes_mode : bool) (olds news : list (list N)) (oseq nseq : list seq_entry)
           (acc : res (list vals * list vals)) (y : op) : res (list vals * list vals) :=
  do '(ov, nv) <- acc;
  match y with
  | Equal oi ni l =>
      do so <- get_original_slices olds oseq oi l;
      do sn <- get_original_slices news nseq ni l;
      Ok (push_slices bytes_mode ov false so, push_slices bytes_mode nv false sn)
  | Delete oi l _ =>
      do so <- get_original_slices olds oseq oi l;
      Ok (push_slices bytes_mode ov true so, nv)
  | Insert _ ni l =>
      do sn <- get_original_slices news nseq ni l;
      Ok (ov, push_slices bytes_mode nv true sn)
  | Replace oi l1 ni l2 =>
      do so <- get_original_slices olds oseq oi l1;
      do sn <- get_original_slices news nseq ni l2;
      Ok (push_slices bytes_mode ov true so, push_slices bytes_mode nv true sn)
  end.

Section InlineProofs.
  Variable words : list N -> list token.
  Hypothesis Hwords : forall s, check_partition (words s) 0 (length s) = true.
  Variable bytes_mode : bool.

  Lemma words_chain s : Chain (words s) 0 (length s).
  Proof. apply check_partition_Chain, Hwords. Qed.

  Lemma words_nil : words [] = [].
  Proof.
    pose proof (words_chain []) as H. cbn [length] in H.
    destruct (words []) as [|t r]; [reflexivity|].
    exfalso. assert (0 < 0) by (apply (Chain_lt _ _ _ H); discriminate). lia.
  Qed.

  Lemma words_nonempty s : s <> [] -> words s <> [].
  Proof.
    intros Hs E. pose proof (words_chain s) as H. rewrite E in H. inversion H as [p Hp|].
    destruct s; [congruence|discriminate].
  Qed.

  (* ---------------------------------------------------------------- *)
  (* B1                                                                *)
  (* ---------------------------------------------------------------- *)
  Theorem inline_not_replace dl dbg repair (old new : list (list N)) (x : op) :
    op_tag x <> TReplace ->
    inline_changes words bytes_mode dl dbg repair old new x =
    (do cs <- iter_changes (slice_lookup old) (slice_lookup new) x; Ok (map plain_ichange cs)).
  Proof. destruct x; cbn [op_tag]; intros H; try reflexivity. congruence. Qed.

  Theorem inline_not_replace_no_emph dl dbg repair (old new : list (list N)) (x : op) ics :
    op_tag x <> TReplace ->
    inline_changes words bytes_mode dl dbg repair old new x = Ok ics ->
    exists cs, expand_op (slice_lookup old) (slice_lookup new) x = Some cs /\
               ics = map plain_ichange cs /\ Forall no_emph ics.
  Proof.
    intros Hx H. rewrite inline_not_replace in H by exact Hx.
    rewrite iter_changes_spec in H.
    destruct (expand_op (slice_lookup old) (slice_lookup new) x) as [cs|]; [|discriminate H].
    cbn [of_option bind] in H. injection H as <-. exists cs.
    split; [reflexivity|]. split; [reflexivity|]. apply plain_no_emph.
  Qed.

  (* ---------------------------------------------------------------- *)
  (* B2: MultiLookup::new                                              *)
  (* ---------------------------------------------------------------- *)
  Definition entries_of (k : nat) (s : list N) : list seq_entry :=
    map (fun t => (tok_bytes s t, k, fst t)) (words s).

  Lemma words_of_chain s k toks p q : Chain toks p q -> q <= length s ->
    words_of s toks k p = map (fun t => (tok_bytes s t, k, fst t)) toks.
  Proof.
    intros H. induction H as [p|s0 e r q Hse Hr IH]; intros Hq; [reflexivity|].
    cbn [words_of map fst]. pose proof (Chain_le _ _ _ Hr) as Hle.
    rewrite tok_bytes_seg, seg_length by lia.
    replace (s0 + (e - s0)) with e by lia. rewrite IH by exact Hq. reflexivity.
  Qed.

  Lemma multi_seqs_cons s r k :
    multi_seqs words (s :: r) k = entries_of k s ++ multi_seqs words r (S k).
  Proof.
    cbn [multi_seqs]. rewrite (words_of_chain s k _ _ _ (words_chain s) (le_n _)). reflexivity.
  Qed.

  Theorem multi_seqs_eq ss : forall k,
    multi_seqs words ss k =
    flat_map (fun p => entries_of (fst p) (snd p)) (combine (seq k (length ss)) ss).
  Proof.
    induction ss as [|s r IH]; intros k; [reflexivity|].
    rewrite multi_seqs_cons, IH. reflexivity.
  Qed.

  Theorem entries_concat k s : concat (map e_word (entries_of k s)) = s.
  Proof.
    unfold entries_of. rewrite map_map.
    change (concat (map (tok_bytes s) (words s)) = s).
    rewrite (Chain_concat s _ _ _ (words_chain s) (le_n _)), Nat.sub_0_r. apply seg_all.
  Qed.

  Theorem entries_nil_iff k s : entries_of k s = [] <-> s = [].
  Proof.
    unfold entries_of. split.
    - intros E. destruct s as [|b s]; [reflexivity|].
      apply map_eq_nil in E. exfalso. revert E. apply words_nonempty. discriminate.
    - intros ->. rewrite words_nil. reflexivity.
  Qed.

  Theorem entries_In k s e : In e (entries_of k s) ->
    e_sidx e = k /\ e_word e <> [] /\ e_off e + length (e_word e) <= length s /\
    e_word e = seg s (e_off e) (length (e_word e)).
  Proof.
    unfold entries_of. intros Hin. apply in_map_iff in Hin. destruct Hin as ([s0 e0] & <- & Hin).
    destruct (Chain_In_le _ _ _ _ (words_chain s) Hin) as (_ & Hlt & Hle). cbn [fst snd] in *.
    unfold e_sidx, e_word, e_off. cbn [fst snd].
    rewrite tok_bytes_seg, seg_length by lia.
    repeat split; try lia.
    intros E. apply (f_equal (@length _)) in E. rewrite seg_length in E by lia. cbn [length] in E. lia.
  Qed.

  Lemma entries_WF ss k s : nth_error ss k = Some s -> WF ss (entries_of k s).
  Proof.
    intros Hs. unfold entries_of.
    assert (G : forall toks p q, Chain toks p q -> q <= length s ->
                WF ss (map (fun t => (tok_bytes s t, k, fst t)) toks)).
    { intros toks p q H. induction H as [p|s0 e r q Hse Hr IH]; intros Hq; [constructor|].
      pose proof (Chain_le _ _ _ Hr) as Hle.
      assert (Hok : entry_ok ss (tok_bytes s (s0, e), k, s0)).
      { exists s. unfold e_sidx, e_word, e_off. cbn [fst snd].
        rewrite tok_bytes_seg, seg_length by lia. repeat split; [exact Hs|lia]. }
      specialize (IH Hq). cbn [map fst]. inversion Hr as [p' Ep|s1 e1 r1 q1 Hlt1 Hr1]; subst.
      - cbn [map]. constructor. exact Hok.
      - cbn [map fst] in IH |- *. constructor; [exact Hok| |exact IH].
        unfold adj_ok, e_sidx, e_word, e_off. cbn [fst snd].
        rewrite tok_bytes_seg, seg_length by lia. split; [lia|]. intros _. lia. }
    apply (G _ _ _ (words_chain s)). lia.
  Qed.

  Lemma multi_seqs_sidx ss : forall k e, In e (multi_seqs words ss k) ->
    k <= e_sidx e < k + length ss.
  Proof.
    induction ss as [|s r IH]; intros k e Hin; [contradiction|].
    rewrite multi_seqs_cons in Hin. apply in_app_or in Hin. cbn [length]. destruct Hin as [Hin|Hin].
    - apply entries_In in Hin. lia.
    - apply IH in Hin. lia.
  Qed.

  Lemma multi_seqs_WF_gen : forall ss pre, WF (pre ++ ss) (multi_seqs words ss (length pre)).
  Proof.
    induction ss as [|s r IH]; intros pre; [constructor|].
    rewrite multi_seqs_cons. apply WF_app.
    - apply entries_WF. rewrite nth_error_app2, Nat.sub_diag by lia. reflexivity.
    - specialize (IH (pre ++ [s])). rewrite <- app_assoc, app_length, Nat.add_1_r in IH. exact IH.
    - intros ea eb Ha Hb. apply entries_In in Ha. apply multi_seqs_sidx in Hb. lia.
  Qed.

  Theorem multi_seqs_WF ss : WF ss (multi_seqs words ss 0).
  Proof. exact (multi_seqs_WF_gen ss []). Qed.

  (* every string's words, with their byte offsets, concatenating to it *)
  Theorem multi_seqs_spec ss :
    multi_seqs words ss 0 =
      flat_map (fun p => entries_of (fst p) (snd p)) (combine (seq 0 (length ss)) ss) /\
    (forall k s, nth_error ss k = Some s ->
       concat (map e_word (entries_of k s)) = s /\
       (entries_of k s = [] <-> s = []) /\
       forall e, In e (entries_of k s) ->
         e_sidx e = k /\ e_word e <> [] /\ e_off e + length (e_word e) <= length s /\
         e_word e = seg s (e_off e) (length (e_word e))) /\
    WF ss (multi_seqs words ss 0).
  Proof.
    split; [apply multi_seqs_eq|]. split; [|apply multi_seqs_WF].
    intros k s _. split; [apply entries_concat|]. split; [apply entries_nil_iff|].
    apply entries_In.
  Qed.

  (* ---------------------------------------------------------------- *)
  (* B3: get_original_slices                                           *)
  (* ---------------------------------------------------------------- *)
  Theorem orig_slices_spec ss i len :
    i + len <= length (multi_seqs words ss 0) ->
    get_original_slices ss (multi_seqs words ss 0) i len =
    Ok (group_entries (seg (multi_seqs words ss 0) i len)).
  Proof.
    intros Hb. unfold get_original_slices. rewrite orig_slices_list by exact Hb.
    apply orig_list_spec. apply WF_seg, multi_seqs_WF.
  Qed.

  (* the groups: strictly increasing string indices; each holds the
     concatenation of that string's words inside the range; every string
     touched by the range has its group *)
  Theorem orig_slices_descr ss i len :
    i + len <= length (multi_seqs words ss 0) ->
    let es := seg (multi_seqs words ss 0) i len in
    exists g, get_original_slices ss (multi_seqs words ss 0) i len = Ok g /\
      StronglySorted lt (map fst g) /\
      Forall (group_ok es) g /\
      (forall e, In e es -> In (e_sidx e) (map fst g)).
  Proof.
    intros Hb es. exists (group_entries es). split; [now apply orig_slices_spec|].
    apply group_entries_spec. eapply WF_sorted. apply WF_seg, multi_seqs_WF.
  Qed.

  (* pushing every word of every string rebuilds the strings *)
  Lemma push_entries_line s k : forall toks c x, length c = k ->
    push_entries (c ++ [x]) (map (fun t => (tok_bytes s t, k, fst t)) toks) =
    c ++ [x ++ concat (map (tok_bytes s) toks)].
  Proof.
    induction toks as [|t r IH]; intros c x Hc.
    - cbn [map concat push_entries fold_left]. rewrite app_nil_r. reflexivity.
    - cbn [map concat push_entries fold_left]. unfold e_sidx, e_word. cbn [fst snd].
      rewrite <- Hc at 1. rewrite cpush_last.
      change (fold_left _ ?l ?a) with (push_entries a l).
      rewrite IH by exact Hc. rewrite app_assoc. reflexivity.
  Qed.

  Lemma push_entries_entries c s : s <> [] ->
    push_entries c (entries_of (length c) s) = c ++ [s].
  Proof.
    intros Hs. unfold entries_of.
    pose proof (Chain_concat s _ _ _ (words_chain s) (le_n _)) as Hcat.
    rewrite Nat.sub_0_r, seg_all in Hcat.
    destruct (words s) as [|t r] eqn:E; [exfalso; now apply (words_nonempty s)|].
    cbn [map push_entries fold_left]. unfold e_sidx, e_word. cbn [fst snd].
    rewrite cpush_new.
    change (fold_left _ ?l ?a) with (push_entries a l).
    rewrite push_entries_line by reflexivity. cbn [map concat] in Hcat. rewrite Hcat. reflexivity.
  Qed.

  Lemma push_entries_multi : forall ss c, Forall (fun l => l <> []) ss ->
    push_entries c (multi_seqs words ss (length c)) = c ++ ss.
  Proof.
    induction ss as [|s r IH]; intros c Hne.
    - cbn [multi_seqs push_entries fold_left]. rewrite app_nil_r. reflexivity.
    - inversion Hne; subst. rewrite multi_seqs_cons, push_entries_app.
      rewrite push_entries_entries by assumption.
      replace (S (length c)) with (length (c ++ [s])) by (rewrite app_length; cbn; lia).
      rewrite IH by assumption. rewrite <- app_assoc. reflexivity.
  Qed.

  (* ---------------------------------------------------------------- *)
  (* push_values                                                       *)
  (* ---------------------------------------------------------------- *)
  (* [good]: the strings on which tokenize_lines_and_newlines is known to be
     correct (all byte strings for [u8]; valid UTF-8 for str) *)
  Variable good : list N -> Prop.
  Hypothesis good_app : forall a b, good a -> good b -> good (a ++ b).
  Hypothesis Hlnl : forall s, good s ->
    check_tokens TkLinesNewlines s (tokenize bytes_mode TkLinesNewlines s) = true.

  Lemma lnl_concat s : good s ->
    concat (map (tok_bytes s) (tokenize bytes_mode TkLinesNewlines s)) = s.
  Proof.
    intros Hg. pose proof (Hlnl s Hg) as H. unfold check_tokens in H.
    apply Bool.andb_true_iff in H. destruct H as [H _]. apply check_partition_Chain in H.
    rewrite (Chain_concat s _ _ _ H (le_n _)), Nat.sub_0_r. apply seg_all.
  Qed.

  Definition lnl_vals (s : list N) : vals :=
    map (fun t => let sg := tok_bytes s t in (negb (ends_with_newline sg), sg))
        (tokenize bytes_mode TkLinesNewlines s).

  Lemma lnl_vals_concat s : good s -> concat (map snd (lnl_vals s)) = s.
  Proof.
    intros Hg. unfold lnl_vals. rewrite map_map. cbn [snd].
    change (concat (map (tok_bytes s) (tokenize bytes_mode TkLinesNewlines s)) = s).
    now apply lnl_concat.
  Qed.

  Lemma lnl_vals_clean s : good s -> clean_vals (lnl_vals s).
  Proof.
    intros Hg. unfold clean_vals, lnl_vals. apply Forall_forall. intros p Hin.
    apply in_map_iff in Hin. destruct Hin as (t & <- & Hin). cbn [fst snd].
    intros Hneg. apply Bool.negb_true_iff in Hneg.
    exact (lnl_token_clean s _ (Hlnl s Hg) t Hin Hneg).
  Qed.

  Lemma push_values_contents v idx emph s : (emph = true -> good s) ->
    contents (push_values bytes_mode v idx emph s) = cpush (contents v) idx s.
  Proof.
    intros Hg. unfold push_values, cpush. destruct emph.
    - fold (lnl_vals s). rewrite contents_push_at, contents_resize, lnl_vals_concat by auto.
      reflexivity.
    - rewrite contents_push_at, contents_resize. cbn [map snd concat]. rewrite app_nil_r.
      reflexivity.
  Qed.

  Lemma push_values_clean v idx emph s : (emph = true -> good s) -> clean v ->
    clean (push_values bytes_mode v idx emph s).
  Proof.
    intros Hg Hv. unfold push_values. destruct emph.
    - fold (lnl_vals s). apply clean_push_at; [now apply clean_resize|]. apply lnl_vals_clean. auto.
    - apply clean_push_at; [now apply clean_resize|].
      constructor; [|constructor]. cbn [fst]. discriminate.
  Qed.

  Lemma push_slices_spec emph : forall g v, Forall (fun p => good (snd p)) g ->
    contents (push_slices bytes_mode v emph g) = cpush_groups (contents v) g /\
    (clean v -> clean (push_slices bytes_mode v emph g)).
  Proof.
    induction g as [|p r IH]; intros v Hg; [split; [reflexivity|auto]|].
    inversion Hg; subst. unfold push_slices, cpush_groups. cbn [fold_left].
    destruct (IH (push_values bytes_mode v (fst p) emph (snd p))) as [IH1 IH2]; [assumption|].
    unfold push_slices, cpush_groups in IH1, IH2. split.
    - rewrite IH1, push_values_contents by auto. reflexivity.
    - intros Hv. apply IH2. apply push_values_clean; auto.
  Qed.

  Lemma group_from_good : forall es k acc, good acc -> Forall (fun e => good (e_word e)) es ->
    Forall (fun p => good (snd p)) (group_from es k acc).
  Proof.
    induction es as [|e r IH]; intros k acc Ha Hes.
    - constructor; [exact Ha|constructor].
    - inversion Hes; subst. cbn [group_from]. destruct (k =? e_sidx e).
      + apply IH; [now apply good_app|assumption].
      + constructor; [exact Ha|]. apply IH; assumption.
  Qed.

  Lemma group_entries_good es : Forall (fun e => good (e_word e)) es ->
    Forall (fun p => good (snd p)) (group_entries es).
  Proof.
    intros H. destruct es as [|e r]; [constructor|]. inversion H; subst.
    now apply group_from_good.
  Qed.

  Definition words_good (l : list N) : Prop := Forall (fun t => good (tok_bytes l t)) (words l).

  Lemma multi_seqs_good : forall ss k, Forall words_good ss ->
    Forall (fun e => good (e_word e)) (multi_seqs words ss k).
  Proof.
    induction ss as [|s r IH]; intros k H; [constructor|].
    inversion H as [|s0 r0 Hs Hr]; subst. rewrite multi_seqs_cons. apply Forall_app. split.
    - unfold entries_of. apply Forall_forall. intros e Hin. apply in_map_iff in Hin.
      destruct Hin as (t & <- & Hin). unfold e_word. cbn [fst].
      unfold words_good in Hs. rewrite Forall_forall in Hs. now apply Hs.
    - now apply IH.
  Qed.

  (* one call of get_original_slices followed by the pushes *)
  Lemma side_push ss i l v emph : Forall words_good ss ->
    i + l <= length (multi_seqs words ss 0) ->
    exists g, get_original_slices ss (multi_seqs words ss 0) i l = Ok g /\
      contents (push_slices bytes_mode v emph g) =
        push_entries (contents v) (seg (multi_seqs words ss 0) i l) /\
      (clean v -> clean (push_slices bytes_mode v emph g)).
  Proof.
    intros Hg Hb. eexists. split; [apply orig_slices_spec; exact Hb|].
    destruct (push_slices_spec emph (group_entries (seg (multi_seqs words ss 0) i l)) v) as [H1 H2].
    { apply group_entries_good, Forall_seg, multi_seqs_good, Hg. }
    split; [|exact H2]. rewrite H1. apply cpush_groups_entries.
  Qed.

  (* ---------------------------------------------------------------- *)
  (* the main loop over the second-level ops                           *)
  (* ---------------------------------------------------------------- *)
  Section Loop.
    Variables olds news : list (list N).
    Hypothesis Hgo : Forall words_good olds.
    Hypothesis Hgn : Forall words_good news.
    Let oseq := multi_seqs words olds 0.
    Let nseq := multi_seqs words news 0.
    Variable cmp : cmpf.

    Lemma push_entries_seg_add c (E : list seq_entry) i a b :
      push_entries c (seg E i (a + b)) = push_entries (push_entries c (seg E i a)) (seg E (i + a) b).
    Proof. rewrite seg_add. apply push_entries_app. Qed.

    Lemma fold_walk lo ln i j ops :
      OpsWalk cmp false lo ln i j ops -> lo = length oseq -> ln = length nseq ->
      forall ov nv, exists ov' nv',
        fold_left (istep bytes_mode olds news oseq nseq) ops (Ok (ov, nv)) = Ok (ov', nv') /\
        contents ov' = push_entries (contents ov) (seg oseq i (lo - i)) /\
        contents nv' = push_entries (contents nv) (seg nseq j (ln - j)) /\
        (clean ov -> clean ov') /\ (clean nv -> clean nv').
    Proof.
      intros H Elo Eln.
      induction H as [|i j l r Hs Hw IH|i j l n r He Hb Hw IH|i j o l r He Hb Hw IH|i j ol nl r Hb1 Hb2 Hw IH];
        intros ov nv.
      - exists ov, nv. rewrite !Nat.sub_diag. repeat split; auto.
      - destruct (OpsWalk_bounds_gen _ _ _ _ _ _ _ Hw) as [Bo Bn].
        destruct (side_push olds i l ov false Hgo) as (so & Eso & Cso & Kso); [fold oseq; lia|].
        destruct (side_push news j l nv false Hgn) as (sn & Esn & Csn & Ksn); [fold nseq; lia|].
        fold oseq in Eso, Cso. fold nseq in Esn, Csn.
        cbn [fold_left]. unfold istep at 2. cbn [bind]. rewrite Eso. cbn [bind]. rewrite Esn. cbn [bind].
        destruct (IH (push_slices bytes_mode ov false so) (push_slices bytes_mode nv false sn))
          as (ov' & nv' & Hf & Co & Cn & Ko & Kn).
        exists ov', nv'. split; [exact Hf|]. rewrite Co, Cn, Cso, Csn.
        replace (lo - i) with (l + (lo - (i + l))) by lia.
        replace (ln - j) with (l + (ln - (j + l))) by lia.
        rewrite !push_entries_seg_add. repeat split; auto.
      - destruct (OpsWalk_bounds_gen _ _ _ _ _ _ _ Hw) as [Bo Bn].
        destruct (side_push olds i l ov true Hgo) as (so & Eso & Cso & Kso); [fold oseq; lia|].
        fold oseq in Eso, Cso.
        cbn [fold_left]. unfold istep at 2. cbn [bind]. rewrite Eso. cbn [bind].
        destruct (IH (push_slices bytes_mode ov true so) nv)
          as (ov' & nv' & Hf & Co & Cn & Ko & Kn).
        exists ov', nv'. split; [exact Hf|]. rewrite Co, Cn, Cso.
        replace (lo - i) with (l + (lo - (i + l))) by lia.
        rewrite !push_entries_seg_add. repeat split; auto.
      - destruct (OpsWalk_bounds_gen _ _ _ _ _ _ _ Hw) as [Bo Bn].
        destruct (side_push news j l nv true Hgn) as (sn & Esn & Csn & Ksn); [fold nseq; lia|].
        fold nseq in Esn, Csn.
        cbn [fold_left]. unfold istep at 2. cbn [bind]. rewrite Esn. cbn [bind].
        destruct (IH ov (push_slices bytes_mode nv true sn))
          as (ov' & nv' & Hf & Co & Cn & Ko & Kn).
        exists ov', nv'. split; [exact Hf|]. rewrite Co, Cn, Csn.
        replace (ln - j) with (l + (ln - (j + l))) by lia.
        rewrite !push_entries_seg_add. repeat split; auto.
      - destruct (OpsWalk_bounds_gen _ _ _ _ _ _ _ Hw) as [Bo Bn].
        destruct (side_push olds i ol ov true Hgo) as (so & Eso & Cso & Kso); [fold oseq; lia|].
        destruct (side_push news j nl nv true Hgn) as (sn & Esn & Csn & Ksn); [fold nseq; lia|].
        fold oseq in Eso, Cso. fold nseq in Esn, Csn.
        cbn [fold_left]. unfold istep at 2. cbn [bind]. rewrite Eso. cbn [bind]. rewrite Esn. cbn [bind].
        destruct (IH (push_slices bytes_mode ov true so) (push_slices bytes_mode nv true sn))
          as (ov' & nv' & Hf & Co & Cn & Ko & Kn).
        exists ov', nv'. split; [exact Hf|]. rewrite Co, Cn, Cso, Csn.
        replace (lo - i) with (ol + (lo - (i + ol))) by lia.
        replace (ln - j) with (nl + (ln - (j + nl))) by lia.
        rewrite !push_entries_seg_add. repeat split; auto.
    Qed.

    (* the whole loop: both tables end up holding exactly the lines *)
    Lemma fold_all ops :
      OpsLoose cmp 0 (length oseq) 0 (length nseq) ops ->
      Forall (fun l => l <> []) olds -> Forall (fun l => l <> []) news ->
      exists ov nv,
        fold_left (istep bytes_mode olds news oseq nseq) ops (Ok ([], [])) = Ok (ov, nv) /\
        contents ov = olds /\ contents nv = news /\ clean ov /\ clean nv.
    Proof.
      intros Hw Hno Hnn.
      destruct (fold_walk _ _ 0 0 ops Hw eq_refl eq_refl [] []) as (ov & nv & Hf & Co & Cn & Ko & Kn).
      exists ov, nv. split; [exact Hf|].
      rewrite Nat.sub_0_r, seg_all in Co, Cn. cbn [contents map] in Co, Cn.
      unfold oseq in Co. unfold nseq in Cn.
      pose proof (push_entries_multi olds [] Hno) as Po. cbn [length app] in Po. rewrite Po in Co.
      pose proof (push_entries_multi news [] Hnn) as Pn. cbn [length app] in Pn. rewrite Pn in Cn.
      repeat split; auto; [apply Ko|apply Kn]; constructor.
    Qed.
  End Loop.

  (* ---------------------------------------------------------------- *)
  (* B4: iter_inline_changes on a Replace                              *)
  (* ---------------------------------------------------------------- *)
  Definition word_items (ss : list (list N)) : list (list N) :=
    map (fun e : list N * nat * nat => fst (fst e)) (multi_seqs words ss 0).
  Definition inline_orc (olds news : list (list N)) : oracles :=
    oracles_of_items bytes_eqb (slice_lookup (word_items olds)) (slice_lookup (word_items news)).

  Definition plain_changes (old new : list (list N)) (x : op) : res (list ichange) :=
    do cs <- iter_changes (slice_lookup old) (slice_lookup new) x; Ok (map plain_ichange cs).

  Lemma inline_changes_replace dl dbg repair old new o ol n nl :
    inline_changes words bytes_mode dl dbg repair old new (Replace o ol n nl) =
    (do olds <- slice_range old o (o + ol);
     do news <- slice_range new n (n + nl);
     if upper_ratio_below_half (length olds) (length news) then plain_changes old new (Replace o ol n nl)
     else
       do '(ops, _) <- capture_diff Patience dl dbg repair (inline_orc olds news)
                         0 (length (word_items olds)) 0 (length (word_items news));
       if diff_ratio_below_half ops (length (word_items olds)) (length (word_items news))
       then plain_changes old new (Replace o ol n nl)
       else
         do '(ov, nv) <- fold_left (istep bytes_mode olds news (multi_seqs words olds 0)
                                          (multi_seqs words news 0)) ops (Ok ([], []));
         Ok (number_changes ChDelete ov o ++ number_changes ChInsert nv n)).
  Proof. reflexivity. Qed.

  Definition inline_post (old new : list (list N)) (o ol n nl : nat) (ics : list ichange) : Prop :=
    let cs := number_plain ChDelete (seg old o ol) o ++ number_plain ChInsert (seg new n nl) n in
    expand_op (slice_lookup old) (slice_lookup new) (Replace o ol n nl) = Some cs /\
    map ic_flat ics = map ch_flat cs /\
    map ic_shape ics = map ch_shape cs /\
    Forall (fun ic => clean_vals (ic_vals ic)) ics.

  Lemma plain_case old new o ol n nl ics :
    o + ol <= length old -> n + nl <= length new ->
    plain_changes old new (Replace o ol n nl) = Ok ics ->
    inline_post old new o ol n nl ics /\ Forall no_emph ics.
  Proof.
    intros Ho Hn H. unfold plain_changes in H.
    rewrite iter_changes_spec, expand_replace in H by assumption.
    cbn [of_option bind] in H. injection H as <-.
    unfold inline_post. cbv zeta.
    split; [|apply plain_no_emph].
    split; [now apply expand_replace|].
    split; [apply plain_flat|]. split; [apply flat_shape, plain_flat|].
    eapply Forall_impl; [|apply plain_no_emph]. intros ic. apply no_emph_clean.
  Qed.

  Section Replace.
    Variables (dl : deadline) (dbg repair : bool) (old new : list (list N)) (o ol n nl : nat).
    Hypothesis Ho : o + ol <= length old.
    Hypothesis Hn : n + nl <= length new.
    Let olds := seg old o ol.
    Let news := seg new n nl.
    Hypothesis Hno : Forall (fun l => l <> []) olds.
    Hypothesis Hnn : Forall (fun l => l <> []) news.
    Hypothesis Hgo : Forall words_good olds.
    Hypothesis Hgn : Forall words_good news.
    (* the second-level diff over the words is loosely valid (C02 of the pipeline) *)
    Hypothesis Hcap : forall ops2 c,
      capture_diff Patience dl dbg repair (inline_orc olds news)
                   0 (length (word_items olds)) 0 (length (word_items news)) = Ok (ops2, c) ->
      OpsLoose (o_on (inline_orc olds news))
               0 (length (word_items olds)) 0 (length (word_items news)) ops2.

    Lemma inline_main ops2 :
      OpsLoose (o_on (inline_orc olds news))
               0 (length (word_items olds)) 0 (length (word_items news)) ops2 ->
      exists ov nv,
        fold_left (istep bytes_mode olds news (multi_seqs words olds 0) (multi_seqs words news 0))
                  ops2 (Ok ([], [])) = Ok (ov, nv) /\
        inline_post old new o ol n nl (number_changes ChDelete ov o ++ number_changes ChInsert nv n).
    Proof.
      intros Hw. unfold word_items in Hw. rewrite !map_length in Hw.
      destruct (fold_all olds news Hgo Hgn _ ops2 Hw Hno Hnn) as (ov & nv & Hf & Co & Cn & Ko & Kn).
      exists ov, nv. split; [exact Hf|].
      assert (Hflat : map ic_flat (number_changes ChDelete ov o ++ number_changes ChInsert nv n) =
                      map ch_flat (number_plain ChDelete olds o ++ number_plain ChInsert news n)).
      { rewrite !map_app, !number_changes_flat, Co, Cn. reflexivity. }
      unfold inline_post. cbv zeta. fold olds news.
      split; [now apply expand_replace|]. split; [exact Hflat|].
      split; [apply flat_shape, Hflat|].
      apply Forall_app. split; apply number_changes_clean; assumption.
    Qed.

    Theorem inline_replace_spec ics :
      inline_changes words bytes_mode dl dbg repair old new (Replace o ol n nl) = Ok ics ->
      inline_post old new o ol n nl ics.
    Proof.
      intros H. rewrite inline_changes_replace in H.
      rewrite !slice_range_seg in H by assumption. cbn [bind] in H. fold olds news in H.
      destruct (upper_ratio_below_half (length olds) (length news)).
      { now apply plain_case. }
      set (r := capture_diff Patience dl dbg repair (inline_orc olds news) 0
                  (length (word_items olds)) 0 (length (word_items news))) in H.
      assert (Ecap : capture_diff Patience dl dbg repair (inline_orc olds news) 0
                  (length (word_items olds)) 0 (length (word_items news)) = r) by reflexivity.
      clearbody r.
      destruct r as [[ops2 c]| |]; cbn [bind] in H; try discriminate H.
      destruct (diff_ratio_below_half ops2 (length (word_items olds)) (length (word_items news))).
      { now apply plain_case. }
      destruct (inline_main ops2 (Hcap _ _ Ecap)) as (ov & nv & Hf & Hpost).
      rewrite Hf in H. cbn [bind] in H. injection H as <-. exact Hpost.
    Qed.

    (* past the second-level diff nothing can panic *)
    Theorem inline_replace_total ops2 c :
      capture_diff Patience dl dbg repair (inline_orc olds news)
                   0 (length (word_items olds)) 0 (length (word_items news)) = Ok (ops2, c) ->
      exists ics, inline_changes words bytes_mode dl dbg repair old new (Replace o ol n nl) = Ok ics.
    Proof.
      intros Ecap. rewrite inline_changes_replace.
      rewrite !slice_range_seg by assumption. cbn [bind]. fold olds news.
      assert (Hplain : exists ics, plain_changes old new (Replace o ol n nl) = Ok ics).
      { unfold plain_changes. rewrite iter_changes_spec, expand_replace by assumption.
        eexists. reflexivity. }
      destruct (upper_ratio_below_half (length olds) (length news)); [exact Hplain|].
      rewrite Ecap. cbn [bind].
      destruct (diff_ratio_below_half ops2 (length (word_items olds)) (length (word_items news)));
        [exact Hplain|].
      destruct (inline_main ops2 (Hcap _ _ Ecap)) as (ov & nv & Hf & _).
      rewrite Hf. cbn [bind]. eexists. reflexivity.
    Qed.
  End Replace.
End InlineProofs.

(* ------------------------------------------------------------------ *)
(* corollaries                                                         *)
(* ------------------------------------------------------------------ *)
(* the same statement read change by change *)
Theorem inline_post_pointwise old new o ol n nl ics :
  inline_post old new o ol n nl ics ->
  length ics = ol + nl /\
  forall k ic, nth_error ics k = Some ic ->
    let line := concat (map snd (ic_vals ic)) in
    if k <? ol then
      ic_tag ic = ChDelete /\ ic_old ic = Some (o + k) /\ ic_new ic = None /\
      nth_error old (o + k) = Some line
    else
      ic_tag ic = ChInsert /\ ic_old ic = None /\ ic_new ic = Some (n + (k - ol)) /\
      nth_error new (n + (k - ol)) = Some line.
Proof.
  unfold inline_post. cbv zeta. intros (Hexp & Hflat & _ & _).
  destruct (expand_op_shape _ _ _ _ Hexp) as [Hlen Hshape]. cbn [op_nchanges] in Hlen.
  split.
  - apply (f_equal (@length _)) in Hflat. rewrite !map_length in Hflat. lia.
  - intros k ic Hk.
    assert (Hk' : nth_error (map ic_flat ics) k = Some (ic_flat ic))
      by (rewrite nth_error_map, Hk; reflexivity).
    rewrite Hflat, nth_error_map in Hk'.
    destruct (nth_error (number_plain ChDelete (seg old o ol) o ++
                         number_plain ChInsert (seg new n nl) n) k) as [c|] eqn:Ec;
      [|discriminate Hk'].
    cbn [option_map] in Hk'. injection Hk' as Ht Hio Hin Hv.
    specialize (Hshape k c Ec). cbn [change_shape] in Hshape. cbv zeta.
    destruct (k <? ol).
    + destruct Hshape as (H1 & H2 & H3 & H4). unfold slice_lookup in H4.
      rewrite <- Ht, <- Hio, <- Hin, <- Hv. auto.
    + destruct Hshape as (H1 & H2 & H3 & H4). unfold slice_lookup in H4.
      rewrite <- Ht, <- Hio, <- Hin, <- Hv. auto.
Qed.

(* with tokenize_lines_and_newlines known correct on every input (the [u8]
   implementation) no side condition on the words is left *)
Theorem inline_replace_spec_all
  (words : list N -> list token)
  (Hwords : forall s, check_partition (words s) 0 (length s) = true)
  (bytes_mode : bool)
  (Hlnl : forall s, check_tokens TkLinesNewlines s (tokenize bytes_mode TkLinesNewlines s) = true)
  dl dbg repair (old new : list (list N)) o ol n nl :
  o + ol <= length old -> n + nl <= length new ->
  Forall (fun l => l <> []) old -> Forall (fun l => l <> []) new ->
  (forall ops2 c,
     capture_diff Patience dl dbg repair (inline_orc words (seg old o ol) (seg new n nl))
       0 (length (word_items words (seg old o ol))) 0 (length (word_items words (seg new n nl)))
       = Ok (ops2, c) ->
     OpsLoose (o_on (inline_orc words (seg old o ol) (seg new n nl)))
       0 (length (word_items words (seg old o ol))) 0 (length (word_items words (seg new n nl))) ops2) ->
  forall ics,
  inline_changes words bytes_mode dl dbg repair old new (Replace o ol n nl) = Ok ics ->
  inline_post old new o ol n nl ics.
Proof.
  intros Ho Hn Hno Hnn Hcap ics H.
  apply (inline_replace_spec words Hwords bytes_mode (fun _ => True) (fun _ _ _ _ => I)
           (fun s _ => Hlnl s) dl dbg repair old new o ol n nl Ho Hn); try assumption.
  - now apply Forall_seg.
  - now apply Forall_seg.
  - apply Forall_forall. intros l _. apply Forall_forall. intros t _. exact I.
  - apply Forall_forall. intros l _. apply Forall_forall. intros t _. exact I.
Qed.
