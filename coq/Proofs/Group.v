(* Proofs/Group.v — property C12: group_diff_ops (Model/Capture.v) equals the
   declarative reference group_ref (Spec/Group.v) on every op list without two
   adjacent Equal ops (in particular on every Alternating list), and the
   clauses G0..G6 of the property hold for group_ref. *)
From Similar Require Import Model.Base Model.Capture Spec.Script Spec.Group.

#[local] Arguments inside : simpl never.
#[local] Arguments group_loop : simpl never.
#[local] Arguments trim_last : simpl never.

(* ------------------------------------------------------------------ *)
(* Hypothesis actually needed: no two adjacent Equal ops.               *)

Fixpoint EqSep (ops : list op) : Prop :=
  match ops with
  | [] => True
  | x :: rest =>
      match rest with
      | [] => True
      | y :: _ => (is_eq x = true -> is_eq y = false) /\ EqSep rest
      end
  end.

Definition starts_chg (ops : list op) : Prop :=
  match ops with
  | x :: _ => is_eq x = false
  | [] => False
  end.

Lemma is_eq_true_iff x : is_eq x = true <-> IsEqualOp x.
Proof. destruct x; simpl; split; intro H; auto; discriminate. Qed.

Lemma is_eq_false_iff x : is_eq x = false <-> ~ IsEqualOp x.
Proof. destruct x; simpl; split; intro H; auto; try discriminate; exfalso; auto. Qed.

Lemma Alternating_EqSep ops : Alternating ops -> EqSep ops.
Proof.
  induction 1 as [|x Hx|x y r Hx Hxy Halt IH]; simpl; auto.
  split; auto.
  intro Hex. apply is_eq_false_iff. apply (proj1 Hxy). apply is_eq_true_iff; exact Hex.
Qed.

Lemma EqSep_tail x rest : EqSep (x :: rest) -> EqSep rest.
Proof. destruct rest; simpl; tauto. Qed.

Lemma EqSep_eq_next o nn l y r : EqSep (Equal o nn l :: y :: r) -> is_eq y = false.
Proof. simpl. intros [H _]. apply H. reflexivity. Qed.

(* ------------------------------------------------------------------ *)
(* Unfolding equations and basic facts about the reference.             *)

Definition prepend (p : list op) (gs : list (list op)) : list (list op) :=
  match gs with
  | [] => [p]
  | g :: gs' => (p ++ g) :: gs'
  end.

Lemma inside_nil n : inside n [] = [[]].
Proof. reflexivity. Qed.

Lemma inside_eq_last n o nn l : inside n [Equal o nn l] = [[ctx_after n o nn l]].
Proof. reflexivity. Qed.

Lemma inside_eq_cons n o nn l y r :
  inside n (Equal o nn l :: y :: r) =
  if l <=? 2 * n then cons_head (Equal o nn l) (inside n (y :: r))
  else [ctx_after n o nn l] :: cons_head (ctx_before n o nn l) (inside n (y :: r)).
Proof. reflexivity. Qed.

Lemma inside_chg n x rest :
  is_eq x = false -> inside n (x :: rest) = cons_head x (inside n rest).
Proof. destruct x; simpl; intro H; try discriminate; reflexivity. Qed.

Lemma inside_cons n ops : exists g gs, inside n ops = g :: gs.
Proof.
  induction ops as [|x rest IH].
  - rewrite inside_nil. eauto.
  - destruct IH as (g & gs & E).
    destruct (is_eq x) eqn:Hx.
    + destruct x as [o nn l| | |]; try discriminate.
      destruct rest as [|y r].
      * rewrite inside_eq_last. eauto.
      * rewrite inside_eq_cons, E. destruct (l <=? 2 * n); simpl; eauto.
    + rewrite (inside_chg _ _ _ Hx), E. simpl. eauto.
Qed.

Lemma prepend_nil gs : gs <> [] -> prepend [] gs = gs.
Proof. destruct gs; simpl; congruence. Qed.

Lemma prepend_nil_inside n ops : prepend [] (inside n ops) = inside n ops.
Proof. destruct (inside_cons n ops) as (g & gs & E). rewrite E. reflexivity. Qed.

Lemma prepend_snoc p x gs : prepend (p ++ [x]) gs = prepend p (cons_head x gs).
Proof. destruct gs; simpl; [reflexivity | rewrite <- app_assoc; reflexivity]. Qed.

Lemma prepend_one x gs : prepend [x] gs = cons_head x gs.
Proof. destruct gs; reflexivity. Qed.

Lemma cons_head_prepend x p gs : cons_head x (prepend p gs) = prepend (x :: p) gs.
Proof. destruct gs; reflexivity. Qed.

Lemma group_ref_chg n x rest :
  is_eq x = false -> group_ref (x :: rest) n = inside n (x :: rest).
Proof. destruct x; simpl; intro H; try discriminate; reflexivity. Qed.

Lemma group_ref_eq_cons n o nn l y r :
  group_ref (Equal o nn l :: y :: r) n = cons_head (ctx_before n o nn l) (inside n (y :: r)).
Proof. reflexivity. Qed.

Lemma changes_cons x l :
  changes (x :: l) = if is_eq x then changes l else x :: changes l.
Proof. unfold changes. simpl. destruct (is_eq x); reflexivity. Qed.

Lemma changes_eq o nn l r : changes (Equal o nn l :: r) = changes r.
Proof. reflexivity. Qed.

Lemma changes_app a b : changes (a ++ b) = changes a ++ changes b.
Proof. unfold changes. apply filter_app. Qed.

Lemma concat_cons_head x gs : concat (cons_head x gs) = x :: concat gs.
Proof. destruct gs; reflexivity. Qed.

(* ------------------------------------------------------------------ *)
(* G0: no change => no group.                                           *)

Lemma group_ref_G0_sep ops n :
  EqSep ops -> changes ops = [] -> group_ref ops n = [].
Proof.
  intros Hsep Hch.
  destruct ops as [|x rest]; [reflexivity|].
  rewrite changes_cons in Hch.
  destruct (is_eq x) eqn:Hx; [|discriminate].
  destruct x as [o nn l| | |]; try discriminate.
  destruct rest as [|y r]; [reflexivity|].
  apply EqSep_eq_next in Hsep.
  rewrite changes_cons, Hsep in Hch. discriminate.
Qed.

Lemma no_change_changes ops : (forall x, In x ops -> IsEqualOp x) -> changes ops = [].
Proof.
  induction ops as [|x rest IH]; intro H; [reflexivity|].
  rewrite changes_cons.
  assert (Hx : is_eq x = true) by (apply is_eq_true_iff, H; left; reflexivity).
  rewrite Hx. apply IH. intros y Hy. apply H. right. exact Hy.
Qed.

Theorem group_ref_G0 ops n :
  Alternating ops -> (forall x, In x ops -> IsEqualOp x) -> group_ref ops n = [].
Proof.
  intros Halt H. apply group_ref_G0_sep.
  - apply Alternating_EqSep, Halt.
  - apply no_change_changes, H.
Qed.

(* ------------------------------------------------------------------ *)
(* G1: every group contains a change.                                   *)

Definition HasChg (g : list op) : Prop := exists x, In x g /\ is_eq x = false.

Lemma HasChg_cons x g : HasChg g -> HasChg (x :: g).
Proof. intros (y & Hy & Hyc). exists y. split; [right; exact Hy | exact Hyc]. Qed.

Lemma HasChg_here x g : is_eq x = false -> HasChg (x :: g).
Proof. intro H. exists x. split; [left; reflexivity | exact H]. Qed.

Lemma inside_G1 n ops :
  EqSep ops -> forall g gs, inside n ops = g :: gs ->
  (starts_chg ops -> HasChg g) /\ (forall g', In g' gs -> HasChg g').
Proof.
  induction ops as [|x rest IH]; intros Hsep g gs E.
  - rewrite inside_nil in E. injection E as <- <-.
    split; [intros [] | intros g' []].
  - destruct (inside_cons n rest) as (g0 & gs0 & E0).
    destruct (IH (EqSep_tail _ _ Hsep) _ _ E0) as [IH1 IH2].
    destruct (is_eq x) eqn:Hx.
    + destruct x as [o nn l| | |]; try discriminate.
      destruct rest as [|y r].
      * rewrite inside_eq_last in E. injection E as <- <-.
        split; [simpl; discriminate | intros g' []].
      * rewrite inside_eq_cons, E0 in E.
        destruct (l <=? 2 * n); simpl in E; injection E as <- <-.
        -- split; [simpl; discriminate | exact IH2].
        -- split; [simpl; discriminate|].
           intros g' [<-|Hin].
           ++ apply HasChg_cons, IH1. simpl. apply (EqSep_eq_next _ _ _ _ _ Hsep).
           ++ apply IH2, Hin.
    + rewrite (inside_chg _ _ _ Hx), E0 in E. simpl in E. injection E as <- <-.
      split; [intros _; apply HasChg_here, Hx | exact IH2].
Qed.

Lemma group_ref_G1_sep ops n :
  EqSep ops -> forall g, In g (group_ref ops n) -> HasChg g.
Proof.
  intros Hsep g Hin.
  destruct ops as [|x rest]; [destruct Hin|].
  destruct (is_eq x) eqn:Hx.
  - destruct x as [o nn l| | |]; try discriminate.
    destruct rest as [|y r]; [destruct Hin|].
    rewrite group_ref_eq_cons in Hin.
    destruct (inside_cons n (y :: r)) as (g0 & gs0 & E0).
    destruct (inside_G1 n _ (EqSep_tail _ _ Hsep) _ _ E0) as [H1 H2].
    rewrite E0 in Hin. simpl in Hin. destruct Hin as [<-|Hin].
    + apply HasChg_cons, H1. simpl. apply (EqSep_eq_next _ _ _ _ _ Hsep).
    + apply H2, Hin.
  - rewrite (group_ref_chg _ _ _ Hx) in Hin.
    destruct (inside_cons n (x :: rest)) as (g0 & gs0 & E0).
    destruct (inside_G1 n _ Hsep _ _ E0) as [H1 H2].
    rewrite E0 in Hin. destruct Hin as [<-|Hin].
    + apply H1. exact Hx.
    + apply H2, Hin.
Qed.

Theorem group_ref_G1 ops n :
  Alternating ops ->
  forall g, In g (group_ref ops n) -> exists x, In x g /\ ~ IsEqualOp x.
Proof.
  intros Halt g Hin.
  destruct (group_ref_G1_sep ops n (Alternating_EqSep _ Halt) g Hin) as (x & Hx & Hxc).
  exists x. split; [exact Hx | apply is_eq_false_iff, Hxc].
Qed.

(* ------------------------------------------------------------------ *)
(* G2: same changes, same order, each exactly once (any op list).       *)

Lemma inside_changes n ops : changes (concat (inside n ops)) = changes ops.
Proof.
  induction ops as [|x rest IH]; [reflexivity|].
  destruct (is_eq x) eqn:Hx.
  - destruct x as [o nn l| | |]; try discriminate.
    destruct rest as [|y r]; [reflexivity|].
    rewrite inside_eq_cons. destruct (l <=? 2 * n).
    + rewrite concat_cons_head, !changes_eq. exact IH.
    + change (concat ([ctx_after n o nn l] :: ?X)) with (ctx_after n o nn l :: concat X).
      rewrite concat_cons_head. unfold ctx_after, ctx_before. rewrite !changes_eq. exact IH.
  - rewrite (inside_chg _ _ _ Hx), concat_cons_head, !changes_cons, Hx, IH. reflexivity.
Qed.

Theorem group_ref_G2 ops n : changes (concat (group_ref ops n)) = changes ops.
Proof.
  destruct ops as [|x rest]; [reflexivity|].
  destruct (is_eq x) eqn:Hx.
  - destruct x as [o nn l| | |]; try discriminate.
    destruct rest as [|y r]; [reflexivity|].
    rewrite group_ref_eq_cons, concat_cons_head. unfold ctx_before.
    rewrite !changes_eq. apply inside_changes.
  - rewrite (group_ref_chg _ _ _ Hx). apply inside_changes.
Qed.

(* ------------------------------------------------------------------ *)
(* The model equals the reference.                                      *)

Definition open_pending (p : list op) : Prop :=
  match p with
  | [] => False
  | [x] => is_eq x = false
  | _ :: _ :: _ => True
  end.

Lemma open_pending_chg x p : is_eq x = false -> open_pending (x :: p).
Proof. destruct p; simpl; auto. Qed.

Lemma open_pending_cons x p : open_pending p -> open_pending (x :: p).
Proof. destruct p; simpl; [intros [] | auto]. Qed.

Lemma loop_end n pending rv :
  open_pending pending -> group_loop [] n pending rv = rev rv ++ [rev pending].
Proof.
  destruct pending as [|x [|y p]]; simpl; intro H.
  - destruct H.
  - destruct x; try discriminate; reflexivity.
  - destruct x; reflexivity.
Qed.

Lemma loop_chg n x rest p rv :
  is_eq x = false -> group_loop (x :: rest) n p rv = group_loop rest n (x :: p) rv.
Proof. destruct x; simpl; intro H; try discriminate; reflexivity. Qed.

Lemma loop_eq_short n o nn l rest p rv :
  l <= 2 * n ->
  group_loop (Equal o nn l :: rest) n p rv = group_loop rest n (Equal o nn l :: p) rv.
Proof.
  intro H. unfold group_loop at 1. fold group_loop.
  replace (n * 2 <? l) with false; [reflexivity|].
  symmetry. apply Nat.ltb_ge. lia.
Qed.

Lemma loop_eq_long n o nn l rest p rv :
  2 * n < l ->
  group_loop (Equal o nn l :: rest) n p rv =
  group_loop rest n [Equal (o + (l - n)) (nn + (l - n)) (l - (l - n))]
             (rev (Equal o nn n :: p) :: rv).
Proof.
  intro H. unfold group_loop at 1. fold group_loop.
  replace (n * 2 <? l) with true; [reflexivity|].
  symmetry. apply Nat.ltb_lt. lia.
Qed.

Lemma trim_last_cons2 n x y r : trim_last (x :: y :: r) n = x :: trim_last (y :: r) n.
Proof. destruct x; reflexivity. Qed.

Lemma trim_last_chg n x r : is_eq x = false -> trim_last (x :: r) n = x :: trim_last r n.
Proof. destruct x; simpl; intro H; try discriminate; reflexivity. Qed.

Lemma trim_last_eq n o nn l : trim_last [Equal o nn l] n = [Equal o nn (l - (l - n))].
Proof. reflexivity. Qed.

Lemma loop_inside n :
  forall ops pending rv,
    EqSep ops -> (open_pending pending \/ starts_chg ops) ->
    group_loop (trim_last ops n) n pending rv =
    rev rv ++ prepend (rev pending) (inside n ops).
Proof.
  induction ops as [|x rest IH]; intros pending rv Hsep Hopen.
  - destruct Hopen as [Hopen|[]].
    change (trim_last [] n) with (@nil op).
    rewrite (loop_end _ _ _ Hopen), inside_nil. simpl. rewrite app_nil_r. reflexivity.
  - destruct (is_eq x) eqn:Hx.
    + destruct x as [o nn l| | |]; try discriminate.
      destruct Hopen as [Hopen|Hbad]; [|simpl in Hbad; discriminate].
      destruct rest as [|y r].
      * rewrite trim_last_eq, loop_eq_short by lia.
        rewrite (loop_end _ _ _ (open_pending_cons _ _ Hopen)), inside_eq_last.
        simpl. unfold ctx_after.
        replace (l - (l - n)) with (Nat.min n l) by lia. reflexivity.
      * pose proof (EqSep_eq_next _ _ _ _ _ Hsep) as Hy.
        pose proof (EqSep_tail _ _ Hsep) as Hsep'.
        rewrite trim_last_cons2, inside_eq_cons.
        destruct (l <=? 2 * n) eqn:Hl.
        -- apply Nat.leb_le in Hl.
           rewrite (loop_eq_short _ _ _ _ _ _ _ Hl).
           rewrite (IH _ _ Hsep' (or_introl (open_pending_cons _ _ Hopen))).
           simpl rev. rewrite prepend_snoc. reflexivity.
        -- apply Nat.leb_gt in Hl.
           rewrite (loop_eq_long _ _ _ _ _ _ _ Hl).
           rewrite (IH _ _ Hsep' (or_intror Hy)).
           simpl rev. rewrite prepend_one, <- app_assoc. simpl.
           unfold ctx_after, ctx_before.
           replace (Nat.min n l) with n by lia.
           replace (l - (l - n)) with n by lia.
           reflexivity.
    + rewrite (trim_last_chg _ _ _ Hx), (loop_chg _ _ _ _ _ Hx), (inside_chg _ _ _ Hx).
      rewrite (IH _ _ (EqSep_tail _ _ Hsep) (or_introl (open_pending_chg _ _ Hx))).
      simpl rev. rewrite prepend_snoc. reflexivity.
Qed.

Theorem group_diff_ops_eq_ref_sep ops n :
  EqSep ops -> group_diff_ops ops n = group_ref ops n.
Proof.
  intro Hsep.
  destruct ops as [|x rest]; [reflexivity|].
  unfold group_diff_ops.
  destruct (is_eq x) eqn:Hx.
  - destruct x as [o nn l| | |]; try discriminate.
    unfold trim_first.
    destruct rest as [|y r].
    + rewrite trim_last_eq, loop_eq_short by lia. reflexivity.
    + pose proof (EqSep_eq_next _ _ _ _ _ Hsep) as Hy.
      rewrite trim_last_cons2, loop_eq_short by lia.
      rewrite (loop_inside n _ _ _ (EqSep_tail _ _ Hsep) (or_intror Hy)).
      rewrite group_ref_eq_cons. simpl rev. simpl app. rewrite prepend_one.
      unfold ctx_before.
      replace (l - Nat.min n l) with (l - n) by lia.
      replace (Nat.min n l) with (l - (l - n)) by lia.
      reflexivity.
  - replace (trim_first (x :: rest) n) with (x :: rest)
      by (destruct x; try discriminate; reflexivity).
    rewrite (loop_inside n _ _ _ Hsep (or_intror Hx)).
    rewrite (group_ref_chg _ _ _ Hx). simpl rev. simpl app.
    apply prepend_nil_inside.
Qed.

Theorem group_diff_ops_eq_ref ops n :
  Alternating ops -> group_diff_ops ops n = group_ref ops n.
Proof. intro H. apply group_diff_ops_eq_ref_sep, Alternating_EqSep, H. Qed.

(* ------------------------------------------------------------------ *)
(* G5: Equal ops strictly inside a group are ops of the input, unchanged,
   of length <= 2n (any op list).                                       *)

Definition ShortIn (n : nat) (ops : list op) (x : op) : Prop :=
  forall o nn l, x = Equal o nn l -> In x ops /\ l <= 2 * n.

Lemma ShortIn_weaken n y ops x : ShortIn n ops x -> ShortIn n (y :: ops) x.
Proof.
  intros H o nn l E. destruct (H o nn l E) as [Hin Hl]. split; [right; exact Hin | exact Hl].
Qed.

Lemma Forall_ShortIn_weaken n y ops g :
  Forall (ShortIn n ops) g -> Forall (ShortIn n (y :: ops)) g.
Proof. intro H. eapply Forall_impl; [|exact H]. intro a. apply ShortIn_weaken. Qed.

Lemma ShortIn_chg n ops x : is_eq x = false -> ShortIn n ops x.
Proof. intros Hx o nn l E. subst x. discriminate. Qed.

Lemma removelast_cons_Forall (P : op -> Prop) x g :
  P x -> Forall P (removelast g) -> Forall P (removelast (x :: g)).
Proof.
  intros Hx Hg. destruct g as [|y g']; [constructor|].
  change (removelast (x :: y :: g')) with (x :: removelast (y :: g')).
  constructor; assumption.
Qed.

Lemma inside_G5 n ops :
  forall g gs, inside n ops = g :: gs ->
  Forall (ShortIn n ops) (removelast g) /\
  Forall (fun g' => Forall (ShortIn n ops) (interior g')) gs.
Proof.
  induction ops as [|x rest IH]; intros g gs E.
  - rewrite inside_nil in E. injection E as <- <-. split; constructor.
  - destruct (inside_cons n rest) as (g0 & gs0 & E0).
    destruct (IH _ _ E0) as [IH1 IH2].
    assert (IH1' : Forall (ShortIn n (x :: rest)) (removelast g0))
      by (apply Forall_ShortIn_weaken, IH1).
    assert (IH2' : Forall (fun g' => Forall (ShortIn n (x :: rest)) (interior g')) gs0).
    { eapply Forall_impl; [|exact IH2]. intro a. apply Forall_ShortIn_weaken. }
    destruct (is_eq x) eqn:Hx.
    + destruct x as [o nn l| | |]; try discriminate.
      destruct rest as [|y r].
      * rewrite inside_eq_last in E. injection E as <- <-. split; constructor.
      * rewrite inside_eq_cons, E0 in E.
        destruct (l <=? 2 * n) eqn:Hl; simpl in E; injection E as <- <-.
        -- apply Nat.leb_le in Hl. split; [|exact IH2'].
           apply removelast_cons_Forall; [|exact IH1'].
           intros o' nn' l' E'. injection E' as <- <- <-.
           split; [left; reflexivity | exact Hl].
        -- split; [constructor|].
           constructor; [|exact IH2'].
           unfold interior. simpl tl. exact IH1'.
    + rewrite (inside_chg _ _ _ Hx), E0 in E. simpl in E. injection E as <- <-.
      split; [|exact IH2'].
      apply removelast_cons_Forall; [apply ShortIn_chg, Hx | exact IH1'].
Qed.

Lemma In_interior_removelast (x : op) g : In x (interior g) -> In x (removelast g).
Proof.
  unfold interior. destruct g as [|y g']; [auto|]. simpl tl.
  destruct g' as [|z g'']; [auto|].
  intro H. change (removelast (y :: z :: g'')) with (y :: removelast (z :: g'')).
  right. exact H.
Qed.

Lemma group_ref_G5_interior ops n :
  Forall (fun g => Forall (ShortIn n ops) (interior g)) (group_ref ops n).
Proof.
  destruct ops as [|x rest]; [constructor|].
  destruct (is_eq x) eqn:Hx.
  - destruct x as [o nn l| | |]; try discriminate.
    destruct rest as [|y r]; [constructor|].
    rewrite group_ref_eq_cons.
    destruct (inside_cons n (y :: r)) as (g0 & gs0 & E0).
    destruct (inside_G5 n _ _ _ E0) as [H1 H2].
    rewrite E0. simpl. constructor.
    + unfold interior. simpl tl. apply Forall_ShortIn_weaken, H1.
    + eapply Forall_impl; [|exact H2]. intro a. apply Forall_ShortIn_weaken.
  - rewrite (group_ref_chg _ _ _ Hx).
    destruct (inside_cons n (x :: rest)) as (g0 & gs0 & E0).
    destruct (inside_G5 n _ _ _ E0) as [H1 H2].
    rewrite E0. constructor; [|exact H2].
    apply Forall_forall. intros a Ha.
    apply In_interior_removelast in Ha.
    rewrite Forall_forall in H1. apply H1, Ha.
Qed.

Lemma In_interior (x : op) a b : a <> [] -> b <> [] -> In x (interior (a ++ x :: b)).
Proof.
  intros Ha Hb. unfold interior.
  destruct a as [|a0 a']; [congruence|]. simpl tl.
  rewrite removelast_app by discriminate.
  apply in_or_app. right.
  destruct b as [|b0 b']; [congruence|].
  left. reflexivity.
Qed.

Theorem group_ref_G5 ops n :
  forall g a o nn l b,
    In g (group_ref ops n) -> g = a ++ Equal o nn l :: b -> a <> [] -> b <> [] ->
    In (Equal o nn l) ops /\ l <= 2 * n.
Proof.
  intros g a o nn l b Hin Hg Ha Hb.
  pose proof (group_ref_G5_interior ops n) as H.
  rewrite Forall_forall in H. specialize (H g Hin).
  rewrite Forall_forall in H.
  assert (Hint : In (Equal o nn l) (interior g))
    by (subst g; apply In_interior; assumption).
  exact (H _ Hint o nn l eq_refl).
Qed.

(* ------------------------------------------------------------------ *)
(* Splitting lemma: what the reference does with a prefix A of the input
   does not depend on what follows, as long as something follows.        *)

Ltac ch_eq :=
  simpl concat in *; simpl app in *; unfold ctx_after, ctx_before; rewrite ?changes_eq.

Lemma inside_app n A :
  exists GA g1,
    changes (concat GA ++ g1) = changes A /\
    forall R, R <> [] -> inside n (A ++ R) = GA ++ prepend g1 (inside n R).
Proof.
  induction A as [|x A' IH].
  - exists [], []. split; [reflexivity|].
    intros R _. simpl. symmetry. apply prepend_nil_inside.
  - destruct IH as (GA' & g1' & Hch & Happ).
    assert (Hne : forall R, R <> [] -> exists y r, A' ++ R = y :: r).
    { intros R HR. destruct (A' ++ R) as [|y r] eqn:E; [|eauto].
      apply app_eq_nil in E. destruct E as [_ E]. congruence. }
    destruct (is_eq x) eqn:Hx.
    + destruct x as [o nn l| | |]; try discriminate.
      destruct (l <=? 2 * n) eqn:Hl.
      * destruct GA' as [|h t].
        -- exists [], (Equal o nn l :: g1'). split.
           ++ ch_eq. exact Hch.
           ++ intros R HR. destruct (Hne R HR) as (y & r & E).
              simpl app at 1. rewrite E, inside_eq_cons, Hl, <- E, (Happ R HR).
              simpl. apply cons_head_prepend.
        -- exists ((Equal o nn l :: h) :: t), g1'. split.
           ++ ch_eq. exact Hch.
           ++ intros R HR. destruct (Hne R HR) as (y & r & E).
              simpl app at 1. rewrite E, inside_eq_cons, Hl, <- E, (Happ R HR).
              reflexivity.
      * destruct GA' as [|h t].
        -- exists [[ctx_after n o nn l]], (ctx_before n o nn l :: g1'). split.
           ++ ch_eq. exact Hch.
           ++ intros R HR. destruct (Hne R HR) as (y & r & E).
              simpl app at 1. rewrite E, inside_eq_cons, Hl, <- E, (Happ R HR).
              simpl. rewrite cons_head_prepend. reflexivity.
        -- exists ([ctx_after n o nn l] :: (ctx_before n o nn l :: h) :: t), g1'. split.
           ++ ch_eq. exact Hch.
           ++ intros R HR. destruct (Hne R HR) as (y & r & E).
              simpl app at 1. rewrite E, inside_eq_cons, Hl, <- E, (Happ R HR).
              reflexivity.
    + destruct GA' as [|h t].
      * exists [], (x :: g1'). split.
        -- ch_eq. rewrite !changes_cons, Hx, Hch. reflexivity.
        -- intros R HR. simpl app at 1.
           rewrite (inside_chg _ _ _ Hx), (Happ R HR). simpl. apply cons_head_prepend.
      * exists ((x :: h) :: t), g1'. split.
        -- ch_eq. rewrite !changes_cons, Hx, Hch. reflexivity.
        -- intros R HR. simpl app at 1.
           rewrite (inside_chg _ _ _ Hx), (Happ R HR). reflexivity.
Qed.

Lemma group_ref_app n A R :
  starts_chg R ->
  exists GA g1,
    changes (concat GA ++ g1) = changes A /\
    group_ref (A ++ R) n = GA ++ prepend g1 (inside n R).
Proof.
  intro HR.
  assert (HRne : R <> []) by (destruct R; [destruct HR | discriminate]).
  destruct A as [|x A'].
  - exists [], []. split; [reflexivity|].
    destruct R as [|c X]; [destruct HR|]. simpl in HR.
    simpl app. rewrite (group_ref_chg _ _ _ HR). symmetry. apply prepend_nil_inside.
  - destruct (inside_app n A') as (GA' & g1' & Hch & Happ).
    destruct (is_eq x) eqn:Hx.
    + destruct x as [o nn l| | |]; try discriminate.
      assert (Hne : exists y r, A' ++ R = y :: r).
      { destruct (A' ++ R) as [|y r] eqn:E; [|eauto].
        apply app_eq_nil in E. destruct E as [_ E]. congruence. }
      destruct Hne as (y & r & E).
      destruct GA' as [|h t].
      * exists [], (ctx_before n o nn l :: g1'). split.
        -- ch_eq. exact Hch.
        -- simpl app at 1. rewrite E, group_ref_eq_cons, <- E, (Happ R HRne).
           simpl. apply cons_head_prepend.
      * exists ((ctx_before n o nn l :: h) :: t), g1'. split.
        -- ch_eq. exact Hch.
        -- simpl app at 1. rewrite E, group_ref_eq_cons, <- E, (Happ R HRne).
           reflexivity.
    + destruct (inside_app n (x :: A')) as (GA & g1 & Hch2 & Happ2).
      exists GA, g1. split; [exact Hch2|].
      simpl app at 1. rewrite (group_ref_chg _ _ _ Hx).
      apply (Happ2 R HRne).
Qed.

(* ------------------------------------------------------------------ *)
(* G6: two consecutive changes separated by Equal _ _ l are in the same
   group iff l <= 2n (any op list).  GA ++ [g1 ++ ...] pins the position:
   the changes before c1 in the output are exactly the changes of A.     *)

Theorem group_ref_G6 n A c1 o nn l c2 B :
  is_eq c1 = false -> is_eq c2 = false ->
  (l <= 2 * n ->
   exists GA g1 g2 GB,
     changes (concat GA ++ g1) = changes A /\
     group_ref (A ++ c1 :: Equal o nn l :: c2 :: B) n =
     GA ++ (g1 ++ c1 :: Equal o nn l :: c2 :: g2) :: GB) /\
  (2 * n < l ->
   exists GA g1 g2 GB,
     changes (concat GA ++ g1) = changes A /\
     group_ref (A ++ c1 :: Equal o nn l :: c2 :: B) n =
     GA ++ (g1 ++ [c1; Equal o nn n])
        :: (Equal (o + (l - n)) (nn + (l - n)) n :: c2 :: g2) :: GB).
Proof.
  intros H1 H2.
  destruct (group_ref_app n A (c1 :: Equal o nn l :: c2 :: B) H1) as (GA & g1 & Hch & E).
  destruct (inside_cons n B) as (g2 & GB & EB).
  rewrite (inside_chg _ _ _ H1), inside_eq_cons, (inside_chg _ _ _ H2), EB in E.
  split; intro Hl.
  - exists GA, g1, g2, GB. split; [exact Hch|].
    rewrite E. replace (l <=? 2 * n) with true by (symmetry; apply Nat.leb_le; lia).
    reflexivity.
  - exists GA, g1, g2, GB. split; [exact Hch|].
    rewrite E. replace (l <=? 2 * n) with false by (symmetry; apply Nat.leb_gt; lia).
    simpl. unfold ctx_after, ctx_before.
    replace (Nat.min n l) with n by lia. reflexivity.
Qed.

(* G6, counting form: the number of groups is one more than the number of
   Equal ops longer than 2n lying between two changes. *)

Lemma length_cons_head x gs : gs <> [] -> length (cons_head x gs) = length gs.
Proof. destruct gs; simpl; congruence. Qed.

Lemma inside_length n ops : length (inside n ops) = 1 + long_seps n ops.
Proof.
  induction ops as [|x rest IH]; [reflexivity|].
  assert (Hne : inside n rest <> []).
  { destruct (inside_cons n rest) as (g & gs & E). rewrite E. discriminate. }
  destruct (is_eq x) eqn:Hx.
  - destruct x as [o nn l| | |]; try discriminate.
    destruct rest as [|y r]; [reflexivity|].
    rewrite inside_eq_cons.
    change (long_seps n (Equal o nn l :: y :: r))
      with ((if l <=? 2 * n then 0 else 1) + long_seps n (y :: r)).
    destruct (l <=? 2 * n).
    + rewrite (length_cons_head _ _ Hne), IH. reflexivity.
    + simpl length. rewrite (length_cons_head _ _ Hne), IH. reflexivity.
  - rewrite (inside_chg _ _ _ Hx), (length_cons_head _ _ Hne), IH.
    destruct x; try discriminate; reflexivity.
Qed.

Theorem group_ref_G6_count ops n :
  changes ops <> [] -> length (group_ref ops n) = 1 + interior_long n ops.
Proof.
  intro Hch.
  destruct ops as [|x rest]; [exfalso; apply Hch; reflexivity|].
  destruct (is_eq x) eqn:Hx.
  - destruct x as [o nn l| | |]; try discriminate.
    destruct rest as [|y r]; [exfalso; apply Hch; reflexivity|].
    rewrite group_ref_eq_cons, length_cons_head.
    + apply inside_length.
    + destruct (inside_cons n (y :: r)) as (g & gs & E). rewrite E. discriminate.
  - rewrite (group_ref_chg _ _ _ Hx), inside_length.
    destruct x; try discriminate; reflexivity.
Qed.

(* ------------------------------------------------------------------ *)
(* G4: structure of every group (context at both ends), as the relational
   specification GroupSpec; GroupSpec determines the result.             *)

Lemma GT_cons_chg n c ops gs :
  is_eq c = false -> GroupTail n ops gs -> GroupTail n (c :: ops) (cons_head c gs).
Proof.
  intros Hc H.
  destruct H as [t Ht|t o nn l Ht|t o nn l c' rest g gs Ht Hl Hc' Hrest]; simpl.
  - apply GT_end. apply CT_chg; assumption.
  - apply (GT_trail n (c :: t)). apply CT_chg; assumption.
  - apply (GT_split n (c :: t)); try assumption. apply CT_chg; assumption.
Qed.

Lemma GT_cons_eq n o nn l c ops gs :
  l <= 2 * n -> is_eq c = false -> GroupTail n ops gs ->
  GroupTail n (Equal o nn l :: c :: ops) (cons_head (Equal o nn l) (cons_head c gs)).
Proof.
  intros Hl Hc H.
  destruct H as [t Ht|t o' nn' l' Ht|t o' nn' l' c' rest g gs Ht Hl' Hc' Hrest]; simpl.
  - apply GT_end. apply CT_eq; assumption.
  - apply (GT_trail n (Equal o nn l :: c :: t)). apply CT_eq; assumption.
  - apply (GT_split n (Equal o nn l :: c :: t)); try assumption. apply CT_eq; assumption.
Qed.

Lemma inside_GroupTail n :
  forall k ops, length ops <= k -> EqSep ops -> GroupTail n ops (inside n ops).
Proof.
  induction k as [|k IH]; intros ops Hlen Hsep.
  - destruct ops; [|simpl in Hlen; lia]. rewrite inside_nil. apply GT_end, CT_nil.
  - destruct ops as [|x rest]; [rewrite inside_nil; apply GT_end, CT_nil|].
    simpl in Hlen.
    destruct (is_eq x) eqn:Hx.
    + destruct x as [o nn l| | |]; try discriminate.
      destruct rest as [|y r].
      * rewrite inside_eq_last. apply (GT_trail n []). apply CT_nil.
      * pose proof (EqSep_eq_next _ _ _ _ _ Hsep) as Hy.
        pose proof (EqSep_tail _ _ (EqSep_tail _ _ Hsep)) as Hsep''.
        simpl in Hlen.
        assert (IHr : GroupTail n r (inside n r)) by (apply IH; [lia | exact Hsep'']).
        rewrite inside_eq_cons, (inside_chg _ _ _ Hy).
        destruct (l <=? 2 * n) eqn:Hl.
        -- apply Nat.leb_le in Hl. apply GT_cons_eq; assumption.
        -- apply Nat.leb_gt in Hl.
           destruct (inside_cons n r) as (g & gs & E). rewrite E in *. simpl.
           apply (GT_split n []); try assumption. apply CT_nil.
    + rewrite (inside_chg _ _ _ Hx). apply GT_cons_chg; [exact Hx|].
      apply IH; [lia | exact (EqSep_tail _ _ Hsep)].
Qed.

Theorem group_ref_spec_sep ops n : EqSep ops -> GroupSpec n ops (group_ref ops n).
Proof.
  intro Hsep.
  destruct ops as [|x rest]; [apply GS_nil|].
  destruct (is_eq x) eqn:Hx.
  - destruct x as [o nn l| | |]; try discriminate.
    destruct rest as [|y r]; [apply GS_eq|].
    pose proof (EqSep_eq_next _ _ _ _ _ Hsep) as Hy.
    pose proof (EqSep_tail _ _ (EqSep_tail _ _ Hsep)) as Hsep''.
    pose proof (inside_GroupTail n _ r (le_n _) Hsep'') as HT.
    rewrite group_ref_eq_cons, (inside_chg _ _ _ Hy).
    destruct (inside_cons n r) as (g & gs & E). rewrite E in *. simpl.
    apply GS_lead; assumption.
  - pose proof (inside_GroupTail n _ rest (le_n _) (EqSep_tail _ _ Hsep)) as HT.
    rewrite (group_ref_chg _ _ _ Hx), (inside_chg _ _ _ Hx).
    destruct (inside_cons n rest) as (g & gs & E). rewrite E in *. simpl.
    apply GS_chg; assumption.
Qed.

Theorem group_ref_G4 ops n : Alternating ops -> GroupSpec n ops (group_ref ops n).
Proof. intro H. apply group_ref_spec_sep, Alternating_EqSep, H. Qed.

Lemma inside_coretail n t :
  CoreTail n t -> forall X, inside n (t ++ X) = prepend t (inside n X).
Proof.
  induction 1 as [|c t Hc Ht IH|o nn l c t Hl Hc Ht IH]; intro X.
  - simpl. symmetry. apply prepend_nil_inside.
  - simpl app. rewrite (inside_chg _ _ _ Hc), IH. apply cons_head_prepend.
  - simpl app. rewrite inside_eq_cons.
    replace (l <=? 2 * n) with true by (symmetry; apply Nat.leb_le; exact Hl).
    rewrite (inside_chg _ _ _ Hc), IH, !cons_head_prepend. reflexivity.
Qed.

Lemma GroupTail_unique n ops gs : GroupTail n ops gs -> gs = inside n ops.
Proof.
  induction 1 as [t Ht|t o nn l Ht|t o nn l c rest g gs Ht Hl Hc Hrest IH].
  - rewrite <- (app_nil_r t) at 2. rewrite (inside_coretail _ _ Ht), inside_nil.
    simpl. rewrite app_nil_r. reflexivity.
  - rewrite (inside_coretail _ _ Ht), inside_eq_last. reflexivity.
  - rewrite (inside_coretail _ _ Ht), inside_eq_cons.
    replace (l <=? 2 * n) with false by (symmetry; apply Nat.leb_gt; exact Hl).
    rewrite (inside_chg _ _ _ Hc), <- IH. reflexivity.
Qed.

Theorem GroupSpec_unique n ops gs : GroupSpec n ops gs -> gs = group_ref ops n.
Proof.
  intro H.
  destruct H as [|o nn l|o nn l c rest g gs Hc HT|c rest g gs Hc HT].
  - reflexivity.
  - reflexivity.
  - rewrite group_ref_eq_cons, (inside_chg _ _ _ Hc), <- (GroupTail_unique _ _ _ HT).
    reflexivity.
  - rewrite (group_ref_chg _ _ _ Hc), (inside_chg _ _ _ Hc), <- (GroupTail_unique _ _ _ HT).
    reflexivity.
Qed.

(* G4, boundary corollaries in closed form (any op list) *)

Theorem group_ref_G4_first_eq n o nn l c rest :
  is_eq c = false ->
  exists g gs, group_ref (Equal o nn l :: c :: rest) n = (ctx_before n o nn l :: c :: g) :: gs.
Proof.
  intro Hc. destruct (inside_cons n rest) as (g & gs & E).
  exists g, gs. rewrite group_ref_eq_cons, (inside_chg _ _ _ Hc), E. reflexivity.
Qed.

Theorem group_ref_G4_first_chg n c rest :
  is_eq c = false -> exists g gs, group_ref (c :: rest) n = (c :: g) :: gs.
Proof.
  intro Hc. destruct (inside_cons n rest) as (g & gs & E).
  exists g, gs. rewrite (group_ref_chg _ _ _ Hc), (inside_chg _ _ _ Hc), E. reflexivity.
Qed.

Theorem group_ref_G4_last_eq n A c o nn l :
  is_eq c = false ->
  exists GA g,
    changes (concat GA ++ g) = changes A /\
    group_ref (A ++ [c; Equal o nn l]) n = GA ++ [g ++ [c; ctx_after n o nn l]].
Proof.
  intro Hc.
  destruct (group_ref_app n A [c; Equal o nn l] Hc) as (GA & g & Hch & E).
  exists GA, g. split; [exact Hch|].
  rewrite E, (inside_chg _ _ _ Hc), inside_eq_last. reflexivity.
Qed.

Theorem group_ref_G4_last_chg n A c :
  is_eq c = false ->
  exists GA g,
    changes (concat GA ++ g) = changes A /\
    group_ref (A ++ [c]) n = GA ++ [g ++ [c]].
Proof.
  intro Hc.
  destruct (group_ref_app n A [c] Hc) as (GA & g & Hch & E).
  exists GA, g. split; [exact Hch|].
  rewrite E, (inside_chg _ _ _ Hc), inside_nil. reflexivity.
Qed.

(* ------------------------------------------------------------------ *)
(* Reflection of the executable checker.                                *)

Lemma op_eqb_eq x y : op_eqb x y = true <-> x = y.
Proof.
  split.
  - intro H.
    destruct x, y; simpl in H; try discriminate;
      repeat (apply andb_true_iff in H; destruct H as [H ?]);
      repeat match goal with E : (_ =? _) = true |- _ => apply Nat.eqb_eq in E end;
      subst; reflexivity.
  - intros ->. destruct y; simpl; rewrite !Nat.eqb_refl; reflexivity.
Qed.

Lemma list_eqb_eq {A : Type} (eqb : A -> A -> bool) :
  (forall x y, eqb x y = true <-> x = y) ->
  forall l1 l2, list_eqb eqb l1 l2 = true <-> l1 = l2.
Proof.
  intro Heqb.
  induction l1 as [|x r1 IH]; intros [|y r2]; simpl; split; intro H;
    try discriminate; try reflexivity.
  - apply andb_true_iff in H. destruct H as [Hxy Hr].
    apply Heqb in Hxy. apply IH in Hr. subst. reflexivity.
  - injection H as -> ->. apply andb_true_iff. split; [apply Heqb | apply IH]; reflexivity.
Qed.

Theorem check_groups_iff ops n gs : check_groups ops n gs = true <-> gs = group_ref ops n.
Proof.
  unfold check_groups. apply list_eqb_eq. apply list_eqb_eq. apply op_eqb_eq.
Qed.

(* ------------------------------------------------------------------ *)
(* The same facts stated for the model function.                        *)

Theorem group_diff_ops_spec ops n :
  Alternating ops -> GroupSpec n ops (group_diff_ops ops n).
Proof. intro H. rewrite (group_diff_ops_eq_ref _ _ H). apply group_ref_G4, H. Qed.

Theorem group_diff_ops_check ops n :
  Alternating ops -> check_groups ops n (group_diff_ops ops n) = true.
Proof. intro H. apply check_groups_iff. apply group_diff_ops_eq_ref, H. Qed.
