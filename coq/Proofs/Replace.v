(* Proofs/Replace.v — the Replace<D> adapter (src/algorithms/replace.rs).

   Part 1 (T5): Replace is a pure transducer on call lists.  [replace_trace]
     computes, from the incoming calls and the pending state, the calls handed
     to the inner hook (and whether a debug assertion fired);
     [replace_world_trace] shows that running [replace_world wd dbg] over any
     inner world [wd] is exactly "compute the trace, feed it to wd".
   Part 2: on RawWalk inputs the trace never hits a debug assertion, does not
     depend on [dbg], ends fully flushed, and its output is an index-exact,
     alternating op list with the same totals (T1, T2, T3).
   Part 3: the recording hook and hooks without their own replace (T4). *)
From Similar Require Import Model.Base Model.Utils Model.Myers Model.Hooks
  Spec.Script Proofs.Utils.

(* ====================================================================== *)
(* Part 1: the pure transducer                                             *)
(* ====================================================================== *)

Definition tr_flush_eq (s : rstate) : list call * rstate :=
  match r_eq s with
  | Some (o, n, l) =>
      ([CEq o n l], {| r_del := r_del s; r_ins := r_ins s; r_eq := None |})
  | None => ([], s)
  end.

Definition tr_flush_del_ins (s : rstate) : list call * rstate :=
  match r_del s with
  | Some (dO, dl, dn) =>
      match r_ins s with
      | Some (_, inn, il) =>
          ([CRep dO dl inn il], {| r_del := None; r_ins := None; r_eq := r_eq s |})
      | None =>
          ([CDel dO dl dn], {| r_del := None; r_ins := None; r_eq := r_eq s |})
      end
  | None =>
      match r_ins s with
      | Some (io, inn, il) =>
          ([CIns io inn il], {| r_del := None; r_ins := None; r_eq := r_eq s |})
      | None => ([], s)
      end
  end.

(* One incoming call: the calls handed to the inner hook, and the new pending
   state; [None] = a debug_assert_eq! failed (after the listed calls). *)
Definition replace_step (dbg : bool) (c : call) (s : rstate)
  : list call * option rstate :=
  match c with
  | CEq o n l =>
      let '(out, s1) := tr_flush_del_ins s in
      (out, Some {| r_del := r_del s1; r_ins := r_ins s1;
                    r_eq := match r_eq s1 with
                            | Some (eo, en, el) => Some (eo, en, el + l)
                            | None => Some (o, n, l)
                            end |})
  | CDel o l n =>
      let '(out, s1) := tr_flush_eq s in
      match r_del s1 with
      | Some (dO, dl, dn) =>
          if dbg && negb (o =? dO + dl) then (out, None)
          else (out, Some {| r_del := Some (dO, dl + l, dn); r_ins := r_ins s1; r_eq := r_eq s1 |})
      | None => (out, Some {| r_del := Some (o, l, n); r_ins := r_ins s1; r_eq := r_eq s1 |})
      end
  | CIns o n l =>
      let '(out, s1) := tr_flush_eq s in
      match r_ins s1 with
      | Some (io, inn, il) =>
          if dbg && negb (inn + il =? n) then (out, None)
          else (out, Some {| r_del := r_del s1; r_ins := Some (io, inn, l + il); r_eq := r_eq s1 |})
      | None => (out, Some {| r_del := r_del s1; r_ins := Some (o, n, l); r_eq := r_eq s1 |})
      end
  | CRep o ol n nl =>
      let '(out, s1) := tr_flush_eq s in
      (out ++ [CRep o ol n nl], Some s1)
  | CFin =>
      let '(o1, s1) := tr_flush_eq s in
      let '(o2, s2) := tr_flush_del_ins s1 in
      (o1 ++ o2 ++ [CFin], Some s2)
  end.

Fixpoint replace_trace (dbg : bool) (cs : list call) (s : rstate)
  : list call * option rstate :=
  match cs with
  | [] => ([], Some s)
  | c :: cs' =>
      match replace_step dbg c s with
      | (o1, Some s1) =>
          let '(o2, r) := replace_trace dbg cs' s1 in (o1 ++ o2, r)
      | (o1, None) => (o1, None)
      end
  end.

(* feed the computed calls to the inner hook; then the new state, or the panic
   of the failed debug assertion *)
Definition run_trace {W} (wd : world W) (p : list call * option rstate) (w : W)
  : res (rstate * W) :=
  do w' <- emit_all wd (fst p) w;
  match snd p with
  | Some s' => Ok (s', w')
  | None => Panic
  end.

Lemma emit_all_app {W} (wd : world W) (a b : list call) : forall w,
  emit_all wd (a ++ b) w = (do w1 <- emit_all wd a w; emit_all wd b w1).
Proof.
  induction a as [|c a IH]; intros w; cbn [app emit_all bind].
  - reflexivity.
  - destruct (emit wd c w) as [w1| |]; cbn [bind]; [apply IH|reflexivity|reflexivity].
Qed.

Lemma replace_emit_step {W} (wd : world W) (dbg : bool) (c : call) (s : rstate) (w : W) :
  replace_emit wd dbg c (s, w) = run_trace wd (replace_step dbg c s) w.
Proof.
  destruct s as [d i e].
  destruct c as [o n l|o l n|o n l|o ol n nl|];
    destruct d as [[[dO dl] dn]|]; destruct i as [[[io inn] il]|];
    destruct e as [[[eo en] el]|];
    unfold run_trace; cbn;
    try (destruct dbg; cbn [andb]);
    repeat match goal with
           | H : ?x = _ |- context [?x] => rewrite H; cbn
           | |- context [emit wd ?c0 ?w0] => destruct (emit wd c0 w0) eqn:?; cbn
           | |- context [negb (?a =? ?b)] => destruct (a =? b) eqn:?; cbn
           end;
    reflexivity.
Qed.

(* T5, the structural result: Replace over ANY inner world is the pure
   transducer followed by feeding its output to the inner world. *)
Theorem replace_world_trace {W} (wd : world W) (dbg : bool) (cs : list call) :
  forall s w,
    emit_all (replace_world wd dbg) cs (s, w) = run_trace wd (replace_trace dbg cs s) w.
Proof.
  induction cs as [|c cs IH]; intros s w.
  - reflexivity.
  - cbn [emit_all replace_trace].
    change (emit (replace_world wd dbg) c (s, w)) with (replace_emit wd dbg c (s, w)).
    rewrite replace_emit_step.
    destruct (replace_step dbg c s) as [o1 [s1|]]; unfold run_trace; cbn [fst snd].
    + destruct (replace_trace dbg cs s1) as [o2 r] eqn:E2. cbn [fst snd].
      rewrite emit_all_app.
      destruct (emit_all wd o1 w) as [w1| |]; cbn [bind]; try reflexivity.
      rewrite IH, E2. reflexivity.
    + destruct (emit_all wd o1 w); reflexivity.
Qed.

(* Replace acts on the inner hook only by emitting calls, in order *)
Theorem replace_acts_by_emitting {W} (wd : world W) dbg cs s w s' w' :
  emit_all (replace_world wd dbg) cs (s, w) = Ok (s', w') ->
  exists out, replace_trace dbg cs s = (out, Some s') /\ emit_all wd out w = Ok w'.
Proof.
  rewrite replace_world_trace. destruct (replace_trace dbg cs s) as [out r].
  unfold run_trace; cbn [fst snd].
  destruct (emit_all wd out w) as [w1| |] eqn:Hemit; cbn [bind]; try discriminate.
  destruct r as [s1|]; try discriminate.
  intros H; inversion H; subst. exists out; split; [reflexivity|exact Hemit].
Qed.

(* an inner Panic / OutOfFuel propagates unchanged; a failed debug assertion
   is a Panic once the inner hook accepted the calls before it *)
Theorem replace_inner_failure {W} (wd : world W) dbg cs s w :
  (emit_all wd (fst (replace_trace dbg cs s)) w = Panic ->
   emit_all (replace_world wd dbg) cs (s, w) = Panic) /\
  (emit_all wd (fst (replace_trace dbg cs s)) w = OutOfFuel ->
   emit_all (replace_world wd dbg) cs (s, w) = OutOfFuel) /\
  (forall w', emit_all wd (fst (replace_trace dbg cs s)) w = Ok w' ->
   snd (replace_trace dbg cs s) = None ->
   emit_all (replace_world wd dbg) cs (s, w) = Panic).
Proof.
  rewrite replace_world_trace. unfold run_trace.
  repeat split; intros; repeat match goal with H : _ = _ |- _ => rewrite H end; reflexivity.
Qed.

Corollary replace_not_ok_of_inner_not_ok {W} (wd : world W) dbg cs s w :
  (forall w', emit_all wd (fst (replace_trace dbg cs s)) w <> Ok w') ->
  forall sw, emit_all (replace_world wd dbg) cs (s, w) <> Ok sw.
Proof.
  intros Hno [s' w'] H. apply replace_acts_by_emitting in H.
  destruct H as (out & Htr & Hemit). rewrite Htr in Hno. cbn [fst] in Hno.
  exact (Hno _ Hemit).
Qed.

(* ====================================================================== *)
(* Part 2: the trace of a RawWalk                                          *)
(* ====================================================================== *)

(* ---- small facts about the spec's list functions ---- *)
Lemma deleted_Equal o n l r : deleted (Equal o n l :: r) = deleted r.
Proof. reflexivity. Qed.
Lemma deleted_Delete o l n r : deleted (Delete o l n :: r) = l + deleted r.
Proof. reflexivity. Qed.
Lemma deleted_Insert o n l r : deleted (Insert o n l :: r) = deleted r.
Proof. reflexivity. Qed.
Lemma deleted_Replace o ol n nl r : deleted (Replace o ol n nl :: r) = ol + deleted r.
Proof. reflexivity. Qed.
Lemma inserted_Equal o n l r : inserted (Equal o n l :: r) = inserted r.
Proof. reflexivity. Qed.
Lemma inserted_Delete o l n r : inserted (Delete o l n :: r) = inserted r.
Proof. reflexivity. Qed.
Lemma inserted_Insert o n l r : inserted (Insert o n l :: r) = l + inserted r.
Proof. reflexivity. Qed.
Lemma inserted_Replace o ol n nl r : inserted (Replace o ol n nl :: r) = nl + inserted r.
Proof. reflexivity. Qed.
Lemma equal_total_Equal o n l r : equal_total (Equal o n l :: r) = l + equal_total r.
Proof. reflexivity. Qed.
Lemma equal_total_Delete o l n r : equal_total (Delete o l n :: r) = equal_total r.
Proof. reflexivity. Qed.
Lemma equal_total_Insert o n l r : equal_total (Insert o n l :: r) = equal_total r.
Proof. reflexivity. Qed.
Lemma equal_total_Replace o ol n nl r : equal_total (Replace o ol n nl :: r) = equal_total r.
Proof. reflexivity. Qed.
Lemma deleted_nil : deleted [] = 0. Proof. reflexivity. Qed.
Lemma inserted_nil : inserted [] = 0. Proof. reflexivity. Qed.
Lemma equal_total_nil : equal_total [] = 0. Proof. reflexivity. Qed.

#[local] Hint Rewrite
  deleted_Equal deleted_Delete deleted_Insert deleted_Replace
  inserted_Equal inserted_Delete inserted_Insert inserted_Replace
  equal_total_Equal equal_total_Delete equal_total_Insert equal_total_Replace
  deleted_nil inserted_nil equal_total_nil : sums.

Lemma FinishLast_app (a out : list call) :
  ~ In CFin a -> FinishLast out -> FinishLast (a ++ out).
Proof.
  intros Ha (b & Hb & Hnb). exists (a ++ b). split.
  - rewrite Hb. apply app_assoc.
  - intros Hin. apply in_app_or in Hin. tauto.
Qed.

Lemma FinishLast_cons (c : call) (out : list call) :
  c <> CFin -> FinishLast out -> FinishLast (c :: out).
Proof.
  intros Hc. apply (FinishLast_app [c]). intros [H|[]]. congruence.
Qed.

Lemma FinishLast_one : FinishLast [CFin].
Proof. exists []. split; [reflexivity|intros []]. Qed.

(* head of an op list is / is not an Equal *)
Definition HeadEq (b : bool) (ops : list op) : Prop :=
  match ops with
  | x :: _ => if b then IsEqualOp x else ~ IsEqualOp x
  | [] => False
  end.

Lemma alt_change_cons x ops :
  NonEmptyOp x -> ~ IsEqualOp x -> Alternating ops -> HeadEq true ops ->
  Alternating (x :: ops).
Proof.
  destruct ops as [|y r]; [intros _ _ _ []|]. cbn [HeadEq].
  intros Hne Hx Halt Hy. apply Alt_cons; [exact Hne|tauto|exact Halt].
Qed.

Lemma alt_equal_cons x ops :
  NonEmptyOp x -> IsEqualOp x -> Alternating ops -> HeadEq false ops ->
  Alternating (x :: ops).
Proof.
  destruct ops as [|y r]; [intros _ _ _ []|]. cbn [HeadEq].
  intros Hne Hx Halt Hy. apply Alt_cons; [exact Hne|tauto|exact Halt].
Qed.

Section Walk.
  Variable cmp : cmpf.
  Variables oe ne : nat.

  Lemma RawWalk_bounds i j i0 cs :
    RawWalk cmp oe ne i j i0 cs -> i <= oe /\ j <= ne.
  Proof. induction 1; lia. Qed.

  (* The pending state while the cursor of the incoming walk is (i,j) and the
     current run of changes started at old position i0.  At most one of
     "pending equal" and "pending change" is present. *)
  Inductive Inv (i j i0 : nat) : rstate -> Prop :=
  | Inv_none :
      i0 = i -> Inv i j i0 (Build_rstate None None None)
  | Inv_eq eo en el :
      0 < el -> eo + el = i -> en + el = j -> SegEq cmp eo en el -> i0 = i ->
      Inv i j i0 (Build_rstate None None (Some (eo, en, el)))
  | Inv_del dl :
      (* no insert yet in this run: the carried new index is the cursor *)
      0 < dl -> i0 + dl = i ->
      Inv i j i0 (Build_rstate (Some (i0, dl, j)) None None)
  | Inv_ins inn il :
      (* no delete yet in this run: the carried old index is the cursor *)
      0 < il -> i0 = i -> inn + il = j ->
      Inv i j i0 (Build_rstate None (Some (i0, inn, il)) None)
  | Inv_both dl dn io inn il :
      0 < dl -> 0 < il -> i0 + dl = i -> inn + il = j ->
      Inv i j i0 (Build_rstate (Some (i0, dl, dn)) (Some (io, inn, il)) None).

  (* cursor at which the pending material starts *)
  Definition pstart (s : rstate) (i j : nat) : nat * nat :=
    match r_eq s with
    | Some (eo, en, _) => (eo, en)
    | None =>
        (match r_del s with Some (dO, _, _) => dO | None => i end,
         match r_ins s with Some (_, inn, _) => inn | None => j end)
    end.
  Definition pdel (s : rstate) : nat :=
    match r_del s with Some (_, dl, _) => dl | None => 0 end.
  Definition pins (s : rstate) : nat :=
    match r_ins s with Some (_, _, il) => il | None => 0 end.
  Definition peq (s : rstate) : nat :=
    match r_eq s with Some (_, _, el) => el | None => 0 end.

  Definition HeadOK (s : rstate) (ops : list op) : Prop :=
    match r_eq s, r_del s, r_ins s with
    | Some _, _, _ => HeadEq true ops
    | None, None, None => True
    | None, _, _ => HeadEq false ops
    end.

  (* what the remaining output [out] looks like, given the pending state [s]
     at cursor (i,j) and the remaining input [body] *)
  Definition Post (i j : nat) (s : rstate) (body out : list call) : Prop :=
    FinishLast out /\
    OpsWalk cmp true oe ne (fst (pstart s i j)) (snd (pstart s i j)) (capture_calls out) /\
    Alternating (capture_calls out) /\
    HeadOK s (capture_calls out) /\
    deleted (capture_calls out) = pdel s + deleted (capture_calls body) /\
    inserted (capture_calls out) = pins s + inserted (capture_calls body) /\
    equal_total (capture_calls out) = peq s + equal_total (capture_calls body).

  Ltac post_red :=
    cbn [pstart pdel pins peq HeadOK HeadEq r_eq r_del r_ins fst snd app
         capture_calls call_to_op IsEqualOp NonEmptyOp] in *.

  Ltac no_fin := intros Hin; cbn [In] in Hin; intuition discriminate.

  (* ---- Equal arrives ---- *)
  Lemma step_eq i j i0 l s :
    Inv i j i0 s -> 0 < l -> SegEq cmp i j l -> i + l <= oe -> j + l <= ne ->
    exists o1 s1,
      (forall dbg, replace_step dbg (CEq i j l) s = (o1, Some s1)) /\
      Inv (i + l) (j + l) (i + l) s1 /\
      ~ In CFin o1 /\
      forall body out, Post (i + l) (j + l) s1 body out ->
                       Post i j s (CEq i j l :: body) (o1 ++ out).
  Proof.
    intros HI Hl Hseg Hoe Hne.
    destruct HI as [Hi0|eo en el Hel Heo Hen Hpseg Hi0|dl Hdl Hdo|inn il Hil Hi0 Hinn
                   |dl dn io inn il Hdl Hil Hdo Hinn];
      (eexists; eexists; split; [intros dbg; reflexivity|]).
    - (* nothing pending *)
      split; [apply Inv_eq; auto|]. split; [no_fin|].
      intros body out (Hfin & Hwalk & Halt & Hhd & Hd & Hi & He). unfold Post in *. post_red.
      autorewrite with sums in *. repeat split; auto; lia.
    - (* pending equal: extend it *)
      split.
      { apply Inv_eq; try lia.
        apply SegEq_app; [exact Hpseg|]. rewrite Heo, Hen. exact Hseg. }
      split; [no_fin|].
      intros body out (Hfin & Hwalk & Halt & Hhd & Hd & Hi & He). unfold Post in *. post_red.
      autorewrite with sums in *. repeat split; auto; lia.
    - (* pending delete: flush Delete *)
      split; [apply Inv_eq; auto|]. split; [no_fin|].
      intros body out (Hfin & Hwalk & Halt & Hhd & Hd & Hi & He). unfold Post in *. post_red.
      autorewrite with sums in *. repeat split; auto; try lia.
      + apply FinishLast_cons; [discriminate|exact Hfin].
      + apply OW_del; [reflexivity|lia|]. rewrite Hdo. exact Hwalk.
      + apply alt_change_cons; cbn; auto.
    - (* pending insert: flush Insert *)
      split; [apply Inv_eq; auto|]. split; [no_fin|].
      intros body out (Hfin & Hwalk & Halt & Hhd & Hd & Hi & He). unfold Post in *. post_red.
      autorewrite with sums in *. repeat split; auto; try lia.
      + apply FinishLast_cons; [discriminate|exact Hfin].
      + rewrite Hi0. apply OW_ins; [reflexivity|lia|]. rewrite Hinn. exact Hwalk.
      + apply alt_change_cons; cbn; auto.
    - (* pending delete and insert: flush Replace *)
      split; [apply Inv_eq; auto|]. split; [no_fin|].
      intros body out (Hfin & Hwalk & Halt & Hhd & Hd & Hi & He). unfold Post in *. post_red.
      autorewrite with sums in *. repeat split; auto; try lia.
      + apply FinishLast_cons; [discriminate|exact Hfin].
      + apply OW_rep; [lia|lia|]. rewrite Hdo, Hinn. exact Hwalk.
      + apply alt_change_cons; cbn; auto.
  Qed.

  Ltac dbg_refl :=
    intros dbg; cbn;
    repeat match goal with
           | H : _ = _ |- _ => rewrite H
           end;
    rewrite ?Nat.eqb_refl; cbn [negb]; rewrite ?Bool.andb_false_r; reflexivity.

  (* ---- Delete arrives (it carries the exact new cursor) ---- *)
  Lemma step_del i j i0 l s :
    Inv i j i0 s -> 0 < l ->
    exists o1 s1,
      (forall dbg, replace_step dbg (CDel i l j) s = (o1, Some s1)) /\
      Inv (i + l) j i0 s1 /\
      ~ In CFin o1 /\
      forall body out, Post (i + l) j s1 body out ->
                       Post i j s (CDel i l j :: body) (o1 ++ out).
  Proof.
    intros HI Hl.
    destruct HI as [Hi0|eo en el Hel Heo Hen Hpseg Hi0|dl Hdl Hdo|inn il Hil Hi0 Hinn
                   |dl dn io inn il Hdl Hil Hdo Hinn].
    - (* nothing pending *)
      eexists; eexists; split; [intros dbg; reflexivity|].
      subst i0. split; [apply Inv_del; auto|]. split; [no_fin|].
      intros body out (Hfin & Hwalk & Halt & Hhd & Hd & Hi & He). unfold Post in *. post_red.
      autorewrite with sums in *. repeat split; auto; lia.
    - (* pending equal: flush it *)
      eexists; eexists; split; [intros dbg; reflexivity|].
      subst i0. split; [apply Inv_del; auto|]. split; [no_fin|].
      intros body out (Hfin & Hwalk & Halt & Hhd & Hd & Hi & He). unfold Post in *. post_red.
      autorewrite with sums in *. repeat split; auto; try lia.
      + apply FinishLast_cons; [discriminate|exact Hfin].
      + apply OW_eq; [exact Hpseg|]. rewrite Heo, Hen. exact Hwalk.
      + apply alt_equal_cons; cbn; auto.
    - (* pending delete: extend *)
      exists [], (Build_rstate (Some (i0, dl + l, j)) None None).
      split; [dbg_refl|].
      split; [apply Inv_del; lia|]. split; [no_fin|].
      intros body out (Hfin & Hwalk & Halt & Hhd & Hd & Hi & He). unfold Post in *. post_red.
      autorewrite with sums in *. repeat split; auto; lia.
    - (* pending insert: now both *)
      eexists; eexists; split; [intros dbg; reflexivity|].
      subst i0. split; [apply Inv_both; auto|]. split; [no_fin|].
      intros body out (Hfin & Hwalk & Halt & Hhd & Hd & Hi & He). unfold Post in *. post_red.
      autorewrite with sums in *. repeat split; auto; lia.
    - (* both pending: extend the delete *)
      exists [], (Build_rstate (Some (i0, dl + l, dn)) (Some (io, inn, il)) None).
      split; [dbg_refl|].
      split; [apply Inv_both; lia|]. split; [no_fin|].
      intros body out (Hfin & Hwalk & Halt & Hhd & Hd & Hi & He). unfold Post in *. post_red.
      autorewrite with sums in *. repeat split; auto; lia.
  Qed.

  (* ---- Insert arrives (its old index lies within the current run) ---- *)
  Lemma step_ins i j i0 o l s :
    Inv i j i0 s -> 0 < l -> i0 <= o -> o <= i ->
    exists o1 s1,
      (forall dbg, replace_step dbg (CIns o j l) s = (o1, Some s1)) /\
      Inv i (j + l) i0 s1 /\
      ~ In CFin o1 /\
      forall body out, Post i (j + l) s1 body out ->
                       Post i j s (CIns o j l :: body) (o1 ++ out).
  Proof.
    intros HI Hl Hlo Hhi.
    destruct HI as [Hi0|eo en el Hel Heo Hen Hpseg Hi0|dl Hdl Hdo|inn il Hil Hi0 Hinn
                   |dl dn io inn il Hdl Hil Hdo Hinn].
    - (* nothing pending: o = i *)
      assert (o = i0) by lia. subst o.
      eexists; eexists; split; [intros dbg; reflexivity|].
      split; [apply Inv_ins; auto|]. split; [no_fin|].
      intros body out (Hfin & Hwalk & Halt & Hhd & Hd & Hi & He). unfold Post in *. post_red.
      autorewrite with sums in *. repeat split; auto; lia.
    - (* pending equal: flush it; o = i *)
      assert (o = i0) by lia. subst o.
      eexists; eexists; split; [intros dbg; reflexivity|].
      split; [apply Inv_ins; auto|]. split; [no_fin|].
      intros body out (Hfin & Hwalk & Halt & Hhd & Hd & Hi & He). unfold Post in *. post_red.
      autorewrite with sums in *. repeat split; auto; try lia.
      + apply FinishLast_cons; [discriminate|exact Hfin].
      + apply OW_eq; [exact Hpseg|]. rewrite Heo, Hen. exact Hwalk.
      + apply alt_equal_cons; cbn; auto.
    - (* pending delete: now both *)
      eexists; eexists; split; [intros dbg; reflexivity|].
      split; [apply Inv_both; auto|]. split; [no_fin|].
      intros body out (Hfin & Hwalk & Halt & Hhd & Hd & Hi & He). unfold Post in *. post_red.
      autorewrite with sums in *. repeat split; auto; lia.
    - (* pending insert: extend *)
      exists [], (Build_rstate None (Some (i0, inn, l + il)) None).
      split; [dbg_refl|].
      split; [apply Inv_ins; lia|]. split; [no_fin|].
      intros body out (Hfin & Hwalk & Halt & Hhd & Hd & Hi & He). unfold Post in *. post_red.
      autorewrite with sums in *. repeat split; auto; lia.
    - (* both pending: extend the insert *)
      exists [], (Build_rstate (Some (i0, dl, dn)) (Some (io, inn, l + il)) None).
      split; [dbg_refl|].
      split; [apply Inv_both; lia|]. split; [no_fin|].
      intros body out (Hfin & Hwalk & Halt & Hhd & Hd & Hi & He). unfold Post in *. post_red.
      autorewrite with sums in *. repeat split; auto; lia.
  Qed.

  (* ---- finish arrives at the end of the walk ---- *)
  Lemma step_fin i0 s :
    Inv oe ne i0 s ->
    exists out,
      (forall dbg, replace_step dbg CFin s = (out, Some rstate0)) /\
      Post oe ne s [] out.
  Proof.
    intros HI.
    destruct HI as [Hi0|eo en el Hel Heo Hen Hpseg Hi0|dl Hdl Hdo|inn il Hil Hi0 Hinn
                   |dl dn io inn il Hdl Hil Hdo Hinn];
      (eexists; split; [intros dbg; reflexivity|]);
      unfold Post; post_red; autorewrite with sums;
      (split; [eexists [_]; split; [reflexivity|no_fin] || apply FinishLast_one|]).
    - repeat split; auto; constructor.
    - repeat split; auto; try lia.
      + apply OW_eq; [exact Hpseg|]. rewrite Heo, Hen. constructor.
      + apply Alt_one. exact Hel.
    - repeat split; auto; try lia.
      + apply OW_del; [reflexivity|lia|]. rewrite Hdo. constructor.
      + apply Alt_one. exact Hdl.
    - repeat split; auto; try lia.
      + rewrite Hi0. apply OW_ins; [reflexivity|lia|]. rewrite Hinn. constructor.
      + apply Alt_one. exact Hil.
    - repeat split; auto; try lia.
      + apply OW_rep; [lia|lia|]. rewrite Hdo, Hinn. constructor.
      + apply Alt_one. split; assumption.
  Qed.

  Lemma replace_trace_cons dbg c cs s o1 s1 o2 r :
    replace_step dbg c s = (o1, Some s1) ->
    replace_trace dbg cs s1 = (o2, r) ->
    replace_trace dbg (c :: cs) s = (o1 ++ o2, r).
  Proof. intros H1 H2. cbn [replace_trace]. rewrite H1, H2. reflexivity. Qed.

  (* The invariant along the walk, generalised over the pending state. *)
  Lemma walk_trace i j i0 body :
    RawWalk cmp oe ne i j i0 body ->
    forall s, Inv i j i0 s ->
    exists out,
      (forall dbg, replace_trace dbg (body ++ [CFin]) s = (out, Some rstate0)) /\
      Post i j s body out.
  Proof.
    induction 1 as [i0|i j i0 l cs Hl Hseg Hw IH|i j i0 l cs Hl Hw IH
                   |i j i0 o l cs Hl Hlo Hhi Hw IH]; intros s HI.
    - destruct (step_fin i0 s HI) as (out & Hstep & HP).
      exists out. split; [|exact HP].
      intros dbg. cbn [app replace_trace]. rewrite Hstep. now rewrite app_nil_r.
    - destruct (RawWalk_bounds _ _ _ _ Hw) as [Hoe Hne].
      destruct (step_eq i j i0 l s HI Hl Hseg Hoe Hne) as (o1 & s1 & Hstep & HI1 & _ & HP).
      destruct (IH s1 HI1) as (out & Htr & HP1).
      exists (o1 ++ out). split; [|exact (HP _ _ HP1)].
      intros dbg. cbn [app]. exact (replace_trace_cons _ _ _ _ _ _ _ _ (Hstep dbg) (Htr dbg)).
    - destruct (step_del i j i0 l s HI Hl) as (o1 & s1 & Hstep & HI1 & _ & HP).
      destruct (IH s1 HI1) as (out & Htr & HP1).
      exists (o1 ++ out). split; [|exact (HP _ _ HP1)].
      intros dbg. cbn [app]. exact (replace_trace_cons _ _ _ _ _ _ _ _ (Hstep dbg) (Htr dbg)).
    - destruct (step_ins i j i0 o l s HI Hl Hlo Hhi) as (o1 & s1 & Hstep & HI1 & _ & HP).
      destruct (IH s1 HI1) as (out & Htr & HP1).
      exists (o1 ++ out). split; [|exact (HP _ _ HP1)].
      intros dbg. cbn [app]. exact (replace_trace_cons _ _ _ _ _ _ _ _ (Hstep dbg) (Htr dbg)).
  Qed.
End Walk.

(* ====================================================================== *)
(* Part 3: the recording hook, hooks without replace, main theorems        *)
(* ====================================================================== *)

Lemma plain_emit_all dl cs : forall w,
  emit_all (plain_world dl) cs w = Ok {| p_ctr := p_ctr w; p_log := rev cs ++ p_log w |}.
Proof.
  induction cs as [|c cs IH]; intros w.
  - destruct w; reflexivity.
  - cbn [emit_all plain_world emit bind]. rewrite IH. cbn [p_ctr p_log rev].
    rewrite <- app_assoc. reflexivity.
Qed.

Lemma plain_emit_all_calls dl cs w w1 :
  emit_all (plain_world dl) cs w = Ok w1 ->
  plain_calls w1 = plain_calls w ++ cs /\ p_ctr w1 = p_ctr w.
Proof.
  rewrite plain_emit_all. intros H; inversion H; subst w1. unfold plain_calls.
  cbn [p_log p_ctr]. rewrite rev_app_distr, rev_involutive. split; reflexivity.
Qed.

(* DiffHook::replace's default body: delete then insert *)
Fixpoint expand_rep (cs : list call) : list call :=
  match cs with
  | [] => []
  | CRep o ol n nl :: r => CDel o ol n :: CIns o n nl :: expand_rep r
  | c :: r => c :: expand_rep r
  end.

Lemma default_replace_emit_all {W} (wd : world W) cs : forall w,
  emit_all (default_replace wd) cs w = emit_all wd (expand_rep cs) w.
Proof.
  induction cs as [|c cs IH]; intros w; [reflexivity|].
  destruct c as [o n l|o l n|o n l|o ol n nl|];
    cbn [emit_all expand_rep default_replace emit];
    try (destruct (emit wd _ w) as [w1| |]; cbn [bind]; [apply IH|reflexivity|reflexivity]).
  destruct (emit wd (CDel o ol n) w) as [w1| |]; cbn [bind]; try reflexivity.
  destruct (emit wd (CIns o n nl) w1) as [w2| |]; cbn [bind]; try reflexivity.
  apply IH.
Qed.

Lemma expand_rep_app a b : expand_rep (a ++ b) = expand_rep a ++ expand_rep b.
Proof.
  induction a as [|c a IH]; [reflexivity|].
  destruct c; cbn [app expand_rep]; rewrite IH; reflexivity.
Qed.

Lemma expand_rep_no_fin a : ~ In CFin a -> ~ In CFin (expand_rep a).
Proof.
  induction a as [|c a IH]; [auto|].
  intros Hn Hin. assert (Ha : ~ In CFin a) by (intros Hx; apply Hn; now right).
  destruct c; cbn [expand_rep In] in Hin;
    try (destruct Hin as [Hc|Hin]; [try discriminate; apply Hn; now left|exact (IH Ha Hin)]).
  destruct Hin as [Hc|[Hc|Hin]]; try discriminate. exact (IH Ha Hin).
Qed.

Lemma expand_rep_FinishLast out : FinishLast out -> FinishLast (expand_rep out).
Proof.
  intros (b & Hb & Hnb). exists (expand_rep b). split.
  - rewrite Hb, expand_rep_app. reflexivity.
  - now apply expand_rep_no_fin.
Qed.

Lemma expand_rep_totals out :
  deleted (capture_calls (expand_rep out)) = deleted (capture_calls out) /\
  inserted (capture_calls (expand_rep out)) = inserted (capture_calls out) /\
  equal_total (capture_calls (expand_rep out)) = equal_total (capture_calls out).
Proof.
  induction out as [|c out (IHd & IHi & IHe)]; [repeat split|].
  destruct c; cbn [expand_rep capture_calls call_to_op];
    autorewrite with sums; repeat split; lia.
Qed.

Section Main.
  Variable cmp : cmpf.
  Variables os oe ns ne : nat.

  (* expanding Replace ops keeps a walk valid, but only loosely: the Insert
     half carries the old index of the start of the replaced block *)
  Lemma expand_rep_loose out : forall exact i j,
    OpsWalk cmp exact oe ne i j (capture_calls out) ->
    OpsWalk cmp false oe ne i j (capture_calls (expand_rep out)).
  Proof.
    induction out as [|c out IH]; intros exact i j Hw.
    - cbn in *. inversion Hw; subst. constructor.
    - destruct c as [o n l|o l n|o n l|o ol n nl|];
        cbn [expand_rep capture_calls call_to_op] in *.
      + inversion Hw; subst. apply OW_eq; [assumption|]. eapply IH; eassumption.
      + inversion Hw; subst. apply OW_del; [discriminate|assumption|]. eapply IH; eassumption.
      + inversion Hw; subst. apply OW_ins; [discriminate|assumption|]. eapply IH; eassumption.
      + inversion Hw; subst. apply OW_del; [discriminate|assumption|].
        apply OW_ins; [discriminate|assumption|]. eapply IH; eassumption.
      + eapply IH; eassumption.
  Qed.

  (* the calls Replace hands to its inner hook for the input body ++ [CFin] *)
  Definition replace_out (body : list call) : list call :=
    fst (replace_trace false (body ++ [CFin]) rstate0).

  Section Body.
    Variable body : list call.
    Hypothesis Hraw : RawWalk cmp oe ne os ns os body.

    (* the pure trace: no debug assertion fires, the result does not depend on
       dbg, and everything is flushed *)
    Theorem replace_trace_raw : forall dbg,
      replace_trace dbg (body ++ [CFin]) rstate0 = (replace_out body, Some rstate0).
    Proof.
      destruct (walk_trace cmp oe ne os ns os body Hraw rstate0) as (out & Htr & _).
      { apply Inv_none. reflexivity. }
      intros dbg. unfold replace_out. rewrite (Htr false). exact (Htr dbg).
    Qed.

    (* T2, the content of the output *)
    Theorem replace_out_spec :
      FinishLast (replace_out body) /\
      OpsExact cmp os oe ns ne (capture_calls (replace_out body)) /\
      Alternating (capture_calls (replace_out body)) /\
      deleted (capture_calls (replace_out body)) = deleted (capture_calls body) /\
      inserted (capture_calls (replace_out body)) = inserted (capture_calls body) /\
      equal_total (capture_calls (replace_out body)) = equal_total (capture_calls body).
    Proof.
      destruct (walk_trace cmp oe ne os ns os body Hraw rstate0) as (out & Htr & HP).
      { apply Inv_none. reflexivity. }
      unfold replace_out. rewrite (Htr false). cbn [fst].
      destruct HP as (Hfin & Hwalk & Halt & _ & Hd & Hi & He).
      cbn in Hwalk, Hd, Hi, He. unfold OpsExact. repeat split; assumption.
    Qed.

    (* T5 instance + T3 for an arbitrary inner world: on a RawWalk input,
       Replace<D> is "feed replace_out to D", in debug and release builds alike *)
    Theorem replace_raw_any_world {W} (wd : world W) dbg w :
      emit_all (replace_world wd dbg) (body ++ [CFin]) (rstate0, w) =
      (do w' <- emit_all wd (replace_out body) w; Ok (rstate0, w')).
    Proof. rewrite replace_world_trace, replace_trace_raw. reflexivity. Qed.

    (* T3 *)
    Theorem replace_dbg_independent {W} (wd : world W) w :
      emit_all (replace_world wd true) (body ++ [CFin]) (rstate0, w) =
      emit_all (replace_world wd false) (body ++ [CFin]) (rstate0, w).
    Proof. rewrite !replace_raw_any_world. reflexivity. Qed.

    (* T1 + T2 for the recording hook *)
    Theorem replace_plain dl dbg w0 :
      exists rs w1 out,
        emit_all (replace_world (plain_world dl) dbg) (body ++ [CFin]) (rstate0, w0) = Ok (rs, w1) /\
        plain_calls w1 = plain_calls w0 ++ out /\
        p_ctr w1 = p_ctr w0 /\
        out = replace_out body /\
        FinishLast out /\
        OpsExact cmp os oe ns ne (capture_calls out) /\
        Alternating (capture_calls out) /\
        deleted (capture_calls out) = deleted (capture_calls body) /\
        inserted (capture_calls out) = inserted (capture_calls body) /\
        equal_total (capture_calls out) = equal_total (capture_calls body) /\
        rs = rstate0 /\ r_del rs = None /\ r_ins rs = None /\ r_eq rs = None.
    Proof.
      rewrite replace_raw_any_world, plain_emit_all. cbn [bind].
      eexists; eexists; exists (replace_out body). split; [reflexivity|].
      unfold plain_calls; cbn [p_log p_ctr]. rewrite rev_app_distr, rev_involutive.
      destruct replace_out_spec as (H1 & H2 & H3 & H4 & H5 & H6).
      repeat split; assumption.
    Qed.

    (* T3 for the recording hook, in the task's form *)
    Corollary replace_plain_dbg_independent dl w0 :
      emit_all (replace_world (plain_world dl) true) (body ++ [CFin]) (rstate0, w0) =
      emit_all (replace_world (plain_world dl) false) (body ++ [CFin]) (rstate0, w0).
    Proof. apply replace_dbg_independent. Qed.

    (* T4: a hook that does not override replace sees the same calls with each
       Replace expanded into Delete; Insert — valid, but only loosely *)
    Theorem replace_default_plain dl dbg w0 :
      exists w1 out',
        emit_all (replace_world (default_replace (plain_world dl)) dbg)
                 (body ++ [CFin]) (rstate0, w0) = Ok (rstate0, w1) /\
        plain_calls w1 = plain_calls w0 ++ out' /\
        p_ctr w1 = p_ctr w0 /\
        out' = expand_rep (replace_out body) /\
        FinishLast out' /\
        OpsLoose cmp os oe ns ne (capture_calls out') /\
        deleted (capture_calls out') = deleted (capture_calls body) /\
        inserted (capture_calls out') = inserted (capture_calls body) /\
        equal_total (capture_calls out') = equal_total (capture_calls body).
    Proof.
      rewrite replace_raw_any_world, default_replace_emit_all, plain_emit_all. cbn [bind].
      eexists; exists (expand_rep (replace_out body)). split; [reflexivity|].
      unfold plain_calls; cbn [p_log p_ctr]. rewrite rev_app_distr, rev_involutive.
      destruct replace_out_spec as (H1 & H2 & H3 & H4 & H5 & H6).
      destruct (expand_rep_totals (replace_out body)) as (E1 & E2 & E3).
      repeat split; try reflexivity.
      - now apply expand_rep_FinishLast.
      - unfold OpsLoose. eapply expand_rep_loose. exact H2.
      - congruence.
      - congruence.
      - congruence.
    Qed.
  End Body.
End Main.

Print Assumptions replace_world_trace.
Print Assumptions replace_acts_by_emitting.
Print Assumptions replace_inner_failure.
Print Assumptions replace_not_ok_of_inner_not_ok.
Print Assumptions replace_trace_raw.
Print Assumptions replace_out_spec.
Print Assumptions replace_raw_any_world.
Print Assumptions replace_dbg_independent.
Print Assumptions replace_plain.
Print Assumptions replace_plain_dbg_independent.
Print Assumptions replace_default_plain.
